(* C10: the OTA session stores of Model/Gateway.v refine the reference automaton of
   Spec/OtaSession.v; reboot window; malformed requests.  Reuses the C01 development
   (GwLemmas, GwInv). *)
From Coq Require Import List NArith ZArith Bool String Lia.
From PMS Require Import Base.PyStr Base.PyInt Base.Exn Model.Codec Model.Rules Model.TableTypes
  Gen.Tables Model.Validate Model.Hex Model.Ota Model.Oracles Model.Gateway Spec.SerialApi
  Spec.OtaSession
  Proofs.PyStrFacts Proofs.CodecProofs Proofs.ValidateProofs Proofs.GwLemmas Proofs.HexProofs
  Proofs.OtaProofs Proofs.GwInv.
Import ListNotations.
Open Scope string_scope.
Open Scope list_scope.
Open Scope Z_scope.

(* ================================================================ A. dict facts *)

Definition keys_nodup {A} (l : list (Z * A)) : Prop := NoDup (map fst l).

Lemma zassoc_None_notin {A} k (l : list (Z * A)) : zassoc k l = None <-> ~ In k (map fst l).
Proof.
  induction l as [|[k' a] l IH]; simpl; [tauto|].
  destruct (Z.eqb_spec k k') as [->|N].
  - split; [discriminate|]. intro H. exfalso. apply H. left. reflexivity.
  - rewrite IH. split; [intros H [E|I]; [congruence|tauto]|tauto].
Qed.

Lemma zassoc_zdel_other {A} k k' (l : list (Z * A)) : k <> k' -> zassoc k' (zdel k l) = zassoc k' l.
Proof.
  intro N. induction l as [|[k2 a2] l IH]; simpl; [reflexivity|].
  destruct (Z.eqb_spec k k2) as [->|N2]; simpl.
  - destruct (Z.eqb_spec k' k2); [congruence|reflexivity].
  - destruct (Z.eqb_spec k' k2); [reflexivity|exact IH].
Qed.

Lemma in_keys_zdel {A} k k' (l : list (Z * A)) : In k' (map fst (zdel k l)) -> In k' (map fst l).
Proof.
  induction l as [|[k2 a2] l IH]; simpl; [tauto|].
  destruct (Z.eqb k k2); simpl; tauto.
Qed.

Lemma nodup_zdel {A} k (l : list (Z * A)) : keys_nodup l -> keys_nodup (zdel k l).
Proof.
  unfold keys_nodup. induction l as [|[k2 a2] l IH]; simpl; intro H; [constructor|].
  inversion H; subst. destruct (Z.eqb k k2); [assumption|].
  simpl. constructor; [|auto]. intro I. apply in_keys_zdel in I. contradiction.
Qed.

Lemma zassoc_zdel_same {A} k (l : list (Z * A)) : keys_nodup l -> zassoc k (zdel k l) = None.
Proof.
  unfold keys_nodup. induction l as [|[k2 a2] l IH]; simpl; intro H; [reflexivity|].
  inversion H; subst. destruct (Z.eqb_spec k k2) as [->|N].
  - apply zassoc_None_notin. assumption.
  - simpl. destruct (Z.eqb_spec k k2); [contradiction|auto].
Qed.

Lemma in_keys_zset {A} k (a : A) k' l : In k' (map fst (zset k a l)) -> k' = k \/ In k' (map fst l).
Proof.
  induction l as [|[k2 a2] l IH]; simpl; [intros [E|[]]; auto|].
  destruct (Z.eqb_spec k k2) as [->|N]; simpl; [tauto|].
  intros [E|I]; [tauto|]. apply IH in I. tauto.
Qed.

Lemma nodup_zset {A} k (a : A) l : keys_nodup l -> keys_nodup (zset k a l).
Proof.
  unfold keys_nodup. induction l as [|[k2 a2] l IH]; simpl; intro H; [constructor; [tauto|constructor]|].
  inversion H; subst. destruct (Z.eqb_spec k k2) as [->|N]; simpl; [constructor; assumption|].
  constructor; [|auto]. intro I. apply in_keys_zset in I. destruct I as [E|I]; [congruence|contradiction].
Qed.

Lemma zhas_zassoc {A} k (l : list (Z * A)) : zhas k l = true <-> zassoc k l <> None.
Proof. unfold zhas. destruct (zassoc k l); split; congruence. Qed.

(* ================================================================ B. abstraction *)

Definition store := list (Z * (Z * Z)).

(* which store holds the node (priority only matters outside the invariant) *)
Definition abs (o : ota) (n : Z) : session :=
  match zassoc n (o_requested o) with
  | Some k => Requested k
  | None =>
      match zassoc n (o_unstarted o) with
      | Some k => Offered k
      | None => match zassoc n (o_started o) with Some k => Fetching k | None => Idle end
      end
  end.

(* at most one store holds a node *)
Definition excl (o : ota) : Prop := forall n,
  (zassoc n (o_requested o) = None \/ zassoc n (o_unstarted o) = None) /\
  (zassoc n (o_requested o) = None \/ zassoc n (o_started o) = None) /\
  (zassoc n (o_unstarted o) = None \/ zassoc n (o_started o) = None).

Definition sess_inv (o : ota) : Prop :=
  keys_nodup (o_requested o) /\ keys_nodup (o_unstarted o) /\ keys_nodup (o_started o) /\ excl o.

Lemma sess_inv_init : sess_inv ota_init.
Proof.
  unfold sess_inv, keys_nodup, ota_init; simpl.
  split; [constructor|]. split; [constructor|]. split; [constructor|].
  intro n. simpl. repeat split; left; reflexivity.
Qed.

(* under the invariant abs is the graph of "store X holds n": it does not depend on the
   order in which the stores are inspected *)
Lemma abs_requested o n k : excl o -> (abs o n = Requested k <-> zassoc n (o_requested o) = Some k).
Proof.
  intro E. unfold abs. destruct (zassoc n (o_requested o)) as [k0|]; [split; intro H; inversion H; reflexivity|].
  destruct (zassoc n (o_unstarted o)); [split; discriminate|].
  destruct (zassoc n (o_started o)); split; discriminate.
Qed.
Lemma abs_offered o n k : excl o -> (abs o n = Offered k <-> zassoc n (o_unstarted o) = Some k).
Proof.
  intro E. destruct (E n) as (A & B & C). unfold abs.
  destruct (zassoc n (o_requested o)) as [k0|].
  - split; [discriminate|]. intro H. destruct A as [A|A]; congruence.
  - destruct (zassoc n (o_unstarted o)); [split; intro H; inversion H; reflexivity|].
    destruct (zassoc n (o_started o)); split; discriminate.
Qed.
Lemma abs_fetching o n k : excl o -> (abs o n = Fetching k <-> zassoc n (o_started o) = Some k).
Proof.
  intro E. destruct (E n) as (A & B & C). unfold abs.
  destruct (zassoc n (o_requested o)) as [k0|].
  - split; [discriminate|]. intro H. destruct B as [B|B]; congruence.
  - destruct (zassoc n (o_unstarted o)).
    + split; [discriminate|]. intro H. destruct C as [C|C]; congruence.
    + destruct (zassoc n (o_started o)); split; intro H; inversion H; reflexivity.
Qed.
Lemma abs_idle o n : abs o n = Idle <->
  zassoc n (o_requested o) = None /\ zassoc n (o_unstarted o) = None /\ zassoc n (o_started o) = None.
Proof.
  unfold abs. destruct (zassoc n (o_requested o)); [split; [discriminate|intros (A&_); discriminate]|].
  destruct (zassoc n (o_unstarted o)); [split; [discriminate|intros (_&A&_); discriminate]|].
  destruct (zassoc n (o_started o)); [split; [discriminate|intros (_&_&A); discriminate]|tauto].
Qed.

(* the three lookups determine abs *)
Lemma abs_ext o o' n :
  zassoc n (o_requested o') = zassoc n (o_requested o) ->
  zassoc n (o_unstarted o') = zassoc n (o_unstarted o) ->
  zassoc n (o_started o') = zassoc n (o_started o) -> abs o' n = abs o n.
Proof. unfold abs. intros -> -> ->. reflexivity. Qed.

(* what the firmware dictionary makes of an offer *)
Definition fw_out (fws : list ((Z * Z) * fware)) (out : sout) : option (Z * Z * fware) :=
  match out with
  | NoOut => None
  | CfgResp (t, v) => option_map (fun f => (t, v, f)) (fw_lookup t v fws)
  | BlkResp (t, v) _ => option_map (fun f => (t, v, f)) (fw_lookup t v fws)
  end.

(* the pop / re-insert of OTAFirmware._get_fw over two stores *)
Definition found_of (nid : Z) (s1 s2 : store) : option ((Z * Z) * store * store) :=
  match zassoc nid s1 with
  | Some id => Some (id, zdel nid s1, zset nid id s2)
  | None => match zassoc nid s2 with
            | Some id => Some (id, s1, zset nid id (zdel nid s2))
            | None => None
            end
  end.

Lemma found_of_spec n s1 s2 :
  keys_nodup s1 -> keys_nodup s2 -> (zassoc n s1 = None \/ zassoc n s2 = None) ->
  match found_of n s1 s2 with
  | None => zassoc n s1 = None /\ zassoc n s2 = None
  | Some (id, s1', s2') =>
      (zassoc n s1 = Some id \/ (zassoc n s1 = None /\ zassoc n s2 = Some id)) /\
      zassoc n s1' = None /\ zassoc n s2' = Some id /\
      (forall m, m <> n -> zassoc m s1' = zassoc m s1 /\ zassoc m s2' = zassoc m s2) /\
      keys_nodup s1' /\ keys_nodup s2'
  end.
Proof.
  intros N1 N2 X. unfold found_of.
  destruct (zassoc n s1) as [id|] eqn:E1.
  - split; [left; reflexivity|]. split; [apply zassoc_zdel_same; exact N1|].
    split; [apply zassoc_zset_same|]. split.
    + intros m D. split; [apply zassoc_zdel_other; congruence|apply zassoc_zset_other; congruence].
    + split; [apply nodup_zdel; exact N1|apply nodup_zset; exact N2].
  - destruct (zassoc n s2) as [id|] eqn:E2; [|tauto].
    split; [right; tauto|]. split; [exact E1|]. split; [apply zassoc_zset_same|]. split.
    + intros m D. split; [reflexivity|].
      rewrite zassoc_zset_other by congruence. apply zassoc_zdel_other; congruence.
    + split; [exact N1|apply nodup_zset; apply nodup_zdel; exact N2].
Qed.

Lemma ota_get_fw_unfold o nid first req :
  ota_get_fw o nid first req =
  match found_of nid (if first then o_requested o else o_unstarted o)
                     (if first then o_unstarted o else o_started o) with
  | None => (o, None)
  | Some (id, s1', s2') =>
      let o' := if first then mkOta (o_fw o) s1' s2' (o_started o)
                else mkOta (o_fw o) (o_requested o) s1' s2' in
      let '(t, v) := match req with Some r => r | None => id end in
      (o', option_map (fun f => (t, v, f)) (fw_lookup t v (o_fw o)))
  end.
Proof.
  unfold ota_get_fw, found_of. destruct first; cbv beta iota zeta.
  - destruct (zassoc nid (o_requested o)) as [id|].
    + destruct (match req with Some r => r | None => id end) as [t v].
      destruct (fw_lookup t v (o_fw o)); reflexivity.
    + destruct (zassoc nid (o_unstarted o)) as [id|]; [|reflexivity].
      destruct (match req with Some r => r | None => id end) as [t v].
      destruct (fw_lookup t v (o_fw o)); reflexivity.
  - destruct (zassoc nid (o_unstarted o)) as [id|].
    + destruct (match req with Some r => r | None => id end) as [t v].
      destruct (fw_lookup t v (o_fw o)); reflexivity.
    + destruct (zassoc nid (o_started o)) as [id|]; [|reflexivity].
      destruct (match req with Some r => r | None => id end) as [t v].
      destruct (fw_lookup t v (o_fw o)); reflexivity.
Qed.

(* simulation of a well-formed config request by the store operation *)
Lemma ota_get_fw_cfg o n : sess_inv o ->
  let r := ota_get_fw o n true None in
  sess_inv (fst r) /\ o_fw (fst r) = o_fw o /\
  abs (fst r) n = fst (sstep (abs o n) CfgReq) /\
  (forall m, m <> n -> abs (fst r) m = abs o m) /\
  snd r = fw_out (o_fw o) (snd (sstep (abs o n) CfgReq)).
Proof.
  intros (N1 & N2 & N3 & E) r. subst r. rewrite ota_get_fw_unfold.
  destruct (E n) as (X12 & X13 & X23).
  pose proof (found_of_spec n (o_requested o) (o_unstarted o) N1 N2 X12) as F.
  destruct (found_of n (o_requested o) (o_unstarted o)) as [[[id s1'] s2']|].
  - destruct F as (W & A1 & A2 & OT & M1 & M2).
    destruct id as [t v]. cbv zeta. cbn [fst snd o_fw o_requested o_unstarted o_started].
    assert (S3 : zassoc n (o_started o) = None).
    { destruct W as [W|[_ W]]; [destruct X13; congruence|destruct X23; congruence]. }
    assert (AB : abs o n = Requested (t, v) \/ abs o n = Offered (t, v)).
    { unfold abs. destruct W as [W|[W1 W2]]; [rewrite W; auto|rewrite W1, W2; auto]. }
    split; [|split; [reflexivity|split; [|split]]].
    + split; [exact M1|]. split; [exact M2|]. split; [exact N3|].
      intro m. cbn [o_requested o_unstarted o_started].
      destruct (Z.eq_dec m n) as [->|D].
      * rewrite A1, S3. auto.
      * destruct (OT m D) as [R1 R2]. rewrite R1, R2. apply E.
    + unfold abs at 1. cbn [o_requested o_unstarted o_started]. rewrite A1, A2.
      destruct AB as [-> | ->]; reflexivity.
    + intros m D. destruct (OT m D) as [R1 R2]. apply abs_ext; cbn [o_requested o_unstarted o_started]; auto.
    + destruct AB as [-> | ->]; reflexivity.
  - destruct F as [F1 F2]. cbn [fst snd].
    assert (AB : abs o n = Idle \/ exists k, abs o n = Fetching k).
    { unfold abs. rewrite F1, F2. destruct (zassoc n (o_started o)); eauto. }
    split; [split; [exact N1|split; [exact N2|split; [exact N3|exact E]]]|]. split; [reflexivity|].
    split; [destruct AB as [-> |[k ->]]; reflexivity|].
    split; [reflexivity|destruct AB as [-> |[k ->]]; reflexivity].
Qed.

(* simulation of a well-formed block request *)
Lemma ota_get_fw_blk o n rt rv i : sess_inv o ->
  let r := ota_get_fw o n false (Some (rt, rv)) in
  sess_inv (fst r) /\ o_fw (fst r) = o_fw o /\
  abs (fst r) n = fst (sstep (abs o n) (BlkReq (rt, rv) i)) /\
  (forall m, m <> n -> abs (fst r) m = abs o m) /\
  snd r = fw_out (o_fw o) (snd (sstep (abs o n) (BlkReq (rt, rv) i))).
Proof.
  intros (N1 & N2 & N3 & E) r. subst r. rewrite ota_get_fw_unfold.
  destruct (E n) as (X12 & X13 & X23).
  pose proof (found_of_spec n (o_unstarted o) (o_started o) N2 N3 X23) as F.
  destruct (found_of n (o_unstarted o) (o_started o)) as [[[id s1'] s2']|].
  - destruct F as (W & A1 & A2 & OT & M1 & M2).
    cbv zeta. cbn [fst snd o_fw o_requested o_unstarted o_started].
    assert (S3 : zassoc n (o_requested o) = None).
    { destruct W as [W|[_ W]]; [destruct X12; congruence|destruct X13; congruence]. }
    assert (AB : abs o n = Offered id \/ abs o n = Fetching id).
    { unfold abs. rewrite S3. destruct W as [W|[W1 W2]]; [rewrite W; auto|rewrite W1, W2; auto]. }
    split; [|split; [reflexivity|split; [|split]]].
    + split; [exact N1|]. split; [exact M1|]. split; [exact M2|].
      intro m. cbn [o_requested o_unstarted o_started].
      destruct (Z.eq_dec m n) as [->|D].
      * rewrite S3, A1. auto.
      * destruct (OT m D) as [R1 R2]. rewrite R1, R2. apply E.
    + unfold abs at 1. cbn [o_requested o_unstarted o_started]. rewrite S3, A1, A2.
      destruct AB as [-> | ->]; reflexivity.
    + intros m D. destruct (OT m D) as [R1 R2]. apply abs_ext; cbn [o_requested o_unstarted o_started]; auto.
    + destruct AB as [-> | ->]; reflexivity.
  - destruct F as [F1 F2]. cbn [fst snd].
    assert (AB : abs o n = Idle \/ exists k, abs o n = Requested k).
    { unfold abs. rewrite F1, F2. destruct (zassoc n (o_requested o)); eauto. }
    split; [split; [exact N1|split; [exact N2|split; [exact N3|exact E]]]|]. split; [reflexivity|].
    split; [destruct AB as [-> |[k ->]]; reflexivity|].
    split; [reflexivity|destruct AB as [-> |[k ->]]; reflexivity].
Qed.

(* ================================================================ C. nodes, flags, frames *)

Definition known (g : gw) (n : Z) : bool := zhas n (g_sensors g).
Definition reboot_flag (g : gw) (n : Z) : bool :=
  match get_node g n with Some nd => n_reboot nd | None => false end.
(* every node is filed under its own id *)
Definition ids_ok (g : gw) : Prop := Forall (fun kn => n_id (snd kn) = fst kn) (g_sensors g).

Lemma known_get g n : known g n = true <-> exists nd, get_node g n = Some nd.
Proof.
  unfold known, zhas, get_node. destruct (zassoc n (g_sensors g)) as [nd|].
  - split; [eauto|reflexivity].
  - split; [discriminate|intros [nd H]; discriminate].
Qed.
Lemma known_false g n : known g n = false <-> get_node g n = None.
Proof. unfold known, zhas, get_node. destruct (zassoc n (g_sensors g)); split; congruence. Qed.

Lemma get_node_put g nd n : get_node (put_node g nd) n = if n =? n_id nd then Some nd else get_node g n.
Proof.
  unfold get_node, put_node. cbn [g_sensors set_sensors].
  destruct (Z.eqb_spec n (n_id nd)) as [->|D]; [apply zassoc_zset_same|apply zassoc_zset_other; congruence].
Qed.

Lemma ids_ok_get g k nd : ids_ok g -> get_node g k = Some nd -> n_id nd = k.
Proof. intros I G. exact (zassoc_Forall _ _ _ _ I G). Qed.

Lemma ids_ok_put g nd : ids_ok g -> ids_ok (put_node g nd).
Proof. intro I. unfold ids_ok, put_node. cbn [g_sensors set_sensors]. apply Forall_zset; [exact I|reflexivity]. Qed.

Lemma ids_ok_init cf : ids_ok (gw_init cf).
Proof. constructor. Qed.

Lemma Inv_ids_ok orc g : Inv orc g -> ids_ok g.
Proof.
  intros [S _]. unfold ids_ok. rewrite Forall_forall in *. intros kn I. destruct (S kn I) as [K _]. exact K.
Qed.

(* nframe: configuration kept, known nodes stay known, node ids and reboot flags kept *)
Definition nframe (g g' : gw) : Prop :=
  g_cf g' = g_cf g /\
  (forall n, known g n = true -> known g' n = true) /\
  (ids_ok g -> ids_ok g' /\ forall n, reboot_flag g' n = reboot_flag g n).
(* frame: moreover the OTA state (firmware dictionary and the three stores) is untouched *)
Definition frame (g g' : gw) : Prop := g_ota g' = g_ota g /\ nframe g g'.

Lemma nframe_refl g : nframe g g.
Proof. split; [reflexivity|]. split; [auto|]. intro I. split; [exact I|reflexivity]. Qed.
Lemma frame_refl g : frame g g.
Proof. split; [reflexivity|apply nframe_refl]. Qed.

Lemma nframe_trans g1 g2 g3 : nframe g1 g2 -> nframe g2 g3 -> nframe g1 g3.
Proof.
  intros (C1 & K1 & F1) (C2 & K2 & F2). split; [congruence|]. split; [auto|].
  intro I. destruct (F1 I) as [I2 R1]. destruct (F2 I2) as [I3 R2]. split; [exact I3|].
  intro n. rewrite R2. apply R1.
Qed.
Lemma frame_trans g1 g2 g3 : frame g1 g2 -> frame g2 g3 -> frame g1 g3.
Proof. intros [O1 N1] [O2 N2]. split; [congruence|eapply nframe_trans; eassumption]. Qed.

(* states with the same sensors *)
Lemma nframe_same g g' : g_sensors g' = g_sensors g -> g_cf g' = g_cf g -> nframe g g'.
Proof.
  intros S C. split; [exact C|]. unfold known, ids_ok, reboot_flag, get_node. rewrite S.
  split; [auto|]. intro I. split; [exact I|reflexivity].
Qed.
Lemma frame_same g g' : g_sensors g' = g_sensors g -> g_cf g' = g_cf g -> g_ota g' = g_ota g -> frame g g'.
Proof. intros S C O. split; [exact O|apply nframe_same; assumption]. Qed.

Lemma frame_send g l : frame g (send g l).
Proof. destruct (send_frame g l) as (A&B&C&_). apply frame_same; assumption. Qed.
Lemma frame_add_job g l : frame g (add_job_send g l).
Proof. destruct (add_job_send_frame g l) as (A&B&C&_). apply frame_same; assumption. Qed.
Lemma frame_fold_add_job ls g : frame g (fold_left add_job_send ls g).
Proof. destruct (fold_add_job_send_frame ls g) as (A&B&C&_). apply frame_same; assumption. Qed.
Lemma frame_alert g m : frame g (alert g m).
Proof. destruct (alert_frame g m) as (A&B&C&_). apply frame_same; assumption. Qed.
Lemma frame_emit g e : frame g (emit g e).
Proof. apply frame_same; reflexivity. Qed.
Lemma frame_set_jobs g j : frame g (set_jobs g j).
Proof. apply frame_same; reflexivity. Qed.
Lemma frame_set_metric g b : frame g (set_metric g b).
Proof. apply frame_same; reflexivity. Qed.
Lemma nframe_set_ota g o : nframe g (set_ota g o).
Proof. apply nframe_same; reflexivity. Qed.

(* replacing a stored node by one with the same id and the same reboot flag *)
Lemma frame_put g k nd nd' :
  get_node g k = Some nd -> n_id nd' = n_id nd -> n_reboot nd' = n_reboot nd -> frame g (put_node g nd').
Proof.
  intros G E1 E2. split; [reflexivity|]. split; [reflexivity|]. split.
  - intros n K. apply known_get in K as [x K]. apply known_get. rewrite get_node_put.
    destruct (n =? n_id nd'); eauto.
  - intro I. split; [apply ids_ok_put; exact I|]. intro n. unfold reboot_flag. rewrite get_node_put.
    pose proof (ids_ok_get g k nd I G) as K.
    destruct (Z.eqb_spec n (n_id nd')) as [->|D]; [|reflexivity].
    rewrite E1, K, G. exact E2.
Qed.

Lemma frame_add_sensor g sid : frame g (add_sensor g sid).
Proof.
  unfold add_sensor. destruct (zhas sid (g_sensors g)) eqn:H; [apply frame_refl|].
  split; [reflexivity|]. split; [reflexivity|].
  assert (GN : forall n, get_node (set_sensors g (g_sensors g ++ [(sid, new_node sid)])) n =
                         match get_node g n with Some a => Some a
                         | None => if n =? sid then Some (new_node sid) else None end).
  { intro n. unfold get_node. cbn [g_sensors set_sensors]. rewrite zassoc_app. simpl. reflexivity. }
  split.
  - intros n K. apply known_get in K as [x K]. apply known_get. rewrite GN, K. eauto.
  - intro I. split.
    + unfold ids_ok. cbn [g_sensors set_sensors]. apply Forall_app. split; [exact I|].
      constructor; [reflexivity|constructor].
    + intro n. unfold reboot_flag. rewrite GN. destruct (get_node g n); [reflexivity|].
      destruct (n =? sid); reflexivity.
Qed.

Lemma frame_route g m : frame g (fst (route g m)).
Proof.
  unfold route. destruct (m_type m =? vt_presentation (tab g)); [apply frame_refl|].
  destruct (get_node g (m_node m)) as [nd|] eqn:G; [|apply frame_refl].
  destruct ((m_type m =? vt_stream (tab g)) || negb (sleeping nd)); [apply frame_refl|].
  cbn [fst]. eapply frame_put; [exact G|reflexivity|reflexivity].
Qed.
Lemma frame_route_opt g r : frame g (fst (route_opt g r)).
Proof. destruct r; simpl; [apply frame_route|apply frame_refl]. Qed.

Lemma frame_is_sensor g sid cid g1 b : is_sensor g sid cid = Ok (g1, b) -> frame g g1.
Proof.
  unfold is_sensor.
  destruct (negb _ && node_id_ok sid && cf_ge20 (g_cf g)); [|intro H; inversion H; apply frame_refl].
  destruct (sassoc (s2p "I_PRESENTATION") (vt_internal_members (tab g))) as [ip|]; [|discriminate].
  pose proof (frame_route g (mkMsg sid system_child_id (vt_internal (tab g)) 0 ip [])) as FR.
  destruct (route g (mkMsg sid system_child_id (vt_internal (tab g)) 0 ip [])) as [g' r]. cbn [fst] in FR.
  intro H; inversion H; subst. destruct r; [|exact FR].
  eapply frame_trans; [exact FR|apply frame_add_job].
Qed.

(* is_sensor: the verdict, and the state when the verdict is positive *)
Lemma is_sensor_true g sid cid g1 : is_sensor g sid cid = Ok (g1, true) ->
  g1 = g /\ exists nd, get_node g sid = Some nd /\ forall c, cid = Some c -> zhas c (n_children nd) = true.
Proof.
  unfold is_sensor.
  set (ret := match get_node g sid with
              | Some nd => match cid with Some c => zhas c (n_children nd) | None => true end
              | None => false end).
  destruct ret eqn:R; simpl.
  - intro H. assert (E : g1 = g) by (inversion H; reflexivity). subst g1. clear H. split; [reflexivity|].
    subst ret. destruct (get_node g sid) as [nd|]; [|discriminate].
    exists nd. split; [reflexivity|]. intros c ->. exact R.
  - destruct (node_id_ok sid && cf_ge20 (g_cf g)); [|intro H; inversion H].
    destruct (sassoc (s2p "I_PRESENTATION") (vt_internal_members (tab g))); [|discriminate].
    destruct (route g _) as [g' r]. intro H; inversion H.
Qed.

Lemma is_sensor_false g sid cid g1 : is_sensor g sid cid = Ok (g1, false) ->
  match get_node g sid with
  | Some nd => exists c, cid = Some c /\ zhas c (n_children nd) = false
  | None => True
  end.
Proof.
  unfold is_sensor. destruct (get_node g sid) as [nd|]; [|trivial].
  destruct cid as [c|].
  - destruct (zhas c (n_children nd)) eqn:Z; [simpl; intro H; inversion H|eauto].
  - simpl. intro H; inversion H.
Qed.

(* ================================================================ D. handlers that do not touch the session *)

Lemma update_child_value_fields nd c vt v :
  n_id (update_child_value nd c vt v) = n_id nd /\ n_reboot (update_child_value nd c vt v) = n_reboot nd /\
  sleeping (update_child_value nd c vt v) = sleeping nd.
Proof.
  unfold update_child_value. destruct (zassoc c (n_children nd)) as [ch|]; [|auto].
  destruct (zassoc c (n_new nd)) as [dv|] eqn:D; [|auto].
  split; [reflexivity|]. split; [reflexivity|].
  unfold sleeping. cbn [n_new with_new with_children]. destruct (n_new nd) as [|[k a] r]; [discriminate D|].
  simpl. destruct (c =? k); reflexivity.
Qed.

Section Handlers.
  Variable orc : oracles.
  Variable clock : Z.

  Definition is_fw_leaf (h : hfun) : bool := match h with HFwConfigReq | HFwReq => true | _ => false end.

  Lemma frame_handle_presentation_child g m g' r :
    (m_child m =? system_child_id) = false -> handle_presentation orc g m = Ok (g', r) -> frame g g'.
  Proof.
    intros C. unfold handle_presentation. rewrite C.
    destruct (is_sensor g (m_node m) None) as [[g1 b]|e] eqn:E; cbn [bind]; [|discriminate].
    pose proof (frame_is_sensor _ _ _ _ _ E) as F1.
    destruct b; cbn [negb]; [|intro H; inversion H; subst; exact F1].
    destruct (get_node g1 (m_node m)) as [nd|] eqn:G; [|discriminate].
    destruct (zhas (m_child m) (n_children nd)); [intro H; inversion H; subst; exact F1|].
    intro H; inversion H; subst. eapply frame_trans; [exact F1|].
    eapply frame_trans; [|apply frame_alert]. eapply frame_put; [exact G|reflexivity|reflexivity].
  Qed.

  (* node presentation: clears the reboot flag of that node, nothing else about flags / OTA *)
  Lemma handle_presentation_node g m :
    (m_child m =? system_child_id) = true ->
    exists g', handle_presentation orc g m = Ok (g', Some m) /\
      g_ota g' = g_ota g /\ g_cf g' = g_cf g /\
      (forall n, known g n = true -> known g' n = true) /\ known g' (m_node m) = true /\
      (ids_ok g -> ids_ok g' /\ reboot_flag g' (m_node m) = false /\
                   forall n, n <> m_node m -> reboot_flag g' n = reboot_flag g n).
  Proof.
    intros C. unfold handle_presentation. rewrite C.
    destruct (get_node_add_sensor g (m_node m)) as [nd G]. rewrite G.
    eexists. split; [reflexivity|].
    pose proof (frame_add_sensor g (m_node m)) as (O1 & C1 & K1 & F1).
    set (g1 := add_sensor g (m_node m)) in *.
    set (nd' := mkNode (n_id nd) (n_children nd) (Some (m_sub m)) (n_sk_name nd) (n_sk_ver nd)
                       (n_batt nd) (safe_version orc (m_payload m)) (n_hb nd) (n_new nd) (n_queue nd) false).
    destruct (alert_frame (put_node g1 nd') m) as (AS & AO & AC & _).
    split; [rewrite AO; exact O1|]. split; [rewrite AC; exact C1|].
    assert (GN : forall n, get_node (alert (put_node g1 nd') m) n = if n =? n_id nd' then Some nd' else get_node g1 n).
    { intro n. unfold get_node at 1. rewrite AS. apply get_node_put. }
    split; [|split].
    - intros n K. apply K1 in K. apply known_get in K as [x K]. apply known_get. rewrite GN.
      destruct (n =? n_id nd'); eauto.
    - apply known_get. rewrite GN. destruct (m_node m =? n_id nd'); eauto.
    - intro I. destruct (F1 I) as [I1 R1].
      pose proof (ids_ok_get g1 _ _ I1 G) as K. change (n_id nd') with (n_id nd) in GN. rewrite K in GN.
      split; [|split].
      + unfold ids_ok. rewrite AS. apply ids_ok_put. exact I1.
      + unfold reboot_flag. rewrite GN, Z.eqb_refl. reflexivity.
      + intros n D. unfold reboot_flag at 1. rewrite GN.
        destruct (Z.eqb_spec n (m_node m)); [contradiction|]. apply R1.
  Qed.

  Lemma frame_handle_set g m g' r : handle_set g m = Ok (g', r) -> frame g g'.
  Proof.
    unfold handle_set.
    destruct (is_sensor g (m_node m) (Some (m_child m))) as [[g1 b]|e] eqn:E; cbn [bind]; [|discriminate].
    pose proof (frame_is_sensor _ _ _ _ _ E) as F1.
    destruct b; cbn [negb]; [|intro H; inversion H; subst; exact F1].
    destruct (get_node g1 (m_node m)) as [nd|] eqn:G; [|discriminate].
    destruct (update_child_value_fields nd (m_child m) (m_sub m) (m_payload m)) as (U1 & U2 & _).
    assert (F2 : frame g (alert (put_node g1 (update_child_value nd (m_child m) (m_sub m) (m_payload m))) m)).
    { eapply frame_trans; [exact F1|]. eapply frame_trans; [|apply frame_alert].
      eapply frame_put; [exact G|exact U1|exact U2]. }
    destruct (n_reboot (update_child_value nd (m_child m) (m_sub m) (m_payload m))).
    - destruct (internal_member g "I_REBOOT"); cbn [bind]; [|discriminate].
      destruct (copy m _); cbn [bind]; [|discriminate]. intro H; inversion H; subst. exact F2.
    - intro H; inversion H; subst. exact F2.
  Qed.

  Lemma frame_handle_req g m g' r : handle_req g m = Ok (g', r) -> frame g g'.
  Proof.
    unfold handle_req.
    destruct (is_sensor g (m_node m) (Some (m_child m))) as [[g1 b]|e] eqn:E; cbn [bind]; [|discriminate].
    pose proof (frame_is_sensor _ _ _ _ _ E) as F1.
    destruct b; cbn [negb]; [|intro H; inversion H; subst; exact F1].
    destruct (get_node g1 (m_node m)) as [nd|] eqn:G; [|discriminate].
    destruct (get_desired_value nd (m_child m) (m_sub m)); [|intro H; inversion H; subst; exact F1].
    destruct (copy m _); cbn [bind]; [|discriminate]. intro H; inversion H; subst. exact F1.
  Qed.

  Lemma frame_handle_id_request g m g' r : handle_id_request g m = Ok (g', r) -> frame g g'.
  Proof.
    unfold handle_id_request. destruct (next_id g) as [nid|]; [|intro H; inversion H; apply frame_refl].
    destruct (negb (zhas nid (g_sensors (add_sensor g nid)))); [intro H; inversion H; apply frame_add_sensor|].
    destruct (internal_member g "I_ID_RESPONSE"); cbn [bind]; [|discriminate].
    destruct (copy m _); cbn [bind]; [|discriminate]. intro H; inversion H; subst.
    eapply frame_trans; [apply frame_add_sensor|apply frame_alert].
  Qed.

  Lemma frame_node_attr f g m g' r :
    (forall nd p, n_id (f nd p) = n_id nd /\ n_reboot (f nd p) = n_reboot nd) ->
    node_attr_handler f g m = Ok (g', r) -> frame g g'.
  Proof.
    intro Hf. unfold node_attr_handler.
    destruct (is_sensor g (m_node m) None) as [[g1 b]|e] eqn:E; cbn [bind]; [|discriminate].
    pose proof (frame_is_sensor _ _ _ _ _ E) as F1.
    destruct b; cbn [negb]; [|intro H; inversion H; subst; exact F1].
    destruct (get_node g1 (m_node m)) as [nd|] eqn:G; [|discriminate].
    intro H; inversion H; subst. destruct (Hf nd (m_payload m)) as [A B].
    eapply frame_trans; [exact F1|]. eapply frame_trans; [|apply frame_alert].
    eapply frame_put; eassumption.
  Qed.

  Lemma frame_handle_smartsleep g k nd g2 :
    get_node g k = Some nd -> handle_smartsleep orc g nd = Ok g2 -> frame g g2.
  Proof.
    intros G. unfold handle_smartsleep.
    set (nd2 := with_queue (init_smart_sleep nd) []).
    set (g1 := put_node g nd2).
    set (ga := fold_left add_job_send (n_queue (init_smart_sleep nd)) g1).
    destruct (flush_children_pre orc ga nd2 (n_children nd2)) as [sets e].
    destruct e; [discriminate|]. intro H; inversion H; subst g2.
    apply (frame_trans g g1); [apply (frame_put g k nd nd2 G); reflexivity|].
    apply (frame_trans g1 ga); [apply frame_fold_add_job|]. apply frame_fold_add_job.
  Qed.

  Lemma frame_handle_heartbeat g m g' r : handle_heartbeat_response orc g m = Ok (g', r) -> frame g g'.
  Proof.
    unfold handle_heartbeat_response.
    destruct (is_sensor g (m_node m) None) as [[g1 b]|e] eqn:E; cbn [bind]; [|discriminate].
    pose proof (frame_is_sensor _ _ _ _ _ E) as F1.
    destruct b; cbn [negb]; [|intro H; inversion H; subst; exact F1].
    destruct (get_node g1 (m_node m)) as [nd|] eqn:G; [|discriminate].
    destruct (handle_smartsleep orc g1 nd) as [g2|e] eqn:SS; cbn [bind]; [|discriminate].
    pose proof (frame_handle_smartsleep _ _ _ _ G SS) as F2.
    destruct (get_node g2 (m_node m)) as [nd2|] eqn:G2; [|discriminate].
    intro H; inversion H; subst.
    eapply frame_trans; [exact F1|]. eapply frame_trans; [exact F2|].
    eapply frame_trans; [|apply frame_alert]. eapply frame_put; [exact G2|reflexivity|reflexivity].
  Qed.

  Lemma frame_handle_pre_sleep g m g' r : handle_pre_sleep orc g m = Ok (g', r) -> frame g g'.
  Proof.
    unfold handle_pre_sleep.
    destruct (is_sensor g (m_node m) None) as [[g1 b]|e] eqn:E; cbn [bind]; [|discriminate].
    pose proof (frame_is_sensor _ _ _ _ _ E) as F1.
    destruct b; cbn [negb]; [|intro H; inversion H; subst; exact F1].
    destruct (get_node g1 (m_node m)) as [nd|] eqn:G; [|discriminate].
    destruct (handle_smartsleep orc g1 nd) as [g2|e] eqn:SS; cbn [bind]; [|discriminate].
    intro H; inversion H; subst. eapply frame_trans; [exact F1|]. eapply frame_handle_smartsleep; eassumption.
  Qed.

  (* every leaf handler other than the two firmware request handlers *)
  Lemma frame_run_leaf h g m g' r : is_fw_leaf h = false -> run_leaf orc clock h g m = Ok (g', r) -> frame g g'.
  Proof.
    intro NF. destruct h; try discriminate NF; unfold run_leaf; try discriminate.
    - apply frame_handle_id_request.
    - unfold handle_config. destruct (copy m _); cbn [bind]; [|discriminate].
      intro H; inversion H; apply frame_refl.
    - unfold handle_time. destruct (copy m _); cbn [bind]; [|discriminate].
      intro H; inversion H; apply frame_refl.
    - apply frame_node_attr. intros; split; reflexivity.
    - apply frame_node_attr. intros; split; reflexivity.
    - apply frame_node_attr. intros; split; reflexivity.
    - intro H; inversion H; apply frame_refl.
    - unfold handle_gateway_ready. intro H; inversion H; apply frame_alert.
    - unfold handle_gateway_ready_20. destruct (internal_member g "I_DISCOVER"); cbn [bind]; [|discriminate].
      destruct (copy m _); cbn [bind]; [|discriminate]. intro H; inversion H; apply frame_alert.
    - apply frame_handle_heartbeat.
    - unfold handle_discover_response.
      destruct (is_sensor g (m_node m) None) as [[g1 b]|e] eqn:E; cbn [bind]; [|discriminate].
      intro H; inversion H; subst. eapply frame_is_sensor. exact E.
    - apply frame_node_attr. intros; split; reflexivity.
    - apply frame_handle_pre_sleep.
  Qed.
End Handlers.

(* ================================================================ E. table facts (per version, finite) *)

Definition hfun_eq_dec : forall a b : hfun, {a = b} + {a <> b}.
Proof. decide equality. Defined.
Definition ohfun_eqb (a b : option hfun) : bool :=
  match a, b with
  | Some x, Some y => if hfun_eq_dec x y then true else false
  | None, None => true
  | _, _ => false
  end.
Lemma ohfun_eqb_eq a b : ohfun_eqb a b = true -> a = b.
Proof.
  destruct a as [x|], b as [y|]; simpl; try discriminate; [|reflexivity].
  destruct (hfun_eq_dec x y); [congruence|discriminate].
Qed.
Definition oz_eqb (a b : option Z) : bool :=
  match a, b with Some x, Some y => x =? y | None, None => true | _, _ => false end.
Lemma oz_eqb_eq a b : oz_eqb a b = true -> a = b.
Proof. destruct a, b; simpl; try discriminate; [intro H; apply Z.eqb_eq in H; congruence|reflexivity]. Qed.

(* hand-written reading of the serial API: stream sub-type 0 = firmware config request,
   2 = firmware request; 1 / 3 = the responses; internal 13 = reboot, 19 = presentation request *)
Definition stream_spec (s : Z) : option hfun :=
  if s =? 0 then Some HFwConfigReq else if s =? 2 then Some HFwReq else None.

Definition c10_facts (t : vtab) (ge : bool) : bool :=
  (vt_stream t =? 4) && (vt_internal t =? 3) && (vt_presentation t =? 0) && (vt_set t =? 1) &&
  oz_eqb (sassoc (s2p "I_REBOOT") (vt_internal_members t)) (Some 13) &&
  (negb ge || oz_eqb (sassoc (s2p "I_PRESENTATION") (vt_internal_members t)) (Some 19)) &&
  oz_eqb (sassoc (s2p "ST_FIRMWARE_CONFIG_RESPONSE") (vt_stream_members t)) (Some 1) &&
  oz_eqb (sassoc (s2p "ST_FIRMWARE_RESPONSE") (vt_stream_members t)) (Some 3) &&
  match zassoc 4 (vt_sub_names t) with
  | Some names =>
      forallb (fun kn => ohfun_eqb (registry_fun t (snd kn)) (stream_spec (fst kn))) names &&
      zhas 0 names && zhas 2 names
  | None => false
  end &&
  match zassoc 3 (vt_sub_names t) with
  | Some names =>
      forallb (fun kn => match registry_fun t (snd kn) with Some h => negb (is_fw_leaf h) | None => true end) names
  | None => true
  end.

Lemma c10_facts_all v : c10_facts (tab_of v) (ge20 v) = true.
Proof. destruct v; vm_compute; reflexivity. Qed.

Record tabfacts (t : vtab) (ge : bool) : Prop := {
  tf_stream : vt_stream t = 4;
  tf_internal : vt_internal t = 3;
  tf_presentation : vt_presentation t = 0;
  tf_set : vt_set t = 1;
  tf_reboot : sassoc (s2p "I_REBOOT") (vt_internal_members t) = Some 13;
  tf_ipres : ge = true -> sassoc (s2p "I_PRESENTATION") (vt_internal_members t) = Some 19;
  tf_cfgresp : sassoc (s2p "ST_FIRMWARE_CONFIG_RESPONSE") (vt_stream_members t) = Some 1;
  tf_fwresp : sassoc (s2p "ST_FIRMWARE_RESPONSE") (vt_stream_members t) = Some 3;
  tf_stream_handlers : forall s, sub_handler t 4 s = stream_spec s;
  tf_internal_handlers : forall s h, sub_handler t 3 s = Some h -> is_fw_leaf h = false }.

Lemma c10_facts_sound t ge : c10_facts t ge = true -> tabfacts t ge.
Proof.
  unfold c10_facts. intro F.
  repeat match type of F with _ && _ = true => apply andb_true_iff in F as [F ?] end.
  constructor.
  - apply Z.eqb_eq; assumption.
  - apply Z.eqb_eq; assumption.
  - apply Z.eqb_eq; assumption.
  - apply Z.eqb_eq; assumption.
  - apply oz_eqb_eq; assumption.
  - intros ->. apply oz_eqb_eq. assumption.
  - apply oz_eqb_eq; assumption.
  - apply oz_eqb_eq; assumption.
  - intro s. unfold sub_handler.
    match goal with H : match zassoc 4 _ with _ => _ end = true |- _ => rename H into S4 end.
    destruct (zassoc 4 (vt_sub_names t)) as [names|]; [|discriminate].
    apply andb_true_iff in S4 as [S4 Z2]. apply andb_true_iff in S4 as [S4 Z0].
    rewrite forallb_forall in S4.
    destruct (zassoc s names) as [name|] eqn:E.
    + apply zassoc_In in E. apply S4 in E. cbn [fst snd] in E. apply ohfun_eqb_eq. exact E.
    + unfold stream_spec. destruct (Z.eqb_spec s 0) as [->|D0].
      * unfold zhas in Z0. rewrite E in Z0. discriminate.
      * destruct (Z.eqb_spec s 2) as [->|D2]; [|reflexivity].
        unfold zhas in Z2. rewrite E in Z2. discriminate.
  - intros s h. unfold sub_handler.
    match goal with H : match zassoc 3 _ with _ => _ end = true |- _ => rename H into S3 end.
    destruct (zassoc 3 (vt_sub_names t)) as [names|]; [|discriminate].
    rewrite forallb_forall in S3.
    destruct (zassoc s names) as [name|] eqn:E; [|discriminate].
    apply zassoc_In in E. apply S3 in E. cbn [snd] in E. intro R. rewrite R in E.
    apply negb_true_iff. exact E.
Qed.

Lemma tabfacts_of_cfg g : cfg_ok (g_cf g) -> tabfacts (tab g) (cf_ge20 (g_cf g)).
Proof. intros [v [T G]]. unfold tab. rewrite T, G. apply c10_facts_sound, c10_facts_all. Qed.

(* ================================================================ F. the two firmware request handlers *)

Definition stream_reply (m : msg) (sub : Z) (p : pstr) : msg :=
  mkMsg (m_node m) (m_child m) (m_type m) (m_ack m) sub p.

(* abstract input carried by a stream message of sub-type 0 / 2 *)
Definition cfg_input (m : msg) : sin :=
  match fw_hex_to_int (m_payload m) 5 with Ok _ => CfgReq | Raise _ => Malformed end.
Definition blk_input (m : msg) : sin :=
  match fw_hex_to_int (m_payload m) 3 with Ok [t; v; b] => BlkReq (t, v) b | _ => Malformed end.
Definition stream_input (m : msg) : option sin :=
  if m_sub m =? 0 then Some (cfg_input m) else if m_sub m =? 2 then Some (blk_input m) else None.

(* the message an offer becomes, given the firmware dictionary: config response (sub-type 1)
   for the key of the offer, block response (sub-type 3) for the requested key and block;
   nothing when no image is stored for that key; struct.error of the packing propagates *)
Definition offer_reply (fws : list ((Z * Z) * fware)) (m : msg) (out : sout) : res (option msg) :=
  match out with
  | NoOut => Ok None
  | CfgResp (t, v) =>
      match fw_lookup t v fws with
      | Some f => do p <- fw_config_payload t v f; Ok (Some (stream_reply m 1 p))
      | None => Ok None
      end
  | BlkResp (t, v) b =>
      match fw_lookup t v fws with
      | Some f => do p <- fw_response_payload t v b f; Ok (Some (stream_reply m 3 p))
      | None => Ok None
      end
  end.

(* everything but the OTA state (and, where stated, log / dirty) is the same *)
Definition same_core (g g' : gw) : Prop :=
  g_cf g' = g_cf g /\ g_sensors g' = g_sensors g /\ g_metric g' = g_metric g /\ g_jobs g' = g_jobs g.

(* the result of a firmware leaf handler in terms of the automaton *)
Definition leaf_sim (g : gw) (m : msg) (i : sin) (r : res (gw * option msg)) : Prop :=
  let so := sstep (abs (g_ota g) (m_node m)) i in
  exists g',
    r = (do rm <- offer_reply (o_fw (g_ota g)) m (snd so); Ok (g', rm)) /\
    sess_inv (g_ota g') /\ o_fw (g_ota g') = o_fw (g_ota g) /\
    abs (g_ota g') (m_node m) = fst so /\
    (forall n, n <> m_node m -> abs (g_ota g') n = abs (g_ota g) n) /\
    same_core g g' /\ g_log g' = g_log g /\ g_dirty g' = g_dirty g.

Lemma override_sub m sub : override m (mkRepl None None None None (Some sub) None) =
  mkMsg (m_node m) (m_child m) (m_type m) (m_ack m) sub (m_payload m).
Proof. reflexivity. Qed.

Lemma respond_fw_config_sim g m : tabfacts (tab g) (cf_ge20 (g_cf g)) -> sess_inv (g_ota g) ->
  wire_ok (m_payload m) = true -> leaf_sim g m (cfg_input m) (respond_fw_config g m).
Proof.
  intros TF SI W. unfold leaf_sim, respond_fw_config, cfg_input.
  destruct (fw_hex_to_int (m_payload m) 5) as [ws|e].
  2:{ exists g. cbn [sstep fst snd offer_reply bind]. split; [reflexivity|].
      split; [exact SI|]. repeat split; reflexivity. }
  destruct (ota_get_fw_cfg (g_ota g) (m_node m) SI) as (SI' & FW & AB & OT & OUT).
  destruct (ota_get_fw (g_ota g) (m_node m) true None) as [o' r]. cbn [fst snd] in *.
  exists (set_ota g o'). cbn [g_ota set_ota g_log g_dirty].
  split; [|split; [exact SI'|split; [exact FW|split; [exact AB|split; [exact OT|repeat split; reflexivity]]]]].
  subst r. destruct (abs (g_ota g) (m_node m)) as [|[t v]|[t v]|[t v]];
    cbn [sstep fst snd fw_out offer_reply bind]; try reflexivity.
  all: destruct (fw_lookup t v (o_fw (g_ota g))) as [f|]; cbn [option_map bind]; [|reflexivity].
  all: unfold stream_member; rewrite (tf_cfgresp _ _ TF); cbn [of_option bind].
  all: rewrite (copy_spec _ _ W); cbn [bind]; rewrite override_sub.
  all: destruct (fw_config_payload t v f); reflexivity.
Qed.

Lemma respond_fw_sim g m : tabfacts (tab g) (cf_ge20 (g_cf g)) -> sess_inv (g_ota g) ->
  wire_ok (m_payload m) = true -> leaf_sim g m (blk_input m) (respond_fw g m).
Proof.
  intros TF SI W. unfold leaf_sim, respond_fw, blk_input.
  assert (NOP : leaf_sim g m Malformed (Ok (g, None))).
  { exists g. cbn [sstep fst snd offer_reply bind]. split; [reflexivity|].
    split; [exact SI|]. repeat split; reflexivity. }
  unfold leaf_sim in NOP.
  destruct (fw_hex_to_int (m_payload m) 3) as [ws|e]; [|exact NOP].
  destruct ws as [|rt [|rv [|rb [|x y]]]]; try exact NOP. clear NOP.
  destruct (ota_get_fw_blk (g_ota g) (m_node m) rt rv rb SI) as (SI' & FW & AB & OT & OUT).
  destruct (ota_get_fw (g_ota g) (m_node m) false (Some (rt, rv))) as [o' r]. cbn [fst snd] in *.
  exists (set_ota g o'). cbn [g_ota set_ota g_log g_dirty].
  split; [|split; [exact SI'|split; [exact FW|split; [exact AB|split; [exact OT|repeat split; reflexivity]]]]].
  subst r. destruct (abs (g_ota g) (m_node m)) as [|[t v]|[t v]|[t v]];
    cbn [sstep fst snd fw_out offer_reply bind]; try reflexivity.
  all: destruct (fw_lookup rt rv (o_fw (g_ota g))) as [f|]; cbn [option_map bind]; [|reflexivity].
  all: unfold stream_member; rewrite (tf_fwresp _ _ TF); cbn [of_option bind].
  all: rewrite (copy_spec _ _ W); cbn [bind]; rewrite override_sub.
  all: destruct (fw_response_payload rt rv rb f); reflexivity.
Qed.

(* ================================================================ G. handle_stream and the dispatcher *)
Section Dispatch.
  Variable orc : oracles.
  Variable clock : Z.

  Lemma is_sensor_known g n : known g n = true -> is_sensor g n None = Ok (g, true).
  Proof.
    intro K. apply known_get in K as [nd G]. unfold is_sensor. rewrite G. reflexivity.
  Qed.

  (* stream message from a node the gateway does not know: nothing but the >= 2.0
     presentation request; state otherwise untouched *)
  Lemma handle_stream_unknown g m : tabfacts (tab g) (cf_ge20 (g_cf g)) -> node_id_ok (m_node m) = true ->
    known g (m_node m) = false ->
    handle_stream orc clock g m =
      Ok (if cf_ge20 (g_cf g) then add_job_send g (encode (mkMsg (m_node m) 255 3 0 19 [])) else g, None).
  Proof.
    intros TF NK K. apply known_false in K. unfold handle_stream, is_sensor. rewrite K, NK. cbn [negb andb].
    destruct (cf_ge20 (g_cf g)) eqn:GE; [|reflexivity].
    rewrite (tf_ipres _ _ TF eq_refl). unfold route.
    cbn [m_type m_node]. rewrite (tf_internal _ _ TF), (tf_presentation _ _ TF), K. reflexivity.
  Qed.

  Lemma handle_stream_request g m i :
    tabfacts (tab g) (cf_ge20 (g_cf g)) -> sess_inv (g_ota g) -> wire_ok (m_payload m) = true ->
    m_type m = 4 -> known g (m_node m) = true -> stream_input m = Some i ->
    let so := sstep (abs (g_ota g) (m_node m)) i in
    exists g',
      handle_stream orc clock g m = (do rm <- offer_reply (o_fw (g_ota g)) m (snd so); Ok (g', rm)) /\
      sess_inv (g_ota g') /\ o_fw (g_ota g') = o_fw (g_ota g) /\
      abs (g_ota g') (m_node m) = fst so /\
      (forall n, n <> m_node m -> abs (g_ota g') n = abs (g_ota g) n) /\
      same_core g g' /\ g_log g' = g_log (alert g m) /\ g_dirty g' = g_dirty (alert g m).
  Proof.
    intros TF SI W T K IN so. unfold handle_stream. rewrite (is_sensor_known g _ K). cbn [bind negb].
    rewrite T, (tf_stream_handlers _ _ TF). unfold stream_input in IN. unfold stream_spec.
    assert (L : exists h, (if m_sub m =? 0 then Some HFwConfigReq else if m_sub m =? 2 then Some HFwReq else None) = Some h /\
                          leaf_sim g m i (run_leaf orc clock h g m)).
    { destruct (m_sub m =? 0).
      - inversion IN; subst i. eexists; split; [reflexivity|]. apply respond_fw_config_sim; assumption.
      - destruct (m_sub m =? 2); [|discriminate]. inversion IN; subst i.
        eexists; split; [reflexivity|]. apply respond_fw_sim; assumption. }
    destruct L as (h & -> & g1 & E & SI1 & FW1 & AB1 & OT1 & (C1 & S1 & M1 & J1) & L1 & D1).
    rewrite E. fold so. exists (alert g1 m).
    destruct (alert_frame g1 m) as (AS & AO & AC & AJ & AM).
    split; [destruct (offer_reply (o_fw (g_ota g)) m (snd so)); reflexivity|].
    rewrite AO. split; [exact SI1|]. split; [exact FW1|]. split; [exact AB1|]. split; [exact OT1|].
    split; [repeat split; congruence|].
    unfold alert. rewrite C1, S1.
    destruct (cf_callback (g_cf g)), (cf_persist (g_cf g)); cbn [g_log g_dirty emit set_dirty];
      rewrite ?L1, ?D1; split; reflexivity.
  Qed.
End Dispatch.

(* ================================================================ H. logic *)
Section Logic.
  Variable orc : oracles.
  Variable clock : Z.

  Definition post_route (r : res (gw * option msg)) : res (gw * option pstr) :=
    do x <- r;
    let '(g1, reply) := x in
    let '(g2, routed) := route_opt g1 reply in
    Ok (g2, option_map encode routed).

  (* an accepted line is dispatched on its type (0..4) to the five top-level handlers *)
  Lemma logic_dispatch g l m : cfg_ok (g_cf g) -> decode l = Some m -> gvalidate orc g m = true ->
    exists h,
      ((m_type m = 0 /\ h = HPresentation) \/ (m_type m = 1 /\ h = HSet) \/ (m_type m = 2 /\ h = HReq) \/
       (m_type m = 3 /\ h = HInternal) \/ (m_type m = 4 /\ h = HStream)) /\
      logic orc clock g l = post_route (run_handler orc clock h g m).
  Proof.
    intros C D V. pose proof (facts_of_cfg g C) as F.
    pose proof (validated_type_range orc g m C V) as B.
    unfold logic. rewrite D, V. cbn [negb].
    destruct (type_handler_cases g (m_type m) F B) as [[T E]|[[T E]|[[T E]|[[T E]|[T E]]]]];
      rewrite E; eexists; (split; [|reflexivity]); tauto.
  Qed.

  Lemma route_stream g m : tabfacts (tab g) (cf_ge20 (g_cf g)) -> m_type m = 4 -> route g m = (g, Some m).
  Proof.
    intros TF T. unfold route. rewrite T, (tf_presentation _ _ TF), (tf_stream _ _ TF).
    cbn. destruct (get_node g (m_node m)); reflexivity.
  Qed.

  Lemma offer_reply_shape fws m out x : offer_reply fws m out = Ok (Some x) ->
    m_type x = m_type m /\ m_node x = m_node m /\ m_child x = m_child m /\ m_ack x = m_ack m /\
    ((exists k, out = CfgResp k /\ m_sub x = 1) \/ (exists k b, out = BlkResp k b /\ m_sub x = 3)).
  Proof.
    destruct out as [|[t v]|[t v] b]; cbn [offer_reply]; [discriminate| |].
    - destruct (fw_lookup t v fws) as [f|]; [|discriminate].
      destruct (fw_config_payload t v f); cbn [bind]; [|discriminate].
      intro H; inversion H; subst x. cbn. repeat split; try reflexivity. left. eauto.
    - destruct (fw_lookup t v fws) as [f|]; [|discriminate].
      destruct (fw_response_payload t v b f); cbn [bind]; [|discriminate].
      intro H; inversion H; subst x. cbn. repeat split; try reflexivity. right. eauto.
  Qed.

  (* ---- accepted stream message, known node, firmware (config) request ---- *)
  Theorem logic_stream_request g l m i :
    cfg_ok (g_cf g) -> sess_inv (g_ota g) ->
    decode l = Some m -> gvalidate orc g m = true -> m_type m = 4 -> known g (m_node m) = true ->
    stream_input m = Some i ->
    let so := sstep (abs (g_ota g) (m_node m)) i in
    exists g',
      logic orc clock g l =
        (do rm <- offer_reply (o_fw (g_ota g)) m (snd so); Ok (g', option_map encode rm)) /\
      sess_inv (g_ota g') /\ o_fw (g_ota g') = o_fw (g_ota g) /\
      abs (g_ota g') (m_node m) = fst so /\
      (forall n, n <> m_node m -> abs (g_ota g') n = abs (g_ota g) n) /\
      same_core g g' /\ g_log g' = g_log (alert g m) /\ g_dirty g' = g_dirty (alert g m).
  Proof.
    intros C SI D V T K IN so.
    pose proof (tabfacts_of_cfg g C) as TF.
    pose proof (decoded_payload_wire_ok _ _ D) as W.
    destruct (logic_dispatch g l m C D V) as (h & HC & EL).
    assert (h = HStream) by (destruct HC as [[A B]|[[A B]|[[A B]|[[A B]|[A B]]]]]; congruence). subst h.
    destruct (handle_stream_request orc clock g m i TF SI W T K IN) as (g' & E & REST).
    exists g'. split; [|exact REST].
    rewrite EL. unfold run_handler, post_route. rewrite E. fold so.
    destruct (offer_reply (o_fw (g_ota g)) m (snd so)) as [[x|]|e] eqn:OR; cbn [bind]; try reflexivity.
    destruct (offer_reply_shape _ _ _ _ OR) as (TX & _).
    unfold route_opt. rewrite route_stream; [reflexivity| |congruence].
    destruct REST as (_ & _ & _ & _ & (C1 & _) & _). unfold tab. rewrite C1. exact TF.
  Qed.

  (* ---- accepted stream message, known node, any other sub-type: nothing at all ---- *)
  Theorem logic_stream_other g l m :
    cfg_ok (g_cf g) -> decode l = Some m -> gvalidate orc g m = true -> m_type m = 4 ->
    known g (m_node m) = true -> stream_input m = None ->
    logic orc clock g l = Ok (g, None).
  Proof.
    intros C D V T K IN. pose proof (tabfacts_of_cfg g C) as TF.
    destruct (logic_dispatch g l m C D V) as (h & HC & EL).
    assert (h = HStream) by (destruct HC as [[A B]|[[A B]|[[A B]|[[A B]|[A B]]]]]; congruence). subst h.
    rewrite EL. unfold run_handler, post_route, handle_stream. rewrite (is_sensor_known g _ K). cbn [bind negb].
    rewrite T, (tf_stream_handlers _ _ TF). unfold stream_input in IN. unfold stream_spec.
    destruct (m_sub m =? 0); [discriminate|]. destruct (m_sub m =? 2); [discriminate|]. reflexivity.
  Qed.

  (* ---- accepted stream message from an unknown node ---- *)
  Theorem logic_stream_unknown g l m :
    cfg_ok (g_cf g) -> decode l = Some m -> gvalidate orc g m = true -> m_type m = 4 ->
    known g (m_node m) = false ->
    logic orc clock g l =
      Ok (if cf_ge20 (g_cf g) then add_job_send g (encode (mkMsg (m_node m) 255 3 0 19 [])) else g, None).
  Proof.
    intros C D V T K. pose proof (tabfacts_of_cfg g C) as TF.
    destruct (logic_dispatch g l m C D V) as (h & HC & EL).
    assert (h = HStream) by (destruct HC as [[A B]|[[A B]|[[A B]|[[A B]|[A B]]]]]; congruence). subst h.
    rewrite EL. unfold run_handler, post_route. rewrite (handle_stream_unknown orc clock g m TF (gvalidate_node_id_ok orc g m V) K).
    reflexivity.
  Qed.

  (* ---- malformed request from a known node: exactly the callback alert ---- *)
  Theorem logic_malformed g l m :
    cfg_ok (g_cf g) -> decode l = Some m -> gvalidate orc g m = true -> m_type m = 4 ->
    known g (m_node m) = true ->
    ((m_sub m = 0 /\ exists e, fw_hex_to_int (m_payload m) 5 = Raise e) \/
     (m_sub m = 2 /\ exists e, fw_hex_to_int (m_payload m) 3 = Raise e)) ->
    logic orc clock g l = Ok (alert g m, None).
  Proof.
    intros C D V T K MF. pose proof (tabfacts_of_cfg g C) as TF.
    destruct (logic_dispatch g l m C D V) as (h & HC & EL).
    assert (h = HStream) by (destruct HC as [[A B]|[[A B]|[[A B]|[[A B]|[A B]]]]]; congruence). subst h.
    rewrite EL. unfold run_handler, post_route, handle_stream. rewrite (is_sensor_known g _ K). cbn [bind negb].
    rewrite T, (tf_stream_handlers _ _ TF). unfold stream_spec.
    destruct MF as [[S [e E]]|[S [e E]]]; rewrite S; cbn [Z.eqb]; unfold run_leaf.
    - unfold respond_fw_config. rewrite E. reflexivity.
    - unfold respond_fw. rewrite E. reflexivity.
  Qed.

  (* ---- node presentation: clears the flag, OTA untouched, no reply line (presentations are not routed) ---- *)
  Theorem logic_node_presentation g l m :
    cfg_ok (g_cf g) -> decode l = Some m -> gvalidate orc g m = true -> m_type m = 0 -> m_child m = 255 ->
    exists g', logic orc clock g l = Ok (g', None) /\
      g_ota g' = g_ota g /\ g_cf g' = g_cf g /\
      (forall n, known g n = true -> known g' n = true) /\ known g' (m_node m) = true /\
      (ids_ok g -> ids_ok g' /\ reboot_flag g' (m_node m) = false /\
                   forall n, n <> m_node m -> reboot_flag g' n = reboot_flag g n).
  Proof.
    intros C D V T CH. pose proof (tabfacts_of_cfg g C) as TF.
    destruct (logic_dispatch g l m C D V) as (h & HC & EL).
    assert (h = HPresentation) by (destruct HC as [[A B]|[[A B]|[[A B]|[[A B]|[A B]]]]]; congruence). subst h.
    assert (CB : (m_child m =? system_child_id) = true) by (rewrite CH; reflexivity).
    destruct (handle_presentation_node orc g m CB) as (g' & E & REST).
    exists g'. split; [|exact REST]. rewrite EL. unfold run_handler, post_route. rewrite E. cbn [bind].
    unfold route_opt, route. destruct REST as (_ & C1 & _). unfold tab. rewrite C1.
    fold (tab g). rewrite T, (tf_presentation _ _ TF). reflexivity.
  Qed.

  (* ---- every other accepted line: OTA state, node ids and reboot flags untouched ---- *)
  Theorem logic_other_frame g l m g' r :
    cfg_ok (g_cf g) -> decode l = Some m -> gvalidate orc g m = true ->
    m_type m <> 4 -> ~ (m_type m = 0 /\ m_child m = 255) ->
    logic orc clock g l = Ok (g', r) -> frame g g'.
  Proof.
    intros C D V NS NP. pose proof (tabfacts_of_cfg g C) as TF.
    destruct (logic_dispatch g l m C D V) as (h & HC & EL). rewrite EL. unfold post_route.
    destruct (run_handler orc clock h g m) as [[g1 reply]|e] eqn:RH; cbn [bind]; [|discriminate].
    pose proof (frame_route_opt g1 reply) as FR.
    destruct (route_opt g1 reply) as [g2 routed]. cbn [fst] in FR.
    intro H; inversion H; subst g' r. eapply frame_trans; [|exact FR]. clear FR H.
    destruct HC as [[A B]|[[A B]|[[A B]|[[A B]|[A B]]]]]; subst h; unfold run_handler in RH.
    - eapply frame_handle_presentation_child; [|exact RH].
      destruct (Z.eqb_spec (m_child m) system_child_id) as [E|E]; [|reflexivity].
      exfalso. apply NP. split; [exact A|exact E].
    - eapply frame_handle_set; exact RH.
    - eapply frame_handle_req; exact RH.
    - unfold handle_internal in RH. rewrite A in RH.
      destruct (sub_handler (tab g) 3 (m_sub m)) as [h|] eqn:SH; [|inversion RH; apply frame_refl].
      eapply frame_run_leaf; [|exact RH]. eapply tf_internal_handlers; eassumption.
    - contradiction.
  Qed.
End Logic.

(* ================================================================ I. the update call *)

(* the key an update call schedules, if it schedules at all: int(type), int(version) succeed
   and are 16-bit words; an image was given (non-empty) or one is already stored for the key *)
Definition update_key (g : gw) (fwt fwv : vtarg) (bin : option (list N)) : option fwkey :=
  match vt_int fwt, vt_int fwv with
  | Some t, Some v =>
      if word_ok t && word_ok v then
        match bin with
        | Some [] => None            (* Tasks.update_fw: load failed / empty -> return *)
        | Some _ => Some (t, v)
        | None => match fw_lookup t v (o_fw (g_ota g)) with Some _ => Some (t, v) | None => None end
        end
      else None
  | _, _ => None
  end.

Lemma fw_lookup_store_same t v f l : fw_lookup t v (fw_store t v f l) = Some f.
Proof.
  induction l as [|[[t' v'] f'] l IH]; simpl; [rewrite !Z.eqb_refl; reflexivity|].
  destruct (Z.eqb t t' && Z.eqb v v') eqn:E; simpl; [rewrite !Z.eqb_refl; reflexivity|].
  rewrite E. exact IH.
Qed.

Lemma fw_lookup_store_other t v f l t' v' : (t', v') <> (t, v) ->
  fw_lookup t' v' (fw_store t v f l) = fw_lookup t' v' l.
Proof.
  intro D. assert (X : Z.eqb t' t && Z.eqb v' v = false).
  { apply andb_false_iff. destruct (Z.eqb_spec t' t); [|auto]. destruct (Z.eqb_spec v' v); [|auto]. congruence. }
  induction l as [|[[t2 v2] f2] l IH]; simpl; [rewrite X; reflexivity|].
  destruct (Z.eqb t t2 && Z.eqb v v2) eqn:E; simpl.
  - apply andb_true_iff in E as [E1 E2]. apply Z.eqb_eq in E1, E2. subst t2 v2. rewrite X. reflexivity.
  - destruct (Z.eqb t' t2 && Z.eqb v' v2); [reflexivity|exact IH].
Qed.

Definition same_sessions (o o' : ota) : Prop :=
  o_requested o' = o_requested o /\ o_unstarted o' = o_unstarted o /\ o_started o' = o_started o.

Lemma same_sessions_abs o o' n : same_sessions o o' -> abs o' n = abs o n.
Proof. intros (A & B & C). unfold abs. rewrite A, B, C. reflexivity. Qed.
Lemma same_sessions_inv o o' : same_sessions o o' -> sess_inv o -> sess_inv o'.
Proof. intros (A & B & C). unfold sess_inv, excl. rewrite A, B, C. tauto. Qed.

(* one scheduled id *)
Lemma update_one_spec t v g nid : sess_inv (g_ota g) -> ids_ok g ->
  let g' := update_one t v g nid in
  sess_inv (g_ota g') /\ ids_ok g' /\ o_fw (g_ota g') = o_fw (g_ota g) /\ g_cf g' = g_cf g /\
  g_log g' = g_log g /\ g_jobs g' = g_jobs g /\ g_dirty g' = g_dirty g /\ g_metric g' = g_metric g /\
  (forall n, known g' n = known g n) /\
  (forall n, abs (g_ota g') n = if (n =? nid) && known g n then Requested (t, v) else abs (g_ota g) n) /\
  (forall n, reboot_flag g' n = if (n =? nid) && known g n then true else reboot_flag g n).
Proof.
  intros SI I g'. subst g'. unfold update_one.
  destruct (get_node g nid) as [nd|] eqn:G.
  2:{ apply known_false in G. split; [exact SI|]. split; [exact I|]. repeat (split; [reflexivity|]). split.
      - intro n. destruct (Z.eqb_spec n nid) as [->|]; [rewrite G|]; reflexivity.
      - intro n. destruct (Z.eqb_spec n nid) as [->|]; [rewrite G|]; reflexivity. }
  assert (K : known g nid = true) by (apply known_get; eauto).
  pose proof (ids_ok_get g nid nd I G) as ID.
  destruct SI as (N1 & N2 & N3 & E).
  set (o' := mkOta (o_fw (g_ota g)) (zset nid (t, v) (o_requested (g_ota g)))
                   (zdel nid (o_unstarted (g_ota g))) (zdel nid (o_started (g_ota g)))).
  change (g_ota (put_node (set_ota g o') (with_reboot nd true))) with o'.
  assert (GN : forall n, get_node (put_node (set_ota g o') (with_reboot nd true)) n =
                         if n =? nid then Some (with_reboot nd true) else get_node g n).
  { intro n. rewrite get_node_put. cbn [n_id with_reboot]. rewrite ID. reflexivity. }
  split; [|split; [apply ids_ok_put; exact I|repeat (split; [reflexivity|]); split; [|split]]].
  - split; [apply nodup_zset; exact N1|]. split; [apply nodup_zdel; exact N2|]. split; [apply nodup_zdel; exact N3|].
    intro n. cbn [o' o_requested o_unstarted o_started].
    destruct (Z.eq_dec n nid) as [->|D].
    + rewrite !zassoc_zdel_same by assumption. auto.
    + rewrite zassoc_zset_other by congruence. rewrite !zassoc_zdel_other by congruence. apply E.
  - intro n. unfold known, zhas. fold (get_node (put_node (set_ota g o') (with_reboot nd true)) n).
    fold (get_node g n). rewrite GN. destruct (Z.eqb_spec n nid) as [->|]; [rewrite G|]; reflexivity.
  - intro n. destruct (Z.eqb_spec n nid) as [->|D]; cbn [andb].
    + rewrite K. unfold abs. cbn [o' o_requested]. rewrite zassoc_zset_same. reflexivity.
    + apply abs_ext; cbn [o' o_requested o_unstarted o_started];
        [apply zassoc_zset_other|apply zassoc_zdel_other|apply zassoc_zdel_other]; congruence.
  - intro n. unfold reboot_flag at 1. rewrite GN.
    destruct (Z.eqb_spec n nid) as [->|D]; cbn [andb]; [rewrite K; reflexivity|reflexivity].
Qed.

Lemma update_fold_spec t v nids : forall g, sess_inv (g_ota g) -> ids_ok g ->
  let g' := fold_left (update_one t v) nids g in
  sess_inv (g_ota g') /\ ids_ok g' /\ o_fw (g_ota g') = o_fw (g_ota g) /\ g_cf g' = g_cf g /\
  g_log g' = g_log g /\ g_jobs g' = g_jobs g /\ g_dirty g' = g_dirty g /\ g_metric g' = g_metric g /\
  (forall n, known g' n = known g n) /\
  (forall n, abs (g_ota g') n = if zmem n nids && known g n then Requested (t, v) else abs (g_ota g) n) /\
  (forall n, reboot_flag g' n = if zmem n nids && known g n then true else reboot_flag g n).
Proof.
  induction nids as [|nid r IH]; intros g SI I; cbn [fold_left zmem].
  - split; [exact SI|]. split; [exact I|]. repeat (split; [reflexivity|]). reflexivity.
  - destruct (update_one_spec t v g nid SI I) as (S1 & I1 & F1 & C1 & L1 & J1 & D1 & M1 & K1 & A1 & R1).
    destruct (IH _ S1 I1) as (S2 & I2 & F2 & C2 & L2 & J2 & D2 & M2 & K2 & A2 & R2).
    split; [exact S2|]. split; [exact I2|]. split; [congruence|]. split; [congruence|]. split; [congruence|].
    split; [congruence|]. split; [congruence|]. split; [congruence|].
    split; [intro n; rewrite K2; apply K1|]. split.
    + intro n. rewrite A2, A1, K1. destruct (n =? nid), (zmem n r), (known g n); reflexivity.
    + intro n. rewrite R2, R1, K1. destruct (n =? nid), (zmem n r), (known g n); reflexivity.
Qed.

(* the update call: always returns; schedules exactly the KNOWN nodes named, iff it has a key *)
Theorem update_fw_spec g nids fwt fwv bin : sess_inv (g_ota g) -> ids_ok g ->
  exists g', update_fw g nids fwt fwv bin = Ok g' /\
    sess_inv (g_ota g') /\ ids_ok g' /\ g_cf g' = g_cf g /\
    g_log g' = g_log g /\ g_jobs g' = g_jobs g /\ g_dirty g' = g_dirty g /\ g_metric g' = g_metric g /\
    (forall n, known g' n = known g n) /\
    match update_key g fwt fwv bin with
    | None =>
        (* nothing is scheduled: all stores, the firmware dictionary and the sensors are as before *)
        same_sessions (g_ota g) (g_ota g') /\ o_fw (g_ota g') = o_fw (g_ota g) /\ g_sensors g' = g_sensors g
    | Some (t, v) =>
        0 <= t <= 65535 /\ 0 <= v <= 65535 /\ vt_int fwt = Some t /\ vt_int fwv = Some v /\
        (exists f, fw_lookup t v (o_fw (g_ota g')) = Some f) /\
        o_fw (g_ota g') = match bin with
                          | Some b => fw_store t v (prepare_fw b) (o_fw (g_ota g))
                          | None => o_fw (g_ota g)
                          end /\
        (forall n, abs (g_ota g') n =
                   if zmem n nids && known g n then Requested (t, v) else abs (g_ota g) n) /\
        (forall n, reboot_flag g' n = if zmem n nids && known g n then true else reboot_flag g n)
    end.
Proof.
  intros SI I.
  assert (SAME : exists g', Ok g = Ok g' /\ sess_inv (g_ota g') /\ ids_ok g' /\ g_cf g' = g_cf g /\
            g_log g' = g_log g /\ g_jobs g' = g_jobs g /\ g_dirty g' = g_dirty g /\ g_metric g' = g_metric g /\
            (forall n, known g' n = known g n) /\
            same_sessions (g_ota g) (g_ota g') /\ o_fw (g_ota g') = o_fw (g_ota g) /\ g_sensors g' = g_sensors g).
  { exists g. split; [reflexivity|]. split; [exact SI|]. split; [exact I|]. repeat (split; [reflexivity|]).
    split; [repeat split|]. split; reflexivity. }
  unfold update_fw, update_key.
  destruct (vt_int fwt) as [t|].
  2:{ destruct bin as [[|b0 br]|]; exact SAME. }
  destruct (vt_int fwv) as [v|].
  2:{ destruct bin as [[|b0 br]|]; exact SAME. }
  destruct (word_ok t && word_ok v) eqn:RG.
  2:{ assert (X : negb ((0 <=? t) && (t <=? 65535)) || negb ((0 <=? v) && (v <=? 65535)) = true).
      { unfold word_ok in RG. destruct ((0 <=? t) && (t <=? 65535)); [|reflexivity].
        destruct ((0 <=? v) && (v <=? 65535)); [discriminate|reflexivity]. }
      rewrite X. destruct bin as [[|b0 br]|]; exact SAME. }
  assert (X : negb ((0 <=? t) && (t <=? 65535)) || negb ((0 <=? v) && (v <=? 65535)) = false).
  { unfold word_ok in RG. apply andb_true_iff in RG as [-> ->]. reflexivity. }
  rewrite X. apply andb_true_iff in RG as [Wt Wv]. apply word_ok_iff in Wt, Wv.
  destruct bin as [[|b0 br]|]; [exact SAME| |].
  - (* an image is given *)
    rewrite fw_lookup_store_same.
    set (fwl := fw_store t v (prepare_fw (b0 :: br)) (o_fw (g_ota g))).
    set (g0 := set_ota g (mkOta fwl (o_requested (g_ota g)) (o_unstarted (g_ota g)) (o_started (g_ota g)))).
    assert (S0 : sess_inv (g_ota g0)) by (eapply same_sessions_inv; [|exact SI]; repeat split).
    assert (I0 : ids_ok g0) by exact I.
    destruct (update_fold_spec t v nids g0 S0 I0) as (S2 & I2 & F2 & C2 & L2 & J2 & D2 & M2 & K2 & A2 & R2).
    exists (fold_left (update_one t v) nids g0). split; [reflexivity|]. split; [exact S2|]. split; [exact I2|].
    split; [exact C2|]. split; [exact L2|]. split; [exact J2|]. split; [exact D2|]. split; [exact M2|].
    split; [exact K2|]. split; [exact Wt|]. split; [exact Wv|]. split; [reflexivity|]. split; [reflexivity|].
    split; [rewrite F2; exists (prepare_fw (b0 :: br)); apply fw_lookup_store_same|].
    split; [exact F2|]. split; [exact A2|exact R2].
  - (* no image: the key must be stored already *)
    destruct (fw_lookup t v (o_fw (g_ota g))) as [f|] eqn:LK.
    + set (g0 := set_ota g (mkOta (o_fw (g_ota g)) (o_requested (g_ota g)) (o_unstarted (g_ota g)) (o_started (g_ota g)))).
      assert (S0 : sess_inv (g_ota g0)) by (eapply same_sessions_inv; [|exact SI]; repeat split).
      assert (I0 : ids_ok g0) by exact I.
      destruct (update_fold_spec t v nids g0 S0 I0) as (S2 & I2 & F2 & C2 & L2 & J2 & D2 & M2 & K2 & A2 & R2).
      exists (fold_left (update_one t v) nids g0). split; [reflexivity|]. split; [exact S2|]. split; [exact I2|].
      split; [exact C2|]. split; [exact L2|]. split; [exact J2|]. split; [exact D2|]. split; [exact M2|].
      split; [exact K2|]. split; [exact Wt|]. split; [exact Wv|]. split; [reflexivity|]. split; [reflexivity|].
      split; [rewrite F2; exists f; exact LK|]. split; [exact F2|]. split; [exact A2|exact R2].
    + eexists. split; [reflexivity|]. split; [eapply same_sessions_inv; [|exact SI]; repeat split|].
      split; [exact I|]. repeat (split; [reflexivity|]). split; [repeat split|]. split; reflexivity.
Qed.

(* ================================================================ J. steps *)
Section Steps.
  Variable orc : oracles.
  Variable clock : Z.

  Lemma frame_set_child_value g s c vt v mt a g' :
    set_child_value orc g s c vt v mt a = Ok g' -> frame g g'.
  Proof.
    unfold set_child_value.
    destruct (is_sensor g s (Some c)) as [[g1 b]|e] eqn:E; cbn [bind]; [|discriminate].
    pose proof (frame_is_sensor _ _ _ _ _ E) as F1.
    destruct b; cbn [negb]; [|intro H; inversion H; subst; exact F1].
    destruct (get_node g1 s) as [nd|] eqn:G; [|discriminate].
    destruct (sleeping nd).
    - destruct (create_set_message orc g1 (n_id nd) c vt v None None); cbn [bind]; [|discriminate].
      destruct (zassoc c (n_new nd)) as [dv|]; [|discriminate].
      destruct (validate_child_state orc nd c vt v); cbn [bind]; [|discriminate].
      destruct (vt_int vt) as [vti|]; [|discriminate].
      intro H; inversion H; subst. eapply frame_trans; [exact F1|].
      eapply frame_put; [exact G|reflexivity|reflexivity].
    - destruct (create_set_message orc g1 (n_id nd) c vt v mt a); cbn [bind]; [|discriminate].
      intro H; inversion H; subst. eapply frame_trans; [exact F1|apply frame_add_job].
  Qed.

  (* the line the dispatcher is run on by a step, and the state it is run in *)
  Definition line_of (g : gw) (o : op) : option pstr :=
    match o with
    | Recv l => if cf_async (g_cf g) then Some l else None
    | Pump => match g_jobs g with JLogic l :: _ => Some l | _ => None end
    | _ => None
    end.
  Definition pre_state (g : gw) (o : op) : gw :=
    match o with Pump => set_jobs g (tl (g_jobs g)) | _ => g end.

  Lemma pre_state_frame g o : frame g (pre_state g o) /\ g_sensors (pre_state g o) = g_sensors g.
  Proof. destruct o; cbn [pre_state]; split; try apply frame_refl; try apply frame_set_jobs; reflexivity. Qed.

  Lemma step_line g o l : line_of g o = Some l ->
    step orc clock g o =
      match logic orc clock (pre_state g o) l with
      | Ok (g1, Some r) => send g1 r
      | Ok (g1, None) => g1
      | Raise e => emit (pre_state g o) (ERaise e)
      end.
  Proof.
    destruct o as [l0| |s c vt v mt a|ns t v b|b]; cbn [line_of pre_state step]; try discriminate.
    - unfold recv. destruct (cf_async (g_cf g)); [|discriminate]. intro H; inversion H; subst. reflexivity.
    - unfold pump. destruct (g_jobs g) as [|[l0|l0] r]; try discriminate. intro H; inversion H; subst. reflexivity.
  Qed.

  Lemma step_noline g o : line_of g o = None -> (forall ns t v b, o <> UpdateFw ns t v b) ->
    frame g (step orc clock g o).
  Proof.
    destruct o as [l0| |s c vt v mt a|ns t v b|b]; cbn [line_of step]; intros L NU.
    - unfold recv. destruct (cf_async (g_cf g)); [discriminate|apply frame_set_jobs].
    - unfold pump. destruct (g_jobs g) as [|[l0|l0] r]; [apply frame_refl|discriminate|].
      eapply frame_trans; [apply frame_set_jobs|apply frame_send].
    - destruct (set_child_value orc g s c vt v mt a) eqn:E; [eapply frame_set_child_value; exact E|apply frame_emit].
    - exfalso. eapply NU. reflexivity.
    - apply frame_set_metric.
  Qed.

  (* C10's state invariant *)
  Definition SInv (g : gw) : Prop := sess_inv (g_ota g) /\ ids_ok g.

  Lemma SInv_init cf : SInv (gw_init cf).
  Proof. split; [apply sess_inv_init|apply ids_ok_init]. Qed.

  Lemma SInv_frame g g' : frame g g' -> SInv g -> SInv g'.
  Proof. intros (O & _ & _ & F) [S I]. split; [rewrite O; exact S|apply F; exact I]. Qed.

  (* how one step may move the session of node n *)
  Inductive moved (g : gw) (o : op) (n : Z) (s s' : session) : Prop :=
  | mv_request : forall i, is_update i = false -> s' = fst (sstep s i) -> moved g o n s s'
  | mv_update : forall ns tt vv bin k,
      o = UpdateFw ns tt vv bin -> update_key g tt vv bin = Some k -> zmem n ns = true -> known g n = true ->
      s' = Requested k -> moved g o n s s'.

  Lemma moved_same g o n s : moved g o n s s.
  Proof. apply (mv_request g o n s s Malformed); reflexivity. Qed.

  Lemma stream_input_not_update m i : stream_input m = Some i -> is_update i = false.
  Proof.
    unfold stream_input, cfg_input, blk_input.
    destruct (m_sub m =? 0).
    - intro H; inversion H. destruct (fw_hex_to_int (m_payload m) 5); reflexivity.
    - destruct (m_sub m =? 2); [|discriminate]. intro H; inversion H.
      destruct (fw_hex_to_int (m_payload m) 3) as [[|a [|b [|c [|d e]]]]|]; reflexivity.
  Qed.

  (* the dispatcher on any line: invariant kept; each session moves by a non-update input *)
  Lemma logic_weak g l g1 r : cfg_ok (g_cf g) -> SInv g -> logic orc clock g l = Ok (g1, r) ->
    SInv g1 /\ g_cf g1 = g_cf g /\ (forall n, known g n = true -> known g1 n = true) /\
    o_fw (g_ota g1) = o_fw (g_ota g) /\
    forall n, exists i, is_update i = false /\ abs (g_ota g1) n = fst (sstep (abs (g_ota g) n) i).
  Proof.
    intros C [S I] E.
    assert (SAME : forall g', frame g g' -> SInv g' /\ g_cf g' = g_cf g /\
              (forall n, known g n = true -> known g' n = true) /\
              o_fw (g_ota g') = o_fw (g_ota g) /\
              forall n, exists i, is_update i = false /\ abs (g_ota g') n = fst (sstep (abs (g_ota g) n) i)).
    { intros g' F. split; [eapply SInv_frame; [exact F|split; assumption]|].
      destruct F as (O & CF & K & _). split; [exact CF|]. split; [exact K|]. split; [rewrite O; reflexivity|].
      intro n. exists Malformed. rewrite O. split; reflexivity. }
    destruct (decode l) as [m|] eqn:D.
    2:{ rewrite (rejected_is_noop orc clock g l (or_introl D)) in E. inversion E; subst. apply SAME, frame_refl. }
    destruct (gvalidate orc g m) eqn:V.
    2:{ rewrite (rejected_is_noop orc clock g l) in E by (right; exists m; auto).
        inversion E; subst. apply SAME, frame_refl. }
    destruct (Z.eq_dec (m_type m) 4) as [T|NT].
    - destruct (known g (m_node m)) eqn:K.
      + destruct (stream_input m) as [i|] eqn:IN.
        * destruct (logic_stream_request orc clock g l m i C S D V T K IN)
            as (g' & EL & S' & FW & AB & OT & (C1 & S1 & _) & _).
          rewrite EL in E. destruct (offer_reply _ m _) as [rm|e]; cbn [bind] in E; [|discriminate].
          inversion E; subst g1 r. split; [split; [exact S'|unfold ids_ok; rewrite S1; exact I]|].
          split; [exact C1|]. split; [unfold known; rewrite S1; auto|]. split; [exact FW|].
          intro n. destruct (Z.eq_dec n (m_node m)) as [->|DN].
          -- exists i. split; [eapply stream_input_not_update; exact IN|exact AB].
          -- exists Malformed. split; [reflexivity|]. apply OT. exact DN.
        * rewrite (logic_stream_other orc clock g l m C D V T K IN) in E. inversion E; subst.
          apply SAME, frame_refl.
      + rewrite (logic_stream_unknown orc clock g l m C D V T K) in E. inversion E; subst.
        apply SAME. destruct (cf_ge20 (g_cf g)); [apply frame_add_job|apply frame_refl].
    - destruct (Z.eq_dec (m_type m) 0) as [T0|NT0].
      + destruct (Z.eq_dec (m_child m) 255) as [CH|NCH].
        * destruct (logic_node_presentation orc clock g l m C D V T0 CH) as (g' & EL & O & CF & KN & _ & F).
          rewrite EL in E. inversion E; subst g1 r. destruct (F I) as (I' & _).
          split; [split; [rewrite O; exact S|exact I']|]. split; [exact CF|]. split; [exact KN|].
          split; [rewrite O; reflexivity|].
          intro n. exists Malformed. rewrite O. split; reflexivity.
        * apply SAME. eapply logic_other_frame; try eassumption. tauto.
      + apply SAME. eapply logic_other_frame; try eassumption. tauto.
  Qed.

  (* the firmware dictionary after a step: unchanged, or the image of an effective update stored *)
  Definition fw_after (g : gw) (o : op) (fws : list ((Z * Z) * fware)) : Prop :=
    fws = o_fw (g_ota g) \/
    exists ns tt vv b t v, o = UpdateFw ns tt vv (Some b) /\ update_key g tt vv (Some b) = Some (t, v) /\
                           fws = fw_store t v (prepare_fw b) (o_fw (g_ota g)).

  Theorem step_weak g o : cfg_ok (g_cf g) -> SInv g ->
    SInv (step orc clock g o) /\ g_cf (step orc clock g o) = g_cf g /\
    (forall n, known g n = true -> known (step orc clock g o) n = true) /\
    fw_after g o (o_fw (g_ota (step orc clock g o))) /\
    forall n, moved g o n (abs (g_ota g) n) (abs (g_ota (step orc clock g o)) n).
  Proof.
    intros C SI.
    assert (SAME : forall g', frame g g' -> SInv g' /\ g_cf g' = g_cf g /\
              (forall n, known g n = true -> known g' n = true) /\
              fw_after g o (o_fw (g_ota g')) /\
              forall n, moved g o n (abs (g_ota g) n) (abs (g_ota g') n)).
    { intros g' F. split; [eapply SInv_frame; eassumption|].
      destruct F as (O & CF & K & _). split; [exact CF|]. split; [exact K|].
      split; [left; rewrite O; reflexivity|].
      intro n. rewrite O. apply moved_same. }
    destruct (line_of g o) as [l|] eqn:L.
    - rewrite (step_line g o l L).
      destruct (pre_state_frame g o) as [F0 S0].
      pose proof (SInv_frame _ _ F0 SI) as SI0.
      destruct F0 as (O0 & C0 & K0 & _).
      assert (Cg0 : cfg_ok (g_cf (pre_state g o))) by (rewrite C0; exact C).
      destruct (logic orc clock (pre_state g o) l) as [[g1 r]|e] eqn:E.
      + destruct (logic_weak _ _ _ _ Cg0 SI0 E) as (SI1 & C1 & K1 & FW1 & MV).
        assert (FS : frame g1 (match r with Some x => send g1 x | None => g1 end))
          by (destruct r; [apply frame_send|apply frame_refl]).
        destruct r as [x|].
        * split; [eapply SInv_frame; eassumption|]. destruct FS as (O2 & C2 & K2 & _).
          split; [congruence|]. split; [auto|]. split; [left; congruence|].
          intro n. destruct (MV n) as (i & NU & AB). rewrite O2, AB, O0. eapply mv_request; [exact NU|reflexivity].
        * split; [exact SI1|]. split; [congruence|]. split; [auto|]. split; [left; congruence|].
          intro n. destruct (MV n) as (i & NU & AB). rewrite AB, O0. eapply mv_request; [exact NU|reflexivity].
      + apply SAME. eapply frame_trans; [apply pre_state_frame|apply frame_emit].
    - destruct o as [l0| |s c vt v mt a|ns t v b|b];
        try (apply SAME; apply step_noline; [exact L|intros; discriminate]).
      cbn [step]. destruct SI as [S I].
      destruct (update_fw_spec g ns t v b S I) as (g' & E & S' & I' & CF & _ & _ & _ & _ & KN & SPEC).
      rewrite E. split; [split; assumption|]. split; [exact CF|]. split; [intros n K; rewrite KN; exact K|].
      destruct (update_key g t v b) as [[t0 v0]|] eqn:UK.
      + destruct SPEC as (_ & _ & _ & _ & _ & FW & AB & _). split.
        * destruct b as [b|]; [right; exists ns, t, v, b, t0, v0; auto|left; exact FW].
        * intro n. rewrite AB.
          destruct (zmem n ns) eqn:Z; cbn [andb]; [|apply moved_same].
          destruct (known g n) eqn:K; [|apply moved_same].
          eapply mv_update; [reflexivity|exact UK|exact Z|exact K|reflexivity].
      + destruct SPEC as (SS & FW & _). split; [left; exact FW|].
        intro n. rewrite (same_sessions_abs _ _ n SS). apply moved_same.
  Qed.
End Steps.

(* ================================================================ K. histories *)

Lemma key_of_request s i : is_update i = false -> key_of (fst (sstep s i)) = key_of s.
Proof. destruct i as [k| |k b|]; [discriminate| | |]; intros _; destruct s; reflexivity. Qed.

(* an image is stored for the key of every scheduled session *)
Definition fw_avail (o : ota) : Prop :=
  forall n t v, key_of (abs o n) = Some (t, v) -> exists f, fw_lookup t v (o_fw o) = Some f.

Section Histories.
  Variable orc : oracles.
  Variable clock : Z.

  Lemma run_snoc g ops o : run orc clock g (ops ++ [o]) = step orc clock (run orc clock g ops) o.
  Proof. unfold run. rewrite fold_left_app. reflexivity. Qed.

  Lemma run_app g a b : run orc clock g (a ++ b) = run orc clock (run orc clock g a) b.
  Proof. unfold run. apply fold_left_app. Qed.

  (* 1. the invariant of every reachable state: abs is well defined *)
  Theorem run_SInv ops : forall g, cfg_ok (g_cf g) -> SInv g ->
    SInv (run orc clock g ops) /\ g_cf (run orc clock g ops) = g_cf g.
  Proof.
    induction ops as [|o ops IH]; intros g C SI; [split; [exact SI|reflexivity]|].
    destruct (step_weak orc clock g o C SI) as (SI1 & C1 & _).
    change (run orc clock g (o :: ops)) with (run orc clock (step orc clock g o) ops).
    destruct (IH (step orc clock g o)) as [SI2 C2]; [rewrite C1; exact C|exact SI1|].
    split; [exact SI2|congruence].
  Qed.

  Corollary reachable_SInv cf ops : cfg_ok cf ->
    SInv (run orc clock (gw_init cf) ops) /\ g_cf (run orc clock (gw_init cf) ops) = cf.
  Proof. intro C. exact (run_SInv ops (gw_init cf) C (SInv_init cf)). Qed.

  Lemma step_fw_avail g o : cfg_ok (g_cf g) -> SInv g -> fw_avail (g_ota g) ->
    fw_avail (g_ota (step orc clock g o)).
  Proof.
    intros C SI FA. destruct (step_weak orc clock g o C SI) as (_ & _ & _ & FW & MV).
    intros n t v KO. destruct (MV n) as [i NU AB|ns tt vv bin k EO UK Z K AB].
    - rewrite AB, (key_of_request _ _ NU) in KO. destruct (FA n t v KO) as [f LK].
      destruct FW as [-> |(ns & tt & vv & b & t0 & v0 & _ & _ & ->)]; [eauto|].
      destruct (Z.eq_dec t t0) as [->|Dt]; [destruct (Z.eq_dec v v0) as [->|Dv]|].
      + rewrite fw_lookup_store_same. eauto.
      + rewrite fw_lookup_store_other by congruence. eauto.
      + rewrite fw_lookup_store_other by congruence. eauto.
    - rewrite AB in KO. cbn [key_of] in KO. inversion KO; subst k. subst o.
      destruct SI as [S I].
      destruct (update_fw_spec g ns tt vv bin S I) as (g' & E & _ & _ & _ & _ & _ & _ & _ & _ & SPEC).
      cbn [step]. rewrite E. rewrite UK in SPEC. destruct SPEC as (_ & _ & _ & _ & AV & _). exact AV.
  Qed.

  Theorem reachable_fw_avail cf ops : cfg_ok cf -> fw_avail (g_ota (run orc clock (gw_init cf) ops)).
  Proof.
    intro C. induction ops as [|o ops IH] using rev_ind.
    - intros n t v KO. discriminate KO.
    - rewrite run_snoc. destruct (reachable_SInv cf ops C) as [SI CF].
      apply step_fw_avail; [rewrite CF; exact C|exact SI|exact IH].
  Qed.

  (* 3. gated: a session that is not Idle was scheduled, with its key, by an earlier update
     call that named the node while it was known, with type/version in range and firmware
     available after the call *)
  Theorem gated_history cf ops n k : cfg_ok cf ->
    key_of (abs (g_ota (run orc clock (gw_init cf) ops)) n) = Some k ->
    exists pre ns tt vv bin post,
      ops = pre ++ UpdateFw ns tt vv bin :: post /\
      update_key (run orc clock (gw_init cf) pre) tt vv bin = Some k /\
      zmem n ns = true /\ known (run orc clock (gw_init cf) pre) n = true.
  Proof.
    intro C. induction ops as [|o ops IH] using rev_ind; [discriminate|].
    rewrite run_snoc. destruct (reachable_SInv cf ops C) as [SI CF].
    assert (Cg : cfg_ok (g_cf (run orc clock (gw_init cf) ops))) by (rewrite CF; exact C).
    destruct (step_weak orc clock _ o Cg SI) as (_ & _ & _ & _ & MV).
    destruct (MV n) as [i NU AB|ns tt vv bin k' EO UK Z K AB]; intro KO.
    - rewrite AB, (key_of_request _ _ NU) in KO.
      destruct (IH KO) as (pre & ns & tt & vv & bin & post & E & REST).
      exists pre, ns, tt, vv, bin, (post ++ [o]). split; [|exact REST].
      rewrite E, <- app_assoc. reflexivity.
    - rewrite AB in KO. cbn [key_of] in KO. inversion KO; subst k'.
      exists ops, ns, tt, vv, bin, []. subst o. auto.
  Qed.

  (* what an effective update call means (the conditions of the property) *)
  Lemma update_key_sound g tt vv bin t v : update_key g tt vv bin = Some (t, v) ->
    vt_int tt = Some t /\ vt_int vv = Some v /\ 0 <= t <= 65535 /\ 0 <= v <= 65535 /\
    ((exists b0 br, bin = Some (b0 :: br)) \/
     (bin = None /\ exists f, fw_lookup t v (o_fw (g_ota g)) = Some f)).
  Proof.
    unfold update_key. destruct (vt_int tt) as [t0|]; [|discriminate].
    destruct (vt_int vv) as [v0|]; [|discriminate].
    destruct (word_ok t0 && word_ok v0) eqn:W; [|discriminate].
    apply andb_true_iff in W as [Wt Wv]. apply word_ok_iff in Wt, Wv.
    destruct bin as [[|b0 br]|]; [discriminate| |].
    - intro H; inversion H; subst. repeat split; try assumption; try lia. left. eauto.
    - destruct (fw_lookup t0 v0 (o_fw (g_ota g))) as [f|] eqn:L; [|discriminate].
      intro H; inversion H; subst. repeat split; try assumption; try lia. right. eauto.
  Qed.
End Histories.

(* ================================================================ L. the reboot window *)
Section Reboot.
  Variable orc : oracles.
  Variable clock : Z.

  (* does this step run the dispatcher on an accepted node presentation (child 255) of node n? *)
  Definition presents (g : gw) (o : op) (n : Z) : bool :=
    match line_of g o with
    | Some l => match decode l with
                | Some m => gvalidate orc g m && (m_type m =? 0) && (m_child m =? 255) && (m_node m =? n)
                | None => false
                end
    | None => false
    end.
  (* is this step an update call that schedules node n (named, known, effective)? with which key? *)
  Definition schedules (g : gw) (o : op) (n : Z) : option fwkey :=
    match o with
    | UpdateFw ns ft fv bin => if zmem n ns && known g n then update_key g ft fv bin else None
    | _ => None
    end.

  Lemma nframe_flags g g' n : nframe g g' -> ids_ok g -> reboot_flag g' n = reboot_flag g n.
  Proof. intros (_ & _ & F) I. apply F. exact I. Qed.

  Lemma logic_stream_nframe g l m g1 r :
    cfg_ok (g_cf g) -> sess_inv (g_ota g) -> decode l = Some m -> gvalidate orc g m = true -> m_type m = 4 ->
    logic orc clock g l = Ok (g1, r) -> nframe g g1.
  Proof.
    intros C S D V T E.
    destruct (known g (m_node m)) eqn:K.
    - destruct (stream_input m) as [i|] eqn:IN.
      + destruct (logic_stream_request orc clock g l m i C S D V T K IN)
          as (g' & EL & _ & _ & _ & _ & (C1 & S1 & _) & _).
        rewrite EL in E. destruct (offer_reply _ m _) as [rm|e]; cbn [bind] in E; [|discriminate].
        inversion E; subst g1 r. apply nframe_same; assumption.
      + rewrite (logic_stream_other orc clock g l m C D V T K IN) in E. inversion E; subst. apply nframe_refl.
    - rewrite (logic_stream_unknown orc clock g l m C D V T K) in E. inversion E; subst.
      destruct (cf_ge20 (g_cf g)); [apply frame_add_job|apply nframe_refl].
  Qed.

  Lemma pre_state_facts g o :
    g_sensors (pre_state g o) = g_sensors g /\ g_ota (pre_state g o) = g_ota g /\
    g_cf (pre_state g o) = g_cf g /\ forall m, gvalidate orc (pre_state g o) m = gvalidate orc g m.
  Proof. destruct o; repeat split; reflexivity. Qed.

  (* 5. the flag after a step, exactly: set by a scheduling update call, cleared by a node
     presentation, untouched by everything else *)
  Theorem reboot_flag_step g o n : cfg_ok (g_cf g) -> SInv g ->
    reboot_flag (step orc clock g o) n =
      match schedules g o n with
      | Some _ => true
      | None => if presents g o n then false else reboot_flag g n
      end.
  Proof.
    intros C [S I]. unfold presents.
    destruct (line_of g o) as [l|] eqn:L.
    - assert (SC : schedules g o n = None) by (destruct o; try reflexivity; discriminate L). rewrite SC.
      rewrite (step_line orc clock g o l L).
      destruct (pre_state_facts g o) as (PS & PO & PC & PV).
      set (g0 := pre_state g o) in *.
      assert (C0 : cfg_ok (g_cf g0)) by (rewrite PC; exact C).
      assert (S0 : sess_inv (g_ota g0)) by (rewrite PO; exact S).
      assert (I0 : ids_ok g0) by (unfold ids_ok; rewrite PS; exact I).
      assert (R0 : forall k, reboot_flag g0 k = reboot_flag g k) by (intro k; unfold reboot_flag, get_node; rewrite PS; reflexivity).
      assert (SAME : forall g1 r, nframe g0 g1 ->
                reboot_flag (match r with Some x => send g1 x | None => g1 end) n = reboot_flag g n).
      { intros g1 r F. rewrite <- R0, <- (nframe_flags g0 g1 n F I0).
        destruct r; [|reflexivity]. destruct (frame_send g1 p) as [_ F2].
        apply (nframe_flags _ _ n F2). destruct F as (_ & _ & F). apply F. exact I0. }
      destruct (decode l) as [m|] eqn:D.
      2:{ rewrite (rejected_is_noop orc clock g0 l (or_introl D)). apply R0. }
      rewrite <- PV.
      destruct (gvalidate orc g0 m) eqn:V; cbn [andb].
      2:{ rewrite (rejected_is_noop orc clock g0 l) by (right; exists m; auto). apply R0. }
      destruct (Z.eqb_spec (m_type m) 0) as [T0|NT0]; cbn [andb].
      + destruct (Z.eqb_spec (m_child m) 255) as [CH|NCH]; cbn [andb].
        * destruct (logic_node_presentation orc clock g0 l m C0 D V T0 CH) as (g' & EL & _ & _ & _ & _ & F).
          rewrite EL. destruct (F I0) as (_ & RF & RO).
          destruct (Z.eqb_spec (m_node m) n) as [<-|DN]; [exact RF|].
          rewrite RO by congruence. apply R0.
        * destruct (logic orc clock g0 l) as [[g1 r]|e] eqn:E; [|rewrite <- R0; reflexivity].
          apply SAME. eapply logic_other_frame; try eassumption; [lia|tauto].
      + destruct (logic orc clock g0 l) as [[g1 r]|e] eqn:E; [|rewrite <- R0; reflexivity].
        apply SAME. destruct (Z.eq_dec (m_type m) 4) as [T4|NT4].
        * eapply logic_stream_nframe; eassumption.
        * eapply logic_other_frame; try eassumption. tauto.
    - destruct o as [l0| |s c vt v mt a|ns t v b|b];
        try (cbn [schedules]; apply nframe_flags; [|exact I];
             apply (step_noline orc clock); [exact L|intros; discriminate]).
      cbn [step schedules].
      destruct (update_fw_spec g ns t v b S I) as (g' & E & _ & _ & _ & _ & _ & _ & _ & _ & SPEC).
      rewrite E. destruct (update_key g t v b) as [[t0 v0]|] eqn:UK.
      + destruct SPEC as (_ & _ & _ & _ & _ & _ & _ & RF). rewrite RF.
        destruct (zmem n ns && known g n); reflexivity.
      + destruct SPEC as (_ & _ & SS). unfold reboot_flag, get_node. rewrite SS.
        destruct (zmem n ns && known g n); reflexivity.
  Qed.
End Reboot.

(* ================================================================ M. which requests are malformed *)

Definition is_hexdigit (c : N) : bool := match hexval c with Some _ => true | None => false end.
(* exactly 4 hex digits (either case) per 16-bit word, nothing else *)
Definition hex_request_ok (s : pstr) (words : nat) : bool :=
  Nat.eqb (List.length s) (4 * words) && forallb is_hexdigit s.

Lemma is_hexdigit_ascii c : is_hexdigit c = true -> (c <? 128)%N = true.
Proof.
  unfold is_hexdigit, hexval. intro H. apply N.ltb_lt.
  destruct ((48 <=? c) && (c <=? 57))%N eqn:A; [apply andb_true_iff in A as [_ A]; apply N.leb_le in A; lia|].
  destruct ((65 <=? c) && (c <=? 70))%N eqn:B; [apply andb_true_iff in B as [_ B]; apply N.leb_le in B; lia|].
  destruct ((97 <=? c) && (c <=? 102))%N eqn:D; [apply andb_true_iff in D as [_ D]; apply N.leb_le in D; lia|].
  discriminate.
Qed.

Lemma unhex_pairs_some : forall s b, unhex_pairs s = Some b ->
  forallb is_hexdigit s = true /\ List.length s = (2 * List.length b)%nat.
Proof.
  fix IH 1. intros s b. destruct s as [|a [|c r]].
  - intro H; inversion H. split; reflexivity.
  - discriminate.
  - rewrite unhex_pairs_cons2.
    destruct (hexval a) as [x|] eqn:Ea; [|discriminate].
    destruct (hexval c) as [y|] eqn:Ec; [|discriminate].
    destruct (unhex_pairs r) as [b'|] eqn:Er; [|discriminate].
    unfold option_map. intro H. inversion H; subst b. destruct (IH r b' Er) as [F L].
    split.
    + cbn [forallb]. unfold is_hexdigit at 1 2. rewrite Ea, Ec. exact F.
    + cbn [List.length]. rewrite L. lia.
Qed.

Lemma unhex_pairs_complete : forall s, Nat.even (List.length s) = true -> forallb is_hexdigit s = true ->
  exists b, unhex_pairs s = Some b.
Proof.
  fix IH 1. intros s. destruct s as [|a [|c r]].
  - intros _ _. exists []. reflexivity.
  - discriminate.
  - intros E F. rewrite unhex_pairs_cons2. cbn [forallb] in F.
    apply andb_true_iff in F as [Fa F]. apply andb_true_iff in F as [Fc F].
    unfold is_hexdigit in Fa, Fc.
    destruct (hexval a) as [x|]; [|discriminate]. destruct (hexval c) as [y|]; [|discriminate].
    destruct (IH r) as [b' Er]; [exact E|exact F|]. rewrite Er. eexists. reflexivity.
Qed.

Lemma odd_four n : Nat.odd (4 * n) = false.
Proof. replace (4 * n)%nat with (2 * (2 * n))%nat by lia. apply odd_double. Qed.

Theorem fw_hex_to_int_ok_iff s n : (exists ws, fw_hex_to_int s n = Ok ws) <-> hex_request_ok s n = true.
Proof.
  unfold hex_request_ok, fw_hex_to_int, unhexlify. split.
  - intros [ws H].
    destruct (negb (is_ascii s)); [discriminate|].
    destruct (Nat.odd (List.length s)); [discriminate|].
    destruct (unhex_pairs s) as [b|] eqn:U; cbn [of_option bind] in H; [|discriminate].
    destruct (unhex_pairs_some s b U) as [F L]. rewrite F, andb_true_r.
    unfold unpack_le16 in H. destruct (Nat.eqb (List.length b) (2 * n)) eqn:E; [|discriminate].
    apply Nat.eqb_eq in E. apply Nat.eqb_eq. lia.
  - intro H. apply andb_true_iff in H as [L F]. apply Nat.eqb_eq in L.
    assert (A : is_ascii s = true).
    { unfold is_ascii. rewrite forallb_forall in *. intros c I. apply is_hexdigit_ascii. apply F. exact I. }
    rewrite A. cbn [negb]. rewrite L, odd_four.
    destruct (unhex_pairs_complete s) as [b U]; [|exact F|].
    { rewrite L. rewrite <- Nat.negb_odd, odd_four. reflexivity. }
    rewrite U. cbn [of_option bind]. destruct (unhex_pairs_some s b U) as [_ L2].
    unfold unpack_le16. replace (Nat.eqb (List.length b) (2 * n)) with true; [eauto|].
    symmetry. apply Nat.eqb_eq. lia.
Qed.

(* a request is malformed (raises inside the try) iff its payload is not exactly 4*words hex digits *)
Theorem fw_hex_to_int_raises_iff s n : (exists e, fw_hex_to_int s n = Raise e) <-> hex_request_ok s n = false.
Proof.
  destruct (hex_request_ok s n) eqn:H.
  - apply fw_hex_to_int_ok_iff in H as [ws E]. rewrite E. split; [intros [e X]; discriminate|discriminate].
  - split; [reflexivity|]. intros _. destruct (fw_hex_to_int s n) as [ws|e] eqn:E; [|eauto].
    assert (X : hex_request_ok s n = true) by (apply fw_hex_to_int_ok_iff; eauto). congruence.
Qed.

(* ================================================================ N. the reboot reply of handle_set *)

Definition reboot_msg (n : Z) : msg := mkMsg n 255 3 0 13 [].

Section SetReboot.
  Variable orc : oracles.
  Variable clock : Z.

  Lemma is_sensor_known_child g n c nd :
    get_node g n = Some nd -> zhas c (n_children nd) = true -> is_sensor g n (Some c) = Ok (g, true).
  Proof. intros G Z. unfold is_sensor. rewrite G, Z. reflexivity. Qed.

  (* set message from a KNOWN child: value stored, alert, and the reboot request iff the flag is set *)
  Theorem handle_set_known_child g m nd :
    tabfacts (tab g) (cf_ge20 (g_cf g)) -> wire_ok (m_payload m) = true ->
    get_node g (m_node m) = Some nd -> zhas (m_child m) (n_children nd) = true ->
    handle_set g m =
      Ok (alert (put_node g (update_child_value nd (m_child m) (m_sub m) (m_payload m))) m,
          if n_reboot nd then Some (reboot_msg (m_node m)) else None).
  Proof.
    intros TF W G Z. unfold handle_set. rewrite (is_sensor_known_child g _ _ nd G Z). cbn [bind negb].
    rewrite G. destruct (update_child_value_fields nd (m_child m) (m_sub m) (m_payload m)) as (_ & -> & _).
    destruct (n_reboot nd); [|reflexivity].
    unfold internal_member. rewrite (tf_reboot _ _ TF). cbn [of_option bind].
    rewrite (copy_spec _ _ W). cbn [bind]. rewrite (tf_internal _ _ TF). reflexivity.
  Qed.

  (* set message for a child the gateway does not know: no reboot request (no reply at all) *)
  Theorem handle_set_unknown_child g m g1 r :
    (forall nd, get_node g (m_node m) = Some nd -> zhas (m_child m) (n_children nd) = false) ->
    handle_set g m = Ok (g1, r) -> r = None.
  Proof.
    intros U. unfold handle_set.
    destruct (is_sensor g (m_node m) (Some (m_child m))) as [[g2 b]|e] eqn:E; cbn [bind]; [|discriminate].
    destruct b; cbn [negb]; [|intro H; inversion H; reflexivity].
    apply is_sensor_true in E as (_ & nd & G & K). specialize (K _ eq_refl). rewrite (U nd G) in K. discriminate.
  Qed.

  (* at the level of the dispatcher: answered at once when the node is awake, queued for its
     next wake-up when it is a smart-sleep node *)
  Theorem logic_set_reboot g l m nd :
    cfg_ok (g_cf g) -> ids_ok g -> decode l = Some m -> gvalidate orc g m = true -> m_type m = 1 ->
    get_node g (m_node m) = Some nd -> zhas (m_child m) (n_children nd) = true -> n_reboot nd = true ->
    exists g', logic orc clock g l =
                 Ok (g', if sleeping nd then None else Some (encode (reboot_msg (m_node m)))) /\
      frame g g' /\
      (sleeping nd = true -> exists nd', get_node g' (m_node m) = Some nd' /\
           n_queue nd' = n_queue nd ++ [encode (reboot_msg (m_node m))]).
  Proof.
    intros C I D V T G Z RB. pose proof (tabfacts_of_cfg g C) as TF.
    pose proof (decoded_payload_wire_ok _ _ D) as W.
    destruct (logic_dispatch orc clock g l m C D V) as (h & HC & EL).
    assert (h = HSet) by (destruct HC as [[A B]|[[A B]|[[A B]|[[A B]|[A B]]]]]; congruence). subst h.
    rewrite EL. unfold run_handler, post_route. rewrite (handle_set_known_child g m nd TF W G Z), RB. cbn [bind].
    set (nd1 := update_child_value nd (m_child m) (m_sub m) (m_payload m)).
    destruct (update_child_value_fields nd (m_child m) (m_sub m) (m_payload m)) as (U1 & U2 & U3). fold nd1 in U1, U2, U3.
    set (g1 := alert (put_node g nd1) m).
    assert (F1 : frame g g1).
    { eapply frame_trans; [eapply frame_put; [exact G|exact U1|exact U2]|apply frame_alert]. }
    assert (G1 : get_node g1 (m_node m) = Some nd1).
    { unfold g1, get_node. destruct (alert_frame (put_node g nd1) m) as (-> & _).
      fold (get_node (put_node g nd1) (m_node m)). rewrite get_node_put, U1, (ids_ok_get g _ _ I G), Z.eqb_refl.
      reflexivity. }
    unfold route_opt, route. cbn [m_type m_node reboot_msg].
    assert (TG : tab g1 = tab g) by (unfold tab; destruct F1 as (_ & -> & _); reflexivity).
    rewrite TG, (tf_presentation _ _ TF), (tf_stream _ _ TF), G1, U3. cbn [Z.eqb orb].
    destruct (sleeping nd) eqn:SL; cbn [negb].
    - eexists. split; [reflexivity|]. split.
      + eapply frame_trans; [exact F1|]. eapply frame_put; [exact G1|reflexivity|reflexivity].
      + intros _. eexists. rewrite get_node_put. cbn [n_id]. rewrite U1, (ids_ok_get g _ _ I G), Z.eqb_refl.
        split; [reflexivity|]. cbn [n_queue]. unfold nd1, update_child_value.
        destruct (zassoc (m_child m) (n_children nd)); [|reflexivity].
        destruct (zassoc (m_child m) (n_new nd)); reflexivity.
    - exists g1. split; [reflexivity|]. split; [exact F1|discriminate].
  Qed.

  Theorem logic_set_no_reboot g l m nd :
    cfg_ok (g_cf g) -> decode l = Some m -> gvalidate orc g m = true -> m_type m = 1 ->
    get_node g (m_node m) = Some nd -> zhas (m_child m) (n_children nd) = true -> n_reboot nd = false ->
    exists g', logic orc clock g l = Ok (g', None).
  Proof.
    intros C D V T G Z RB. pose proof (tabfacts_of_cfg g C) as TF.
    pose proof (decoded_payload_wire_ok _ _ D) as W.
    destruct (logic_dispatch orc clock g l m C D V) as (h & HC & EL).
    assert (h = HSet) by (destruct HC as [[A B]|[[A B]|[[A B]|[[A B]|[A B]]]]]; congruence). subst h.
    rewrite EL. unfold run_handler, post_route. rewrite (handle_set_known_child g m nd TF W G Z), RB. cbn [bind].
    eexists. reflexivity.
  Qed.
End SetReboot.

(* ================================================================ O. which lines are answered with stream messages *)
Section Gating.
  Variable orc : oracles.
  Variable clock : Z.

  Lemma route_some g m g' x : route g m = (g', Some x) -> x = m.
  Proof.
    unfold route. destruct (m_type m =? vt_presentation (tab g)); [discriminate|].
    destruct (get_node g (m_node m)) as [nd|]; [|intro H; inversion H; reflexivity].
    destruct ((m_type m =? vt_stream (tab g)) || negb (sleeping nd)); [intro H; inversion H; reflexivity|discriminate].
  Qed.

  Lemma copy_type m r x : wire_ok (m_payload m) = true -> copy m r = Ok x -> m_type x = ov (r_type r) (m_type m).
  Proof. intros W. rewrite (copy_spec _ _ W). intro H; inversion H. reflexivity. Qed.

  Lemma run_leaf_reply_type h g m g' x : is_fw_leaf h = false -> wire_ok (m_payload m) = true ->
    run_leaf orc clock h g m = Ok (g', Some x) -> m_type x = m_type m.
  Proof.
    intros NF W. destruct h; try discriminate NF; unfold run_leaf; try discriminate.
    - unfold handle_id_request. destruct (next_id g) as [nid|]; [|discriminate].
      destruct (negb (zhas nid (g_sensors (add_sensor g nid)))); [discriminate|].
      destruct (internal_member g "I_ID_RESPONSE"); cbn [bind]; [|discriminate].
      destruct (copy m _) eqn:E; cbn [bind]; [|discriminate]. intro H; inversion H; subst.
      apply (copy_type _ _ _ W E).
    - unfold handle_config. destruct (copy m _) eqn:E; cbn [bind]; [|discriminate]. intro H; inversion H; subst.
      apply (copy_type _ _ _ W E).
    - unfold handle_time. destruct (copy m _) eqn:E; cbn [bind]; [|discriminate]. intro H; inversion H; subst.
      apply (copy_type _ _ _ W E).
    - unfold node_attr_handler. destruct (is_sensor g (m_node m) None) as [[g1 b]|]; cbn [bind]; [|discriminate].
      destruct (negb b); [discriminate|]. destruct (get_node g1 (m_node m)); discriminate.
    - unfold node_attr_handler. destruct (is_sensor g (m_node m) None) as [[g1 b]|]; cbn [bind]; [|discriminate].
      destruct (negb b); [discriminate|]. destruct (get_node g1 (m_node m)); discriminate.
    - unfold node_attr_handler. destruct (is_sensor g (m_node m) None) as [[g1 b]|]; cbn [bind]; [|discriminate].
      destruct (negb b); [discriminate|]. destruct (get_node g1 (m_node m)); discriminate.
    - unfold handle_gateway_ready_20. destruct (internal_member g "I_DISCOVER"); cbn [bind]; [|discriminate].
      destruct (copy m _) eqn:E; cbn [bind]; [|discriminate]. intro H; inversion H; subst.
      apply (copy_type _ _ _ W E).
    - unfold handle_heartbeat_response.
      destruct (is_sensor g (m_node m) None) as [[g1 b]|]; cbn [bind]; [|discriminate].
      destruct (negb b); [discriminate|]. destruct (get_node g1 (m_node m)); [|discriminate].
      destruct (handle_smartsleep orc g1 n) as [g2|]; cbn [bind]; [|discriminate].
      destruct (get_node g2 (m_node m)); discriminate.
    - unfold handle_discover_response. destruct (is_sensor g (m_node m) None); cbn [bind]; discriminate.
    - unfold node_attr_handler. destruct (is_sensor g (m_node m) None) as [[g1 b]|]; cbn [bind]; [|discriminate].
      destruct (negb b); [discriminate|]. destruct (get_node g1 (m_node m)); discriminate.
    - unfold handle_pre_sleep. destruct (is_sensor g (m_node m) None) as [[g1 b]|]; cbn [bind]; [|discriminate].
      destruct (negb b); [discriminate|]. destruct (get_node g1 (m_node m)); [|discriminate].
      destruct (handle_smartsleep orc g1 n); cbn [bind]; discriminate.
  Qed.

  (* an accepted line that is not a stream message is never answered with a stream message *)
  Theorem non_stream_reply g l m g' rl :
    cfg_ok (g_cf g) -> decode l = Some m -> gvalidate orc g m = true -> m_type m <> 4 ->
    logic orc clock g l = Ok (g', Some rl) -> exists x, rl = encode x /\ m_type x <> 4.
  Proof.
    intros C D V NS. pose proof (tabfacts_of_cfg g C) as TF.
    pose proof (decoded_payload_wire_ok _ _ D) as W.
    destruct (logic_dispatch orc clock g l m C D V) as (h & HC & EL). rewrite EL. unfold post_route.
    destruct (run_handler orc clock h g m) as [[g1 reply]|e] eqn:RH; cbn [bind]; [|discriminate].
    destruct reply as [x|]; [|cbn; discriminate].
    unfold route_opt. destruct (route g1 x) as [g2 routed] eqn:RT.
    destruct routed as [y|]; [|cbn; discriminate].
    apply route_some in RT. subst y. cbn [option_map]. intro H; inversion H; subst. exists x. split; [reflexivity|].
    destruct HC as [[A B]|[[A B]|[[A B]|[[A B]|[A B]]]]]; subst h; unfold run_handler in RH; [| | | |contradiction].
    - unfold handle_presentation in RH. destruct (m_child m =? system_child_id).
      + destruct (get_node (add_sensor g (m_node m)) (m_node m)); [|discriminate]. inversion RH; subst. lia.
      + destruct (is_sensor g (m_node m) None) as [[g3 b]|]; cbn [bind] in RH; [|discriminate].
        destruct (negb b); [discriminate|]. destruct (get_node g3 (m_node m)) as [nd|]; [|discriminate].
        destruct (zhas (m_child m) (n_children nd)); [discriminate|]. inversion RH; subst. lia.
    - unfold handle_set in RH.
      destruct (is_sensor g (m_node m) (Some (m_child m))) as [[g3 b]|]; cbn [bind] in RH; [|discriminate].
      destruct (negb b); [discriminate|]. destruct (get_node g3 (m_node m)) as [nd|]; [|discriminate].
      destruct (n_reboot _); [|discriminate].
      destruct (internal_member g "I_REBOOT"); cbn [bind] in RH; [|discriminate].
      destruct (copy m _) eqn:E; cbn [bind] in RH; [|discriminate]. inversion RH; subst.
      rewrite (copy_type _ _ _ W E). cbn. rewrite (tf_internal _ _ TF). lia.
    - unfold handle_req in RH.
      destruct (is_sensor g (m_node m) (Some (m_child m))) as [[g3 b]|]; cbn [bind] in RH; [|discriminate].
      destruct (negb b); [discriminate|]. destruct (get_node g3 (m_node m)) as [nd|]; [|discriminate].
      destruct (get_desired_value nd (m_child m) (m_sub m)); [|discriminate].
      destruct (copy m _) eqn:E; cbn [bind] in RH; [|discriminate]. inversion RH; subst.
      rewrite (copy_type _ _ _ W E). cbn. rewrite (tf_set _ _ TF). lia.
    - unfold handle_internal in RH. rewrite A in RH.
      destruct (sub_handler (tab g) 3 (m_sub m)) as [h|] eqn:SH; [|discriminate].
      rewrite (run_leaf_reply_type h g m g1 x (tf_internal_handlers _ _ TF _ _ SH) W RH). lia.
  Qed.

  (* an accepted stream line is answered only when its node is known and scheduled, and only with
     the response matching the request: config request in Requested/Offered -> config response
     (sub-type 1); block request in Offered/Fetching -> block response (sub-type 3) *)
  Theorem stream_reply_gated g l m g' rl :
    cfg_ok (g_cf g) -> sess_inv (g_ota g) -> decode l = Some m -> gvalidate orc g m = true -> m_type m = 4 ->
    logic orc clock g l = Ok (g', Some rl) ->
    known g (m_node m) = true /\
    exists x k, rl = encode x /\ m_node x = m_node m /\ m_type x = 4 /\
      ((m_sub m = 0 /\ m_sub x = 1 /\
        (abs (g_ota g) (m_node m) = Requested k \/ abs (g_ota g) (m_node m) = Offered k)) \/
       (m_sub m = 2 /\ m_sub x = 3 /\
        (abs (g_ota g) (m_node m) = Offered k \/ abs (g_ota g) (m_node m) = Fetching k))).
  Proof.
    intros C S D V T E.
    destruct (known g (m_node m)) eqn:K.
    2:{ rewrite (logic_stream_unknown orc clock g l m C D V T K) in E. discriminate. }
    split; [reflexivity|].
    destruct (stream_input m) as [i|] eqn:IN.
    2:{ rewrite (logic_stream_other orc clock g l m C D V T K IN) in E. discriminate. }
    destruct (logic_stream_request orc clock g l m i C S D V T K IN) as (g1 & EL & _).
    rewrite EL in E. clear EL.
    destruct (offer_reply (o_fw (g_ota g)) m (snd (sstep (abs (g_ota g) (m_node m)) i))) as [[x|]|e] eqn:OR;
      cbn [bind option_map] in E; try discriminate.
    inversion E; subst g1 rl. clear E.
    destruct (offer_reply_shape _ _ _ _ OR) as (TX & NX & _ & _ & SH).
    unfold stream_input in IN.
    destruct (Z.eqb_spec (m_sub m) 0) as [S0|NS0].
    - inversion IN; subst i. unfold cfg_input in *.
      destruct (fw_hex_to_int (m_payload m) 5);
        [|destruct SH as [(k & X & _)|(k & b & X & _)]; discriminate X].
      destruct (abs (g_ota g) (m_node m)) as [|k|k|k] eqn:AB; cbn [sstep snd] in SH;
        try (destruct SH as [(k' & X & _)|(k' & b & X & _)]; discriminate X).
      all: exists x, k; split; [reflexivity|]; split; [exact NX|]; split; [congruence|]; left;
           split; [exact S0|]; destruct SH as [(k' & X & SX)|(k' & b & X & _)]; [|discriminate X];
           split; [exact SX|auto].
    - destruct (Z.eqb_spec (m_sub m) 2) as [S2|NS2]; [|discriminate].
      inversion IN; subst i. unfold blk_input in *.
      destruct (fw_hex_to_int (m_payload m) 3) as [[|rt [|rv [|rb [|y z]]]]|];
        try (destruct SH as [(k & X & _)|(k & b & X & _)]; discriminate X).
      destruct (abs (g_ota g) (m_node m)) as [|k|k|k] eqn:AB; cbn [sstep snd] in SH;
        try (destruct SH as [(k' & X & _)|(k' & b & X & _)]; discriminate X).
      all: exists x, k; split; [reflexivity|]; split; [exact NX|]; split; [congruence|]; right;
           split; [exact S2|]; destruct SH as [(k' & X & _)|(k' & b & X & SX)]; [discriminate X|];
           split; [exact SX|auto].
  Qed.
End Gating.

(* ================================================================ P. exact steps and the corollaries in the words of the property *)
Section Exact.
  Variable orc : oracles.
  Variable clock : Z.

  (* the abstract input a line carries for node n in state g *)
  Definition request_of_line (g : gw) (l : pstr) (n : Z) : option sin :=
    match decode l with
    | Some m => if gvalidate orc g m && (m_type m =? 4) && (m_node m =? n) && known g n
                then stream_input m else None
    | None => None
    end.
  Definition request_of (g : gw) (o : op) (n : Z) : option sin :=
    match line_of g o with Some l => request_of_line g l n | None => None end.

  Lemma logic_session_exact g l g1 r n : cfg_ok (g_cf g) -> sess_inv (g_ota g) ->
    logic orc clock g l = Ok (g1, r) ->
    abs (g_ota g1) n = match request_of_line g l n with
                       | Some i => fst (sstep (abs (g_ota g) n) i)
                       | None => abs (g_ota g) n
                       end.
  Proof.
    intros C S E. unfold request_of_line.
    destruct (decode l) as [m|] eqn:D.
    2:{ rewrite (rejected_is_noop orc clock g l (or_introl D)) in E. inversion E; reflexivity. }
    destruct (gvalidate orc g m) eqn:V; cbn [andb].
    2:{ rewrite (rejected_is_noop orc clock g l) in E by (right; exists m; auto). inversion E; reflexivity. }
    destruct (Z.eqb_spec (m_type m) 4) as [T|NT]; cbn [andb].
    - destruct (known g (m_node m)) eqn:K.
      + destruct (stream_input m) as [i|] eqn:IN.
        * destruct (logic_stream_request orc clock g l m i C S D V T K IN) as (g' & EL & _ & _ & AB & OT & _).
          rewrite EL in E. destruct (offer_reply _ m _) as [rm|e]; cbn [bind] in E; [|discriminate].
          inversion E; subst g1 r.
          destruct (Z.eqb_spec (m_node m) n) as [<-|DN]; cbn [andb].
          -- rewrite K. exact AB.
          -- apply OT. congruence.
        * rewrite (logic_stream_other orc clock g l m C D V T K IN) in E. inversion E; subst.
          destruct ((m_node m =? n) && known g1 n); reflexivity.
      + rewrite (logic_stream_unknown orc clock g l m C D V T K) in E. inversion E; subst.
        assert (O : g_ota (if cf_ge20 (g_cf g) then add_job_send g (encode (mkMsg (m_node m) 255 3 0 19 [])) else g) = g_ota g).
        { destruct (cf_ge20 (g_cf g)); [apply frame_add_job|reflexivity]. }
        rewrite O. destruct (Z.eqb_spec (m_node m) n) as [<-|DN]; cbn [andb]; [rewrite K|]; reflexivity.
    - assert (O : g_ota g1 = g_ota g).
      { destruct (Z.eq_dec (m_type m) 0) as [T0|NT0]; [destruct (Z.eq_dec (m_child m) 255) as [CH|NCH]|].
        - destruct (logic_node_presentation orc clock g l m C D V T0 CH) as (g' & EL & O & _).
          rewrite EL in E. inversion E; subst. exact O.
        - eapply logic_other_frame; try eassumption. tauto.
        - eapply logic_other_frame; try eassumption. tauto. }
      rewrite O. reflexivity.
  Qed.

  (* 2. session_refines at the level of steps: the session of every node after a step is the
     automaton's, for the input the step carries for that node *)
  Theorem session_step_exact g o n : cfg_ok (g_cf g) -> Inv orc g -> SInv g ->
    abs (g_ota (step orc clock g o)) n =
      match schedules g o n with
      | Some k => Requested k
      | None => match request_of g o n with
                | Some i => fst (sstep (abs (g_ota g) n) i)
                | None => abs (g_ota g) n
                end
      end.
  Proof.
    intros C IV [S I]. unfold request_of.
    destruct (line_of g o) as [l|] eqn:L.
    - assert (SC : schedules g o n = None) by (destruct o; try reflexivity; discriminate L). rewrite SC.
      rewrite (step_line orc clock g o l L).
      destruct (pre_state_facts orc g o) as (PS & PO & PC & PV).
      assert (IV0 : Inv orc (pre_state g o)) by (destruct o; try exact IV; apply Inv_set_jobs; exact IV).
      set (g0 := pre_state g o) in *.
      assert (C0 : cfg_ok (g_cf g0)) by (rewrite PC; exact C).
      assert (S0 : sess_inv (g_ota g0)) by (rewrite PO; exact S).
      destruct (logic_total orc clock g0 l C0 IV0) as (g1 & r & E & _).
      rewrite E. pose proof (logic_session_exact g0 l g1 r n C0 S0 E) as X.
      assert (RQ : request_of_line g0 l n = request_of_line g l n).
      { unfold request_of_line. destruct (decode l) as [m|]; [|reflexivity]. rewrite PV. unfold known. rewrite PS. reflexivity. }
      rewrite RQ, PO in X. rewrite <- X.
      destruct r as [x|]; [|reflexivity]. destruct (frame_send g1 x) as [-> _]. reflexivity.
    - destruct o as [l0| |s c vt v mt a|ns t v b|b];
        try (cbn [schedules];
             assert (F : frame g (step orc clock g _)) by (apply (step_noline orc clock); [exact L|intros; discriminate]);
             destruct F as [-> _]; reflexivity).
      cbn [step schedules].
      destruct (update_fw_spec g ns t v b S I) as (g' & E & _ & _ & _ & _ & _ & _ & _ & _ & SPEC).
      rewrite E. destruct (update_key g t v b) as [[t0 v0]|] eqn:UK.
      + destruct SPEC as (_ & _ & _ & _ & _ & _ & AB & _). rewrite AB.
        destruct (zmem n ns && known g n); reflexivity.
      + destruct SPEC as (SS & _). rewrite (same_sessions_abs _ _ n SS).
        destruct (zmem n ns && known g n); reflexivity.
  Qed.

  (* ---- restart ---- *)
  Theorem restart g ns ft fv bin n k : SInv g ->
    update_key g ft fv bin = Some k -> zmem n ns = true -> known g n = true ->
    exists g', update_fw g ns ft fv bin = Ok g' /\ abs (g_ota g') n = Requested k /\ reboot_flag g' n = true.
  Proof.
    intros [S I] UK Z K.
    destruct (update_fw_spec g ns ft fv bin S I) as (g' & E & _ & _ & _ & _ & _ & _ & _ & _ & SPEC).
    exists g'. split; [exact E|]. rewrite UK in SPEC. destruct k as [t v].
    destruct SPEC as (_ & _ & _ & _ & _ & _ & AB & RF). rewrite AB, RF, Z, K. split; reflexivity.
  Qed.

  (* an update call without a key (bad / out-of-range type or version, failed load, no stored
     image) or naming only unknown ids changes no session and no flag *)
  Theorem update_without_effect g ns ft fv bin : SInv g ->
    (update_key g ft fv bin = None \/ forall n, zmem n ns = true -> known g n = false) ->
    exists g', update_fw g ns ft fv bin = Ok g' /\
      forall n, abs (g_ota g') n = abs (g_ota g) n /\ reboot_flag g' n = reboot_flag g n.
  Proof.
    intros [S I] H.
    destruct (update_fw_spec g ns ft fv bin S I) as (g' & E & _ & _ & _ & _ & _ & _ & _ & _ & SPEC).
    exists g'. split; [exact E|]. intro n.
    destruct (update_key g ft fv bin) as [[t v]|].
    - destruct H as [H|H]; [discriminate|].
      destruct SPEC as (_ & _ & _ & _ & _ & _ & AB & RF). rewrite AB, RF.
      destruct (zmem n ns) eqn:Z; [rewrite (H n Z)|]; split; reflexivity.
    - destruct SPEC as (SS & _ & SE). split; [apply same_sessions_abs; exact SS|].
      unfold reboot_flag, get_node. rewrite SE. reflexivity.
  Qed.

  (* ---- Fetching persists until an update call names the node ---- *)
  Definition names (n : Z) (o : op) : bool :=
    match o with UpdateFw ns _ _ _ => zmem n ns | _ => false end.

  Theorem fetching_stable ops : forall g n k, cfg_ok (g_cf g) -> SInv g ->
    abs (g_ota g) n = Fetching k -> forallb (fun o => negb (names n o)) ops = true ->
    abs (g_ota (run orc clock g ops)) n = Fetching k.
  Proof.
    induction ops as [|o ops IH]; intros g n k C SI AB NO; [exact AB|].
    cbn [forallb] in NO. apply andb_true_iff in NO as [NO1 NO2].
    destruct (step_weak orc clock g o C SI) as (SI1 & C1 & _ & _ & MV).
    change (run orc clock g (o :: ops)) with (run orc clock (step orc clock g o) ops).
    apply IH; [rewrite C1; exact C|exact SI1| |exact NO2].
    destruct (MV n) as [i NU X|ns ft fv bin k' EO _ Z _ _].
    - rewrite X, AB. destruct i; [discriminate| | |]; reflexivity.
    - subst o. cbn [names] in NO1. rewrite Z in NO1. discriminate.
  Qed.

  (* ---- no re-flash loop: in Fetching NO line whatsoever is answered with a config response for the node ---- *)
  Theorem no_reflash_loop g l g' rl n k : cfg_ok (g_cf g) -> sess_inv (g_ota g) ->
    abs (g_ota g) n = Fetching k -> logic orc clock g l = Ok (g', Some rl) ->
    exists x, rl = encode x /\ ~ (m_node x = n /\ m_type x = 4 /\ m_sub x = 1).
  Proof.
    intros C S AB E.
    destruct (decode l) as [m|] eqn:D.
    2:{ rewrite (rejected_is_noop orc clock g l (or_introl D)) in E. discriminate. }
    destruct (gvalidate orc g m) eqn:V.
    2:{ rewrite (rejected_is_noop orc clock g l) in E by (right; exists m; auto). discriminate. }
    destruct (Z.eq_dec (m_type m) 4) as [T|NT].
    - destruct (stream_reply_gated orc clock g l m g' rl C S D V T E) as (_ & x & k' & -> & NX & _ & CASES).
      exists x. split; [reflexivity|]. intros (N & _ & SX).
      destruct CASES as [(_ & _ & [A|A])|(_ & SX3 & _)]; [| |lia]; rewrite <- NX, N, AB in A; discriminate.
    - destruct (non_stream_reply orc clock g l m g' rl C D V NT E) as (x & -> & TX).
      exists x. split; [reflexivity|tauto].
  Qed.

  (* ---- gated, per line: whatever the line, a stream message in reply goes to a known node
     whose session is not Idle ---- *)
  Theorem gated_reply g l g' rl : cfg_ok (g_cf g) -> sess_inv (g_ota g) ->
    logic orc clock g l = Ok (g', Some rl) ->
    exists x, rl = encode x /\
      (m_type x = 4 -> known g (m_node x) = true /\ abs (g_ota g) (m_node x) <> Idle /\ (m_sub x = 1 \/ m_sub x = 3)).
  Proof.
    intros C S E.
    destruct (decode l) as [m|] eqn:D.
    2:{ rewrite (rejected_is_noop orc clock g l (or_introl D)) in E. discriminate. }
    destruct (gvalidate orc g m) eqn:V.
    2:{ rewrite (rejected_is_noop orc clock g l) in E by (right; exists m; auto). discriminate. }
    destruct (Z.eq_dec (m_type m) 4) as [T|NT].
    - destruct (stream_reply_gated orc clock g l m g' rl C S D V T E) as (K & x & k' & -> & NX & _ & CASES).
      exists x. split; [reflexivity|]. intros _. rewrite NX. split; [exact K|].
      destruct CASES as [(_ & SX & [A|A])|(_ & SX & [A|A])]; rewrite A; (split; [discriminate|auto]).
    - destruct (non_stream_reply orc clock g l m g' rl C D V NT E) as (x & -> & TX).
      exists x. split; [reflexivity|]. intro. contradiction.
  Qed.

  (* ---- the config response is repeated until the node starts fetching ---- *)
  Theorem config_repeated_until_fetch g l m t v f :
    cfg_ok (g_cf g) -> sess_inv (g_ota g) ->
    decode l = Some m -> gvalidate orc g m = true -> m_type m = 4 -> m_sub m = 0 ->
    known g (m_node m) = true -> hex_request_ok (m_payload m) 5 = true ->
    (abs (g_ota g) (m_node m) = Requested (t, v) \/ abs (g_ota g) (m_node m) = Offered (t, v)) ->
    fw_lookup t v (o_fw (g_ota g)) = Some f ->
    exists g',
      logic orc clock g l =
        (do p <- fw_config_payload t v f; Ok (g', Some (encode (stream_reply m 1 p)))) /\
      abs (g_ota g') (m_node m) = Offered (t, v) /\ sess_inv (g_ota g').
  Proof.
    intros C S D V T SB K HX AB LK.
    apply fw_hex_to_int_ok_iff in HX as [ws HX].
    assert (IN : stream_input m = Some CfgReq).
    { unfold stream_input, cfg_input. rewrite SB, HX. reflexivity. }
    destruct (logic_stream_request orc clock g l m CfgReq C S D V T K IN) as (g' & EL & S' & _ & AB' & _).
    exists g'. rewrite EL, AB'.
    destruct AB as [-> | ->]; cbn [sstep fst snd offer_reply]; rewrite LK;
      (split; [destruct (fw_config_payload t v f); reflexivity|split; [reflexivity|exact S']]).
  Qed.

  (* ---- a well-formed block request for (t', v') in Offered / Fetching ---- *)
  Theorem block_request_served g l m k rt rv rb :
    cfg_ok (g_cf g) -> sess_inv (g_ota g) ->
    decode l = Some m -> gvalidate orc g m = true -> m_type m = 4 -> m_sub m = 2 ->
    known g (m_node m) = true -> fw_hex_to_int (m_payload m) 3 = Ok [rt; rv; rb] ->
    (abs (g_ota g) (m_node m) = Offered k \/ abs (g_ota g) (m_node m) = Fetching k) ->
    exists g',
      logic orc clock g l =
        match fw_lookup rt rv (o_fw (g_ota g)) with
        | Some f => do p <- fw_response_payload rt rv rb f; Ok (g', Some (encode (stream_reply m 3 p)))
        | None => Ok (g', None)      (* no image for the REQUESTED key: silent, but the session moves *)
        end /\
      abs (g_ota g') (m_node m) = Fetching k /\ sess_inv (g_ota g').
  Proof.
    intros C S D V T SB K HX AB.
    assert (IN : stream_input m = Some (BlkReq (rt, rv) rb)).
    { unfold stream_input, blk_input. rewrite SB, HX. reflexivity. }
    destruct (logic_stream_request orc clock g l m _ C S D V T K IN) as (g' & EL & S' & _ & AB' & _).
    exists g'. rewrite EL, AB'.
    destruct AB as [-> | ->]; cbn [sstep fst snd offer_reply];
      (split; [|split; [reflexivity|exact S']]);
      destruct (fw_lookup rt rv (o_fw (g_ota g))) as [f|]; try reflexivity;
      destruct (fw_response_payload rt rv rb f); reflexivity.
  Qed.

  (* ---- 6. termination in the sense of the property ---- *)
  Theorem session_terminates g l1 m1 g1 r1 l2 m2 g2 r2 n k ws rt rv rb :
    cfg_ok (g_cf g) -> SInv g -> known g n = true -> abs (g_ota g) n = Requested k ->
    decode l1 = Some m1 -> gvalidate orc g m1 = true -> m_type m1 = 4 -> m_sub m1 = 0 -> m_node m1 = n ->
    fw_hex_to_int (m_payload m1) 5 = Ok ws ->
    logic orc clock g l1 = Ok (g1, r1) ->
    decode l2 = Some m2 -> gvalidate orc g m2 = true -> m_type m2 = 4 -> m_sub m2 = 2 -> m_node m2 = n ->
    fw_hex_to_int (m_payload m2) 3 = Ok [rt; rv; rb] ->
    logic orc clock g1 l2 = Ok (g2, r2) ->
    abs (g_ota g1) n = Offered k /\ abs (g_ota g2) n = Fetching k /\
    (* from here on: no config response for n, whatever arrives, until an update call names n *)
    (forall ops, forallb (fun o => negb (names n o)) ops = true ->
       let g3 := run orc clock g2 ops in
       abs (g_ota g3) n = Fetching k /\
       forall l g' rl, logic orc clock g3 l = Ok (g', Some rl) ->
         exists x, rl = encode x /\ ~ (m_node x = n /\ m_type x = 4 /\ m_sub x = 1)).
  Proof.
    intros C [S I] K AB D1 V1 T1 SB1 N1 H1 E1 D2 V2 T2 SB2 N2 H2 E2.
    assert (IN1 : stream_input m1 = Some CfgReq) by (unfold stream_input, cfg_input; rewrite SB1, H1; reflexivity).
    assert (IN2 : stream_input m2 = Some (BlkReq (rt, rv) rb)) by (unfold stream_input, blk_input; rewrite SB2, H2; reflexivity).
    rewrite <- N1 in K, AB.
    destruct (logic_stream_request orc clock g l1 m1 _ C S D1 V1 T1 K IN1)
      as (g1' & EL1 & S1 & _ & AB1 & _ & (C1 & SE1 & _) & _).
    rewrite EL1 in E1. destruct (offer_reply _ m1 _) as [rm|e]; cbn [bind] in E1; [|discriminate].
    inversion E1; subst g1' r1. clear E1 EL1. rewrite AB in AB1. cbn [sstep fst] in AB1.
    assert (Cg1 : cfg_ok (g_cf g1)) by (rewrite C1; exact C).
    assert (K1 : known g1 (m_node m2) = true) by (rewrite N2, <- N1; unfold known; rewrite SE1; exact K).
    assert (V2' : gvalidate orc g1 m2 = true) by (unfold gvalidate, tab in *; rewrite C1; exact V2).
    destruct (logic_stream_request orc clock g1 l2 m2 _ Cg1 S1 D2 V2' T2 K1 IN2)
      as (g2' & EL2 & S2 & _ & AB2 & _ & (C2 & SE2 & _) & _).
    rewrite EL2 in E2. destruct (offer_reply _ m2 _) as [rm2|e]; cbn [bind] in E2; [|discriminate].
    inversion E2; subst g2' r2. clear E2 EL2. rewrite N2, <- N1, AB1 in AB2. cbn [sstep fst] in AB2.
    rewrite N1 in AB1, AB2.
    split; [exact AB1|]. split; [exact AB2|].
    intros ops NO g3.
    assert (Cg2 : cfg_ok (g_cf g2)) by (rewrite C2; exact Cg1).
    assert (SI2 : SInv g2) by (split; [exact S2|unfold ids_ok; rewrite SE2, SE1; exact I]).
    pose proof (fetching_stable ops g2 n k Cg2 SI2 AB2 NO) as F3. fold g3 in F3.
    split; [exact F3|].
    destruct (run_SInv orc clock ops g2 Cg2 SI2) as [[S3 _] C3]. fold g3 in S3, C3.
    intros l g' rl E. eapply no_reflash_loop; [rewrite C3; exact Cg2|exact S3|exact F3|exact E].
  Qed.
End Exact.

(* ================================================================ Q. explicit payloads in reachable states *)

Lemma fw_lookup_In t v l f : fw_lookup t v l = Some f -> In ((t, v), f) l.
Proof.
  induction l as [|[[t' v'] f'] l IH]; simpl; [discriminate|].
  destruct (Z.eqb t t' && Z.eqb v v') eqn:E.
  - apply andb_true_iff in E as [E1 E2]. apply Z.eqb_eq in E1, E2. subst. intro H; inversion H. left. reflexivity.
  - intro H. right. auto.
Qed.

Section Payloads.
  Variable orc : oracles.
  Variable clock : Z.

  Lemma config_payload_ok g n t v f : Inv orc g -> sess_inv (g_ota g) ->
    (abs (g_ota g) n = Requested (t, v) \/ abs (g_ota g) n = Offered (t, v)) ->
    fw_lookup t v (o_fw (g_ota g)) = Some f ->
    fw_config_payload t v f = Ok (hexlify (le16 t ++ le16 v ++ le16 (fw_blocks f) ++ le16 (fw_crc f))).
  Proof.
    intros [_ (R & U & _ & FW)] (_ & _ & _ & EX) AB LK.
    assert (W : word t /\ word v).
    { destruct AB as [AB|AB].
      - apply (abs_requested _ _ _ EX) in AB. exact (zassoc_Forall _ _ _ _ R AB).
      - apply (abs_offered _ _ _ EX) in AB. exact (zassoc_Forall _ _ _ _ U AB). }
    apply fw_lookup_In in LK. unfold fws_ok in FW. rewrite Forall_forall in FW. specialize (FW _ LK).
    cbn [snd] in FW. destruct W as [Wt Wv]. destruct FW as [Wb Wc].
    unfold fw_config_payload. rewrite fw_int_to_hex_ok.
    - reflexivity.
    - unfold words_ok. cbn [forallb]. unfold word in *. rewrite Wt, Wv, Wb, Wc. reflexivity.
  Qed.

  Lemma block_payload_ok p rt rv rb f : fw_hex_to_int p 3 = Ok [rt; rv; rb] ->
    fw_response_payload rt rv rb f =
      Ok (hexlify (le16 rt ++ le16 rv ++ le16 rb) ++ hexlify (fw_block (fw_data f) rb)).
  Proof.
    intro H. destruct (fw_int_hex_roundtrip _ _ _ H) as (_ & _ & W).
    rewrite words_ok3 in W. apply andb_true_iff in W as [W Wb]. apply andb_true_iff in W as [Wt Wv].
    apply fw_response_payload_ok; assumption.
  Qed.

  (* in every reachable state (images whose block count fits the 16-bit header word) a
     well-formed config request from a node in Requested / Offered IS answered, with the
     scheduled key, the block count and the CRC of the stored image *)
  Theorem config_answered_reachable cf ops l m t v : cfg_ok cf -> Forall op_ok ops ->
    let g := run orc clock (gw_init cf) ops in
    decode l = Some m -> gvalidate orc g m = true -> m_type m = 4 -> m_sub m = 0 ->
    known g (m_node m) = true -> hex_request_ok (m_payload m) 5 = true ->
    (abs (g_ota g) (m_node m) = Requested (t, v) \/ abs (g_ota g) (m_node m) = Offered (t, v)) ->
    exists f g',
      fw_lookup t v (o_fw (g_ota g)) = Some f /\
      logic orc clock g l =
        Ok (g', Some (encode (stream_reply m 1
               (hexlify (le16 t ++ le16 v ++ le16 (fw_blocks f) ++ le16 (fw_crc f)))))) /\
      abs (g_ota g') (m_node m) = Offered (t, v).
  Proof.
    intros C OK g D V T SB K HX AB.
    destruct (run_ok orc clock ops (gw_init cf) C (Inv_init orc cf) OK) as [IV CF]. fold g in IV, CF.
    destruct (reachable_SInv orc clock cf ops C) as [[S I] _]. fold g in S, I.
    assert (Cg : cfg_ok (g_cf g)) by (rewrite CF; exact C).
    destruct (reachable_fw_avail orc clock cf ops C (m_node m) t v) as [f LK].
    { fold g. destruct AB as [-> | ->]; reflexivity. }
    fold g in LK.
    destruct (config_repeated_until_fetch orc clock g l m t v f Cg S D V T SB K HX AB LK) as (g' & EL & AB' & _).
    exists f, g'. split; [exact LK|]. split; [|exact AB'].
    rewrite EL, (config_payload_ok g (m_node m) t v f IV S AB LK). reflexivity.
  Qed.
End Payloads.

(* ================================================================ R. packaging for Props/C10.v *)
Lemma abs_well_defined o n : sess_inv o ->
  (forall k, abs o n = Requested k <-> zassoc n (o_requested o) = Some k) /\
  (forall k, abs o n = Offered k <-> zassoc n (o_unstarted o) = Some k) /\
  (forall k, abs o n = Fetching k <-> zassoc n (o_started o) = Some k) /\
  (abs o n = Idle <-> zassoc n (o_requested o) = None /\ zassoc n (o_unstarted o) = None /\
                      zassoc n (o_started o) = None).
Proof.
  intros (_ & _ & _ & E). split; [intro k; apply abs_requested; exact E|].
  split; [intro k; apply abs_offered; exact E|]. split; [intro k; apply abs_fetching; exact E|apply abs_idle].
Qed.

Lemma reachable_invariant orc clock cf ops : cfg_ok cf ->
  let g := run orc clock (gw_init cf) ops in
  sess_inv (g_ota g) /\ ids_ok g /\ fw_avail (g_ota g) /\ g_cf g = cf.
Proof.
  intros C g. destruct (reachable_SInv orc clock cf ops C) as [[S I] CF].
  split; [exact S|]. split; [exact I|]. split; [apply reachable_fw_avail; exact C|exact CF].
Qed.

(* the reference automaton itself has the shape the property asks for *)
Lemma spec_progress k k' i : srun (Requested k) [CfgReq; CfgReq; BlkReq k' i; CfgReq] =
  (Fetching k, [CfgResp k; CfgResp k; BlkResp k' i; NoOut]).
Proof. reflexivity. Qed.

Lemma spec_no_reflash k : forall is, forallb (fun i => negb (is_update i)) is = true ->
  fst (srun (Fetching k) is) = Fetching k /\ forallb (fun o => negb (is_cfg_resp o)) (snd (srun (Fetching k) is)) = true.
Proof.
  induction is as [|i r IH]; intro H; [split; reflexivity|].
  cbn [forallb] in H. apply andb_true_iff in H as [H1 H2]. destruct (IH H2) as [A B].
  destruct i as [x| |x b|]; [discriminate H1| | |]; cbn [srun sstep];
    destruct (srun (Fetching k) r) as [s2 os]; cbn [fst snd forallb] in *; split; auto.
Qed.

Lemma spec_restart s k : fst (sstep s (Update k)) = Requested k.
Proof. reflexivity. Qed.

Lemma spec_malformed s : sstep s Malformed = (s, NoOut).
Proof. reflexivity. Qed.

Lemma spec_restart_malformed s k : fst (sstep s (Update k)) = Requested k /\ sstep s Malformed = (s, NoOut).
Proof. split; reflexivity. Qed.
