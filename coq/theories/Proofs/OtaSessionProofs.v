(* C10: the OTA session stores of Model/Gateway.v refine the reference automaton of
   Spec/OtaSession.v; reboot window; malformed requests.  Reuses the C01 development
   (GwLemmas, GwInv). *)
From Coq Require Import List NArith ZArith Bool String Lia.
From PMS Require Import Base.PyStr Base.PyInt Base.Exn Model.Codec Model.Rules Model.TableTypes
  Gen.Tables Model.Validate Model.Hex Model.Ota Model.Oracles Model.Gateway Spec.SerialApi
  Spec.OtaSession
  Proofs.PyStrFacts Proofs.CodecProofs Proofs.ValidateProofs Proofs.GwLemmas Proofs.HexProofs
  Proofs.OtaProofs Proofs.GwInv.
Import ListNotations.
Open Scope string_scope.
Open Scope list_scope.
Open Scope Z_scope.

(* ================================================================ A. dict facts *)

Definition keys_nodup {A} (l : list (Z * A)) : Prop := NoDup (map fst l).

Lemma zassoc_None_notin {A} k (l : list (Z * A)) : zassoc k l = None <-> ~ In k (map fst l).
Proof.
  induction l as [|[k' a] l IH]; simpl; [tauto|].
  destruct (Z.eqb_spec k k') as [->|N].
  - split; [discriminate|]. intro H. exfalso. apply H. left. reflexivity.
  - rewrite IH. split; [intros H [E|I]; [congruence|tauto]|tauto].
Qed.

Lemma zassoc_zdel_other {A} k k' (l : list (Z * A)) : k <> k' -> zassoc k' (zdel k l) = zassoc k' l.
Proof.
  intro N. induction l as [|[k2 a2] l IH]; simpl; [reflexivity|].
  destruct (Z.eqb_spec k k2) as [->|N2]; simpl.
  - destruct (Z.eqb_spec k' k2); [congruence|reflexivity].
  - destruct (Z.eqb_spec k' k2); [reflexivity|exact IH].
Qed.

Lemma in_keys_zdel {A} k k' (l : list (Z * A)) : In k' (map fst (zdel k l)) -> In k' (map fst l).
Proof.
  induction l as [|[k2 a2] l IH]; simpl; [tauto|].
  destruct (Z.eqb k k2); simpl; tauto.
Qed.

Lemma nodup_zdel {A} k (l : list (Z * A)) : keys_nodup l -> keys_nodup (zdel k l).
Proof.
  unfold keys_nodup. induction l as [|[k2 a2] l IH]; simpl; intro H; [constructor|].
  inversion H; subst. destruct (Z.eqb k k2); [assumption|].
  simpl. constructor; [|auto]. intro I. apply in_keys_zdel in I. contradiction.
Qed.

Lemma zassoc_zdel_same {A} k (l : list (Z * A)) : keys_nodup l -> zassoc k (zdel k l) = None.
Proof.
  unfold keys_nodup. induction l as [|[k2 a2] l IH]; simpl; intro H; [reflexivity|].
  inversion H; subst. destruct (Z.eqb_spec k k2) as [->|N].
  - apply zassoc_None_notin. assumption.
  - simpl. destruct (Z.eqb_spec k k2); [contradiction|auto].
Qed.

Lemma in_keys_zset {A} k (a : A) k' l : In k' (map fst (zset k a l)) -> k' = k \/ In k' (map fst l).
Proof.
  induction l as [|[k2 a2] l IH]; simpl; [intros [E|[]]; auto|].
  destruct (Z.eqb_spec k k2) as [->|N]; simpl; [tauto|].
  intros [E|I]; [tauto|]. apply IH in I. tauto.
Qed.

Lemma nodup_zset {A} k (a : A) l : keys_nodup l -> keys_nodup (zset k a l).
Proof.
  unfold keys_nodup. induction l as [|[k2 a2] l IH]; simpl; intro H; [constructor; [tauto|constructor]|].
  inversion H; subst. destruct (Z.eqb_spec k k2) as [->|N]; simpl; [constructor; assumption|].
  constructor; [|auto]. intro I. apply in_keys_zset in I. destruct I as [E|I]; [congruence|contradiction].
Qed.

Lemma zhas_zassoc {A} k (l : list (Z * A)) : zhas k l = true <-> zassoc k l <> None.
Proof. unfold zhas. destruct (zassoc k l); split; congruence. Qed.

(* ================================================================ B. abstraction *)

Definition store := list (Z * (Z * Z)).

(* which store holds the node (priority only matters outside the invariant) *)
Definition abs (o : ota) (n : Z) : session :=
  match zassoc n (o_requested o) with
  | Some k => Requested k
  | None =>
      match zassoc n (o_unstarted o) with
      | Some k => Offered k
      | None => match zassoc n (o_started o) with Some k => Fetching k | None => Idle end
      end
  end.

(* at most one store holds a node *)
Definition excl (o : ota) : Prop := forall n,
  (zassoc n (o_requested o) = None \/ zassoc n (o_unstarted o) = None) /\
  (zassoc n (o_requested o) = None \/ zassoc n (o_started o) = None) /\
  (zassoc n (o_unstarted o) = None \/ zassoc n (o_started o) = None).

Definition sess_inv (o : ota) : Prop :=
  keys_nodup (o_requested o) /\ keys_nodup (o_unstarted o) /\ keys_nodup (o_started o) /\ excl o.

Lemma sess_inv_init : sess_inv ota_init.
Proof.
  unfold sess_inv, keys_nodup, ota_init; simpl.
  split; [constructor|]. split; [constructor|]. split; [constructor|].
  intro n. simpl. repeat split; left; reflexivity.
Qed.

(* under the invariant abs is the graph of "store X holds n": it does not depend on the
   order in which the stores are inspected *)
Lemma abs_requested o n k : excl o -> (abs o n = Requested k <-> zassoc n (o_requested o) = Some k).
Proof.
  intro E. unfold abs. destruct (zassoc n (o_requested o)) as [k0|]; [split; intro H; inversion H; reflexivity|].
  destruct (zassoc n (o_unstarted o)); [split; discriminate|].
  destruct (zassoc n (o_started o)); split; discriminate.
Qed.
Lemma abs_offered o n k : excl o -> (abs o n = Offered k <-> zassoc n (o_unstarted o) = Some k).
Proof.
  intro E. destruct (E n) as (A & B & C). unfold abs.
  destruct (zassoc n (o_requested o)) as [k0|].
  - split; [discriminate|]. intro H. destruct A as [A|A]; congruence.
  - destruct (zassoc n (o_unstarted o)); [split; intro H; inversion H; reflexivity|].
    destruct (zassoc n (o_started o)); split; discriminate.
Qed.
Lemma abs_fetching o n k : excl o -> (abs o n = Fetching k <-> zassoc n (o_started o) = Some k).
Proof.
  intro E. destruct (E n) as (A & B & C). unfold abs.
  destruct (zassoc n (o_requested o)) as [k0|].
  - split; [discriminate|]. intro H. destruct B as [B|B]; congruence.
  - destruct (zassoc n (o_unstarted o)).
    + split; [discriminate|]. intro H. destruct C as [C|C]; congruence.
    + destruct (zassoc n (o_started o)); split; intro H; inversion H; reflexivity.
Qed.
Lemma abs_idle o n : abs o n = Idle <->
  zassoc n (o_requested o) = None /\ zassoc n (o_unstarted o) = None /\ zassoc n (o_started o) = None.
Proof.
  unfold abs. destruct (zassoc n (o_requested o)); [split; [discriminate|intros (A&_); discriminate]|].
  destruct (zassoc n (o_unstarted o)); [split; [discriminate|intros (_&A&_); discriminate]|].
  destruct (zassoc n (o_started o)); [split; [discriminate|intros (_&_&A); discriminate]|tauto].
Qed.

(* the three lookups determine abs *)
Lemma abs_ext o o' n :
  zassoc n (o_requested o') = zassoc n (o_requested o) ->
  zassoc n (o_unstarted o') = zassoc n (o_unstarted o) ->
  zassoc n (o_started o') = zassoc n (o_started o) -> abs o' n = abs o n.
Proof. unfold abs. intros -> -> ->. reflexivity. Qed.

(* what the firmware dictionary makes of an offer *)
Definition fw_out (fws : list ((Z * Z) * fware)) (out : sout) : option (Z * Z * fware) :=
  match out with
  | NoOut => None
  | CfgResp (t, v) => option_map (fun f => (t, v, f)) (fw_lookup t v fws)
  | BlkResp (t, v) _ => option_map (fun f => (t, v, f)) (fw_lookup t v fws)
  end.

(* the pop / re-insert of OTAFirmware._get_fw over two stores *)
Definition found_of (nid : Z) (s1 s2 : store) : option ((Z * Z) * store * store) :=
  match zassoc nid s1 with
  | Some id => Some (id, zdel nid s1, zset nid id s2)
  | None => match zassoc nid s2 with
            | Some id => Some (id, s1, zset nid id (zdel nid s2))
            | None => None
            end
  end.

Lemma found_of_spec n s1 s2 :
  keys_nodup s1 -> keys_nodup s2 -> (zassoc n s1 = None \/ zassoc n s2 = None) ->
  match found_of n s1 s2 with
  | None => zassoc n s1 = None /\ zassoc n s2 = None
  | Some (id, s1', s2') =>
      (zassoc n s1 = Some id \/ (zassoc n s1 = None /\ zassoc n s2 = Some id)) /\
      zassoc n s1' = None /\ zassoc n s2' = Some id /\
      (forall m, m <> n -> zassoc m s1' = zassoc m s1 /\ zassoc m s2' = zassoc m s2) /\
      keys_nodup s1' /\ keys_nodup s2'
  end.
Proof.
  intros N1 N2 X. unfold found_of.
  destruct (zassoc n s1) as [id|] eqn:E1.
  - split; [left; reflexivity|]. split; [apply zassoc_zdel_same; exact N1|].
    split; [apply zassoc_zset_same|]. split.
    + intros m D. split; [apply zassoc_zdel_other; congruence|apply zassoc_zset_other; congruence].
    + split; [apply nodup_zdel; exact N1|apply nodup_zset; exact N2].
  - destruct (zassoc n s2) as [id|] eqn:E2; [|tauto].
    split; [right; tauto|]. split; [exact E1|]. split; [apply zassoc_zset_same|]. split.
    + intros m D. split; [reflexivity|].
      rewrite zassoc_zset_other by congruence. apply zassoc_zdel_other; congruence.
    + split; [exact N1|apply nodup_zset; apply nodup_zdel; exact N2].
Qed.

Lemma ota_get_fw_unfold o nid first req :
  ota_get_fw o nid first req =
  match found_of nid (if first then o_requested o else o_unstarted o)
                     (if first then o_unstarted o else o_started o) with
  | None => (o, None)
  | Some (id, s1', s2') =>
      let o' := if first then mkOta (o_fw o) s1' s2' (o_started o)
                else mkOta (o_fw o) (o_requested o) s1' s2' in
      let '(t, v) := match req with Some r => r | None => id end in
      (o', option_map (fun f => (t, v, f)) (fw_lookup t v (o_fw o)))
  end.
Proof.
  unfold ota_get_fw, found_of. destruct first; cbv beta iota zeta.
  - destruct (zassoc nid (o_requested o)) as [id|].
    + destruct (match req with Some r => r | None => id end) as [t v].
      destruct (fw_lookup t v (o_fw o)); reflexivity.
    + destruct (zassoc nid (o_unstarted o)) as [id|]; [|reflexivity].
      destruct (match req with Some r => r | None => id end) as [t v].
      destruct (fw_lookup t v (o_fw o)); reflexivity.
  - destruct (zassoc nid (o_unstarted o)) as [id|].
    + destruct (match req with Some r => r | None => id end) as [t v].
      destruct (fw_lookup t v (o_fw o)); reflexivity.
    + destruct (zassoc nid (o_started o)) as [id|]; [|reflexivity].
      destruct (match req with Some r => r | None => id end) as [t v].
      destruct (fw_lookup t v (o_fw o)); reflexivity.
Qed.

(* simulation of a well-formed config request by the store operation *)
Lemma ota_get_fw_cfg o n : sess_inv o ->
  let r := ota_get_fw o n true None in
  sess_inv (fst r) /\ o_fw (fst r) = o_fw o /\
  abs (fst r) n = fst (sstep (abs o n) CfgReq) /\
  (forall m, m <> n -> abs (fst r) m = abs o m) /\
  snd r = fw_out (o_fw o) (snd (sstep (abs o n) CfgReq)).
Proof.
  intros (N1 & N2 & N3 & E) r. subst r. rewrite ota_get_fw_unfold.
  destruct (E n) as (X12 & X13 & X23).
  pose proof (found_of_spec n (o_requested o) (o_unstarted o) N1 N2 X12) as F.
  destruct (found_of n (o_requested o) (o_unstarted o)) as [[[id s1'] s2']|].
  - destruct F as (W & A1 & A2 & OT & M1 & M2).
    destruct id as [t v]. cbv zeta. cbn [fst snd o_fw o_requested o_unstarted o_started].
    assert (S3 : zassoc n (o_started o) = None).
    { destruct W as [W|[_ W]]; [destruct X13; congruence|destruct X23; congruence]. }
    assert (AB : abs o n = Requested (t, v) \/ abs o n = Offered (t, v)).
    { unfold abs. destruct W as [W|[W1 W2]]; [rewrite W; auto|rewrite W1, W2; auto]. }
    split; [|split; [reflexivity|split; [|split]]].
    + split; [exact M1|]. split; [exact M2|]. split; [exact N3|].
      intro m. cbn [o_requested o_unstarted o_started].
      destruct (Z.eq_dec m n) as [->|D].
      * rewrite A1, S3. auto.
      * destruct (OT m D) as [R1 R2]. rewrite R1, R2. apply E.
    + unfold abs at 1. cbn [o_requested o_unstarted o_started]. rewrite A1, A2.
      destruct AB as [-> | ->]; reflexivity.
    + intros m D. destruct (OT m D) as [R1 R2]. apply abs_ext; cbn [o_requested o_unstarted o_started]; auto.
    + destruct AB as [-> | ->]; reflexivity.
  - destruct F as [F1 F2]. cbn [fst snd].
    assert (AB : abs o n = Idle \/ exists k, abs o n = Fetching k).
    { unfold abs. rewrite F1, F2. destruct (zassoc n (o_started o)); eauto. }
    split; [repeat split; assumption|]. split; [reflexivity|].
    split; [destruct AB as [-> |[k ->]]; reflexivity|].
    split; [reflexivity|destruct AB as [-> |[k ->]]; reflexivity].
Qed.

(* simulation of a well-formed block request *)
Lemma ota_get_fw_blk o n rt rv i : sess_inv o ->
  let r := ota_get_fw o n false (Some (rt, rv)) in
  sess_inv (fst r) /\ o_fw (fst r) = o_fw o /\
  abs (fst r) n = fst (sstep (abs o n) (BlkReq (rt, rv) i)) /\
  (forall m, m <> n -> abs (fst r) m = abs o m) /\
  snd r = fw_out (o_fw o) (snd (sstep (abs o n) (BlkReq (rt, rv) i))).
Proof.
  intros (N1 & N2 & N3 & E) r. subst r. rewrite ota_get_fw_unfold.
  destruct (E n) as (X12 & X13 & X23).
  pose proof (found_of_spec n (o_unstarted o) (o_started o) N2 N3 X23) as F.
  destruct (found_of n (o_unstarted o) (o_started o)) as [[[id s1'] s2']|].
  - destruct F as (W & A1 & A2 & OT & M1 & M2).
    cbv zeta. cbn [fst snd o_fw o_requested o_unstarted o_started].
    assert (S3 : zassoc n (o_requested o) = None).
    { destruct W as [W|[_ W]]; [destruct X12; congruence|destruct X13; congruence]. }
    assert (AB : abs o n = Offered id \/ abs o n = Fetching id).
    { unfold abs. rewrite S3. destruct W as [W|[W1 W2]]; [rewrite W; auto|rewrite W1, W2; auto]. }
    split; [|split; [reflexivity|split; [|split]]].
    + split; [exact N1|]. split; [exact M1|]. split; [exact M2|].
      intro m. cbn [o_requested o_unstarted o_started].
      destruct (Z.eq_dec m n) as [->|D].
      * rewrite S3, A1. auto.
      * destruct (OT m D) as [R1 R2]. rewrite R1, R2. apply E.
    + unfold abs at 1. cbn [o_requested o_unstarted o_started]. rewrite S3, A1, A2.
      destruct AB as [-> | ->]; reflexivity.
    + intros m D. destruct (OT m D) as [R1 R2]. apply abs_ext; cbn [o_requested o_unstarted o_started]; auto.
    + destruct AB as [-> | ->]; reflexivity.
  - destruct F as [F1 F2]. cbn [fst snd].
    assert (AB : abs o n = Idle \/ exists k, abs o n = Requested k).
    { unfold abs. rewrite F1, F2. destruct (zassoc n (o_requested o)); eauto. }
    split; [repeat split; assumption|]. split; [reflexivity|].
    split; [destruct AB as [-> |[k ->]]; reflexivity|].
    split; [reflexivity|destruct AB as [-> |[k ->]]; reflexivity].
Qed.
