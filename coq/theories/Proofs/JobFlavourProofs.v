(* C19 part 2: what is and what is not the same in the threaded and the asyncio
   job discipline, for every handler. *)
From Coq Require Import List NArith ZArith Bool Lia Permutation String.
From PMS Require Import Base.PyStr Base.PyInt Base.Exn Model.Codec Model.JobFlavours.
Import ListNotations.

Fixpoint pending_lines (q : list job) : list pstr :=
  match q with
  | [] => []
  | JLogic l :: r => l :: pending_lines r
  | JSend _ :: r => pending_lines r
  end.
Fixpoint pending_sends (q : list job) : list pstr :=
  match q with
  | [] => []
  | JLogic _ :: r => pending_sends r
  | JSend s :: r => s :: pending_sends r
  end.

Lemma pending_lines_app a b : pending_lines (a ++ b) = pending_lines a ++ pending_lines b.
Proof. induction a as [|[l|s] a IH]; simpl; rewrite ?IH; reflexivity. Qed.
Lemma pending_sends_app a b : pending_sends (a ++ b) = pending_sends a ++ pending_sends b.
Proof. induction a as [|[l|s] a IH]; simpl; rewrite ?IH; reflexivity. Qed.
Lemma pending_lines_sends l : pending_lines (map JSend l) = [].
Proof. induction l; simpl; auto. Qed.
Lemma pending_sends_sends l : pending_sends (map JSend l) = l.
Proof. induction l; simpl; congruence. Qed.
Lemma emits_app a b : emits (a ++ b) = emits a ++ emits b.
Proof. apply flat_map_app. Qed.
Lemma recvs_app a b : recvs (a ++ b) = recvs a ++ recvs b.
Proof. induction a as [|[l|] a IH]; simpl; rewrite ?IH; reflexivity. Qed.
Lemma recvs_pumps n : recvs (repeat Pump n) = [].
Proof. induction n; simpl; auto. Qed.

Section Proofs.
  Variable state : Type.
  Variable handler : state -> pstr -> state * option pstr * list pstr.
  Notation sync_step := (sync_step state handler).
  Notation sync_run := (sync_run state handler).
  Notation async_run := (async_run state handler).
  Notation async_line := (async_line state handler).
  Notation final_state := (final_state state handler).
  Notation line_outputs := (line_outputs state handler).

  Lemma sync_run_app a : forall m b,
    sync_run m (a ++ b) =
    (fst (sync_run (fst (sync_run m a)) b), snd (sync_run m a) ++ snd (sync_run (fst (sync_run m a)) b)).
  Proof.
    induction a as [|o a IH]; intros m b.
    - simpl. destruct (sync_run m b); reflexivity.
    - simpl. destruct (sync_step m o) as [m1 o1]. rewrite IH.
      destruct (sync_run m1 a) as [m2 o2]. simpl.
      destruct (sync_run m2 b) as [m3 o3]. simpl. rewrite app_assoc. reflexivity.
  Qed.

  Lemma async_run_app a : forall st b,
    async_run st (a ++ b) =
    (fst (async_run (fst (async_run st a)) b), snd (async_run st a) ++ snd (async_run (fst (async_run st a)) b)).
  Proof.
    induction a as [|l a IH]; intros st b.
    - simpl. destruct (async_run st b); reflexivity.
    - simpl. destruct (async_line st l) as [s1 o1]. rewrite IH.
      destruct (async_run s1 a) as [s2 o2]. simpl.
      destruct (async_run s2 b) as [s3 o3]. simpl. rewrite app_assoc. reflexivity.
  Qed.

  Lemma async_run_state lines : forall st, fst (async_run st lines) = final_state st lines.
  Proof.
    induction lines as [|l r IH]; intro st; [reflexivity|].
    simpl. unfold JobFlavours.async_line. destruct (handler st l) as [[st' reply] nested].
    rewrite <- IH. destruct (async_run st' r); reflexivity.
  Qed.

  Lemma async_run_order lines : forall st, snd (async_run st lines) = async_order (line_outputs st lines).
  Proof.
    induction lines as [|l r IH]; intro st; [reflexivity|].
    simpl. unfold JobFlavours.async_line. destruct (handler st l) as [[st' reply] nested].
    specialize (IH st'). destruct (async_run st' r) as [s2 o2]. simpl in *. rewrite IH. reflexivity.
  Qed.

  Lemma final_state_app a : forall st b, final_state st (a ++ b) = final_state (final_state st a) b.
  Proof.
    induction a as [|l a IH]; intros st b; [reflexivity|].
    simpl. destruct (handler st l) as [[st' reply] nested]. apply IH.
  Qed.

  (* ---- one step keeps: lines are consumed FIFO, the state is the async state of
     the consumed prefix, emitted + still queued strings = what async emitted *)
  Lemma sync_step_inv m o m1 o1 :
    sync_step m o = (m1, o1) ->
    exists d,
      pending_lines (s_queue m) ++ recvs [o] = d ++ pending_lines (s_queue m1) /\
      s_state m1 = final_state (s_state m) d /\
      Permutation (o1 ++ emits (pending_sends (s_queue m1)))
                  (emits (pending_sends (s_queue m)) ++ snd (async_run (s_state m) d)).
  Proof.
    destruct m as [st q]. destruct o as [l|]; simpl.
    - intro H. inversion H; subst. exists []. simpl.
      rewrite pending_lines_app, pending_sends_app. simpl. rewrite !app_nil_r. auto.
    - destruct q as [|[l|s] q].
      + intro H. inversion H; subst. exists []. simpl. auto.
      + destruct (handler st l) as [[st' reply] nested] eqn:Hh.
        intro H. inversion H; subst. exists [l]. simpl.
        unfold JobFlavours.async_line. rewrite Hh. simpl.
        rewrite pending_lines_app, pending_sends_app, pending_lines_sends, pending_sends_sends.
        rewrite !app_nil_r, emits_app. split; [reflexivity|]. split; [reflexivity|].
        rewrite (Permutation_app_comm (emit_opt reply)).
        rewrite <- !app_assoc. apply Permutation_app_head. apply Permutation_app_head.
        apply Permutation_refl.
      + intro H. inversion H; subst. exists []. simpl. rewrite !app_nil_r.
        split; [reflexivity|]. split; [reflexivity|]. apply Permutation_refl.
  Qed.

  Lemma sync_run_inv ops : forall m m' out,
    sync_run m ops = (m', out) ->
    exists d,
      pending_lines (s_queue m) ++ recvs ops = d ++ pending_lines (s_queue m') /\
      s_state m' = final_state (s_state m) d /\
      Permutation (out ++ emits (pending_sends (s_queue m')))
                  (emits (pending_sends (s_queue m)) ++ snd (async_run (s_state m) d)).
  Proof.
    induction ops as [|o r IH]; intros m m' out H.
    - simpl in H. inversion H; subst. exists []. simpl. rewrite !app_nil_r.
      split; [reflexivity|]. split; [reflexivity|]. apply Permutation_refl.
    - simpl in H. destruct (sync_step m o) as [m1 o1] eqn:S1.
      destruct (sync_run m1 r) as [m2 o2] eqn:S2. inversion H; subst. clear H.
      destruct (sync_step_inv _ _ _ _ S1) as [d1 [L1 [F1 P1]]].
      destruct (IH _ _ _ S2) as [d2 [L2 [F2 P2]]].
      exists (d1 ++ d2). split; [|split].
      + change (o :: r) with ([o] ++ r). rewrite recvs_app, app_assoc, L1.
        rewrite <- !app_assoc. rewrite L2. reflexivity.
      + rewrite final_state_app, <- F1. exact F2.
      + rewrite async_run_app. cbn [snd]. rewrite async_run_state, <- F1.
        rewrite <- app_assoc.
        eapply Permutation_trans; [apply Permutation_app_head; exact P2|].
        rewrite !app_assoc. apply Permutation_app_tail. exact P1.
  Qed.

  (* FIFO, any schedule, drained or not: the state is the asyncio state after the
     lines already taken from the queue, which are a prefix of the lines received *)
  Theorem sync_state_is_async_prefix st0 ops :
    exists d, recvs ops = d ++ pending_lines (s_queue (fst (sync_run (mkSync st0 []) ops))) /\
              s_state (fst (sync_run (mkSync st0 []) ops)) = fst (async_run st0 d).
  Proof.
    destruct (sync_run (mkSync st0 []) ops) as [m' out] eqn:R.
    destruct (sync_run_inv _ _ _ _ R) as [d [L [F _]]].
    exists d. simpl in *. rewrite async_run_state. auto.
  Qed.

  Theorem state_schedule_independent st0 ops :
    s_queue (fst (sync_run (mkSync st0 []) ops)) = [] ->
    s_state (fst (sync_run (mkSync st0 []) ops)) = fst (async_run st0 (recvs ops)) /\
    Permutation (snd (sync_run (mkSync st0 []) ops)) (snd (async_run st0 (recvs ops))).
  Proof.
    destruct (sync_run (mkSync st0 []) ops) as [m' out] eqn:R. cbn [fst snd]. intro Q.
    destruct (sync_run_inv _ _ _ _ R) as [d [L [F P]]].
    rewrite Q in L, P. simpl in L, P. rewrite !app_nil_r in *. subst d.
    rewrite async_run_state. auto.
  Qed.

  Corollary two_schedules_agree st0 ops1 ops2 :
    recvs ops1 = recvs ops2 ->
    s_queue (fst (sync_run (mkSync st0 []) ops1)) = [] ->
    s_queue (fst (sync_run (mkSync st0 []) ops2)) = [] ->
    s_state (fst (sync_run (mkSync st0 []) ops1)) = s_state (fst (sync_run (mkSync st0 []) ops2)) /\
    Permutation (snd (sync_run (mkSync st0 []) ops1)) (snd (sync_run (mkSync st0 []) ops2)).
  Proof.
    intros E Q1 Q2.
    destruct (state_schedule_independent st0 ops1 Q1) as [S1 P1].
    destruct (state_schedule_independent st0 ops2 Q2) as [S2 P2].
    rewrite E in *. split; [congruence|].
    eapply Permutation_trans; [exact P1|apply Permutation_sym; exact P2].
  Qed.

  (* every schedule can be extended by finitely many pumps that drain the queue *)
  Fixpoint count_logic (q : list job) : nat :=
    match q with [] => O | JLogic _ :: r => S (count_logic r) | JSend _ :: r => count_logic r end.
  Lemma count_logic_app a b : count_logic (a ++ b) = (count_logic a + count_logic b)%nat.
  Proof. induction a as [|[l|s] a IH]; simpl; rewrite ?IH; reflexivity. Qed.
  Lemma count_logic_sends l : count_logic (map JSend l) = O.
  Proof. induction l; simpl; auto. Qed.

  Lemma drain_exists_aux k : forall q st, count_logic q = k ->
    exists n, s_queue (fst (sync_run (mkSync st q) (repeat Pump n))) = [].
  Proof.
    induction k as [|k IHk].
    - induction q as [|[l|s] q IHq]; intros st C.
      + exists O. reflexivity.
      + discriminate.
      + destruct (IHq st C) as [n Hn]. exists (S n). simpl.
        destruct (sync_run (mkSync st q) (repeat Pump n)); exact Hn.
    - induction q as [|[l|s] q IHq]; intros st C.
      + discriminate.
      + simpl in C. injection C as C.
        destruct (handler st l) as [[st' reply] nested] eqn:Hh.
        destruct (IHk (q ++ map JSend nested) st') as [n Hn].
        { rewrite count_logic_app, count_logic_sends. lia. }
        exists (S n). simpl. rewrite Hh.
        destruct (sync_run (mkSync st' (q ++ map JSend nested)) (repeat Pump n)); exact Hn.
      + destruct (IHq st C) as [n Hn]. exists (S n). simpl.
        destruct (sync_run (mkSync st q) (repeat Pump n)); exact Hn.
  Qed.

  Theorem drain_exists m : exists n, s_queue (fst (sync_run m (repeat Pump n))) = [].
  Proof. destruct m as [st q]. apply (drain_exists_aux (count_logic q)). reflexivity. Qed.

  (* ---- drained between consecutive lines *)
  Lemma pump_sends n : forall ns st,
    sync_run (mkSync st (map JSend ns)) (repeat Pump n) =
    (mkSync st (map JSend (skipn n ns)), emits (firstn n ns)).
  Proof.
    induction n as [|n IH]; intros ns st; [reflexivity|].
    destruct ns as [|s ns].
    - simpl. specialize (IH [] st). simpl in IH. rewrite IH.
      rewrite skipn_nil, firstn_nil. reflexivity.
    - simpl. rewrite IH. reflexivity.
  Qed.

  Lemma block_drained m l n st' reply nested :
    s_queue m = [] -> handler (s_state m) l = (st', reply, nested) ->
    s_queue (fst (sync_run m (block_ops (l, n)))) = [] ->
    sync_run m (block_ops (l, n)) = (mkSync st' [], emit_opt reply ++ emits nested).
  Proof.
    destruct m as [st q]. simpl. intros Q Hh. subst q. unfold block_ops. cbn [fst snd].
    destruct n as [|n].
    - simpl. discriminate.
    - simpl. rewrite Hh. rewrite pump_sends. cbn [fst s_queue]. intro E.
      assert (S : skipn n nested = []) by (destruct (skipn n nested); [reflexivity|discriminate]).
      rewrite S. rewrite <- (firstn_skipn n nested) at 2. rewrite S, app_nil_r. reflexivity.
  Qed.

  Theorem sync_drained_order bs : forall m,
    s_queue m = [] -> drained_between state handler m bs ->
    sync_run m (blocks_ops bs) =
    (mkSync (final_state (s_state m) (map fst bs)) [],
     sync_order (line_outputs (s_state m) (map fst bs))).
  Proof.
    induction bs as [|[l n] bs IH]; intros m Q D.
    - destruct m as [st q]. simpl in *. subst q. reflexivity.
    - cbn [drained_between] in D. destruct D as [D1 D2].
      destruct (handler (s_state m) l) as [[st' reply] nested] eqn:Hh.
      pose proof (block_drained m l n st' reply nested Q Hh D1) as B.
      rewrite B in D2. cbn [fst] in D2.
      unfold blocks_ops. cbn [flat_map]. rewrite sync_run_app. rewrite B. cbn [fst snd].
      fold (blocks_ops bs). rewrite (IH (mkSync st' []) eq_refl D2).
      cbn [fst snd s_state map]. simpl. rewrite Hh. reflexivity.
  Qed.
End Proofs.

Lemma exclusive_same_order outs : Forall exclusive outs -> sync_order outs = async_order outs.
Proof.
  intro F. induction F as [|o outs E F IH]; [reflexivity|].
  unfold sync_order, async_order in *. simpl. rewrite IH.
  destruct E as [E|E]; rewrite E; rewrite ?app_nil_r; reflexivity.
Qed.

(* drained between the lines: the threaded flavour emits reply-then-nested per
   line, the asyncio flavour nested-then-reply; identical sequences when no line
   does both (true of every handler of the library: is_sensor and the smart sleep
   flush are only reached on paths that return None - observed by the monitor) *)
Theorem flavour_equiv_drained state handler st0 bs :
  drained_between state handler (mkSync st0 []) bs ->
  s_state (fst (sync_run state handler (mkSync st0 []) (blocks_ops bs)))
    = fst (async_run state handler st0 (map fst bs)) /\
  snd (sync_run state handler (mkSync st0 []) (blocks_ops bs))
    = sync_order (line_outputs state handler st0 (map fst bs)) /\
  snd (async_run state handler st0 (map fst bs))
    = async_order (line_outputs state handler st0 (map fst bs)) /\
  (Forall exclusive (line_outputs state handler st0 (map fst bs)) ->
   snd (sync_run state handler (mkSync st0 []) (blocks_ops bs))
     = snd (async_run state handler st0 (map fst bs))).
Proof.
  intro D. rewrite (sync_drained_order state handler bs (mkSync st0 []) eq_refl D).
  cbn [fst snd s_state]. rewrite async_run_state, async_run_order.
  repeat split; try reflexivity. apply exclusive_same_order.
Qed.

(* without that exclusivity even the drained sequences differ *)
Definition both_handler (st : unit) (l : pstr) : unit * option pstr * list pstr :=
  (tt, Some (s2p "reply"%string), [s2p "nested"%string]).

Theorem drained_needs_exclusive :
  exists state handler st0 bs,
    drained_between state handler (mkSync st0 []) bs /\
    snd (sync_run state handler (mkSync st0 []) (blocks_ops bs))
      <> snd (async_run state handler st0 (map fst bs)).
Proof.
  exists unit, both_handler, tt, [(s2p "x", 2%nat)]. split.
  - simpl. auto.
  - vm_compute. discriminate.
Qed.

(* ---- D11: the ordered claim fails with two lines pending *)
Lemma d11_sync :
  snd (sync_run mini_state mini_handler (mkSync d11_state []) d11_ops)
  = [s2p "1;255;3;0;6;M" ++ [nl]; s2p "1;255;3;0;19;" ++ [nl]].
Proof. vm_compute. reflexivity. Qed.
Lemma d11_async :
  snd (async_run mini_state mini_handler d11_state (recvs d11_ops))
  = [s2p "1;255;3;0;19;" ++ [nl]; s2p "1;255;3;0;6;M" ++ [nl]].
Proof. vm_compute. reflexivity. Qed.
Lemma d11_drained : s_queue (fst (sync_run mini_state mini_handler (mkSync d11_state []) d11_ops)) = [].
Proof. vm_compute. reflexivity. Qed.
Lemma d11_exclusive : Forall exclusive (line_outputs mini_state mini_handler d11_state d11_lines).
Proof.
  vm_compute. constructor; [left; reflexivity|]. constructor; [right; reflexivity|]. constructor.
Qed.

Theorem flavour_equiv_refuted :
  exists (state : Type) (handler : state -> pstr -> state * option pstr * list pstr)
         (st0 : state) (ops : list op),
    s_queue (fst (sync_run state handler (mkSync st0 []) ops)) = [] /\
    Forall exclusive (line_outputs state handler st0 (recvs ops)) /\
    snd (sync_run state handler (mkSync st0 []) ops) <> snd (async_run state handler st0 (recvs ops)).
Proof.
  exists mini_state, mini_handler, d11_state, d11_ops.
  split; [exact d11_drained|]. split; [exact d11_exclusive|].
  rewrite d11_sync, d11_async. vm_compute. discriminate.
Qed.

Theorem flavour_equiv_full_refuted : ~ flavour_equiv_full.
Proof.
  intro H. specialize (H mini_state mini_handler d11_state d11_ops d11_drained).
  rewrite d11_sync, d11_async in H. vm_compute in H. discriminate.
Qed.
