(* C14: the dirty flag discipline and the persistence machine (step / periodic save / clean
   stop + restart) over Model/Gateway.v. *)
From Coq Require Import List NArith ZArith Bool String Lia.
From PMS Require Import Base.PyStr Base.PyInt Base.Exn Model.Codec Model.Rules Model.TableTypes
  Gen.Tables Model.Validate Model.Hex Model.Ota Model.Oracles Model.Gateway Spec.SerialApi
  Proofs.PyStrFacts Proofs.PyIntFacts Proofs.CodecProofs Proofs.ValidateProofs Proofs.GwLemmas Proofs.GwInv
  Spec.TreeMeaning Proofs.TreeProofs Proofs.TreeHistory.
Import ListNotations.
Open Scope string_scope.
Open Scope list_scope.
Open Scope Z_scope.

(* ---- a message that does not alert does not change the tree ---- *)
Lemma known_false_assoc (t : tree) n : known t n = false -> zassoc n t = None.
Proof. apply zhas_false. Qed.

Lemma meaning_unchanged sv k t m : alerting_k k t m = false -> meaning sv k t m = t.
Proof.
  destruct k; unfold alerting_k, meaning; intro A; try discriminate A; try reflexivity;
    try (apply tupd_none, known_false_assoc; exact A).
  - (* child presentation *)
    unfold known, known_child, zhas in A.
    destruct (zassoc (m_node m) t) as [nd|] eqn:E; [|apply tupd_none; exact E].
    cbn [andb] in A. apply negb_false_iff in A.
    eapply tupd_id; [exact E|]. cbn beta. unfold zhas. rewrite A. reflexivity.
  - (* set *)
    unfold known_child in A.
    destruct (zassoc (m_node m) t) as [nd|] eqn:E; [|apply tupd_none; exact E].
    eapply tupd_id; [exact E|]. cbn beta. rewrite (zhas_false _ _ A). reflexivity.
  - (* id request *)
    rewrite A. reflexivity.
Qed.

(* the converse direction of the property text: a changed tree means the message alerted *)
Lemma changed_implies_alerting sv k t m : meaning sv k t m <> t -> alerting_k k t m = true.
Proof.
  intro H. destruct (alerting_k k t m) eqn:A; [reflexivity|]. exfalso. apply H. apply meaning_unchanged. exact A.
Qed.

Section Dirty.
  Variable orc : oracles.
  Variable clock : Z.

  Notation P g := (proj (g_sensors g)).

  Lemma al_none_ml v g t l : al orc v g t l = None -> ml orc v g t l = t.
  Proof.
    unfold al, ml, alerted_line, meaning_line. destruct (decode l) as [m|]; [|reflexivity].
    destruct (gvalidate orc g m); [|reflexivity]. cbn [andb]. unfold alerting.
    destruct (alerting_k (kind_of v m) t m) eqn:A; [discriminate|]. intros _. apply meaning_unchanged. exact A.
  Qed.

  Lemma eff_summary v g0 t l g' : eff g0 g' (ml orc v g0 t l) (al orc v g0 t l) ->
    cf_persist (g_cf g0) = true ->
    (P g' = t /\ g_dirty g' = g_dirty g0) \/ g_dirty g' = true.
  Proof.
    intros (C & T & D & _) PE. destruct (al orc v g0 t l) as [m|] eqn:A.
    - right. rewrite D, PE. reflexivity.
    - left. split; [rewrite T; apply al_none_ml; exact A|exact D].
  Qed.

  (* C14.1 *)
  Theorem tree_change_marks_dirty v g l g' r : cfg_is v (g_cf g) -> Inv orc g -> cf_persist (g_cf g) = true ->
    logic orc clock g l = Ok (g', r) -> P g' <> P g -> g_dirty g' = true.
  Proof.
    intros CI I PE E N. destruct (eff_summary v g (P g) l g' (logic_eff orc clock v g l g' r CI I E) PE) as [[T _]|D];
      [contradiction|exact D].
  Qed.

  Theorem logic_never_clears v g l g' r : cfg_is v (g_cf g) -> Inv orc g ->
    logic orc clock g l = Ok (g', r) -> g_dirty g = true -> g_dirty g' = true.
  Proof.
    intros CI I E D. destruct (logic_eff orc clock v g l g' r CI I E) as (_ & _ & D' & _).
    rewrite D'. destruct (al orc v g (P g) l); [destruct (cf_persist (g_cf g)); [reflexivity|exact D]|exact D].
  Qed.

  (* the flag after the dispatcher, exactly *)
  Theorem logic_dirty_exact v g l g' r : cfg_is v (g_cf g) -> Inv orc g ->
    logic orc clock g l = Ok (g', r) ->
    g_dirty g' = match al orc v g (P g) l with
                 | Some _ => if cf_persist (g_cf g) then true else g_dirty g
                 | None => g_dirty g
                 end.
  Proof. intros CI I E. destruct (logic_eff orc clock v g l g' r CI I E) as (_ & _ & D' & _). exact D'. Qed.

  (* every operation: tree and flag both kept, or the flag is set *)
  Lemma step_dirty v g o : cfg_is v (g_cf g) -> Inv orc g -> op_ok o -> cf_persist (g_cf g) = true ->
    let g' := step orc clock g o in
    (P g' = P g /\ g_dirty g' = g_dirty g) \/ g_dirty g' = true.
  Proof.
    intros CI I O PE. destruct o as [l| |s c vt x mt a|ns t x b|b]; cbn [step]; cbv zeta.
    - destruct (cf_async (g_cf g)) eqn:A.
      + exact (eff_summary v g (P g) l _ (recv_async_eff orc clock v g l CI I A) PE).
      + rewrite (recv_threaded orc clock g l A). left. split; reflexivity.
    - destruct (g_jobs g) as [|[l|l] rest] eqn:J.
      + rewrite (pump_empty orc clock g J). left. split; reflexivity.
      + exact (eff_summary v (set_jobs g rest) (P g) l _ (pump_logic_eff orc clock v g l rest CI I J) PE).
      + rewrite (pump_send orc clock g l rest J). left.
        destruct (quiet_send (set_jobs g rest) l) as (_ & D & _). rewrite sensors_send. split; [reflexivity|exact D].
    - destruct (step_set_child_q orc clock g s c vt x mt a I) as [(_ & D & _) E]. cbn [step] in D, E.
      left. split; assumption.
    - destruct (step_update_fw_q orc clock g ns t x b I) as [(_ & D & _) E]. cbn [step] in D, E.
      left. split; assumption.
    - left. split; reflexivity.
  Qed.

  (* the frame part of C14.1: controller calls and send jobs change neither tree nor flag *)
  Theorem controller_ops_frame g o : Inv orc g ->
    match o with Recv _ | Pump => False | _ => True end ->
    P (step orc clock g o) = P g /\ g_dirty (step orc clock g o) = g_dirty g.
  Proof.
    intros I O. destruct o as [l| |s c vt x mt a|ns t x b|b]; try contradiction.
    - destruct (step_set_child_q orc clock g s c vt x mt a I) as [(_ & D & _) E]. split; assumption.
    - destruct (step_update_fw_q orc clock g ns t x b I) as [(_ & D & _) E]. split; assumption.
    - split; reflexivity.
  Qed.

  Theorem send_job_frame g l rest : g_jobs g = JSend l :: rest ->
    P (pump orc clock g) = P g /\ g_dirty (pump orc clock g) = g_dirty g.
  Proof.
    intro J. rewrite (pump_send orc clock g l rest J).
    destruct (quiet_send (set_jobs g rest) l) as (_ & D & _). rewrite sensors_send. split; [reflexivity|exact D].
  Qed.

  (* ---- load restores exactly the persisted projection ---- *)
  Lemma proj_load_child c : proj_child (load_child c) = c.
  Proof. destruct c. reflexivity. Qed.

  Lemma proj_load_node n : proj_node (load_node n) = n.
  Proof.
    destruct n as [id ch ty sn sv b pv hb]. unfold load_node, proj_node. cbn.
    f_equal. rewrite map_map. cbn. rewrite <- (map_id ch) at 2. apply map_ext.
    intros [k c]. cbn. rewrite proj_load_child. reflexivity.
  Qed.

  Theorem proj_load_tree t : proj (load_tree t) = t.
  Proof.
    unfold proj, load_tree. rewrite map_map. cbn. rewrite <- (map_id t) at 2. apply map_ext.
    intros [k n]. cbn. rewrite proj_load_node. reflexivity.
  Qed.

  (* ---- the persistence machine ---- *)
  Inductive pop := POp (o : op) | PSave | PRestart.
  Definition pstate := (gw * option tree)%type.
  Definition pstep (s : pstate) (o : pop) : pstate :=
    match o with
    | POp o => (step orc clock (fst s) o, snd s)
    | PSave => save_tick (fst s) (snd s)
    | PRestart => restart (fst s) (snd s)
    end.
  Definition prun (s : pstate) (pops : list pop) : pstate := fold_left pstep pops s.
  Definition pop_ok (o : pop) : Prop := match o with POp o => op_ok o | _ => True end.

  Definition synced (s : pstate) : Prop := g_dirty (fst s) = false -> snd s = Some (P (fst s)).

  Definition PInv (v : ver) (cf : config) (s : pstate) : Prop :=
    g_cf (fst s) = cf /\ Inv orc (fst s) /\ synced s.

  Lemma restart_spec g d : cf_persist (g_cf g) = true -> synced (g, d) ->
    restart g d = (set_dirty (set_sensors (gw_init (g_cf g)) (load_tree (P g))) false, Some (P g)).
  Proof.
    intros PE S. unfold restart, save_tick. rewrite PE. cbn [andb].
    assert (D1 : (if g_dirty g then Some (P g) else d) = Some (P g)).
    { destruct (g_dirty g) eqn:D; [reflexivity|]. apply S. exact D. }
    destruct (g_dirty g); cbn [g_cf set_sensors gw_init g_dirty andb]; rewrite ?PE; cbn [andb].
    - cbn [g_sensors set_sensors]. rewrite proj_load_tree. reflexivity.
    - rewrite D1. cbn [g_sensors set_sensors]. rewrite proj_load_tree. reflexivity.
  Qed.

  Lemma Inv_loaded g : Inv orc g ->
    Inv orc (set_dirty (set_sensors (gw_init (g_cf g)) (load_tree (P g))) false).
  Proof.
    intros I. pose proof (Inv_keys_ok orc g I) as KO.
    split; [|repeat split; constructor].
    cbn [g_sensors set_dirty set_sensors]. unfold load_tree, proj. rewrite map_map.
    apply Forall_map. eapply Forall_impl; [|exact KO].
    intros [k nd] K. cbn in *. split; cbn; [exact K|constructor].
  Qed.

  Lemma pstep_inv v cf s o : cfg_is v cf -> cf_persist cf = true -> pop_ok o ->
    PInv v cf s -> PInv v cf (pstep s o).
  Proof.
    intros CI PE O (C & I & S). destruct s as [g d]. cbn [fst snd] in *. destruct o as [o| |]; unfold PInv; cbn [pstep fst snd].
    - assert (CI' : cfg_is v (g_cf g)) by (rewrite C; exact CI).
      destruct (step_ok orc clock g o (cfg_is_ok _ _ CI') I O) as [I1 C1].
      split; [congruence|]. split; [exact I1|].
      assert (PE' : cf_persist (g_cf g) = true) by (rewrite C; exact PE).
      destruct (step_dirty v g o CI' I O PE') as [[T D]|D]; unfold synced; cbn [fst snd]; intro D'.
      + rewrite T. apply S. cbn [fst]. congruence.
      + congruence.
    - unfold save_tick. rewrite C, PE. cbn [andb]. destruct (g_dirty g) eqn:D; cbn [fst snd].
      + split; [exact C|]. split; [revert I; apply Inv_ext; reflexivity|]. unfold synced. intros _. reflexivity.
      + split; [exact C|]. split; [exact I|exact S].
    - assert (PE' : cf_persist (g_cf g) = true) by (rewrite C; exact PE).
      rewrite (restart_spec g d PE' S). cbn [fst snd].
      split; [exact C|]. split; [apply Inv_loaded; exact I|].
      unfold synced. cbn [fst snd]. intros _. cbn [g_sensors set_dirty set_sensors].
      rewrite proj_load_tree. reflexivity.
  Qed.

  Lemma prun_inv v cf pops : cfg_is v cf -> cf_persist cf = true -> Forall pop_ok pops ->
    forall s, PInv v cf s -> PInv v cf (prun s pops).
  Proof.
    intros CI PE. induction pops as [|o pops IH]; intros F s H; [exact H|].
    inversion F; subst. unfold prun. cbn [fold_left]. apply IH; [assumption|].
    apply pstep_inv; assumption.
  Qed.

  Lemma PInv_init v cf : PInv v cf (gw_init cf, None).
  Proof. split; [reflexivity|]. split; [apply Inv_init|]. intro D. discriminate D. Qed.

  (* C14.2 *)
  Theorem clean_implies_synced v cf pops : cfg_is v cf -> cf_persist cf = true -> Forall pop_ok pops ->
    let s := prun (gw_init cf, None) pops in
    g_dirty (fst s) = false -> snd s = Some (P (fst s)).
  Proof.
    intros CI PE F s. destruct (prun_inv v cf pops CI PE F _ (PInv_init v cf)) as (_ & _ & S). exact S.
  Qed.

  (* C14.3 *)
  Theorem stop_loses_nothing v cf pops : cfg_is v cf -> cf_persist cf = true -> Forall pop_ok pops ->
    let s := prun (gw_init cf, None) pops in
    let s' := pstep s PRestart in
    P (fst s') = P (fst s) /\ snd s' = Some (P (fst s)) /\
    g_sensors (fst s') = load_tree (P (fst s)).
  Proof.
    intros CI PE F s s'. destruct (prun_inv v cf pops CI PE F _ (PInv_init v cf)) as (C & I & S).
    fold s in C, I, S. subst s'. cbn [pstep]. destruct s as [g d]. cbn [fst snd] in *.
    assert (PE' : cf_persist (g_cf g) = true) by (rewrite C; exact PE).
    rewrite (restart_spec g d PE' S). cbn [fst snd g_sensors set_dirty set_sensors].
    rewrite proj_load_tree. repeat split; reflexivity.
  Qed.
End Dirty.
