(* D23: two saves on one file system.  pause/resume are tied to the interpreter of FsSave (save_split); without
   mutual exclusion there is a schedule that loses the state held at stop (witness by computation on the GENERATED
   programs); with the lock the later state is what a start-up loads (corollary of the sequential theorem). *)
From Coq Require Import List Bool Arith NArith Lia.
From PMS Require Import Base.PyStr Spec.AbstractFs Model.FsSave Model.FsCode Model.FsConc Proofs.FsProofs.
Import ListNotations.
Local Open Scope nat_scope.

Section Split.
Context {St : Type}.

Lemma do_act_exists : forall (new : St) a st st', do_act new a st = Some st' ->
  (forall n, a <> AIsfile n) -> m_exists st' = m_exists st.
Proof.
  intros new a st st' H Hn. destruct a; cbn in H;
    try (injection H as <-; reflexivity);
    try (destruct (m_h st) as [h|]; [|discriminate]; injection H as <-; try reflexivity).
  - exfalso; eapply Hn; reflexivity.
  - destruct (fs_open_trunc (m_fs st) n); injection H as <-; reflexivity.
  - unfold flush_h. destruct (h_dirty h); reflexivity.
  - destruct (m_h st) as [h|]; injection H as <-; [|reflexivity].
    unfold flush_h. destruct (h_dirty h); reflexivity.
  - destruct (fs_rename (m_fs st) a b); [|discriminate]. injection H as <-; reflexivity.
  - destruct (fs_remove (m_fs st) a); [|discriminate]. injection H as <-; reflexivity.
Qed.

(* running a list of calls cut before call number e (counted from k) and then the rest = running all *)
Lemma run_acts_split : forall (new : St) acts k e st, k <= e ->
  run_acts new None k acts st =
  match run_acts new (Some (EvCrash, e)) k acts st with
  | (s, Crashed) => run_acts new None e (skipn (e - k) acts) s
  | r => r
  end.
Proof.
  intros new acts. induction acts as [|a r IH]; intros k e st Hk.
  - reflexivity.
  - cbn [run_acts]. destruct (Nat.eqb e k) eqn:Ek.
    + apply Nat.eqb_eq in Ek. subst e. rewrite Nat.sub_diag. reflexivity.
    + apply Nat.eqb_neq in Ek. destruct (do_act new a st) as [st'|] eqn:Ea; [|reflexivity].
      rewrite (IH (S k) e st') by lia.
      replace (e - k) with (S (e - S k)) by lia. reflexivity.
Qed.

(* the index from which run_acts counts does not matter when there is no event *)
Lemma run_acts_none_shift : forall (new : St) acts k k' st,
  run_acts new None k acts st = run_acts new None k' acts st.
Proof.
  intros new acts. induction acts as [|a r IH]; intros k k' st; [reflexivity|].
  cbn [run_acts]. destruct (do_act new a st); [apply IH | reflexivity].
Qed.

Lemma run_acts_crash_state : forall (new : St) acts k e st s,
  run_acts new (Some (EvCrash, e)) k acts st = (s, Crashed) ->
  (forall a n, In a acts -> a <> AIsfile n) -> m_exists s = m_exists st.
Proof.
  intros new acts. induction acts as [|a r IH]; intros k e st s H Hn.
  - discriminate.
  - cbn [run_acts] in H. destruct (Nat.eqb e k).
    + injection H as <-. reflexivity.
    + destruct (do_act new a st) as [st'|] eqn:Ea; [|discriminate].
      rewrite (IH _ _ _ _ H) by (intros; apply Hn; right; assumption).
      eapply do_act_exists; [exact Ea | intros n; apply Hn; left; reflexivity].
Qed.

Lemma acts_of_exists : forall w (st st' : mstate St) op, m_exists st' = m_exists st ->
  acts_of w st' op = acts_of w st op.
Proof. intros w st st' op H. destruct op; cbn; try reflexivity. rewrite H. reflexivity. Qed.

Lemma acts_no_isfile : forall w (st : mstate St) op, (forall n, op <> IExists n) ->
  forall a n, In a (acts_of w st op) -> a <> AIsfile n.
Proof.
  intros w st op Hop a n Hin. destruct op; cbn in Hin;
    try (destruct Hin as [<-|[]]; discriminate); try contradiction.
  - exfalso; eapply Hop; reflexivity.
  - destruct (m_exists st); cbn in Hin; destruct Hin as [<-|[<-|[]]] || destruct Hin as [<-|[]]; discriminate.
  - unfold dump_acts in Hin. apply in_app_or in Hin. destruct Hin as [Hin|[<-|[]]]; [|discriminate].
    apply repeat_spec in Hin. subst a. discriminate.
Qed.

(* the acts of the statement at which thread 1 was paused are the same list when it resumes *)
Lemma acts_same_at_resume : forall w (new : St) op e st s,
  run_acts new (Some (EvCrash, e)) 0 (acts_of w st op) st = (s, Crashed) ->
  acts_of w s op = acts_of w st op.
Proof.
  intros w new op e st s H.
  destruct op; try reflexivity.
  apply acts_of_exists. eapply run_acts_crash_state; [exact H|].
  apply acts_no_isfile. intros n0; discriminate.
Qed.

Lemma run_acts_none_not_crashed : forall (new : St) l n st s, run_acts new None n l st <> (s, Crashed).
Proof.
  intros new l. induction l as [|b l IHl]; intros n st s RR; [discriminate|].
  cbn [run_acts] in RR. destruct (do_act new b st); [eapply IHl; exact RR | discriminate].
Qed.

(* an undisturbed run never ends Crashed *)
Lemma exec_none_not_crashed : forall w (new : St) prog st s, exec w new None prog st <> (s, Crashed).
Proof.
  intros w new prog. induction prog as [|a r IH]; intros st s E2; [discriminate|].
  cbn [exec ev_next ev_here] in E2.
  destruct (i_guard a && negb (m_exists st)); [eapply IH; exact E2|].
  destruct (i_op a);
    try (match type of E2 with context [run_acts ?x ?y ?z ?u ?v] =>
           destruct (run_acts x y z u v) as [q [| |]] eqn:RR end;
         [eapply IH; exact E2 | discriminate | eapply run_acts_none_not_crashed; exact RR]).
  - destruct (m_need_save st); [eapply IH; exact E2 | discriminate].
  - eapply IH; exact E2.
Qed.

Lemma exists_at_pause : forall w (new : St) op j st s,
  op <> IGuardNeedSave -> (forall b, op <> ISetNeedSave b) ->
  run_acts new (Some (EvCrash, j)) 0 (acts_of w st op) st = (s, Crashed) -> m_exists s = m_exists st.
Proof.
  intros w new op j st s Hg Hs R.
  destruct op; try (eapply run_acts_crash_state; [exact R|]; apply acts_no_isfile; intros n0; discriminate).
  cbn in R. destruct (Nat.eqb j 0); [injection R as <-; reflexivity|]. cbn in R. discriminate.
Qed.

(* statement `ins` alone, cut at call j and resumed *)
Lemma stmt_split : forall w (new : St) ins rest j st,
  (i_guard ins && negb (m_exists st)) = false ->
  (forall b, i_op ins <> ISetNeedSave b) -> i_op ins <> IGuardNeedSave ->
  exec w new None (ins :: rest) st =
  match exec w new (Some (mkEv EvCrash 0 j)) (ins :: rest) st with
  | (stp, Crashed) => resume w new 0 j (ins :: rest) stp
  | r => r
  end.
Proof.
  intros w new ins rest j st G Hs Hg.
  assert (E : forall op, i_op ins = op ->
    match run_acts new None 0 (acts_of w st op) st with
    | (st', Done) => exec w new None rest st'
    | (st', Raised) => (unwind new ins st', Raised)
    | (st', Crashed) => (st', Crashed)
    end =
    match
      match run_acts new (Some (EvCrash, j)) 0 (acts_of w st op) st with
      | (st', Done) => exec w new None rest st'
      | (st', Raised) => (unwind new ins st', Raised)
      | (st', Crashed) => (st', Crashed)
      end
    with
    | (stp, Crashed) => resume w new 0 j (ins :: rest) stp
    | r => r
    end).
  { intros op Eop.
    assert (Hg' : op <> IGuardNeedSave) by (rewrite <- Eop; exact Hg).
    assert (Hs' : forall b, op <> ISetNeedSave b) by (intros b; rewrite <- Eop; apply Hs).
    rewrite (run_acts_split new (acts_of w st op) 0 j st (Nat.le_0_l j)). rewrite Nat.sub_0_r.
    destruct (run_acts new (Some (EvCrash, j)) 0 (acts_of w st op) st) as [s [| |]] eqn:R.
    { destruct (exec w new None rest s) as [s' [| |]] eqn:E2; try reflexivity.
      exfalso; eapply exec_none_not_crashed; exact E2. }
    { reflexivity. }
    cbn [resume].
    pose proof (exists_at_pause w new op j st s Hg' Hs' R) as Hex.
    rewrite Hex, G, Eop.
    rewrite (run_acts_none_shift new (skipn j (acts_of w st op)) j 0 s).
    destruct op; try (rewrite (acts_of_exists w st s _ Hex); reflexivity).
    { exfalso; apply Hg'; reflexivity. }
    exfalso; eapply Hs'; reflexivity. }
  cbn [exec ev_here ev_next]. rewrite G.
  destruct (i_op ins) eqn:Eop; try (apply E; reflexivity).
  - exfalso; apply Hg; reflexivity.
  - exfalso; eapply Hs; reflexivity.
Qed.

(* save_sensors preempted at (i, j) and resumed at once = save_sensors *)
Theorem save_split : forall w (new : St) prog i j st,
  exec w new None prog st =
  match pause w new i j prog st with
  | (stp, Crashed) => resume w new i j prog stp
  | r => r
  end.
Proof.
  intros w new prog. unfold pause. induction prog as [|ins rest IH]; intros i j st; [reflexivity|].
  destruct i as [|i].
  - destruct (i_guard ins && negb (m_exists st)) eqn:G.
    + cbn [exec ev_here ev_next]. rewrite G.
      destruct (exec w new None rest st) as [s [| |]] eqn:E; try reflexivity.
      exfalso; eapply exec_none_not_crashed; exact E.
    + destruct (i_op ins) eqn:Eop;
        try (apply stmt_split; [exact G | intros b0 Hb; rewrite Eop in Hb; discriminate | rewrite Eop; discriminate]).
      * cbn [exec ev_here ev_next]. rewrite G, Eop.
        destruct (m_need_save st); [|reflexivity].
        destruct (exec w new None rest st) as [s [| |]] eqn:E; try reflexivity.
        exfalso; eapply exec_none_not_crashed; exact E.
      * cbn [exec ev_here ev_next]. rewrite G, Eop.
        destruct (exec w new None rest (set_need_save st b)) as [s [| |]] eqn:E; try reflexivity.
        exfalso; eapply exec_none_not_crashed; exact E.
  - cbn [exec resume ev_here ev_next].
    destruct (i_guard ins && negb (m_exists st)); [apply IH|].
    destruct (i_op ins) eqn:Eop.
    all: try (destruct (run_acts new None 0 (acts_of w st _) st) as [s [| |]] eqn:RR;
              [apply IH | reflexivity | exfalso; eapply run_acts_none_not_crashed; exact RR]).
    + destruct (m_need_save st); [apply IH | reflexivity].
    + apply IH.
Qed.

End Split.

(* ---- without mutual exclusion: a schedule that loses the state held at stop ---- *)
(* statement 6 of the generated programs is file_handle.flush(): thread 1 (the scheduled save of new1 = TNew) has
   serialised and is preempted before the flush; a message makes the network TNext; stop()'s save of TNext runs
   completely; thread 1 resumes.  (Positions before the serialisation, i <= 5, are outside the meaning of the model:
   the real thread would serialise the newer network.) *)
Definition d23_obs (f : fmt) (i j : nat) : conc_obs :=
  conc_unlocked (code f) c_main_only TOld TNew TNext TSb TSt 1 i j (hd [] (damage_of f)) (hd [] (damage_of f)) 1.

Lemma unlocked_concurrent_save_refuted : forall f : fmt, exists i j,
  nth_error (save_prog_of f) i = Some (mkI IFlush false true true) /\
  cc_paused (d23_obs f i j) = true /\ cc_status2 (d23_obs f i j) = Done /\
  cc_status1 (d23_obs f i j) = Raised /\
  fs_isfile (cc_fs (d23_obs f i j)) Main = false /\
  cc_loaded (d23_obs f i j) <> LOk [TNext].
Proof.
  intros [|]; exists 6, 0; vm_compute; repeat split; discriminate.
Qed.

(* the other two pause points of the harness family (in fsync = before statement 7, before the first rename =
   before statement 9): the model loses nothing there - as observed on the parent commit *)
Lemma unlocked_other_pause_points : forall f : fmt,
  cc_loaded (d23_obs f 7 0) = LOk [TNext] /\ cc_loaded (d23_obs f 9 0) = LOk [TNext].
Proof. intros [|]; vm_compute; split; reflexivity. Qed.

(* ---- with the lock: thread 1 completely, then thread 2 completely ---- *)
Lemma locked_saves_persist_last :
  forall (f : fmt) (St : Type) (old new1 new2 sb stt : St) (c : cfg) (w : nat) (ep ee : cls) (w2 : nat),
    cfg_valid c = true -> 1 <= w -> 1 <= w2 -> In ep (damage_of f) -> In ee (damage_of f) ->
    fo_status (conc_locked (code f) c old new1 new2 sb stt w ep ee w2) <> Crashed /\
    again_spec new2 (fo_again (conc_locked (code f) c old new1 new2 sb stt w ep ee w2)).
Proof.
  intros f St old new1 new2 sb stt c w ep ee w2 Hc Hw Hw2 Hep Hee.
  pose proof (fault_atomic f St old new1 new2 sb stt c w 99 0 ep ee w2 Hc Hw Hw2 Hep Hee) as H.
  unfold fault_scn in H.
  assert (E : fault_scn_gen (code f) c old new1 new2 sb stt w (Some (mkEv EvFault 99 0)) ep ee w2 =
              conc_locked (code f) c old new1 new2 sb stt w ep ee w2).
  { unfold conc_locked, fault_scn_gen, save. rewrite exec_nofire_i; [reflexivity|].
    destruct f; vm_compute; repeat constructor. }
  rewrite E in H. destruct H as (H1 & _ & _ & _ & H5). split; assumption.
Qed.
