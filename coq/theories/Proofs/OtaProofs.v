(* Lemmas for C09 about Model/Ota.v and Model/OtaServe.v. *)
From Coq Require Import List NArith ZArith Bool Lia ZifyBool.
From PMS Require Import Base.PyStr Base.Exn Model.Hex Model.Ota Model.IntelHex Model.OtaServe
     Spec.OtaSpec Proofs.HexProofs.
Import ListNotations.

(* ---------------------------------------------------------------- lists *)

Lemma iter_snoc_repeat : forall {A} (x : A) k l,
  Nat.iter k (fun d => d ++ [x]) l = l ++ repeat x k.
Proof.
  intros A x k l. induction k as [|k IH].
  - cbn [Nat.iter repeat]. rewrite app_nil_r. reflexivity.
  - change (Nat.iter (S k) (fun d => d ++ [x]) l) with (Nat.iter k (fun d => d ++ [x]) l ++ [x]).
    rewrite IH, <- app_assoc. f_equal. cbn [repeat]. symmetry. apply repeat_cons.
Qed.

Lemma skipn_skipn : forall {A} a b (l : list A), skipn a (skipn b l) = skipn (b + a) l.
Proof.
  intros A a b. induction b as [|b IH]; intros l.
  - reflexivity.
  - destruct l as [|x l].
    + rewrite !skipn_nil. reflexivity.
    + cbn [Nat.add skipn]. apply IH.
Qed.

Lemma bytes_ok_firstn : forall n b, bytes_ok b = true -> bytes_ok (firstn n b) = true.
Proof.
  intros n b H. rewrite <- (firstn_skipn n b), bytes_ok_app in H.
  apply andb_true_iff in H. tauto.
Qed.

Lemma bytes_ok_skipn : forall n b, bytes_ok b = true -> bytes_ok (skipn n b) = true.
Proof.
  intros n b H. rewrite <- (firstn_skipn n b), bytes_ok_app in H.
  apply andb_true_iff in H. tauto.
Qed.

Lemma bytes_ok_repeat : forall k, bytes_ok (repeat 255%N k) = true.
Proof. induction k as [|k IH]; [reflexivity|]. cbn [repeat]. apply bytes_ok_cons. split; [reflexivity|assumption]. Qed.

(* ---------------------------------------------------------------- prepare_fw *)

Definition pad_count (img : list N) : nat := 128 - List.length img mod 128.

Lemma prepare_fw_data : forall img, fw_data (prepare_fw img) = img ++ repeat 255%N (pad_count img).
Proof.
  intros img. unfold prepare_fw, fw_data, pad_count, fw_page_size.
  apply iter_snoc_repeat.
Qed.

Lemma pad_count_range : forall img, (1 <= pad_count img <= 128)%nat.
Proof.
  intros img. unfold pad_count.
  pose proof (Nat.mod_upper_bound (List.length img) 128). lia.
Qed.

Lemma pad_count_full : forall img, pad_count img = 128%nat <-> (List.length img mod 128 = 0)%nat.
Proof.
  intros img. unfold pad_count.
  pose proof (Nat.mod_upper_bound (List.length img) 128). lia.
Qed.

Lemma padded_length : forall img, exists q, (List.length img + pad_count img = 128 * q)%nat.
Proof.
  intros img. unfold pad_count.
  pose proof (Nat.mod_upper_bound (List.length img) 128) as Hb.
  pose proof (Nat.div_mod (List.length img) 128) as Hd.
  exists (S (List.length img / 128)). lia.
Qed.

Lemma prepare_fw_length : forall img,
  List.length (fw_data (prepare_fw img)) = (List.length img + pad_count img)%nat.
Proof. intros img. rewrite prepare_fw_data, app_length, repeat_length. reflexivity. Qed.

Lemma prepare_fw_blocks : forall img,
  Z.of_nat (List.length (fw_data (prepare_fw img))) = (16 * fw_blocks (prepare_fw img))%Z.
Proof.
  intros img.
  assert (E : fw_blocks (prepare_fw img) = (Z.of_nat (List.length (fw_data (prepare_fw img))) / 16)%Z) by reflexivity.
  rewrite E, prepare_fw_length. destruct (padded_length img) as [q Hq]. rewrite Hq.
  replace (Z.of_nat (128 * q)) with ((8 * Z.of_nat q) * 16)%Z by lia.
  rewrite Z.div_mul by lia. lia.
Qed.

Lemma prepare_fw_crc : forall img, fw_crc (prepare_fw img) = crc16_modbus (fw_data (prepare_fw img)).
Proof. reflexivity. Qed.

Lemma prepare_fw_bytes : forall img, bytes_ok img = true -> bytes_ok (fw_data (prepare_fw img)) = true.
Proof.
  intros img H. rewrite prepare_fw_data, bytes_ok_app, H, bytes_ok_repeat. reflexivity.
Qed.

Lemma prepare_shape : forall img,
  exists k,
    fw_data (prepare_fw img) = img ++ repeat 255%N k /\
    (1 <= k <= 128)%nat /\
    (k = 128%nat <-> List.length img mod 128 = 0)%nat /\
    (List.length (fw_data (prepare_fw img)) mod 128 = 0)%nat /\
    Z.of_nat (List.length (fw_data (prepare_fw img))) = (16 * fw_blocks (prepare_fw img))%Z /\
    fw_crc (prepare_fw img) = crc16_modbus (fw_data (prepare_fw img)).
Proof.
  intros img. exists (pad_count img).
  split; [apply prepare_fw_data|].
  split; [apply pad_count_range|].
  split; [apply pad_count_full|].
  split.
  { rewrite prepare_fw_length. destruct (padded_length img) as [q Hq]. rewrite Hq.
    rewrite Nat.mul_comm. apply Nat.mod_mul. lia. }
  split; [apply prepare_fw_blocks|reflexivity].
Qed.

(* ---------------------------------------------------------------- blocks *)

Lemma fw_block_in_range : forall (D : list N) (i : nat),
  (16 * i + 16 <= List.length D)%nat ->
  fw_block D (Z.of_nat i) = firstn 16 (skipn (16 * i) D).
Proof.
  intros D i H. unfold fw_block, py_slice, py_slice_index, fw_block_size.
  destruct (Z.of_nat i * 16 <? 0)%Z eqn:E1; [lia|].
  destruct (Z.of_nat i * 16 + 16 <? 0)%Z eqn:E2; [lia|].
  rewrite (Z.min_r _ (Z.of_nat i * 16)) by lia.
  rewrite (Z.min_r _ (Z.of_nat i * 16 + 16)) by lia.
  replace (Z.to_nat (Z.of_nat i * 16 + 16 - Z.of_nat i * 16)) with 16%nat by lia.
  replace (Z.to_nat (Z.of_nat i * 16)) with (16 * i)%nat by lia.
  reflexivity.
Qed.

Lemma fw_block_beyond : forall (D : list N) (i : Z),
  (Z.of_nat (List.length D) <= 16 * i)%Z -> fw_block D i = [].
Proof.
  intros D i H. unfold fw_block, py_slice, py_slice_index, fw_block_size.
  destruct (i * 16 <? 0)%Z eqn:E1; [lia|].
  destruct (i * 16 + 16 <? 0)%Z eqn:E2; [lia|].
  rewrite (Z.min_l _ (i * 16)) by lia.
  rewrite (Z.min_l _ (i * 16 + 16)) by lia.
  rewrite Z.sub_diag. reflexivity.
Qed.

Lemma fw_block_length : forall (D : list N) (i : nat),
  (16 * i + 16 <= List.length D)%nat -> List.length (fw_block D (Z.of_nat i)) = 16%nat.
Proof.
  intros D i H. rewrite (fw_block_in_range D i H), firstn_length, skipn_length. lia.
Qed.

Lemma fw_block_bytes : forall D i, bytes_ok D = true -> bytes_ok (fw_block D i) = true.
Proof.
  intros D i H. unfold fw_block, py_slice. apply bytes_ok_firstn, bytes_ok_skipn. assumption.
Qed.

Lemma concat_chunks : forall n (D : list N), List.length D = (16 * n)%nat ->
  concat (map (fun i => firstn 16 (skipn (16 * i) D)) (seq 0 n)) = D.
Proof.
  induction n as [|n IH]; intros D H.
  - destruct D; [reflexivity|cbn [List.length] in H; lia].
  - rewrite <- cons_seq, <- seq_shift, map_cons, map_map. cbn [concat].
    rewrite Nat.mul_0_r, skipn_O.
    rewrite (map_ext (fun i => firstn 16 (skipn (16 * S i) D))
                     (fun i => firstn 16 (skipn (16 * i) (skipn 16 D)))).
    2:{ intros i. rewrite skipn_skipn. f_equal. f_equal. lia. }
    rewrite IH.
    + apply firstn_skipn.
    + rewrite skipn_length. lia.
Qed.

Lemma blocks_concat : forall (D : list N) (B : nat), List.length D = (16 * B)%nat ->
  concat (map (fun i => fw_block D (Z.of_nat i)) (seq 0 B)) = D.
Proof.
  intros D B H. etransitivity; [|apply (concat_chunks B D H)]. f_equal.
  apply map_ext_in. intros i Hi. apply in_seq in Hi.
  apply fw_block_in_range. lia.
Qed.

Lemma answer_for_served : forall (D : list N) (reqs : list Z) (i : Z),
  In i reqs -> answer_for i (map (fun j => (j, fw_block D j)) reqs) = fw_block D i.
Proof.
  intros D reqs i. unfold answer_for. induction reqs as [|j r IH]; [intros []|].
  intros H. cbn [map List.find fst].
  destruct (Z.eqb j i) eqn:E.
  - apply Z.eqb_eq in E. subst j. reflexivity.
  - apply IH. destruct H as [H|H]; [lia|assumption].
Qed.

(* whatever the order and the repetitions of the requests, a node that asked
   for every index at least once reassembles exactly the data *)
Lemma reassemble_any_order : forall (D : list N) (B : nat) (reqs : list Z),
  List.length D = (16 * B)%nat ->
  (forall i, (i < B)%nat -> In (Z.of_nat i) reqs) ->
  reassemble B (map (fun j => (j, fw_block D j)) reqs) = D.
Proof.
  intros D B reqs HL Hall. unfold reassemble.
  etransitivity; [|apply (blocks_concat D B HL)]. f_equal.
  apply map_ext_in. intros i Hi. apply in_seq in Hi.
  apply answer_for_served. apply Hall. lia.
Qed.

Lemma prepare_fw_nat_blocks : forall img,
  List.length (fw_data (prepare_fw img)) = (16 * Z.to_nat (fw_blocks (prepare_fw img)))%nat.
Proof. intros img. pose proof (prepare_fw_blocks img). lia. Qed.

(* ---------------------------------------------------------------- CRC range *)

Open Scope N_scope.

Lemma lxor_lt_pow2 : forall a b n, a < 2 ^ n -> b < 2 ^ n -> N.lxor a b < 2 ^ n.
Proof.
  intros a b n Ha Hb.
  destruct (N.eq_dec (N.lxor a b) 0) as [E|E]; [rewrite E; lia|].
  apply N.log2_lt_pow2; [lia|].
  eapply N.le_lt_trans; [apply N.log2_lxor|].
  assert (Hn : 0 < n).
  { destruct (N.eq_dec n 0) as [En|En]; [|lia]. subst n. cbn in Ha, Hb.
    assert (a = 0) by lia. assert (b = 0) by lia. subst a b. exfalso. apply E. reflexivity. }
  assert (La : N.log2 a < n).
  { destruct (N.eq_dec a 0) as [Ea|Ea]; [subst a; cbn; exact Hn|apply N.log2_lt_pow2; lia]. }
  assert (Lb : N.log2 b < n).
  { destruct (N.eq_dec b 0) as [Eb|Eb]; [subst b; cbn; exact Hn|apply N.log2_lt_pow2; lia]. }
  lia.
Qed.

Lemma crc_bit_range : forall c, c < 65536 -> crc_bit c < 65536.
Proof.
  intros c H. unfold crc_bit. rewrite N.div2_div.
  assert (c / 2 < 65536) by (apply N.div_lt_upper_bound; lia).
  destruct (N.odd c); [|assumption].
  change 65536 with (2 ^ 16). apply lxor_lt_pow2; change (2 ^ 16) with 65536; lia.
Qed.

Lemma crc_byte_range : forall c b, c < 65536 -> b < 256 -> crc_byte c b < 65536.
Proof.
  intros c b Hc Hb. unfold crc_byte.
  assert (H0 : N.lxor c b < 65536).
  { change 65536 with (2 ^ 16). apply lxor_lt_pow2; change (2 ^ 16) with 65536; lia. }
  generalize (N.lxor c b) H0. intros x Hx.
  cbn [Nat.iter nat_rect]. unfold Nat.iter. cbn [nat_rect].
  repeat apply crc_bit_range. assumption.
Qed.

Lemma crc_fold_range : forall b c, bytes_ok b = true -> c < 65536 -> fold_left crc_byte b c < 65536.
Proof.
  induction b as [|x b IH]; intros c Hb Hc; [assumption|].
  apply bytes_ok_cons in Hb. destruct Hb as [Hx Hb].
  cbn [fold_left]. apply IH; [assumption|]. apply crc_byte_range; assumption.
Qed.

Lemma crc16_range : forall b, bytes_ok b = true -> word_ok (crc16_modbus b) = true.
Proof.
  intros b H. unfold crc16_modbus.
  pose proof (crc_fold_range b 65535 H ltac:(lia)). apply word_ok_iff. lia.
Qed.

Close Scope N_scope.

(* ---------------------------------------------------------------- payloads *)

Lemma words_ok3 : forall a b c, words_ok [a; b; c] = word_ok a && word_ok b && word_ok c.
Proof. intros. unfold words_ok. cbn [forallb]. rewrite andb_true_r, andb_assoc. reflexivity. Qed.

Lemma fw_response_payload_ok : forall t v i fw,
  word_ok t = true -> word_ok v = true -> word_ok i = true ->
  fw_response_payload t v i fw =
    Ok (hexlify (le16 t ++ le16 v ++ le16 i) ++ hexlify (fw_block (fw_data fw) i)).
Proof.
  intros t v i fw Ht Hv Hi. unfold fw_response_payload.
  rewrite fw_int_to_hex_ok by (rewrite words_ok3, Ht, Hv, Hi; reflexivity).
  cbn [bind map concat]. rewrite app_nil_r. reflexivity.
Qed.

Lemma fw_response_payload_err : forall t v i fw,
  word_ok t && word_ok v && word_ok i = false ->
  fw_response_payload t v i fw = Raise StructError.
Proof.
  intros t v i fw H. unfold fw_response_payload.
  rewrite fw_int_to_hex_err by (rewrite words_ok3; exact H). reflexivity.
Qed.

(* the node reads back exactly the (type, version, index) it asked for and the block *)
Lemma response_echo : forall t v i fw p,
  bytes_ok (fw_data fw) = true ->
  fw_response_payload t v i fw = Ok p ->
  parse_response p = Ok ([t; v; i], fw_block (fw_data fw) i) /\
  p = hexlify (le16 t ++ le16 v ++ le16 i) ++ hexlify (fw_block (fw_data fw) i).
Proof.
  intros t v i fw p Hd Hp.
  destruct (word_ok t && word_ok v && word_ok i) eqn:E.
  2:{ rewrite (fw_response_payload_err _ _ _ _ E) in Hp. discriminate. }
  apply andb_true_iff in E. destruct E as [E Hi]. apply andb_true_iff in E. destruct E as [Ht Hv].
  rewrite (fw_response_payload_ok _ _ _ _ Ht Hv Hi) in Hp.
  assert (Hp' : p = hexlify (le16 t ++ le16 v ++ le16 i) ++ hexlify (fw_block (fw_data fw) i)) by congruence.
  clear Hp. subst p.
  split; [|reflexivity].
  unfold parse_response. rewrite <- hexlify_app.
  set (blk := fw_block (fw_data fw) i).
  assert (Hb : bytes_ok ((le16 t ++ le16 v ++ le16 i) ++ blk) = true).
  { rewrite !bytes_ok_app, !le16_bytes by assumption. cbn [andb].
    apply fw_block_bytes. assumption. }
  rewrite (unhexlify_hexlify _ Hb). cbn [bind].
  assert (F : firstn 6 ((le16 t ++ le16 v ++ le16 i) ++ blk) = concat (map le16 [t; v; i])).
  { reflexivity. }
  assert (S6 : skipn 6 ((le16 t ++ le16 v ++ le16 i) ++ blk) = blk) by reflexivity.
  rewrite F, S6.
  assert (P : pack_le16 [t; v; i] = Ok (concat (map le16 [t; v; i]))).
  { apply pack_le16_ok. rewrite words_ok3, Ht, Hv, Hi. reflexivity. }
  pose proof (unpack_pack [t; v; i] _ P) as U. change (List.length [t; v; i]) with 3%nat in U.
  rewrite U. reflexivity.
Qed.

Lemma fw_config_payload_ok : forall t v fw,
  word_ok t = true -> word_ok v = true -> fware_ok fw ->
  fw_config_payload t v fw =
    Ok (hexlify (le16 t ++ le16 v ++ le16 (fw_blocks fw) ++ le16 (fw_crc fw))).
Proof.
  intros t v fw Ht Hv (img & Hb & Hf & Hblk). unfold fw_config_payload.
  assert (Hc : word_ok (fw_crc fw) = true).
  { subst fw. rewrite prepare_fw_crc. apply crc16_range, prepare_fw_bytes. assumption. }
  assert (Hn : word_ok (fw_blocks fw) = true).
  { apply word_ok_iff. subst fw. pose proof (prepare_fw_blocks img). lia. }
  rewrite fw_int_to_hex_ok.
  - cbn [map concat]. rewrite app_nil_r. reflexivity.
  - unfold words_ok. cbn [forallb]. rewrite Ht, Hv, Hn, Hc. reflexivity.
Qed.

(* the boundary of the 16-bit header word: an image of 1 MiB - 127 bytes or more *)
Lemma fw_config_payload_overflow : forall t v fw,
  (65535 < fw_blocks fw)%Z -> fw_config_payload t v fw = Raise StructError.
Proof.
  intros t v fw H. unfold fw_config_payload. apply fw_int_to_hex_err.
  unfold words_ok. cbn [forallb].
  assert (E : word_ok (fw_blocks fw) = false) by (unfold word_ok; lia).
  rewrite E. rewrite !andb_false_r. rewrite andb_false_l || idtac.
  destruct (word_ok t); destruct (word_ok v); reflexivity.
Qed.

(* the controller side reads back the advertised (type, version, blocks, crc) *)
Lemma config_echo : forall t v fw p,
  fw_config_payload t v fw = Ok p ->
  fw_hex_to_int p 4 = Ok [t; v; fw_blocks fw; fw_crc fw].
Proof.
  intros t v fw p H. unfold fw_config_payload in H.
  apply (fw_hex_int_roundtrip [t; v; fw_blocks fw; fw_crc fw] p H).
Qed.
