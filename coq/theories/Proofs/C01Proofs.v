From Coq Require Import List NArith ZArith Bool String Lia.
From PMS Require Import Base.PyStr Base.PyInt Base.Exn Model.Codec Model.Rules Model.TableTypes
  Gen.Tables Model.Validate Model.Oracles Model.Gateway Spec.SerialApi
  Proofs.CodecProofs Proofs.ValidateProofs Proofs.GwLemmas Proofs.GwInv.
Import ListNotations.
Open Scope string_scope.
Open Scope list_scope.
Open Scope Z_scope.

(* the liveness probe: a config request from node 200 *)
Definition probe : pstr := s2p "200;255;3;0;6;0".
Definition probe_msg : msg := mkMsg 200 255 3 0 6 (s2p "0").
Definition probe_reply (metric : bool) : pstr := s2p (if metric then "200;255;3;0;6;M" else "200;255;3;0;6;I") ++ [nl].

Lemma decode_probe : decode probe = Some probe_msg.
Proof. vm_compute. reflexivity. Qed.

Section Probe.
  Variable orc : oracles.
  Variable clock : Z.

  Lemma probe_valid v : validate (orc_version orc) (orc_float orc) (tab_of v) probe_msg = true.
  Proof. destruct v; vm_compute; reflexivity. Qed.

  Lemma probe_handlers v :
    type_handler (tab_of v) 3 = Some HInternal /\ sub_handler (tab_of v) 3 6 = Some HConfig /\
    vt_presentation (tab_of v) = 0.
  Proof. destruct v; vm_compute; repeat split; reflexivity. Qed.

  Theorem liveness_probe g : cfg_ok (g_cf g) -> get_node g 200 = None ->
    logic orc clock g probe = Ok (g, Some (probe_reply (g_metric g))).
  Proof.
    intros [v [T _]] G. unfold logic. rewrite decode_probe.
    unfold gvalidate, tab. rewrite T. rewrite probe_valid. cbn [negb].
    destruct (probe_handlers v) as (TH & SH & PR).
    change (m_type probe_msg) with 3. rewrite TH. unfold run_handler, handle_internal.
    unfold tab. rewrite T. change (m_type probe_msg) with 3. change (m_sub probe_msg) with 6. rewrite SH.
    unfold run_leaf, handle_config.
    rewrite copy_spec by (vm_compute; reflexivity). cbn [bind].
    unfold route_opt, route, tab. rewrite T, PR.
    change (m_type (override probe_msg _)) with 3. change (3 =? 0) with false. cbv iota.
    change (m_node (override probe_msg _)) with 200. rewrite G.
    destruct (g_metric g); vm_compute; reflexivity.
  Qed.
End Probe.
