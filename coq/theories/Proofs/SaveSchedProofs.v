(* C15 - proofs about the periodic-save machine of Model/SaveSched.v. *)
From Coq Require Import List ZArith Bool Arith Lia.
From PMS Require Import Model.SaveSched.
Import ListNotations.

(* ------------------------------------------------------------------ messages *)

Lemma apply_msg_silent : forall m t, snd (apply_msg m t) = false -> fst (apply_msg m t) = t.
Proof.
  intros m t; destruct m as [n ty | n c ty | n c vt v]; simpl.
  - destruct (has_node n t); simpl; intro H; discriminate.
  - destruct (has_node n t); simpl; auto.
    destruct (find _ t) as [x|]; simpl; auto.
    destruct (has_child c (n_children x)); simpl; auto. intro H; discriminate.
  - destruct (find _ t) as [x|]; simpl; auto.
    destruct (has_child c (n_children x)); simpl; auto. intro H; discriminate.
Qed.

(* ------------------------------------------------------------------ serialiser on an unchanged tree *)

Definition ss_consistent (ss : sstate) (t : tree) : Prop :=
  ss_n0 ss = length t /\
  exists nd post, t = ss_done ss ++ nd :: post /\
    match ss_cur ss with
    | None => True
    | Some c => cu_id c = n_id nd /\ cu_typ c = n_typ nd /\ cu_k0 c = length (n_children nd) /\
                exists ch cpost, n_children nd = cu_done c ++ ch :: cpost
    end.

Definition ph_consistent (p : sphase) (t : tree) : Prop :=
  match p with PhOpen => True | PhRun ss => ss_consistent ss t | PhSync snap => snap = t end.

(* Ser steps still to run *)
Definition ss_left (ss : sstate) (t : tree) : nat :=
  objs (skipn (length (ss_done ss)) t) - match ss_cur ss with None => 0 | Some c => S (length (cu_done c)) end.

Definition ph_left (p : sphase) (t : tree) : nat :=
  match p with PhOpen => objs t + 2 | PhRun ss => ss_left ss t + 1 | PhSync _ => 1 end.

Lemma skipn_len_app : forall A (a b : list A), skipn (length a) (a ++ b) = b.
Proof. induction a; simpl; auto. Qed.

Lemma nth_error_len_app : forall A (a : list A) x b, nth_error (a ++ x :: b) (length a) = Some x.
Proof. induction a; simpl; auto. Qed.

Lemma objs_app : forall a b, objs (a ++ b) = objs a + objs b.
Proof. induction a; simpl; intros; auto. rewrite IHa. lia. Qed.

Lemma node_eta : forall nd, mkNode (n_id nd) (n_typ nd) (n_children nd) = nd.
Proof. destruct nd; reflexivity. Qed.

Lemma ser_open_consistent : forall t, ph_consistent (ser_open t) t.
Proof.
  destruct t as [|nd post]; simpl; auto.
  split; auto. exists nd, post. simpl. auto.
Qed.

Lemma ser_open_left : forall t, S (ph_left (ser_open t) t) = ph_left PhOpen t.
Proof.
  destruct t as [|nd post]; unfold ph_left, ser_open, ss_left; simpl; lia.
Qed.

Lemma finish_node_ok :
  forall pol t ss nd post,
    policy_ok pol -> ss_n0 ss = length t -> t = ss_done ss ++ nd :: post ->
    exists ph', finish_node pol t ss nd = Good ph' /\ ph_consistent ph' t /\
                ph_left ph' t = objs post + 1.
Proof.
  intros pol t ss nd post Hpol Hn0 Ht.
  unfold finish_node. rewrite Hn0, Hpol.
  assert (Hlen : length t = length (ss_done ss) + S (length post)).
  { rewrite Ht at 1. rewrite app_length. simpl. reflexivity. }
  destruct (Nat.ltb (S (length (ss_done ss))) (length t)) eqn:E.
  - apply Nat.ltb_lt in E.
    destruct post as [|nd2 post2]; [simpl in Hlen; lia|].
    eexists; split; [reflexivity|]. split.
    + simpl. split; [simpl; reflexivity|]. exists nd2, post2. simpl. split; auto.
      rewrite <- app_assoc. simpl. exact Ht.
    + simpl. unfold ss_left. simpl.
      replace (length (ss_done ss ++ [nd])) with (length (ss_done ss ++ [nd])) by reflexivity.
      rewrite Ht. replace (ss_done ss ++ nd :: nd2 :: post2) with ((ss_done ss ++ [nd]) ++ nd2 :: post2)
        by (rewrite <- app_assoc; reflexivity).
      rewrite skipn_len_app. simpl. lia.
  - apply Nat.ltb_ge in E.
    destruct post as [|nd2 post2]; [|simpl in Hlen; lia].
    eexists; split; [reflexivity|]. split.
    + simpl. symmetry. exact Ht.
    + simpl. reflexivity.
Qed.

Lemma ser_step_progress :
  forall pol t ss, policy_ok pol -> ss_consistent ss t ->
    exists ph', ser_step pol t ss = Good ph' /\ ph_consistent ph' t /\
                S (ph_left ph' t) = ph_left (PhRun ss) t.
Proof.
  intros pol t ss Hpol [Hn0 [nd [post [Ht Hcur]]]].
  unfold ser_step.
  assert (Hnth : nth_error t (length (ss_done ss)) = Some nd).
  { rewrite Ht at 1. apply nth_error_len_app. }
  rewrite Hnth.
  assert (Hskip : skipn (length (ss_done ss)) t = nd :: post).
  { rewrite Ht at 1. apply skipn_len_app. }
  destruct (ss_cur ss) as [c|] eqn:Ec.
  - destruct Hcur as [Hid [Hty [Hk0 [ch [cpost Hch]]]]].
    assert (Hn2 : nth_error (n_children nd) (length (cu_done c)) = Some ch).
    { rewrite Hch at 1. apply nth_error_len_app. }
    rewrite Hn2. rewrite Hk0, Hpol.
    assert (Hlen : length (n_children nd) = length (cu_done c) + S (length cpost)).
    { rewrite Hch at 1. rewrite app_length. reflexivity. }
    destruct (Nat.ltb (S (length (cu_done c))) (length (n_children nd))) eqn:E.
    + apply Nat.ltb_lt in E.
      destruct cpost as [|ch2 cpost2]; [simpl in Hlen; lia|].
      eexists; split; [reflexivity|]. split.
      * simpl. split; [exact Hn0|]. exists nd, post. simpl. split; [exact Ht|].
        repeat split; auto. exists ch2, cpost2. rewrite <- app_assoc. exact Hch.
      * simpl. unfold ss_left. simpl. rewrite Ec. rewrite Hskip. simpl.
        rewrite app_length. simpl. rewrite Hlen. simpl. lia.
    + apply Nat.ltb_ge in E.
      destruct cpost as [|ch2 cpost2]; [|simpl in Hlen; lia].
      destruct (finish_node_ok pol t ss (mkNode (cu_id c) (cu_typ c) (cu_done c ++ [ch])) post Hpol Hn0)
        as [ph' [Hf [Hc Hl]]].
      { rewrite Hid, Hty, <- Hch, node_eta. exact Ht. }
      exists ph'. split; [exact Hf|]. split; [exact Hc|].
      rewrite Hl. simpl. unfold ss_left. rewrite Ec, Hskip. simpl. rewrite Hlen. simpl. lia.
  - destruct (Nat.eqb (length (n_children nd)) 0) eqn:E0.
    + apply Nat.eqb_eq in E0.
      destruct (finish_node_ok pol t ss (mkNode (n_id nd) (n_typ nd) []) post Hpol Hn0) as [ph' [Hf [Hc Hl]]].
      { destruct nd as [i ty chs]; simpl in *. destruct chs; [exact Ht|simpl in E0; discriminate]. }
      exists ph'. split; [exact Hf|]. split; [exact Hc|].
      rewrite Hl. simpl. unfold ss_left. rewrite Ec, Hskip. simpl. rewrite E0. lia.
    + apply Nat.eqb_neq in E0.
      destruct (n_children nd) as [|ch cpost] eqn:Ech; [simpl in E0; congruence|].
      eexists; split; [reflexivity|]. split.
      * simpl. split; [exact Hn0|]. exists nd, post. simpl. split; [exact Ht|].
        repeat split; auto. rewrite Ech. reflexivity. exists ch, cpost. simpl. exact Ech.
      * simpl. unfold ss_left. simpl. rewrite Ec, Hskip. simpl. rewrite Ech. simpl. lia.
Qed.

Lemma ser_step_fail_class : forall pol t ss f, ser_step pol t ss = Fail f -> f = FRuntimeError.
Proof.
  intros pol t ss f. unfold ser_step, finish_node.
  repeat match goal with
         | |- context [match ?x with _ => _ end] => destruct x
         end; intro H; inversion H; reflexivity.
Qed.

(* both CPython policies are exact on an unchanged dict *)
Lemma pol_json_ok : policy_ok pol_json.
Proof. intros n pos. unfold pol_json. rewrite Nat.eqb_refl. reflexivity. Qed.

Lemma pol_pickle_ok : policy_ok pol_pickle.
Proof.
  intros n pos. unfold pol_pickle. rewrite Nat.eqb_refl. simpl.
  destruct (Nat.eqb n 1) eqn:E.
  - apply Nat.eqb_eq in E. subst. destruct (Nat.ltb (S pos) 1) eqn:E2; auto.
    apply Nat.ltb_lt in E2. lia.
  - reflexivity.
Qed.

Lemma pol_of_ok : forall f, policy_ok (pol_of f).
Proof. destruct f; [apply pol_json_ok | apply pol_pickle_ok]. Qed.

(* ------------------------------------------------------------------ what [good] gives *)

Record good_facts (c : cfg) : Prop := mkGF {
  gf_order : sv_order (c_save c) = full_order;
  gf_pf : sv_protect_from (c_save c) <= 1;
  gf_os : covers (sv_handler (c_save c)) FOSError = true;
  gf_sets : sv_handler_sets (c_save c) = Some true;
  gf_fin : sv_finally_sets (c_save c) = None;
  gf_sched : forall fl, good_sched (sched_of c fl) = true;
  gf_alert : c_alert c = true
}.

Lemma sops_eqb_eq : forall a b, sops_eqb a b = true -> a = b.
Proof.
  induction a as [|x a IH]; destruct b as [|y b]; simpl; intro H; try discriminate; auto.
  apply andb_true_iff in H. destruct H as [H1 H2]. f_equal; auto.
  destruct x, y; simpl in H1; try discriminate; reflexivity.
Qed.

Lemma good_gives : forall c, good c = true -> good_facts c.
Proof.
  intros c H. unfold good in H.
  apply andb_true_iff in H. destruct H as [H Halert].
  apply andb_true_iff in H. destruct H as [H Ha].
  apply andb_true_iff in H. destruct H as [Hs Hy].
  unfold good_save in Hs.
  repeat (apply andb_true_iff in Hs; let H' := fresh "Hs" in destruct Hs as [Hs H']).
  constructor.
  - apply sops_eqb_eq. exact Hs.
  - apply Nat.leb_le. assumption.
  - assumption.
  - destruct (sv_handler_sets (c_save c)) as [[|]|]; try discriminate; reflexivity.
  - destruct (sv_finally_sets (c_save c)); try discriminate; reflexivity.
  - destruct fl; assumption.
  - assumption.
Qed.

Definition armed_after (o : owner) (a : bool) : bool := match o with OSched => true | OFinal => a end.

(* the state in which a save leaves the machine *)
Definition ended (o : owner) (s : st) (d : bool) (f : fsys) : st :=
  mkSt (s_tree s) d f (armed_after o (s_armed s)) (s_stopped s) None.

Lemma return_good :
  forall c fl o r s, good_facts c -> (r = None \/ r = Some FOSError \/ r = Some FRuntimeError) ->
    return_to_caller c fl o r s = ended o s (s_dirty s) (s_fs s).
Proof.
  intros c fl o r s G Hr. unfold return_to_caller, ended. destruct o; simpl; auto.
  pose proof (gf_sched c G fl) as Hg. unfold good_sched in Hg.
  repeat (apply andb_true_iff in Hg; let H' := fresh "Hg" in destruct Hg as [Hg H']).
  destruct Hr as [Hr | [Hr | Hr]]; subst r; simpl.
  - rewrite Hg3. reflexivity.
  - rewrite Hg, Hg4, Hg3. reflexivity.
  - rewrite Hg5, Hg4, Hg3. reflexivity.
Qed.

Lemma has_try_good : forall c, good_facts c -> has_try (c_save c) = true.
Proof.
  intros c G. unfold has_try. rewrite (gf_order c G). simpl.
  apply Nat.ltb_lt. pose proof (gf_pf c G). lia.
Qed.

Lemma raises_good :
  forall c fl v f s, good_facts c -> 1 <= v_idx v ->
    (f = FOSError \/ (f = FRuntimeError /\ s_dirty s = true)) ->
    fst (save_raises c fl v f s) = ended (v_owner v) s true (s_fs s)
    /\ exists r, snd (save_raises c fl v f s) = OEnded false false (Some f) r.
Proof.
  intros c fl v f s G Hidx Hf. unfold save_raises.
  rewrite (has_try_good c G).
  assert (Hp : Nat.leb (sv_protect_from (c_save c)) (v_idx v) = true).
  { apply Nat.leb_le. pose proof (gf_pf c G). lia. }
  rewrite Hp, (gf_sets c G), (gf_fin c G). simpl.
  assert (Hd : (if covers (sv_handler (c_save c)) f then true else s_dirty s) = true).
  { destruct Hf as [Hf | [Hf Hd]]; subst f.
    - rewrite (gf_os c G). reflexivity.
    - rewrite Hd. destruct (covers _ _); reflexivity. }
  split.
  - rewrite return_good.
    + simpl. rewrite Hd. reflexivity.
    + exact G.
    + destruct (covers (sv_handler (c_save c)) f && negb (sv_handler_reraises (c_save c)));
        destruct Hf as [Hf | [Hf _]]; subst f; auto.
  - eexists; reflexivity.
Qed.

Lemma settle_nil :
  forall c fl v idx s, good_facts c ->
    settle c fl v [] idx s = (ended (v_owner v) s (s_dirty s) (s_fs s), OEnded false false None false).
Proof.
  intros c fl v idx s G. simpl. rewrite (has_try_good c G), (gf_fin c G). simpl.
  rewrite return_good; auto.
Qed.

(* ------------------------------------------------------------------ the invariant *)

Inductive sv_inv (s : st) (v : sv) : Prop :=
| InvSer :
    v_todo v = [SSer; SRenBak; SRenMain; SRemBak] -> v_idx v = 1 ->
    load (s_fs s) = v_load0 v -> v_exists v = is_some (f_main (s_fs s)) ->
    (s_dirty s = false -> ph_consistent (v_ph v) (s_tree s)) -> sv_inv s v
| InvRenBak :
    v_todo v = [SRenBak; SRenMain; SRemBak] -> v_idx v = 2 ->
    load (s_fs s) = v_load0 v -> v_exists v = true -> is_some (f_main (s_fs s)) = true ->
    (s_dirty s = false -> v_snap v = s_tree s) -> sv_inv s v
| InvRenMain :
    v_todo v = [SRenMain; SRemBak] -> v_idx v = 3 ->
    load (s_fs s) = v_load0 v ->
    (s_dirty s = false -> v_snap v = s_tree s) -> sv_inv s v
| InvRemBak :
    v_todo v = [SRemBak] -> v_idx v = 4 -> v_exists v = true ->
    f_main (s_fs s) = Some (v_snap v) ->
    (s_dirty s = false -> v_snap v = s_tree s) -> sv_inv s v.

Definition sched_inv (s : st) : Prop :=
  if s_stopped s
  then s_armed s = false /\ (forall v, s_saving s = Some v -> v_owner v = OFinal)
  else (s_armed s = true /\ s_saving s = None)
       \/ (s_armed s = false /\ exists v, s_saving s = Some v /\ v_owner v = OSched).

Record Inv (s : st) : Prop := mkInv {
  inv_idle : s_saving s = None -> s_dirty s = false -> load (s_fs s) = Some (s_tree s);
  inv_sv : forall v, s_saving s = Some v -> sv_inv s v;
  inv_sched : sched_inv s
}.

Definition tail_len (ex : bool) : nat := if ex then 2 else 0.

(* sub-steps still to run in an undisturbed fault-free save *)
Definition sv_left (v : sv) (t : tree) : nat :=
  match v_todo v with
  | SSer :: _ => ph_left (v_ph v) t + 1 + tail_len (v_exists v)
  | SRenBak :: _ => 3
  | SRenMain :: _ => if v_exists v then 2 else 1
  | SRemBak :: _ => 1
  | _ => 0
  end.

Lemma sv_inv_idx : forall s v, sv_inv s v -> 1 <= v_idx v.
Proof. intros s v H; destruct H; lia. Qed.

Lemma sv_inv_load :
  forall s v, sv_inv s v ->
    load (s_fs s) = v_load0 v \/ (v_todo v = [SRemBak] /\ load (s_fs s) = Some (v_snap v)).
Proof.
  intros s v H; destruct H; auto.
  right. split; auto. unfold load. rewrite H2. reflexivity.
Qed.

(* one sub-step of a save, from a state satisfying the invariant *)
Lemma substep_cases :
  forall c fl pol s v f,
    good_facts c -> policy_ok pol -> sv_inv s v ->
    let s' := fst (sub_step c fl pol v f s) in
    let o := snd (sub_step c fl pol v f s) in
    s_tree s' = s_tree s /\ s_stopped s' = s_stopped s /\
    ( (* the save failed *)
      (exists cls r, o = OEnded false false (Some cls) r /\ s' = ended (v_owner v) s true (s_fs s)
                     /\ (load (s_fs s) = v_load0 v \/ (v_todo v = [SRemBak] /\ load (s_fs s) = Some (v_snap v)))
                     /\ (f = FIO \/ s_dirty s = true))
      \/ (* the save returned *)
      (o = OEnded false false None false /\ f = FNone /\
       (exists fs', s' = ended (v_owner v) s (s_dirty s) fs' /\ (s_dirty s = false -> load fs' = Some (s_tree s))
                    /\ load fs' = Some (v_snap v))
       /\ sv_left v (s_tree s) = 1)
      \/ (* the save goes on *)
      (o = OProgress /\ f = FNone /\
       exists v', s_saving s' = Some v' /\ v_owner v' = v_owner v /\ s_dirty s' = s_dirty s
                  /\ s_armed s' = s_armed s /\ sv_inv s' v' /\ v_load0 v' = v_load0 v
                  /\ (s_dirty s = false -> S (sv_left v' (s_tree s')) = sv_left v (s_tree s))) ).
Proof.
  intros c fl pol s v f G Hpol Hinv. cbv zeta.
  destruct f.
  2:{ (* OSError at this sub-step *)
    unfold sub_step.
    destruct (raises_good c fl v FOSError s G (sv_inv_idx s v Hinv) (or_introl eq_refl)) as [H1 [r H2]].
    rewrite H1, H2. simpl. split; auto. split; auto. left.
    exists FOSError, r. split; auto. split; auto. split; auto. apply sv_inv_load; assumption. }
  unfold sub_step.
  destruct Hinv as [Htodo Hidx Hload Hex Hcons | Htodo Hidx Hload Hex Hmain Hsnap
                    | Htodo Hidx Hload Hsnap | Htodo Hidx Hex Hmain Hsnap]; rewrite Htodo.
  - (* serialising *)
    destruct (v_ph v) as [|ss|snap] eqn:Eph.
    + (* open *)
      simpl. split; auto. split; auto. right; right. split; auto. split; auto.
      eexists. split; [reflexivity|]. simpl. repeat split; auto.
      * apply InvSer; simpl; auto. intros _. apply ser_open_consistent.
      * intros _. unfold sv_left; simpl. rewrite Htodo, Eph.
        pose proof (ser_open_left (s_tree s)). lia.
    + (* one object *)
      destruct (ser_step pol (s_tree s) ss) as [ph|e] eqn:Estep.
      * simpl. split; auto. split; auto. right; right. split; auto. split; auto.
        eexists. split; [reflexivity|]. simpl. repeat split; auto.
        -- apply InvSer; simpl; auto. intros Hd.
           destruct (ser_step_progress pol (s_tree s) ss Hpol) as [ph' [E1 [E2 _]]].
           { specialize (Hcons Hd). exact Hcons. }
           rewrite Estep in E1. inversion E1. subst. exact E2.
        -- intros Hd. unfold sv_left; simpl. rewrite Htodo, Eph.
           destruct (ser_step_progress pol (s_tree s) ss Hpol) as [ph' [E1 [_ E3]]].
           { specialize (Hcons Hd). exact Hcons. }
           rewrite Estep in E1. inversion E1. subst. lia.
      * pose proof (ser_step_fail_class _ _ _ _ Estep). subst e.
        assert (Hi : 1 <= v_idx v) by lia.
        assert (Hdirty : s_dirty s = true).
        { destruct (s_dirty s) eqn:Ed; auto.
          destruct (ser_step_progress pol (s_tree s) ss Hpol (Hcons eq_refl)) as [ph' [E1 _]].
          rewrite Estep in E1. discriminate. }
        destruct (raises_good c fl v FRuntimeError s G Hi (or_intror (conj eq_refl Hdirty))) as [H1 [r H2]].
        rewrite H1, H2. simpl. split; auto. split; auto. left.
        exists FRuntimeError, r. repeat split; auto.
    + (* flush, fsync, close *)
      simpl. rewrite Hidx. destruct (v_exists v) eqn:Eex; simpl.
      * split; auto. split; auto. right; right. split; auto. split; auto.
        eexists. split; [reflexivity|]. simpl. repeat split; auto.
        -- apply InvRenBak; simpl; auto.
        -- intros _. unfold sv_left; simpl. rewrite Htodo, Eph, Eex. reflexivity.
      * split; auto. split; auto. right; right. split; auto. split; auto.
        eexists. split; [reflexivity|]. simpl. repeat split; auto.
        -- apply InvRenMain; simpl; auto.
        -- intros _. unfold sv_left; simpl. rewrite Htodo, Eph, Eex. reflexivity.
  - (* rename main -> bak *)
    simpl. split; auto. split; auto. right; right. split; auto. split; auto.
    eexists. split; [reflexivity|]. simpl. repeat split; auto.
    + apply InvRenMain; simpl; auto.
      rewrite <- Hload. unfold load; simpl.
      destruct (f_main (s_fs s)); simpl in *; [reflexivity|discriminate].
    + intros _. unfold sv_left; simpl. rewrite Htodo, Hex. reflexivity.
  - (* rename tmp -> main *)
    simpl. rewrite Hidx. destruct (v_exists v) eqn:Eex; simpl.
    + split; auto. split; auto. right; right. split; auto. split; auto.
      eexists. split; [reflexivity|]. simpl. repeat split; auto.
      * apply InvRemBak; simpl; auto.
      * intros _. unfold sv_left; simpl. rewrite Htodo, Eex. reflexivity.
    + rewrite (has_try_good c G), (gf_fin c G). simpl.
      rewrite return_good; auto. simpl.
      split; auto. split; auto. right; left. split; auto. split; auto. split.
      * eexists. split; [reflexivity|]. simpl. split; [|reflexivity]. intros Hd. unfold load; simpl. rewrite Hsnap; auto.
      * unfold sv_left. rewrite Htodo, Eex. reflexivity.
  - (* remove bak *)
    simpl. rewrite (has_try_good c G), (gf_fin c G). simpl.
    rewrite return_good; auto. simpl.
    split; auto. split; auto. right; left. split; auto. split; auto. split.
    + eexists. split; [reflexivity|]. simpl. split; [|unfold load; simpl; rewrite Hmain; reflexivity].
      intros Hd. unfold load; simpl. rewrite Hmain, Hsnap; auto.
    + unfold sv_left. rewrite Htodo. reflexivity.
Qed.

(* ------------------------------------------------------------------ the other events *)

Lemma begin_cases :
  forall c fl o denied s,
    good_facts c -> s_saving s = None ->
    let s' := fst (begin_save c fl o denied s) in
    let out := snd (begin_save c fl o denied s) in
    s_tree s' = s_tree s /\ s_stopped s' = s_stopped s /\ s_fs s' = s_fs s /\
    ( (exists sk dn, out = OEnded sk dn None false /\ s' = ended o s (s_dirty s) (s_fs s)
                     /\ (s_dirty s = false \/ denied = true))
      \/ (out = OProgress /\ s_dirty s = true /\ denied = false /\
          exists v, s_saving s' = Some v /\ v_owner v = o /\ s_dirty s' = false /\ s_armed s' = s_armed s
                    /\ sv_inv s' v /\ v_load0 v = load (s_fs s)
                    /\ sv_left v (s_tree s) = save_len (s_tree s) (is_some (f_main (s_fs s)))) ).
Proof.
  intros c fl o denied s G Hidle. cbv zeta. unfold begin_save.
  destruct (s_dirty s) eqn:Ed; simpl.
  2:{ rewrite return_good; auto. simpl. repeat split; auto. left. exists true, false. rewrite Ed. auto. }
  destruct denied; simpl.
  { rewrite return_good; auto. simpl. repeat split; auto. left. exists false, true. rewrite Ed. auto. }
  rewrite (gf_order c G). simpl. repeat split; auto. right. repeat split; auto.
  eexists. split; [reflexivity|]. simpl. repeat split; auto.
  - apply InvSer; simpl; auto.
  - unfold sv_left, save_len, tail_len; simpl. destruct (is_some (f_main (s_fs s))); lia.
Qed.

Lemma sv_inv_dirty :
  forall s s' v, sv_inv s v -> s_fs s' = s_fs s -> s_dirty s' = true -> sv_inv s' v.
Proof.
  intros s s' v H Hfs Hd.
  destruct H; [apply InvSer | apply InvRenBak | apply InvRenMain | apply InvRemBak];
    rewrite ?Hfs; auto; intro Hx; rewrite Hd in Hx; discriminate.
Qed.

Lemma sched_end :
  forall s v d f, sched_inv s -> s_saving s = Some v -> sched_inv (ended (v_owner v) s d f).
Proof.
  intros s v d f H Hv. unfold sched_inv in *. simpl.
  destruct (s_stopped s).
  - destruct H as [Ha Ho]. rewrite (Ho v Hv). simpl. split; auto. intros v0 Hx; discriminate.
  - destruct H as [[_ Hn] | [_ [v0 [Hv0 Ho]]]].
    + rewrite Hn in Hv; discriminate.
    + rewrite Hv in Hv0. inversion Hv0. subst v0. rewrite Ho. simpl. left; auto.
Qed.

Lemma sched_progress :
  forall s s' v v', sched_inv s -> s_saving s = Some v -> s_saving s' = Some v' -> v_owner v' = v_owner v ->
                    s_armed s' = s_armed s -> s_stopped s' = s_stopped s -> sched_inv s'.
Proof.
  intros s s' v v' H Hv Hv' Ho Ha Hs. unfold sched_inv in *. rewrite Hs, Ha.
  destruct (s_stopped s).
  - destruct H as [H1 H2]. split; auto. intros v0 Hx. rewrite Hv' in Hx. inversion Hx. subst v0.
    rewrite Ho. auto.
  - destruct H as [[_ Hn] | [H1 [v0 [Hv0 Ho0]]]].
    + rewrite Hn in Hv; discriminate.
    + right. split; auto. exists v'. split; auto. rewrite Ho. rewrite Hv in Hv0. inversion Hv0. subst. auto.
Qed.

Lemma step_inv :
  forall c fl pol s e, good_facts c -> policy_ok pol -> Inv s -> Inv (fst (step c fl pol s e)).
Proof.
  intros c fl pol s e G Hpol Hinv. pose proof Hinv as [Hidle Hsv Hsched].
  destruct e as [denied | f | m | denied]; simpl.
  - (* fire *)
    destruct (s_saving s) as [v|] eqn:Esav; [simpl; exact Hinv|].
    destruct (s_armed s) eqn:Earm; [|simpl; exact Hinv].
    assert (Hst : s_stopped s = false).
    { unfold sched_inv in Hsched. destruct (s_stopped s); auto. destruct Hsched as [H _]. congruence. }
    set (s1 := mkSt (s_tree s) (s_dirty s) (s_fs s) false (s_stopped s) None).
    destruct (begin_cases c fl OSched denied s1 G eq_refl) as [Ht [Hs [Hf Hc]]].
    destruct Hc as [[sk [dn [_ [Hs' _]]]] | [_ [_ [_ [v [Hv [Ho [Hd [Ha [Hi _]]]]]]]]]].
    + rewrite Hs'. unfold ended; simpl. constructor; simpl; auto; try (intros; discriminate).
      unfold sched_inv; simpl. rewrite Hst. left; auto.
    + constructor.
      * rewrite Hv. discriminate.
      * intros v0 Hv0. rewrite Hv in Hv0. inversion Hv0. subst v0. exact Hi.
      * unfold sched_inv. rewrite Hs. simpl. rewrite Hst. right. rewrite Ha. simpl. split; auto.
        exists v; auto.
  - (* sub-step *)
    destruct (s_saving s) as [v|] eqn:Esav; [|simpl; exact Hinv].
    pose proof (substep_cases c fl pol s v f G Hpol (Hsv v eq_refl)) as H. cbv zeta in H.
    destruct H as [Ht [Hs Hc]].
    destruct Hc as [[cls [r [_ [Hs' _]]]] | [[_ [_ [[fs' [Hs' [Hl _]]] _]]] | [_ [_ [v' [Hv' [Ho [Hd [Ha [Hi _]]]]]]]]]].
    + rewrite Hs'. constructor; simpl; auto; try discriminate. apply sched_end; auto.
    + rewrite Hs'. constructor; simpl; auto; try discriminate. apply sched_end; auto.
    + constructor.
      * rewrite Hv'. discriminate.
      * intros v0 Hv0. rewrite Hv' in Hv0. inversion Hv0. subst v0. exact Hi.
      * eapply sched_progress; eauto.
  - (* message *)
    destruct (apply_msg m (s_tree s)) as [t a] eqn:Em. simpl. rewrite (gf_alert c G), andb_true_r.
    destruct a.
    + rewrite orb_true_r. constructor; simpl.
      * intros _ Hx; discriminate.
      * intros v Hv. apply (sv_inv_dirty s); auto.
      * exact Hsched.
    + pose proof (apply_msg_silent m (s_tree s)) as Hq. rewrite Em in Hq. simpl in Hq.
      rewrite Hq by reflexivity. rewrite orb_false_r.
      destruct s; simpl in *. constructor; auto.
  - (* stop *)
    destruct (s_saving s) as [v|] eqn:Esav; [simpl; exact Hinv|].
    destruct (s_stopped s) eqn:Est; [simpl; exact Hinv|].
    pose proof (gf_sched c G fl) as Hg. unfold good_sched in Hg.
    repeat (apply andb_true_iff in Hg; let H' := fresh "Hg" in destruct Hg as [Hg H']).
    rewrite Hg2, Hg1, Hg0. simpl.
    set (s1 := mkSt (s_tree s) (s_dirty s) (s_fs s) false true None).
    destruct (begin_cases c fl OFinal denied s1 G eq_refl) as [Ht [Hs [Hf Hc]]].
    destruct Hc as [[sk [dn [_ [Hs' _]]]] | [_ [_ [_ [v [Hv [Ho [Hd [Ha [Hi _]]]]]]]]]].
    + rewrite Hs'. unfold ended; simpl. constructor; simpl; auto; try (intros; discriminate).
      unfold sched_inv; simpl. split; auto. intros v Hx; discriminate.
    + constructor.
      * rewrite Hv. discriminate.
      * intros v0 Hv0. rewrite Hv in Hv0. inversion Hv0. subst v0. exact Hi.
      * unfold sched_inv. rewrite Hs. simpl. rewrite Ha. simpl. split; auto.
        intros v0 Hv0. rewrite Hv in Hv0. inversion Hv0. subst v0. exact Ho.
Qed.

Lemma init_inv : forall t f, Inv (init t f).
Proof.
  intros t f. constructor; simpl.
  - intros _ H; discriminate.
  - intros v H; discriminate.
  - unfold sched_inv; simpl. left; auto.
Qed.

Lemma run_app : forall c fl pol evs1 evs2 s, run c fl pol s (evs1 ++ evs2) = run c fl pol (run c fl pol s evs1) evs2.
Proof. intros. unfold run. apply fold_left_app. Qed.

Lemma run_inv :
  forall c fl pol evs s, good_facts c -> policy_ok pol -> Inv s -> Inv (run c fl pol s evs).
Proof.
  intros c fl pol evs. induction evs as [|e evs IH]; intros s G Hpol Hi; simpl; auto.
  apply IH; auto. apply step_inv; auto.
Qed.

Lemma reachable_inv :
  forall c fl pol s, good_facts c -> policy_ok pol -> reachable c fl pol s -> Inv s.
Proof.
  intros c fl pol s G Hpol [t0 [f0 [evs Hs]]]. subst s. apply run_inv; auto. apply init_inv.
Qed.

(* ------------------------------------------------------------------ the theorems, for every good shape *)

Local Arguments sub_step : simpl never.

Section Theorems.
  Variable c : cfg.
  Variable fl : flavour.
  Variable pol : policy.
  Hypothesis Hgood : good c = true.
  Hypothesis Hpol : policy_ok pol.

  Let G : good_facts c := good_gives c Hgood.

  Theorem no_lost_update_gen :
    forall s, reachable c fl pol s ->
      s_saving s = None -> s_dirty s = false -> load (s_fs s) = Some (s_tree s).
  Proof. intros s Hr. apply (inv_idle s (reachable_inv c fl pol s G Hpol Hr)). Qed.

  Theorem schedule_survives_gen :
    forall s, reachable c fl pol s ->
      if s_stopped s
      then s_armed s = false /\ (forall v, s_saving s = Some v -> v_owner v = OFinal)
      else (s_armed s = true /\ s_saving s = None)
           \/ (s_armed s = false /\ exists v, s_saving s = Some v /\ v_owner v = OSched).
  Proof. intros s Hr. apply (inv_sched s (reachable_inv c fl pol s G Hpol Hr)). Qed.

  (* an event that ends a save leaves the machine idle *)
  Lemma ended_idle :
    forall s e sk dn fc r, Inv s -> snd (step c fl pol s e) = OEnded sk dn fc r ->
      s_saving (fst (step c fl pol s e)) = None.
  Proof.
    intros s e sk dn fc r Hinv. pose proof Hinv as [Hidle Hsv Hsched].
    destruct e as [denied | f | m | denied]; simpl.
    - destruct (s_saving s) as [v|] eqn:Esav; [simpl; discriminate|].
      destruct (s_armed s); [|simpl; discriminate].
      set (s1 := mkSt (s_tree s) (s_dirty s) (s_fs s) false (s_stopped s) None).
      destruct (begin_cases c fl OSched denied s1 G eq_refl) as [_ [_ [_ Hc]]].
      destruct Hc as [[sk' [dn' [_ [Hs' _]]]] | [Ho _]].
      + rewrite Hs'. reflexivity.
      + rewrite Ho. discriminate.
    - destruct (s_saving s) as [v|] eqn:Esav; [|simpl; discriminate].
      pose proof (substep_cases c fl pol s v f G Hpol (Hsv v eq_refl)) as H. cbv zeta in H.
      destruct H as [_ [_ Hc]].
      destruct Hc as [[cls [r' [_ [Hs' _]]]] | [[_ [_ [[fs' [Hs' _]] _]]] | [Ho _]]].
      + rewrite Hs'. reflexivity.
      + rewrite Hs'. reflexivity.
      + rewrite Ho. discriminate.
    - destruct (apply_msg m (s_tree s)). simpl. discriminate.
    - destruct (s_saving s) as [v|] eqn:Esav; [simpl; discriminate|].
      destruct (s_stopped s); [simpl; discriminate|].
      destruct ((negb (sc_stop_cancels (sched_of c fl)) || sc_cancel_ok (sched_of c fl)) && sc_stop_saves (sched_of c fl));
        [|simpl; discriminate].
      match goal with |- context [begin_save c fl OFinal denied ?x] => set (s1 := x) end.
      destruct (begin_cases c fl OFinal denied s1 G eq_refl) as [_ [_ [_ Hc]]].
      destruct Hc as [[sk' [dn' [_ [Hs' _]]]] | [Ho _]].
      + rewrite Hs'. reflexivity.
      + rewrite Ho. discriminate.
  Qed.

  Theorem every_fire_rearms_gen :
    forall s e sk dn fc r, reachable c fl pol s ->
      snd (step c fl pol s e) = OEnded sk dn fc r ->
      s_stopped (fst (step c fl pol s e)) = false ->
      s_armed (fst (step c fl pol s e)) = true /\ s_saving (fst (step c fl pol s e)) = None.
  Proof.
    intros s e sk dn fc r Hr Ho Hst.
    pose proof (reachable_inv c fl pol s G Hpol Hr) as Hinv.
    pose proof (ended_idle s e sk dn fc r Hinv Ho) as Hidle.
    pose proof (inv_sched _ (step_inv c fl pol s e G Hpol Hinv)) as Hs.
    unfold sched_inv in Hs. rewrite Hst in Hs.
    destruct Hs as [[Ha _] | [_ [v [Hv _]]]]; auto.
    rewrite Hidle in Hv. discriminate.
  Qed.

  Theorem failed_save_gen :
    forall s e cls r, reachable c fl pol s ->
      snd (step c fl pol s e) = OEnded false false (Some cls) r ->
      let s' := fst (step c fl pol s e) in
      s_dirty s' = true /\ s_fs s' = s_fs s /\ s_tree s' = s_tree s /\ s_saving s' = None /\
      exists v, s_saving s = Some v /\
                (load (s_fs s') = v_load0 v \/ (v_todo v = [SRemBak] /\ load (s_fs s') = Some (v_snap v))).
  Proof.
    intros s e cls r Hr. cbv zeta.
    pose proof (reachable_inv c fl pol s G Hpol Hr) as Hinv. pose proof Hinv as [Hidle Hsv Hsched].
    destruct e as [denied | f | m | denied]; simpl.
    - destruct (s_saving s) as [v|] eqn:Esav; [simpl; discriminate|].
      destruct (s_armed s); [|simpl; discriminate].
      set (s1 := mkSt (s_tree s) (s_dirty s) (s_fs s) false (s_stopped s) None).
      destruct (begin_cases c fl OSched denied s1 G eq_refl) as [_ [_ [_ Hc]]].
      destruct Hc as [[sk' [dn' [Ho _]]] | [Ho _]]; rewrite Ho; discriminate.
    - destruct (s_saving s) as [v|] eqn:Esav; [|simpl; discriminate].
      pose proof (substep_cases c fl pol s v f G Hpol (Hsv v eq_refl)) as H. cbv zeta in H.
      destruct H as [_ [_ Hc]].
      destruct Hc as [[cls' [r' [_ [Hs' [Hl _]]]]] | [[Ho _] | [Ho _]]].
      + intros _. rewrite Hs'. simpl. repeat split; auto. exists v. split; auto.
      + rewrite Ho. discriminate.
      + rewrite Ho. discriminate.
    - destruct (apply_msg m (s_tree s)). simpl. discriminate.
    - destruct (s_saving s) as [v|] eqn:Esav; [simpl; discriminate|].
      destruct (s_stopped s); [simpl; discriminate|].
      destruct ((negb (sc_stop_cancels (sched_of c fl)) || sc_cancel_ok (sched_of c fl)) && sc_stop_saves (sched_of c fl));
        [|simpl; discriminate].
      match goal with |- context [begin_save c fl OFinal denied ?x] => set (s1 := x) end.
      destruct (begin_cases c fl OFinal denied s1 G eq_refl) as [_ [_ [_ Hc]]].
      destruct Hc as [[sk' [dn' [Ho _]]] | [Ho _]]; rewrite Ho; discriminate.
  Qed.

  (* a save that returns has put a complete snapshot in place; it is the current tree
     unless a message arrived meanwhile (then need_save is True again) *)
  Theorem ok_save_gen :
    forall s e v, reachable c fl pol s -> s_saving s = Some v ->
      snd (step c fl pol s e) = OEnded false false None false ->
      let s' := fst (step c fl pol s e) in
      load (s_fs s') = Some (v_snap v) /\ s_dirty s' = s_dirty s /\ s_saving s' = None
      /\ (s_dirty s' = false -> v_snap v = s_tree s').
  Proof.
    intros s e v Hr Hv. cbv zeta.
    pose proof (reachable_inv c fl pol s G Hpol Hr) as Hinv. pose proof Hinv as [_ Hsv _].
    destruct e as [denied | f | m | denied]; simpl; rewrite ?Hv; simpl; try discriminate.
    - pose proof (substep_cases c fl pol s v f G Hpol (Hsv v Hv)) as H. cbv zeta in H.
      destruct H as [Ht [_ Hc]].
      destruct Hc as [[cls' [r' [Ho _]]] | [[_ [_ [[fs' [Hs' [Hl Hsn]]] _]]] | [Ho _]]].
      + rewrite Ho. discriminate.
      + intros _. rewrite Hs'. simpl. repeat split; auto.
        intros Hd. specialize (Hl Hd). rewrite Hsn in Hl. inversion Hl. reflexivity.
      + rewrite Ho. discriminate.
    - destruct (apply_msg m (s_tree s)). simpl. discriminate.
  Qed.

  (* the ghost v_load0 is what a load returned when the save began ... *)
  Theorem load0_at_begin_gen :
    forall s e v, reachable c fl pol s -> s_saving s = None ->
      s_saving (fst (step c fl pol s e)) = Some v -> v_load0 v = load (s_fs s).
  Proof.
    intros s e v Hr Hidle.
    destruct e as [denied | f | m | denied]; simpl; rewrite ?Hidle.
    - destruct (s_armed s); [|simpl; rewrite Hidle; discriminate].
      set (s1 := mkSt (s_tree s) (s_dirty s) (s_fs s) false (s_stopped s) None).
      destruct (begin_cases c fl OSched denied s1 G eq_refl) as [_ [_ [_ Hc]]].
      destruct Hc as [[sk' [dn' [_ [Hs' _]]]] | [_ [_ [_ [v' [Hv [_ [_ [_ [_ [Hl _]]]]]]]]]]].
      + rewrite Hs'. simpl. discriminate.
      + rewrite Hv. intro H; inversion H; subst. exact Hl.
    - simpl. rewrite Hidle. discriminate.
    - destruct (apply_msg m (s_tree s)). simpl. rewrite ?Hidle. discriminate.
    - destruct (s_stopped s); [simpl; rewrite Hidle; discriminate|].
      destruct ((negb (sc_stop_cancels (sched_of c fl)) || sc_cancel_ok (sched_of c fl)) && sc_stop_saves (sched_of c fl));
        [|simpl; discriminate].
      match goal with |- context [begin_save c fl OFinal denied ?x] => set (s1 := x) end.
      destruct (begin_cases c fl OFinal denied s1 G eq_refl) as [_ [_ [_ Hc]]].
      destruct Hc as [[sk' [dn' [_ [Hs' _]]]] | [_ [_ [_ [v' [Hv [_ [_ [_ [_ [Hl _]]]]]]]]]]].
      + rewrite Hs'. simpl. discriminate.
      + rewrite Hv. intro H; inversion H; subst. exact Hl.
  Qed.

  (* ... and never changes while the save runs *)
  Theorem load0_kept_gen :
    forall s e v v', reachable c fl pol s -> s_saving s = Some v ->
      s_saving (fst (step c fl pol s e)) = Some v' -> v_load0 v' = v_load0 v.
  Proof.
    intros s e v v' Hr Hv.
    pose proof (reachable_inv c fl pol s G Hpol Hr) as Hinv. pose proof Hinv as [_ Hsv _].
    destruct e as [denied | f | m | denied]; simpl; rewrite ?Hv; simpl.
    - rewrite Hv. intro H; inversion H; reflexivity.
    - pose proof (substep_cases c fl pol s v f G Hpol (Hsv v Hv)) as H. cbv zeta in H.
      destruct H as [_ [_ Hc]].
      destruct Hc as [[cls' [r' [_ [Hs' _]]]] | [[_ [_ [[fs' [Hs' _]] _]]] | [_ [_ [v1 [Hv1 [_ [_ [_ [_ [Hl _]]]]]]]]]]].
      + rewrite Hs'. simpl. discriminate.
      + rewrite Hs'. simpl. discriminate.
      + rewrite Hv1. intro H; inversion H; subst. exact Hl.
    - destruct (apply_msg m (s_tree s)). simpl. rewrite ?Hv. intro H; inversion H; reflexivity.
    - rewrite Hv. intro H; inversion H; reflexivity.
  Qed.

  (* an undisturbed fault-free save runs to its end *)
  Lemma quiet_run :
    forall n s v, Inv s -> s_saving s = Some v -> s_dirty s = false -> sv_left v (s_tree s) = n ->
      exists fs', run c fl pol s (repeat (EStep FNone) n) = ended (v_owner v) s false fs'
                  /\ load fs' = Some (s_tree s).
  Proof.
    induction n as [|n IH]; intros s v Hinv Hv Hd Hn.
    - pose proof (substep_cases c fl pol s v FNone G Hpol (inv_sv s Hinv v Hv)) as H. cbv zeta in H.
      destruct H as [_ [_ Hc]].
      destruct Hc as [[cls' [r' [_ [_ [_ [Hx | Hx]]]]]] | [[_ [_ [_ Hx]]] | [_ [_ [v1 [_ [_ [_ [_ [_ [_ Hx]]]]]]]]]]].
      + discriminate.
      + congruence.
      + congruence.
      + specialize (Hx Hd). congruence.
    - change (repeat (EStep FNone) (S n)) with (EStep FNone :: repeat (EStep FNone) n).
      change (run c fl pol s (EStep FNone :: ?l)) with (run c fl pol (fst (step c fl pol s (EStep FNone))) l).
      assert (Hstep : step c fl pol s (EStep FNone) = sub_step c fl pol v FNone s) by (simpl; rewrite Hv; reflexivity).
      rewrite Hstep.
      pose proof (substep_cases c fl pol s v FNone G Hpol (inv_sv s Hinv v Hv)) as H. cbv zeta in H.
      pose proof (step_inv c fl pol s (EStep FNone) G Hpol Hinv) as Hinv'. rewrite Hstep in Hinv'.
      destruct H as [Ht [Hs Hc]].
      destruct Hc as [[cls' [r' [_ [_ [_ [Hx | Hx]]]]]] | [[_ [_ [[fs' [Hs' [Hl _]]] Hx]]] | [_ [_ [v1 [Hv1 [Ho [Hd1 [Ha [_ [_ Hx]]]]]]]]]]].
      + discriminate.
      + congruence.
      + assert (n = 0) by congruence. subst n. exists fs'. rewrite Hs', Hd. simpl. auto.
      + specialize (Hx Hd).
        destruct (IH _ v1 Hinv' Hv1) as [fs' [Hr Hl]]; [congruence | congruence |].
        exists fs'. rewrite Hr. unfold ended. rewrite Ht, Hs, Ha, Ho. split; auto. rewrite <- Ht. exact Hl.
  Qed.

  Lemma idle_steps : forall n s, s_saving s = None -> run c fl pol s (repeat (EStep FNone) n) = s.
  Proof. induction n; intros s H; simpl; auto. rewrite H. simpl. apply IHn; auto. Qed.

  Theorem next_success_gen :
    forall s, reachable c fl pol s ->
      s_saving s = None -> s_armed s = true -> s_dirty s = true ->
      let s' := run c fl pol s (EFire false :: repeat (EStep FNone) (save_len (s_tree s) (is_some (f_main (s_fs s))))) in
      s_saving s' = None /\ s_dirty s' = false /\ load (s_fs s') = Some (s_tree s)
      /\ s_tree s' = s_tree s /\ s_armed s' = true /\ s_stopped s' = s_stopped s.
  Proof.
    intros s Hr Hidle Harm Hd. cbv zeta.
    pose proof (reachable_inv c fl pol s G Hpol Hr) as Hinv.
    pose proof (step_inv c fl pol s (EFire false) G Hpol Hinv) as Hinv1.
    change (run c fl pol s (EFire false :: ?l)) with (run c fl pol (fst (step c fl pol s (EFire false))) l).
    revert Hinv1. simpl. rewrite Hidle, Harm.
    set (s1 := mkSt (s_tree s) (s_dirty s) (s_fs s) false (s_stopped s) None).
    destruct (begin_cases c fl OSched false s1 G eq_refl) as [Ht [Hs [Hf Hc]]].
    destruct Hc as [[sk [dn [_ [_ [Hx | Hx]]]]] | [_ [_ [_ [v [Hv [Ho [Hd1 [Ha [_ [_ Hlen]]]]]]]]]]].
    - simpl in Hx. congruence.
    - discriminate.
    - intros Hinv1. subst s1. simpl in Hlen, Ht, Hs, Hf.
      assert (Hn : sv_left v (s_tree (fst (begin_save c fl OSched false (mkSt (s_tree s) (s_dirty s) (s_fs s) false (s_stopped s) None)))) = save_len (s_tree s) (is_some (f_main (s_fs s))))
        by (rewrite Ht; exact Hlen).
      destruct (quiet_run _ _ v Hinv1 Hv Hd1 Hn) as [fs' [Hrun Hl]].
      rewrite Hrun. unfold ended. simpl. rewrite Ho. simpl. rewrite Ht in Hl. rewrite Ht, Hs. repeat split; auto.
  Qed.

  Theorem stop_persists_gen :
    forall s, reachable c fl pol s ->
      s_saving s = None -> s_stopped s = false ->
      let s' := run c fl pol s (EStop false :: repeat (EStep FNone) (save_len (s_tree s) (is_some (f_main (s_fs s))))) in
      s_saving s' = None /\ load (s_fs s') = Some (s_tree s) /\ s_tree s' = s_tree s
      /\ s_armed s' = false /\ s_stopped s' = true.
  Proof.
    intros s Hr Hidle Hst. cbv zeta.
    pose proof (reachable_inv c fl pol s G Hpol Hr) as Hinv.
    pose proof (step_inv c fl pol s (EStop false) G Hpol Hinv) as Hinv1.
    change (run c fl pol s (EStop false :: ?l)) with (run c fl pol (fst (step c fl pol s (EStop false))) l).
    revert Hinv1. simpl. rewrite Hidle, Hst.
    pose proof (gf_sched c G fl) as Hg. unfold good_sched in Hg.
    repeat (apply andb_true_iff in Hg; let H' := fresh "Hg" in destruct Hg as [Hg H']).
    rewrite Hg2, Hg1, Hg0. simpl.
    set (s1 := mkSt (s_tree s) (s_dirty s) (s_fs s) false true None).
    destruct (begin_cases c fl OFinal false s1 G eq_refl) as [Ht [Hs [Hf Hc]]].
    destruct Hc as [[sk [dn [_ [Hs' [Hx | Hx]]]]] | [_ [_ [_ [v [Hv [Ho [Hd1 [Ha [_ [_ Hlen]]]]]]]]]]].
    - intros _. rewrite Hs'. rewrite idle_steps by reflexivity. simpl. repeat split; auto.
      apply (inv_idle s Hinv); auto.
    - discriminate.
    - intros Hinv1. subst s1. simpl in Hlen, Ht, Hs, Hf.
      assert (Hn : sv_left v (s_tree (fst (begin_save c fl OFinal false (mkSt (s_tree s) (s_dirty s) (s_fs s) false true None)))) = save_len (s_tree s) (is_some (f_main (s_fs s))))
        by (rewrite Ht; exact Hlen).
      destruct (quiet_run _ _ v Hinv1 Hv Hd1 Hn) as [fs' [Hrun Hl]].
      rewrite Hrun. unfold ended. simpl. rewrite Ho. simpl. rewrite Ht in Hl. rewrite Ht, Hs, Ha. repeat split; auto.
  Qed.

End Theorems.

(* ------------------------------------------------------------------ the pre-fix shapes violate the theorems *)

Definition ex_tree : tree := [mkNode 1 17 [mkChild 1 6 [(0, 20)%Z]]; mkNode 2 18 []].
Definition no_file : fsys := mkFs None None.

(* D10 (flag cleared after the renames): a message handled between the serialisation
   and the clear is marked saved although it is not in the file *)
Definition d10_witness : list event :=
  [EFire false; EStep FNone; EMsg (AddNode 1 17); EStep FNone; EStep FNone].

Lemma no_lost_update_unfixed_refuted_gen :
  forall fl f,
    let s := run cfg_d10 fl (pol_of f) (init [] no_file) d10_witness in
    s_saving s = None /\ s_dirty s = false /\ s_stopped s = false
    /\ load (s_fs s) = Some [] /\ s_tree s = [mkNode 1 17 []].
Proof. intros fl f; destruct fl, f; vm_compute; repeat split; reflexivity. Qed.

(* D9 (no try/except around the save): one failing sub-step and nothing is scheduled any more *)
Definition d9_witness : list event := [EFire false; EStep FIO].

Lemma schedule_survives_unfixed_refuted_gen :
  forall fl f,
    let s := run cfg_d9 fl (pol_of f) (init ex_tree no_file) d9_witness in
    s_stopped s = false /\ s_armed s = false /\ s_saving s = None /\ s_dirty s = true.
Proof. intros fl f; destruct fl, f; vm_compute; repeat split; reflexivity. Qed.

(* the same two histories under the fixed shape *)
Lemma witnesses_fixed :
  forall fl f,
    let s := run cfg_fixed fl (pol_of f) (init [] no_file) d10_witness in
    let s2 := run cfg_fixed fl (pol_of f) (init ex_tree no_file) d9_witness in
    (s_saving s = None /\ s_dirty s = true) /\ (s_armed s2 = true /\ s_dirty s2 = true).
Proof. intros fl f; destruct fl, f; vm_compute; repeat split; reflexivity. Qed.

Lemma good_fixed : good cfg_fixed = true.
Proof. vm_compute. reflexivity. Qed.
Lemma not_good_d9 : good cfg_d9 = false.
Proof. vm_compute. reflexivity. Qed.
Lemma not_good_d10 : good cfg_d10 = false.
Proof. vm_compute. reflexivity. Qed.

(* non-vacuity: a history with a RuntimeError, an OSError and a healing save, ending idle and clean *)
Definition ex_history : list event :=
  [EFire false; EStep FNone; EStep FNone; EMsg (AddChild 1 7 6); EStep FNone;      (* RuntimeError (json) *)
   EFire false; EStep FNone; EStep FIO;                                           (* OSError *)
   EFire false] ++ repeat (EStep FNone) 7.                                         (* heals *)

Lemma ex_history_heals :
  let s := run cfg_fixed Sync pol_json (init ex_tree no_file) ex_history in
  s_saving s = None /\ s_dirty s = false /\ s_armed s = true
  /\ load (s_fs s) = Some (s_tree s) /\ length (s_tree s) = 2.
Proof. vm_compute. repeat split; reflexivity. Qed.

Lemma ex_failed_step :
  let s := run cfg_fixed Async pol_pickle (init ex_tree no_file) [EFire false; EStep FNone] in
  snd (step cfg_fixed Async pol_pickle s (EStep FIO)) = OEnded false false (Some FOSError) true.
Proof. vm_compute. reflexivity. Qed.
