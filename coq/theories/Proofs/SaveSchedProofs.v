(* C15 - proofs about the periodic-save machine of Model/SaveSched.v. *)
From Coq Require Import List ZArith Bool Arith Lia.
From PMS Require Import Model.SaveSched.
Import ListNotations.

(* ------------------------------------------------------------------ messages *)

Lemma apply_msg_silent : forall m t, snd (apply_msg m t) = false -> fst (apply_msg m t) = t.
Proof.
  intros m t; destruct m as [n ty | n c ty | n c vt v]; simpl.
  - destruct (has_node n t); simpl; intro H; discriminate.
  - destruct (has_node n t); simpl; auto.
    destruct (find _ t) as [x|]; simpl; auto.
    destruct (has_child c (n_children x)); simpl; auto. intro H; discriminate.
  - destruct (find _ t) as [x|]; simpl; auto.
    destruct (has_child c (n_children x)); simpl; auto. intro H; discriminate.
Qed.

(* ------------------------------------------------------------------ serialiser on an unchanged tree *)

Definition ss_consistent (ss : sstate) (t : tree) : Prop :=
  ss_n0 ss = length t /\
  exists nd post, t = ss_done ss ++ nd :: post /\
    match ss_cur ss with
    | None => True
    | Some c => cu_id c = n_id nd /\ cu_typ c = n_typ nd /\ cu_k0 c = length (n_children nd) /\
                exists ch cpost, n_children nd = cu_done c ++ ch :: cpost
    end.

Definition ph_consistent (p : sphase) (t : tree) : Prop :=
  match p with PhOpen => True | PhRun ss => ss_consistent ss t | PhSync snap => snap = t end.

(* Ser steps still to run *)
Definition ss_left (ss : sstate) (t : tree) : nat :=
  objs (skipn (length (ss_done ss)) t) - match ss_cur ss with None => 0 | Some c => S (length (cu_done c)) end.

Definition ph_left (p : sphase) (t : tree) : nat :=
  match p with PhOpen => objs t + 2 | PhRun ss => ss_left ss t + 1 | PhSync _ => 1 end.

Lemma skipn_len_app : forall A (a b : list A), skipn (length a) (a ++ b) = b.
Proof. induction a; simpl; auto. Qed.

Lemma nth_error_len_app : forall A (a : list A) x b, nth_error (a ++ x :: b) (length a) = Some x.
Proof. induction a; simpl; auto. Qed.

Lemma objs_app : forall a b, objs (a ++ b) = objs a + objs b.
Proof. induction a; simpl; intros; auto. rewrite IHa. lia. Qed.

Lemma node_eta : forall nd, mkNode (n_id nd) (n_typ nd) (n_children nd) = nd.
Proof. destruct nd; reflexivity. Qed.

Lemma ser_open_consistent : forall t, ph_consistent (ser_open t) t.
Proof.
  destruct t as [|nd post]; simpl; auto.
  split; auto. exists nd, post. simpl. auto.
Qed.

Lemma ser_open_left : forall t, S (ph_left (ser_open t) t) = ph_left PhOpen t.
Proof.
  destruct t as [|nd post]; unfold ph_left, ser_open, ss_left; simpl; lia.
Qed.

Lemma finish_node_ok :
  forall pol t ss nd post,
    policy_ok pol -> ss_n0 ss = length t -> t = ss_done ss ++ nd :: post ->
    exists ph', finish_node pol t ss nd = Good ph' /\ ph_consistent ph' t /\
                ph_left ph' t = objs post + 1.
Proof.
  intros pol t ss nd post Hpol Hn0 Ht.
  unfold finish_node. rewrite Hn0, Hpol.
  assert (Hlen : length t = length (ss_done ss) + S (length post)).
  { rewrite Ht at 1. rewrite app_length. simpl. reflexivity. }
  destruct (Nat.ltb (S (length (ss_done ss))) (length t)) eqn:E.
  - apply Nat.ltb_lt in E.
    destruct post as [|nd2 post2]; [simpl in Hlen; lia|].
    eexists; split; [reflexivity|]. split.
    + simpl. split; [simpl; reflexivity|]. exists nd2, post2. simpl. split; auto.
      rewrite <- app_assoc. simpl. exact Ht.
    + simpl. unfold ss_left. simpl.
      replace (length (ss_done ss ++ [nd])) with (length (ss_done ss ++ [nd])) by reflexivity.
      rewrite Ht. replace (ss_done ss ++ nd :: nd2 :: post2) with ((ss_done ss ++ [nd]) ++ nd2 :: post2)
        by (rewrite <- app_assoc; reflexivity).
      rewrite skipn_len_app. simpl. lia.
  - apply Nat.ltb_ge in E.
    destruct post as [|nd2 post2]; [|simpl in Hlen; lia].
    eexists; split; [reflexivity|]. split.
    + simpl. symmetry. exact Ht.
    + simpl. reflexivity.
Qed.

Lemma ser_step_progress :
  forall pol t ss, policy_ok pol -> ss_consistent ss t ->
    exists ph', ser_step pol t ss = Good ph' /\ ph_consistent ph' t /\
                S (ph_left ph' t) = ph_left (PhRun ss) t.
Proof.
  intros pol t ss Hpol [Hn0 [nd [post [Ht Hcur]]]].
  unfold ser_step.
  assert (Hnth : nth_error t (length (ss_done ss)) = Some nd).
  { rewrite Ht at 1. apply nth_error_len_app. }
  rewrite Hnth.
  assert (Hskip : skipn (length (ss_done ss)) t = nd :: post).
  { rewrite Ht at 1. apply skipn_len_app. }
  destruct (ss_cur ss) as [c|] eqn:Ec.
  - destruct Hcur as [Hid [Hty [Hk0 [ch [cpost Hch]]]]].
    assert (Hn2 : nth_error (n_children nd) (length (cu_done c)) = Some ch).
    { rewrite Hch at 1. apply nth_error_len_app. }
    rewrite Hn2. rewrite Hk0, Hpol.
    assert (Hlen : length (n_children nd) = length (cu_done c) + S (length cpost)).
    { rewrite Hch at 1. rewrite app_length. reflexivity. }
    destruct (Nat.ltb (S (length (cu_done c))) (length (n_children nd))) eqn:E.
    + apply Nat.ltb_lt in E.
      destruct cpost as [|ch2 cpost2]; [simpl in Hlen; lia|].
      eexists; split; [reflexivity|]. split.
      * simpl. split; [exact Hn0|]. exists nd, post. simpl. split; [exact Ht|].
        repeat split; auto. exists ch2, cpost2. rewrite <- app_assoc. exact Hch.
      * simpl. unfold ss_left. simpl. rewrite Ec. rewrite Hskip. simpl.
        rewrite app_length. simpl. rewrite Hlen. simpl. lia.
    + apply Nat.ltb_ge in E.
      destruct cpost as [|ch2 cpost2]; [|simpl in Hlen; lia].
      destruct (finish_node_ok pol t ss (mkNode (cu_id c) (cu_typ c) (cu_done c ++ [ch])) post Hpol Hn0)
        as [ph' [Hf [Hc Hl]]].
      { rewrite Hid, Hty, <- Hch, node_eta. exact Ht. }
      exists ph'. split; [exact Hf|]. split; [exact Hc|].
      rewrite Hl. simpl. unfold ss_left. rewrite Ec, Hskip. simpl. rewrite Hlen. simpl. lia.
  - destruct (Nat.eqb (length (n_children nd)) 0) eqn:E0.
    + apply Nat.eqb_eq in E0.
      destruct (finish_node_ok pol t ss (mkNode (n_id nd) (n_typ nd) []) post Hpol Hn0) as [ph' [Hf [Hc Hl]]].
      { destruct nd as [i ty chs]; simpl in *. destruct chs; [exact Ht|simpl in E0; discriminate]. }
      exists ph'. split; [exact Hf|]. split; [exact Hc|].
      rewrite Hl. simpl. unfold ss_left. rewrite Ec, Hskip. simpl. rewrite E0. lia.
    + apply Nat.eqb_neq in E0.
      destruct (n_children nd) as [|ch cpost] eqn:Ech; [simpl in E0; congruence|].
      eexists; split; [reflexivity|]. split.
      * simpl. split; [exact Hn0|]. exists nd, post. simpl. split; [exact Ht|].
        repeat split; auto. rewrite Ech. reflexivity. exists ch, cpost. simpl. exact Ech.
      * simpl. unfold ss_left. simpl. rewrite Ec, Hskip. simpl. rewrite Ech. simpl. lia.
Qed.

Lemma ser_step_fail_class : forall pol t ss f, ser_step pol t ss = Fail f -> f = FRuntimeError.
Proof.
  intros pol t ss f. unfold ser_step, finish_node.
  repeat match goal with
         | |- context [match ?x with _ => _ end] => destruct x
         end; intro H; inversion H; reflexivity.
Qed.

(* both CPython policies are exact on an unchanged dict *)
Lemma pol_json_ok : policy_ok pol_json.
Proof. intros n pos. unfold pol_json. rewrite Nat.eqb_refl. reflexivity. Qed.

Lemma pol_pickle_ok : policy_ok pol_pickle.
Proof.
  intros n pos. unfold pol_pickle. rewrite Nat.eqb_refl. simpl.
  destruct (Nat.eqb n 1) eqn:E.
  - apply Nat.eqb_eq in E. subst. destruct (Nat.ltb (S pos) 1) eqn:E2; auto.
    apply Nat.ltb_lt in E2. lia.
  - reflexivity.
Qed.

Lemma pol_of_ok : forall f, policy_ok (pol_of f).
Proof. destruct f; [apply pol_json_ok | apply pol_pickle_ok]. Qed.

(* ------------------------------------------------------------------ what [good] gives *)

Record good_facts (c : cfg) : Prop := mkGF {
  gf_order : sv_order (c_save c) = full_order;
  gf_pf : sv_protect_from (c_save c) <= 1;
  gf_os : covers (sv_handler (c_save c)) FOSError = true;
  gf_rt : covers (sv_handler (c_save c)) FRuntimeError = true;
  gf_sets : sv_handler_sets (c_save c) = Some true;
  gf_fin : sv_finally_sets (c_save c) = None;
  gf_sched : forall fl, good_sched (sched_of c fl) = true
}.

Lemma sops_eqb_eq : forall a b, sops_eqb a b = true -> a = b.
Proof.
  induction a as [|x a IH]; destruct b as [|y b]; simpl; intro H; try discriminate; auto.
  apply andb_true_iff in H. destruct H as [H1 H2]. f_equal; auto.
  destruct x, y; simpl in H1; try discriminate; reflexivity.
Qed.

Lemma good_gives : forall c, good c = true -> good_facts c.
Proof.
  intros c H. unfold good in H.
  apply andb_true_iff in H. destruct H as [H Ha].
  apply andb_true_iff in H. destruct H as [Hs Hy].
  unfold good_save in Hs.
  repeat (apply andb_true_iff in Hs; let H' := fresh "Hs" in destruct Hs as [Hs H']).
  constructor.
  - apply sops_eqb_eq. exact Hs.
  - apply Nat.leb_le. assumption.
  - assumption.
  - assumption.
  - destruct (sv_handler_sets (c_save c)) as [[|]|]; try discriminate; reflexivity.
  - destruct (sv_finally_sets (c_save c)); try discriminate; reflexivity.
  - destruct fl; assumption.
Qed.

Definition armed_after (o : owner) (a : bool) : bool := match o with OSched => true | OFinal => a end.

(* the state in which a save leaves the machine *)
Definition ended (o : owner) (s : st) (d : bool) (f : fsys) : st :=
  mkSt (s_tree s) d f (armed_after o (s_armed s)) (s_stopped s) None.

Lemma return_good :
  forall c fl o r s, good_facts c -> (r = None \/ r = Some FOSError \/ r = Some FRuntimeError) ->
    return_to_caller c fl o r s = ended o s (s_dirty s) (s_fs s).
Proof.
  intros c fl o r s G Hr. unfold return_to_caller, ended. destruct o; simpl; auto.
  pose proof (gf_sched c G fl) as Hg. unfold good_sched in Hg.
  repeat (apply andb_true_iff in Hg; let H' := fresh "Hg" in destruct Hg as [Hg H']).
  destruct Hr as [Hr | [Hr | Hr]]; subst r; simpl.
  - rewrite Hg3. reflexivity.
  - rewrite Hg, Hg4, Hg3. reflexivity.
  - rewrite Hg5, Hg4, Hg3. reflexivity.
Qed.

Lemma has_try_good : forall c, good_facts c -> has_try (c_save c) = true.
Proof.
  intros c G. unfold has_try. rewrite (gf_order c G). simpl.
  apply Nat.ltb_lt. pose proof (gf_pf c G). lia.
Qed.

Lemma raises_good :
  forall c fl v f s, good_facts c -> 1 <= v_idx v -> (f = FOSError \/ f = FRuntimeError) ->
    fst (save_raises c fl v f s) = ended (v_owner v) s true (s_fs s)
    /\ exists r, snd (save_raises c fl v f s) = OEnded false false (Some f) r.
Proof.
  intros c fl v f s G Hidx Hf. unfold save_raises.
  rewrite (has_try_good c G).
  assert (Hp : Nat.leb (sv_protect_from (c_save c)) (v_idx v) = true).
  { apply Nat.leb_le. pose proof (gf_pf c G). lia. }
  rewrite Hp.
  assert (Hc : covers (sv_handler (c_save c)) f = true).
  { destruct Hf; subst f; [apply (gf_os c G) | apply (gf_rt c G)]. }
  rewrite Hc, (gf_sets c G), (gf_fin c G). simpl.
  split.
  - rewrite return_good; auto.
    destruct (sv_handler_reraises (c_save c)); simpl; destruct Hf; subst; auto.
  - eexists; reflexivity.
Qed.

Lemma settle_nil :
  forall c fl v idx s, good_facts c ->
    settle c fl v [] idx s = (ended (v_owner v) s (s_dirty s) (s_fs s), OEnded false false None false).
Proof.
  intros c fl v idx s G. simpl. rewrite (has_try_good c G), (gf_fin c G). simpl.
  rewrite return_good; auto.
Qed.

(* ------------------------------------------------------------------ the invariant *)

Inductive sv_inv (s : st) (v : sv) : Prop :=
| InvSer :
    v_todo v = [SSer; SRenBak; SRenMain; SRemBak] -> v_idx v = 1 ->
    load (s_fs s) = v_load0 v -> v_exists v = is_some (f_main (s_fs s)) ->
    (s_dirty s = false -> ph_consistent (v_ph v) (s_tree s)) -> sv_inv s v
| InvRenBak :
    v_todo v = [SRenBak; SRenMain; SRemBak] -> v_idx v = 2 ->
    load (s_fs s) = v_load0 v -> v_exists v = true -> is_some (f_main (s_fs s)) = true ->
    (s_dirty s = false -> v_snap v = s_tree s) -> sv_inv s v
| InvRenMain :
    v_todo v = [SRenMain; SRemBak] -> v_idx v = 3 ->
    load (s_fs s) = v_load0 v ->
    (s_dirty s = false -> v_snap v = s_tree s) -> sv_inv s v
| InvRemBak :
    v_todo v = [SRemBak] -> v_idx v = 4 -> v_exists v = true ->
    f_main (s_fs s) = Some (v_snap v) ->
    (s_dirty s = false -> v_snap v = s_tree s) -> sv_inv s v.

Definition sched_inv (s : st) : Prop :=
  if s_stopped s
  then s_armed s = false /\ (forall v, s_saving s = Some v -> v_owner v = OFinal)
  else (s_armed s = true /\ s_saving s = None)
       \/ (s_armed s = false /\ exists v, s_saving s = Some v /\ v_owner v = OSched).

Record Inv (s : st) : Prop := mkInv {
  inv_idle : s_saving s = None -> s_dirty s = false -> load (s_fs s) = Some (s_tree s);
  inv_sv : forall v, s_saving s = Some v -> sv_inv s v;
  inv_sched : sched_inv s
}.

Definition tail_len (ex : bool) : nat := if ex then 2 else 0.

(* sub-steps still to run in an undisturbed fault-free save *)
Definition sv_left (v : sv) (t : tree) : nat :=
  match v_todo v with
  | SSer :: _ => ph_left (v_ph v) t + 1 + tail_len (v_exists v)
  | SRenBak :: _ => 3
  | SRenMain :: _ => if v_exists v then 2 else 1
  | SRemBak :: _ => 1
  | _ => 0
  end.

Lemma sv_inv_idx : forall s v, sv_inv s v -> 1 <= v_idx v.
Proof. intros s v H; destruct H; lia. Qed.

Lemma sv_inv_load :
  forall s v, sv_inv s v ->
    load (s_fs s) = v_load0 v \/ (v_todo v = [SRemBak] /\ load (s_fs s) = Some (v_snap v)).
Proof.
  intros s v H; destruct H; auto.
  right. split; auto. unfold load. rewrite H2. reflexivity.
Qed.

(* one sub-step of a save, from a state satisfying the invariant *)
Lemma substep_cases :
  forall c fl pol s v f,
    good_facts c -> policy_ok pol -> sv_inv s v ->
    let s' := fst (sub_step c fl pol v f s) in
    let o := snd (sub_step c fl pol v f s) in
    s_tree s' = s_tree s /\ s_stopped s' = s_stopped s /\
    ( (* the save failed *)
      (exists cls r, o = OEnded false false (Some cls) r /\ s' = ended (v_owner v) s true (s_fs s)
                     /\ (load (s_fs s) = v_load0 v \/ (v_todo v = [SRemBak] /\ load (s_fs s) = Some (v_snap v))))
      \/ (* the save returned *)
      (o = OEnded false false None false /\ f = FNone /\
       (exists fs', s' = ended (v_owner v) s (s_dirty s) fs' /\ (s_dirty s = false -> load fs' = Some (s_tree s)))
       /\ sv_left v (s_tree s) = 1)
      \/ (* the save goes on *)
      (o = OProgress /\ f = FNone /\
       exists v', s_saving s' = Some v' /\ v_owner v' = v_owner v /\ s_dirty s' = s_dirty s
                  /\ s_armed s' = s_armed s /\ sv_inv s' v' /\ v_load0 v' = v_load0 v
                  /\ (s_dirty s = false -> S (sv_left v' (s_tree s')) = sv_left v (s_tree s))) ).
Proof.
  intros c fl pol s v f G Hpol Hinv. cbv zeta.
  destruct f.
  2:{ (* OSError at this sub-step *)
    unfold sub_step.
    destruct (raises_good c fl v FOSError s G (sv_inv_idx s v Hinv) (or_introl eq_refl)) as [H1 [r H2]].
    rewrite H1, H2. simpl. split; auto. split; auto. left.
    exists FOSError, r. split; auto. split; auto. apply sv_inv_load; assumption. }
  unfold sub_step.
  destruct Hinv as [Htodo Hidx Hload Hex Hcons | Htodo Hidx Hload Hex Hmain Hsnap
                    | Htodo Hidx Hload Hsnap | Htodo Hidx Hex Hmain Hsnap]; rewrite Htodo.
  - (* serialising *)
    destruct (v_ph v) as [|ss|snap] eqn:Eph.
    + (* open *)
      simpl. split; auto. split; auto. right; right. split; auto. split; auto.
      eexists. split; [reflexivity|]. simpl. repeat split; auto.
      * apply InvSer; simpl; auto. intros _. apply ser_open_consistent.
      * intros _. unfold sv_left; simpl. rewrite Htodo, Eph.
        pose proof (ser_open_left (s_tree s)). lia.
    + (* one object *)
      destruct (ser_step pol (s_tree s) ss) as [ph|e] eqn:Estep.
      * simpl. split; auto. split; auto. right; right. split; auto. split; auto.
        eexists. split; [reflexivity|]. simpl. repeat split; auto.
        -- apply InvSer; simpl; auto. intros Hd.
           destruct (ser_step_progress pol (s_tree s) ss Hpol) as [ph' [E1 [E2 _]]].
           { specialize (Hcons Hd). exact Hcons. }
           rewrite Estep in E1. inversion E1. subst. exact E2.
        -- intros Hd. unfold sv_left; simpl. rewrite Htodo, Eph.
           destruct (ser_step_progress pol (s_tree s) ss Hpol) as [ph' [E1 [_ E3]]].
           { specialize (Hcons Hd). exact Hcons. }
           rewrite Estep in E1. inversion E1. subst. lia.
      * pose proof (ser_step_fail_class _ _ _ _ Estep). subst e.
        assert (Hi : 1 <= v_idx v) by lia.
        destruct (raises_good c fl v FRuntimeError s G Hi (or_intror eq_refl)) as [H1 [r H2]].
        rewrite H1, H2. simpl. split; auto. split; auto. left.
        exists FRuntimeError, r. auto.
    + (* flush, fsync, close *)
      simpl. rewrite Hidx. destruct (v_exists v) eqn:Eex; simpl.
      * split; auto. split; auto. right; right. split; auto. split; auto.
        eexists. split; [reflexivity|]. simpl. repeat split; auto.
        -- apply InvRenBak; simpl; auto.
        -- intros _. unfold sv_left; simpl. rewrite Htodo, Eph, Eex. reflexivity.
      * split; auto. split; auto. right; right. split; auto. split; auto.
        eexists. split; [reflexivity|]. simpl. repeat split; auto.
        -- apply InvRenMain; simpl; auto.
        -- intros _. unfold sv_left; simpl. rewrite Htodo, Eph, Eex. reflexivity.
  - (* rename main -> bak *)
    simpl. split; auto. split; auto. right; right. split; auto. split; auto.
    eexists. split; [reflexivity|]. simpl. repeat split; auto.
    + apply InvRenMain; simpl; auto.
      rewrite <- Hload. unfold load; simpl.
      destruct (f_main (s_fs s)); simpl in *; [reflexivity|discriminate].
    + intros _. unfold sv_left; simpl. rewrite Htodo, Hex. reflexivity.
  - (* rename tmp -> main *)
    simpl. rewrite Hidx. destruct (v_exists v) eqn:Eex; simpl.
    + split; auto. split; auto. right; right. split; auto. split; auto.
      eexists. split; [reflexivity|]. simpl. repeat split; auto.
      * apply InvRemBak; simpl; auto.
      * intros _. unfold sv_left; simpl. rewrite Htodo, Eex. reflexivity.
    + rewrite (has_try_good c G), (gf_fin c G). simpl.
      rewrite return_good; auto. simpl.
      split; auto. split; auto. right; left. split; auto. split; auto. split.
      * eexists. split; [reflexivity|]. simpl. intros Hd. unfold load; simpl. rewrite Hsnap; auto.
      * unfold sv_left. rewrite Htodo, Eex. reflexivity.
  - (* remove bak *)
    simpl. rewrite (has_try_good c G), (gf_fin c G). simpl.
    rewrite return_good; auto. simpl.
    split; auto. split; auto. right; left. split; auto. split; auto. split.
    + eexists. split; [reflexivity|]. simpl. intros Hd. unfold load; simpl. rewrite Hmain, Hsnap; auto.
    + unfold sv_left. rewrite Htodo. reflexivity.
Qed.
