(* Smart sleep (C08): closed description of the wake-up flush (handle_smartsleep). *)
From Coq Require Import List NArith ZArith Bool String Lia.
From PMS Require Import Base.PyStr Base.PyInt Base.Exn Model.Codec Model.Rules Model.TableTypes
  Gen.Tables Model.Validate Model.Hex Model.Ota Model.Oracles Model.Gateway Spec.SerialApi
  Proofs.PyStrFacts Proofs.PyIntFacts Proofs.CodecProofs Proofs.ValidateProofs Proofs.GwLemmas Proofs.GwInv
  Proofs.SleepDefs.
Import ListNotations.
Open Scope string_scope.
Open Scope list_scope.
Open Scope Z_scope.

(* the set command for a desired value, as the flush builds it (gateway's table) *)
Definition set_msg_of (t : vtab) (nid cid vt : Z) (v : pyval) : msg :=
  mkMsg nid cid (vt_set t) 0 vt (py_str v).

(* one child: the REPORTED value types in insertion order whose desired entry is Some v *)
Definition child_msgs (t : vtab) (nid cid : Z) (dv : list (Z * option pyval)) (vals : list (Z * pyval))
  : list msg :=
  flat_map (fun kv => match zassoc (fst kv) dv with
                      | Some (Some v) => [set_msg_of t nid cid (fst kv) v]
                      | _ => []
                      end) vals.

(* all children in insertion order (the slot is looked up under child.id, as the code does) *)
Definition children_msgs (t : vtab) (nd : node) (chs : list (Z * child)) : list msg :=
  flat_map (fun kc => match zassoc (c_id (snd kc)) (n_new nd) with
                      | Some dv => child_msgs t (n_id nd) (c_id (snd kc)) dv (c_values (snd kc))
                      | None => []
                      end) chs.

Definition desired_msgs (t : vtab) (nd : node) : list msg := children_msgs t nd (n_children nd).
Definition desired_sets (t : vtab) (nd : node) : list pstr := map encode (desired_msgs t nd).

(* membership, both directions *)
Lemma In_child_msgs t nid cid dv vals m :
  In m (child_msgs t nid cid dv vals) <->
  exists vt x v, In (vt, x) vals /\ zassoc vt dv = Some (Some v) /\ m = set_msg_of t nid cid vt v.
Proof.
  unfold child_msgs. rewrite in_flat_map. split.
  - intros [[vt x] [IN H]]. simpl in H. destruct (zassoc vt dv) as [[v|]|] eqn:E; try contradiction.
    destruct H as [<-|[]]. exists vt, x, v. auto.
  - intros (vt & x & v & IN & E & ->). exists (vt, x). split; [exact IN|]. simpl. rewrite E. left. reflexivity.
Qed.

Lemma In_desired_msgs t nd m :
  In m (desired_msgs t nd) <->
  exists k ch vt x v, In (k, ch) (n_children nd) /\ In (vt, x) (c_values ch) /\
                      desired nd (c_id ch) vt = Some v /\ m = set_msg_of t (n_id nd) (c_id ch) vt v.
Proof.
  unfold desired_msgs, children_msgs, desired. rewrite in_flat_map. split.
  - intros [[k ch] [IN H]]. simpl in H. destruct (zassoc (c_id ch) (n_new nd)) as [dv|] eqn:E; [|contradiction].
    apply In_child_msgs in H as (vt & x & v & IN2 & E2 & ->).
    exists k, ch, vt, x, v. rewrite E, E2. auto.
  - intros (k & ch & vt & x & v & IN & IN2 & D & ->). exists (k, ch). split; [exact IN|]. simpl.
    destruct (zassoc (c_id ch) (n_new nd)) as [dv|] eqn:E; [|discriminate].
    apply In_child_msgs. exists vt, x, v. split; [exact IN2|]. split; [|reflexivity].
    destruct (zassoc vt dv) as [[v'|]|]; congruence.
Qed.

Section Flush.
  Variable orc : oracles.

  (* ---- the exception-free flush and the prefix-emitting one ---- *)
  Lemma flush_values_rel g nid cid dv vals :
    match flush_values orc g nid cid dv vals with
    | Ok l => flush_values_pre orc g nid cid dv vals = (l, None)
    | Raise e => exists pre, flush_values_pre orc g nid cid dv vals = (pre, Some e)
    end.
  Proof.
    induction vals as [|[vt x] r IH]; simpl; [reflexivity|].
    destruct (zassoc vt dv) as [[v|]|]; try exact IH.
    destruct (create_set_message orc g nid cid (VtInt vt) v None None) as [m|e]; cbn [bind]; [|eexists; reflexivity].
    destruct (flush_values orc g nid cid dv r) as [l|e]; cbn [bind].
    - rewrite IH. reflexivity.
    - destruct IH as [pre ->]. eexists. reflexivity.
  Qed.

  Lemma flush_children_rel g nd chs :
    match flush_children orc g nd chs with
    | Ok l => flush_children_pre orc g nd chs = (l, None)
    | Raise e => exists pre, flush_children_pre orc g nd chs = (pre, Some e)
    end.
  Proof.
    induction chs as [|[k ch] r IH]; simpl; [reflexivity|].
    destruct (zassoc (c_id ch) (n_new nd)) as [dv|]; [|exact IH].
    pose proof (flush_values_rel g (n_id nd) (c_id ch) dv (c_values ch)) as V.
    destruct (flush_values orc g (n_id nd) (c_id ch) dv (c_values ch)) as [a|e]; cbn [bind].
    - rewrite V. destruct (flush_children orc g nd r) as [b|e]; cbn [bind].
      + rewrite IH. reflexivity.
      + destruct IH as [pre ->]. eexists. reflexivity.
    - destruct V as [pre ->]. eexists. reflexivity.
  Qed.

  (* ---- closed form under the invariant ---- *)
  Lemma flush_values_closed g nid cid dv vals : dv_ok orc (tab g) nid cid dv ->
    flush_values orc g nid cid dv vals = Ok (map encode (child_msgs (tab g) nid cid dv vals)).
  Proof.
    intro D. induction vals as [|[vt x] r IH]; simpl; [reflexivity|].
    destruct (zassoc vt dv) as [[v|]|] eqn:E; try exact IH.
    pose proof (zassoc_Forall _ _ _ _ D E) as V. simpl in V.
    rewrite (create_set_message_valid orc g nid cid vt v V). cbn [bind]. rewrite IH. reflexivity.
  Qed.

  Lemma flush_children_closed g nd chs :
    Forall (fun cd => dv_ok orc (tab g) (n_id nd) (fst cd) (snd cd)) (n_new nd) ->
    flush_children orc g nd chs = Ok (map encode (children_msgs (tab g) nd chs)).
  Proof.
    intro N. induction chs as [|[k ch] r IH]; simpl; [reflexivity|].
    destruct (zassoc (c_id ch) (n_new nd)) as [dv|] eqn:E; [|exact IH].
    pose proof (zassoc_Forall _ _ _ _ N E) as D. simpl in D.
    rewrite (flush_values_closed g _ _ _ _ D). cbn [bind]. rewrite IH. cbn [bind].
    rewrite map_app. reflexivity.
  Qed.

  Lemma flush_children_pre_closed g nd chs :
    Forall (fun cd => dv_ok orc (tab g) (n_id nd) (fst cd) (snd cd)) (n_new nd) ->
    flush_children_pre orc g nd chs = (map encode (children_msgs (tab g) nd chs), None).
  Proof.
    intro N. pose proof (flush_children_rel g nd chs) as R.
    rewrite (flush_children_closed g nd chs N) in R. exact R.
  Qed.

  (* ---- init_smart_sleep ---- *)
  Definition add_slot (nw : list (Z * list (Z * option pyval))) (kc : Z * child) :=
    if zhas (fst kc) nw then nw else nw ++ [(fst kc, [])].

  Lemma init_smart_sleep_eq nd : init_smart_sleep nd = with_new nd (fold_left add_slot (n_children nd) (n_new nd)).
  Proof. reflexivity. Qed.

  (* existing slots are kept in place, with their content *)
  Lemma add_slots_keep chs nw c : forall dv, zassoc c nw = Some dv -> zassoc c (fold_left add_slot chs nw) = Some dv.
  Proof.
    revert nw. induction chs as [|kc r IH]; intros nw dv H; simpl; [exact H|].
    apply IH. unfold add_slot. destruct (zhas (fst kc) nw); [exact H|]. rewrite zassoc_app, H. reflexivity.
  Qed.

  (* a new slot is empty *)
  Lemma add_slots_new chs nw c : zassoc c nw = None ->
    zassoc c (fold_left add_slot chs nw) = if zhas c chs then Some [] else None.
  Proof.
    revert nw. induction chs as [|[k ch] r IH]; intros nw H; simpl; [exact H|].
    unfold add_slot at 2. cbn [fst]. unfold zhas at 2. cbn [zassoc].
    destruct (Z.eqb_spec c k) as [->|N].
    - unfold zhas. rewrite H. apply add_slots_keep. rewrite zassoc_app, H. simpl. rewrite Z.eqb_refl. reflexivity.
    - fold (zhas c r). apply IH. destruct (zhas k nw); [exact H|]. rewrite zassoc_app, H. simpl.
      destruct (Z.eqb_spec c k); [contradiction|reflexivity].
  Qed.

  (* the old desired state is a prefix of the new one *)
  Lemma add_slots_prefix chs nw : exists ext, fold_left add_slot chs nw = nw ++ ext /\ Forall (fun e => snd e = []) ext.
  Proof.
    revert nw. induction chs as [|kc r IH]; intro nw; simpl.
    { exists []. rewrite app_nil_r. split; [reflexivity|constructor]. }
    destruct (IH (add_slot nw kc)) as (ext & E & F). rewrite E. unfold add_slot.
    destruct (zhas (fst kc) nw); [exists ext; split; [reflexivity|exact F]|].
    exists ((fst kc, []) :: ext). rewrite <- app_assoc. split; [reflexivity|]. constructor; [reflexivity|exact F].
  Qed.

  Lemma init_slot_old nd c dv : zassoc c (n_new nd) = Some dv -> zassoc c (n_new (init_smart_sleep nd)) = Some dv.
  Proof. intro H. rewrite init_smart_sleep_eq. cbn [with_new n_new]. apply add_slots_keep. exact H. Qed.

  Lemma init_slot_new nd c : zassoc c (n_new nd) = None ->
    zassoc c (n_new (init_smart_sleep nd)) = if zhas c (n_children nd) then Some [] else None.
  Proof. intro H. rewrite init_smart_sleep_eq. cbn [with_new n_new]. apply add_slots_new. exact H. Qed.

  (* after a wake-up every child has a slot *)
  Lemma init_has_slot nd c : zhas c (n_children nd) = true -> zhas c (n_new (init_smart_sleep nd)) = true.
  Proof.
    intro H. unfold zhas at 1. destruct (zassoc c (n_new nd)) as [dv|] eqn:E.
    - rewrite (init_slot_old nd c dv E). reflexivity.
    - rewrite (init_slot_new nd c E), H. reflexivity.
  Qed.

  (* a node with at least one child sleeps from its first wake-up on *)
  Lemma init_sleeping nd : sleeping (init_smart_sleep nd) = match n_children nd with [] => sleeping nd | _ => true end.
  Proof.
    destruct (n_children nd) as [|[k ch] r] eqn:E.
    - rewrite init_smart_sleep_eq, E. reflexivity.
    - assert (H : zhas k (n_new (init_smart_sleep nd)) = true).
      { apply init_has_slot. rewrite E. unfold zhas. cbn [zassoc]. rewrite Z.eqb_refl. reflexivity. }
      unfold sleeping. destruct (n_new (init_smart_sleep nd)); [cbv in H; discriminate H|reflexivity].
  Qed.

  (* desired values are neither created nor cleared by the slot initialisation *)
  Lemma init_desired nd c vt : desired (init_smart_sleep nd) c vt = desired nd c vt.
  Proof.
    unfold desired. destruct (zassoc c (n_new nd)) as [dv|] eqn:E.
    - rewrite (init_slot_old nd c dv E). reflexivity.
    - rewrite (init_slot_new nd c E). destruct (zhas c (n_children nd)); reflexivity.
  Qed.

  Lemma init_fields nd :
    n_id (init_smart_sleep nd) = n_id nd /\ n_children (init_smart_sleep nd) = n_children nd /\
    n_queue (init_smart_sleep nd) = n_queue nd /\ n_pver (init_smart_sleep nd) = n_pver nd /\
    n_reboot (init_smart_sleep nd) = n_reboot nd.
  Proof. repeat split; reflexivity. Qed.

  (* ---- handle_smartsleep: closed form ---- *)
  Definition woken (nd : node) : node := with_queue (init_smart_sleep nd) [].
  Definition flush_strings (t : vtab) (nd : node) : list pstr := n_queue nd ++ desired_sets t (init_smart_sleep nd).

  Theorem handle_smartsleep_closed g k nd : Inv orc g -> get_node g k = Some nd ->
    handle_smartsleep orc g nd =
    Ok (fold_left add_job_send (flush_strings (tab g) nd) (put_node g (woken nd))).
  Proof.
    intros I G. unfold handle_smartsleep, flush_strings.
    pose proof (get_node_ok orc _ _ _ I G) as NK.
    pose proof (init_smart_sleep_ok orc _ _ _ NK) as [N1a N1b]. cbn [fst snd] in N1a, N1b.
    fold (woken nd).
    change (n_queue (init_smart_sleep nd)) with (n_queue nd).
    set (g2 := fold_left add_job_send (n_queue nd) (put_node g (woken nd))).
    assert (T2 : tab g2 = tab g).
    { unfold tab. destruct (fold_add_job_send_frame (n_queue nd) (put_node g (woken nd))) as (_&_&C&_).
      unfold g2. rewrite C. reflexivity. }
    rewrite flush_children_pre_closed by (rewrite T2; exact N1b).
    rewrite T2. rewrite fold_left_app. reflexivity.
  Qed.
End Flush.
