(* The constants of the hand model are those written in mysensors/ota.py now. *)
From Coq Require Import NArith ZArith.
From PMS Require Import Model.Ota Gen.OtaConsts.

Lemma ota_consts_agree :
  fw_block_size = src_fw_block_size /\
  N.of_nat fw_page_size = src_fw_page_size /\
  fw_pad_byte = src_fw_pad_byte.
Proof. repeat split; vm_compute; reflexivity. Qed.
