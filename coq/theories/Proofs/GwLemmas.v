(* Frame and bookkeeping lemmas about Model/Gateway.v *)
From Coq Require Import List NArith ZArith Bool String Lia.
From PMS Require Import Base.PyStr Base.PyInt Base.Exn Model.Codec Model.Rules Model.TableTypes
  Gen.Tables Model.Validate Model.Hex Model.Ota Model.Oracles Model.Gateway Proofs.ValidateProofs.
Import ListNotations.
Open Scope Z_scope.

Lemma zassoc_zset_same {A} k (a : A) l : zassoc k (zset k a l) = Some a.
Proof.
  induction l as [|[k' a'] l IH]; simpl; [rewrite Z.eqb_refl; reflexivity|].
  destruct (Z.eqb_spec k k'); simpl; [rewrite Z.eqb_refl; reflexivity|].
  destruct (Z.eqb_spec k k'); [contradiction|exact IH].
Qed.

Lemma zassoc_zset_other {A} k k' (a : A) l : k <> k' -> zassoc k' (zset k a l) = zassoc k' l.
Proof.
  intro N. induction l as [|[k2 a2] l IH]; simpl.
  - destruct (Z.eqb_spec k' k); [congruence|reflexivity].
  - destruct (Z.eqb_spec k k2); simpl.
    + subst k2. destruct (Z.eqb_spec k' k); [congruence|reflexivity].
    + destruct (Z.eqb_spec k' k2); [reflexivity|exact IH].
Qed.

Lemma Forall_zset {A} (P : Z * A -> Prop) k a l : Forall P l -> P (k, a) -> Forall P (zset k a l).
Proof.
  intros F Pa. induction l as [|[k' a'] l IH]; simpl; [constructor; [exact Pa|constructor]|].
  inversion F; subst. destruct (Z.eqb k k'); constructor; auto.
Qed.

Lemma Forall_zdel {A} (P : Z * A -> Prop) k l : Forall P l -> Forall P (zdel k l).
Proof.
  intros F. induction l as [|[k' a'] l IH]; simpl; [constructor|].
  inversion F; subst. destruct (Z.eqb k k'); [assumption|constructor; auto].
Qed.

Lemma zassoc_Forall {A} (P : Z * A -> Prop) k l a : Forall P l -> zassoc k l = Some a -> P (k, a).
Proof. intros F H. apply zassoc_In in H. rewrite Forall_forall in F. apply F. exact H. Qed.

Lemma zhas_true {A} k (l : list (Z * A)) : zhas k l = true -> exists a, zassoc k l = Some a.
Proof. unfold zhas. destruct (zassoc k l) as [a|]; [exists a; reflexivity|discriminate]. Qed.

Lemma zassoc_app {A} k (l1 l2 : list (Z * A)) :
  zassoc k (l1 ++ l2) = match zassoc k l1 with Some a => Some a | None => zassoc k l2 end.
Proof.
  induction l1 as [|[k' a'] l1 IH]; simpl; [reflexivity|].
  destruct (Z.eqb k k'); [reflexivity|exact IH].
Qed.

(* --- field frames --- *)
Section Frames.
  Variable orc : oracles.
  Variable clock : Z.

  Lemma send_frame g l :
    g_sensors (send g l) = g_sensors g /\ g_ota (send g l) = g_ota g /\ g_cf (send g l) = g_cf g /\
    g_jobs (send g l) = g_jobs g /\ g_dirty (send g l) = g_dirty g /\ g_metric (send g l) = g_metric g.
  Proof. unfold send. destruct l; repeat split; reflexivity. Qed.

  Lemma add_job_send_frame g l :
    g_sensors (add_job_send g l) = g_sensors g /\ g_ota (add_job_send g l) = g_ota g /\
    g_cf (add_job_send g l) = g_cf g /\ g_dirty (add_job_send g l) = g_dirty g /\
    g_metric (add_job_send g l) = g_metric g.
  Proof.
    unfold add_job_send. destruct (cf_async (g_cf g)); [|repeat split; reflexivity].
    destruct (send_frame g l) as (?&?&?&?&?&?). repeat split; assumption.
  Qed.

  Lemma fold_add_job_send_frame ls g :
    g_sensors (fold_left add_job_send ls g) = g_sensors g /\ g_ota (fold_left add_job_send ls g) = g_ota g /\
    g_cf (fold_left add_job_send ls g) = g_cf g /\ g_dirty (fold_left add_job_send ls g) = g_dirty g /\
    g_metric (fold_left add_job_send ls g) = g_metric g.
  Proof.
    revert g. induction ls as [|l ls IH]; intro g; simpl; [repeat split; reflexivity|].
    destruct (IH (add_job_send g l)) as (A&B&C&D&E).
    destruct (add_job_send_frame g l) as (A'&B'&C'&D'&E').
    repeat split; congruence.
  Qed.

  Lemma alert_frame g m :
    g_sensors (alert g m) = g_sensors g /\ g_ota (alert g m) = g_ota g /\ g_cf (alert g m) = g_cf g /\
    g_jobs (alert g m) = g_jobs g /\ g_metric (alert g m) = g_metric g.
  Proof.
    unfold alert. destruct (cf_callback (g_cf g)), (cf_persist (g_cf g)); repeat split; reflexivity.
  Qed.

  Lemma put_node_frame g nd :
    g_ota (put_node g nd) = g_ota g /\ g_cf (put_node g nd) = g_cf g /\ g_jobs (put_node g nd) = g_jobs g /\
    g_dirty (put_node g nd) = g_dirty g /\ g_metric (put_node g nd) = g_metric g /\ g_log (put_node g nd) = g_log g /\
    g_sensors (put_node g nd) = zset (n_id nd) nd (g_sensors g).
  Proof. repeat split; reflexivity. Qed.
End Frames.

(* ---- the node id guard of Gateway.is_sensor: `sensorid in range(BROADCAST_ID + 1)` ---- *)
Lemma node_id_ok_iff sid : node_id_ok sid = true <-> 0 <= sid <= 255.
Proof. unfold node_id_ok, broadcast_id. lia. Qed.

Lemma node_id_ok_of sid : 0 <= sid <= 255 -> node_id_ok sid = true.
Proof. apply node_id_ok_iff. Qed.

(* a validated message carries a node id that passes the guard (any table, any oracle) *)
Lemma validate_node_id_ok ov of t m : validate ov of t m = true -> node_id_ok (m_node m) = true.
Proof.
  unfold validate. intro V.
  repeat match type of V with _ && _ = true => apply andb_true_iff in V as [V _] end.
  exact V.
Qed.

Lemma gvalidate_node_id_ok orc g m : gvalidate orc g m = true -> node_id_ok (m_node m) = true.
Proof. apply validate_node_id_ok. Qed.

(* is_sensor on an id outside 0..255: the verdict, and nothing else happens (all versions) *)
Lemma is_sensor_out_of_range g sid cid : node_id_ok sid = false ->
  is_sensor g sid cid =
  Ok (g, match get_node g sid with
         | None => false
         | Some nd => match cid with None => true | Some c => zhas c (n_children nd) end
         end).
Proof. intro N. unfold is_sensor. rewrite N, andb_false_r. reflexivity. Qed.
