(* Lemmas for C17 (MQTT topic mapping, subscriptions, callbacks). *)
From Coq Require Import String.
From Coq Require Import List NArith ZArith Bool Lia.
From PMS Require Import Base.PyStr Base.PyInt Base.Exn Model.Codec Gen.MqttConsts Model.Mqtt
  Spec.MqttSpec Proofs.PyStrFacts Proofs.PyIntFacts Proofs.CodecProofs.
Import ListNotations.
Open Scope N_scope.

(* ------------------------------------------------------------------ *)
(* general split / join facts (candidates for PyStrFacts)              *)

Lemma split_app d a b : split d (a ++ d :: b) = split d a ++ split d b.
Proof.
  induction a as [|c a IH]; simpl.
  - rewrite N.eqb_refl. reflexivity.
  - destruct (N.eqb c d); [rewrite IH; reflexivity|].
    rewrite IH. pose proof (split_nonempty d a) as NE.
    destruct (split d a) as [|h t]; [contradiction|]. reflexivity.
Qed.

Lemma join_cons2 d x y r : join d (x :: y :: r) = x ++ d ++ join d (y :: r).
Proof. reflexivity. Qed.

Lemma join_app d a b : a <> [] -> b <> [] -> join d (a ++ b) = join d a ++ d ++ join d b.
Proof.
  induction a as [|x a IH]; intros Ha Hb; [contradiction|].
  destruct a as [|y a].
  - destruct b as [|z b]; [contradiction|]. reflexivity.
  - change ((x :: y :: a) ++ b) with (x :: y :: (a ++ b)).
    rewrite !join_cons2. change (y :: a ++ b) with ((y :: a) ++ b).
    rewrite IH by (try discriminate; assumption). rewrite <- !app_assoc. reflexivity.
Qed.

Lemma split_join d l : l <> [] -> Forall (fun f => mem_N d f = false) l -> split d (join [d] l) = l.
Proof.
  induction l as [|x l IH]; intros NE F; [contradiction|].
  inversion F as [|? ? Fx Fl]; subst.
  destruct l as [|y l].
  - simpl. apply split_no_delim. exact Fx.
  - rewrite join_cons2. change ([d] ++ ?z) with (d :: z).
    rewrite split_app_delim by exact Fx. f_equal. apply IH; [discriminate|exact Fl].
Qed.

Lemma split_length_delim d s : mem_N d s = true -> (2 <= length (split d s))%nat.
Proof.
  intro H. apply mem_N_In in H. apply in_split in H as [a [b ->]].
  rewrite split_app, app_length.
  pose proof (split_nonempty d a). pose proof (split_nonempty d b).
  destruct (split d a); [contradiction|]. destruct (split d b); [contradiction|]. simpl. lia.
Qed.

Lemma mem_delim_app d a b : mem_N d (a ++ d :: b) = true.
Proof. rewrite mem_N_app. simpl. rewrite N.eqb_refl. apply orb_true_r. Qed.

(* ------------------------------------------------------------------ *)
(* slices and indexing                                                 *)

Lemma slice_to_app_neg {A} (a b : list A) k :
  (k < 0)%Z -> Z.to_nat (- k) = length b -> slice_to (a ++ b) k = a.
Proof.
  intros K L. unfold slice_to, norm_idx. apply Z.ltb_lt in K as K'. rewrite K'.
  rewrite app_length.
  replace (Z.to_nat (Z.of_nat (length a + length b) + k)) with (length a) by lia.
  rewrite firstn_app, firstn_all, Nat.sub_diag. simpl. apply app_nil_r.
Qed.

Lemma slice_from_app_neg {A} (a b : list A) k :
  (k < 0)%Z -> Z.to_nat (- k) = length b -> slice_from (a ++ b) k = b.
Proof.
  intros K L. unfold slice_from, norm_idx. apply Z.ltb_lt in K as K'. rewrite K'.
  rewrite app_length.
  replace (Z.to_nat (Z.of_nat (length a + length b) + k)) with (length a) by lia.
  rewrite skipn_app, skipn_all, Nat.sub_diag. reflexivity.
Qed.

Lemma get_idx_ok {A} (l : list A) i :
  (i < 0)%Z -> (Z.to_nat (- i) <= length l)%nat -> exists x, get_idx l i = Ok x.
Proof.
  intros I L. unfold get_idx, item_pos. apply Z.ltb_lt in I as I'. rewrite I'.
  destruct ((0 <=? i + Z.of_nat (length l))%Z && (i + Z.of_nat (length l) <? Z.of_nat (length l))%Z) eqn:E.
  - destruct (nth_error l (Z.to_nat (i + Z.of_nat (length l)))) eqn:N; [eexists; reflexivity|].
    apply nth_error_None in N. lia.
  - apply andb_false_iff in E as [E|E]; [apply Z.leb_gt in E|apply Z.ltb_ge in E]; lia.
Qed.

(* ------------------------------------------------------------------ *)
(* the generated constants the proofs rely on                          *)

Lemma consts_parse :
  min_levels = 6%Z /\ slice_prefix = (-5)%Z /\ slice_tail = (-5)%Z /\ ack_index = 3%Z /\ enc_trim = (-2)%Z.
Proof. repeat split; reflexivity. Qed.

Lemma pub_caught_all e : pub_caught e = true.
Proof. destruct e; reflexivity. Qed.
Lemma sub_caught_all e : sub_caught e = true.
Proof. destruct e; reflexivity. Qed.
Lemma send_parse_caught_value : send_parse_caught ValueError = true.
Proof. reflexivity. Qed.
Lemma sub_int_caught_value : sub_int_caught ValueError = true.
Proof. reflexivity. Qed.
Lemma sub_qos_index_val : sub_qos_index = (-2)%Z.
Proof. reflexivity. Qed.

(* ------------------------------------------------------------------ *)
(* publish direction                                                   *)

Lemma print_no_slash z : mem_N 47 (print z) = false.
Proof.
  pose proof (print_numchars z) as F. induction F as [|c l H _ IH]; [reflexivity|].
  simpl. rewrite IH. unfold numchars in H. simpl in H.
  repeat (destruct H as [<-|H]; [reflexivity|]). destruct H.
Qed.

Definition hdr_levels (m : msg) : list pstr :=
  [print (m_node m); print (m_child m); print (m_type m); print (m_ack m); print (m_sub m)].

Lemma topic_of_join m : topic_of m = slash :: join [slash] (hdr_levels m).
Proof. reflexivity. Qed.

Lemma hdr_levels_free m : Forall (fun f => mem_N slash f = false) (hdr_levels m).
Proof. unfold hdr_levels. repeat constructor; apply print_no_slash. Qed.

Lemma to_mqtt_decoded l m : decode l = Some m -> to_mqtt l = Ok (topic_of m, m_payload m, m_ack m).
Proof.
  intro D. unfold to_mqtt. rewrite D. do 3 f_equal.
  unfold encode_with. cbn [m_node m_child m_type m_ack m_sub m_payload].
  change [print (m_node m); print (m_child m); print (m_type m); print (m_ack m); print (m_sub m); []]
    with (hdr_levels m ++ [[]]).
  rewrite join_app by discriminate. cbn [join]. rewrite app_nil_r.
  rewrite topic_of_join.
  change (slash :: (join [slash] (hdr_levels m) ++ [slash]) ++ [nl])
    with ((slash :: join [slash] (hdr_levels m) ++ [slash]) ++ [nl]).
  rewrite app_comm_cons, <- app_assoc.
  apply slice_to_app_neg; reflexivity.
Qed.

Lemma to_mqtt_total l :
  (exists m, decode l = Some m /\ to_mqtt l = Ok (topic_of m, m_payload m, m_ack m)) \/
  (decode l = None /\ to_mqtt l = Raise ValueError).
Proof.
  destruct (decode l) as [m|] eqn:D.
  - left. exists m. split; [reflexivity|]. apply to_mqtt_decoded. exact D.
  - right. split; [reflexivity|]. unfold to_mqtt. rewrite D. reflexivity.
Qed.

(* ------------------------------------------------------------------ *)
(* receive direction                                                   *)

Lemma from_mqtt_accept pfx (ls : list pstr) p q :
  length ls = 5%nat -> Forall (fun f => mem_N slash f = false) ls ->
  from_mqtt pfx (pfx ++ slash :: join [slash] ls) p q
  = Ok (Some (join [semi] (replace_nth 3 ls (ack_str q) ++ [p]))).
Proof.
  intros L F. unfold from_mqtt. cbv zeta.
  rewrite split_app. rewrite split_join by first [exact F | destruct ls; [discriminate L|discriminate]].
  rewrite app_length, L.
  pose proof (split_nonempty slash pfx) as NE.
  destruct (Z.of_nat (length (split slash pfx) + 5) <? min_levels)%Z eqn:E.
  { apply Z.ltb_lt in E. unfold min_levels in E. destruct (split slash pfx); [contradiction|]. simpl length in E. lia. }
  rewrite slice_to_app_neg by (rewrite ?L; reflexivity).
  rewrite slice_from_app_neg by (rewrite ?L; reflexivity).
  rewrite join_split, pstr_eqb_refl. cbn [negb].
  unfold set_idx, item_pos. rewrite L. cbn [bind]. reflexivity.
Qed.

Lemma from_mqtt_some_inv pfx t p q line :
  from_mqtt pfx t p q = Ok (Some line) ->
  exists ls, length ls = 5%nat /\ Forall (fun f => mem_N slash f = false) ls /\
             t = pfx ++ slash :: join [slash] ls.
Proof.
  unfold from_mqtt. intro H.
  pose proof (split_fields_no_delim slash t) as FR.
  pose proof (join_split slash t) as JS.
  set (L := split slash t) in *.
  destruct (Z.of_nat (length L) <? min_levels)%Z eqn:E; [discriminate|].
  apply Z.ltb_ge in E. unfold min_levels in E.
  unfold slice_to, slice_from, norm_idx, slice_prefix, slice_tail in H.
  change (-5 <? 0)%Z with true in H.
  replace (Z.to_nat (Z.of_nat (length L) + -5)) with (length L - 5)%nat in H by lia.
  destruct (pstr_eqb (join [slash] (firstn (length L - 5) L)) pfx) eqn:P; [|discriminate].
  apply pstr_eqb_eq in P.
  exists (skipn (length L - 5) L). split; [rewrite skipn_length; lia|]. split.
  - rewrite <- (firstn_skipn (length L - 5) L) in FR. apply Forall_app in FR. tauto.
  - rewrite <- JS at 1. rewrite <- (firstn_skipn (length L - 5) L) at 1.
    rewrite join_app.
    + rewrite P. reflexivity.
    + intro Z0. apply (f_equal (@length pstr)) in Z0. rewrite firstn_length in Z0. simpl in Z0. lia.
    + intro Z0. apply (f_equal (@length pstr)) in Z0. rewrite skipn_length in Z0. simpl in Z0. lia.
Qed.

Lemma from_mqtt_total pfx t p q : exists o, from_mqtt pfx t p q = Ok o.
Proof.
  unfold from_mqtt.
  set (L := split slash t).
  destruct (Z.of_nat (length L) <? min_levels)%Z eqn:E; [eexists; reflexivity|].
  apply Z.ltb_ge in E. unfold min_levels in E.
  destruct (negb _); [eexists; reflexivity|].
  unfold set_idx, item_pos, slice_from, norm_idx, slice_tail, ack_index.
  change (-5 <? 0)%Z with true. rewrite skipn_length.
  replace (length L - Z.to_nat (Z.of_nat (length L) + -5))%nat with 5%nat by lia.
  cbn. eexists; reflexivity.
Qed.

(* explicit five-level form *)
Lemma five_levels (ls : list pstr) : length ls = 5%nat -> exists l1 l2 l3 l4 l5, ls = [l1; l2; l3; l4; l5].
Proof.
  destruct ls as [|l1 [|l2 [|l3 [|l4 [|l5 [|? ?]]]]]]; try discriminate. intros _.
  do 5 eexists; reflexivity.
Qed.

Lemma accept_iff pfx t p q :
  (exists line, from_mqtt pfx t p q = Ok (Some line)) <->
  (exists l1 l2 l3 l4 l5, level l1 /\ level l2 /\ level l3 /\ level l4 /\ level l5 /\
     t = pfx ++ s2p "/" ++ l1 ++ s2p "/" ++ l2 ++ s2p "/" ++ l3 ++ s2p "/" ++ l4 ++ s2p "/" ++ l5).
Proof.
  split.
  - intros [line H]. apply from_mqtt_some_inv in H as [ls [L [F ->]]].
    destruct (five_levels ls L) as [l1 [l2 [l3 [l4 [l5 ->]]]]].
    exists l1, l2, l3, l4, l5.
    inversion F as [|? ? F1 F']; subst. inversion F' as [|? ? F2 F'']; subst.
    inversion F'' as [|? ? F3 F3']; subst. inversion F3' as [|? ? F4 F4']; subst.
    inversion F4' as [|? ? F5 _]; subst.
    repeat (split; [assumption|]). reflexivity.
  - intros [l1 [l2 [l3 [l4 [l5 [F1 [F2 [F3 [F4 [F5 ->]]]]]]]]]].
    eexists.
    apply (from_mqtt_accept pfx [l1; l2; l3; l4; l5] p q); [reflexivity|].
    repeat constructor; assumption.
Qed.

Lemma accept_value pfx l1 l2 l3 l4 l5 p q :
  level l1 -> level l2 -> level l3 -> level l4 -> level l5 ->
  from_mqtt pfx (pfx ++ s2p "/" ++ l1 ++ s2p "/" ++ l2 ++ s2p "/" ++ l3 ++ s2p "/" ++ l4 ++ s2p "/" ++ l5) p q
  = Ok (Some (l1 ++ s2p ";" ++ l2 ++ s2p ";" ++ l3 ++ s2p ";" ++ ack_str q ++ s2p ";" ++ l5 ++ s2p ";" ++ p)).
Proof.
  intros F1 F2 F3 F4 F5.
  apply (from_mqtt_accept pfx [l1; l2; l3; l4; l5] p q); [reflexivity|].
  repeat constructor; assumption.
Qed.

(* round trip *)
Lemma roundtrip_any pfx l m p q :
  decode l = Some m ->
  to_mqtt l = Ok (topic_of m, m_payload m, m_ack m) /\
  from_mqtt pfx (pfx ++ topic_of m) p q = Ok (Some (line_of (delivered m q p))).
Proof.
  intro D. split; [apply to_mqtt_decoded; exact D|].
  rewrite topic_of_join.
  rewrite from_mqtt_accept by (try reflexivity; apply hdr_levels_free).
  unfold line_of, delivered, hdr_levels, ack_str. cbn [replace_nth app join m_node m_child m_type m_ack m_sub m_payload].
  destruct (0 <? q)%Z; reflexivity.
Qed.

Lemma delivered_same m : (m_ack m = 0 \/ m_ack m = 1)%Z -> delivered m (m_ack m) (m_payload m) = m.
Proof. destruct m as [a b c d e f]. simpl. intros [-> | ->]; reflexivity. Qed.

Lemma line_of_body m : line_of m = body_of m.
Proof. reflexivity. Qed.

Lemma roundtrip pfx l m :
  decode l = Some m -> (m_ack m = 0 \/ m_ack m = 1)%Z ->
  exists topic payload qos,
    to_mqtt l = Ok (topic, payload, qos) /\
    from_mqtt pfx (pfx ++ topic) payload qos = Ok (Some (line_of m)) /\
    ((0 < qos)%Z <-> m_ack m = 1%Z) /\
    (canonical l -> l = line_of m ++ [nl]).
Proof.
  intros D A. exists (topic_of m), (m_payload m), (m_ack m).
  destruct (roundtrip_any pfx l m (m_payload m) (m_ack m) D) as [T R].
  rewrite delivered_same in R by exact A.
  split; [exact T|]. split; [exact R|]. split; [lia|].
  intro C. destruct (encode_decode_canonical l m D) as [_ [_ E]].
  rewrite <- (E C). rewrite line_of_body. apply encode_body.
Qed.

(* ------------------------------------------------------------------ *)
(* callbacks                                                           *)

Lemma catch_all_ok caught r : (forall e, caught e = true) -> catch caught r = Ok tt.
Proof. intro H. destruct r as [[]|e]; simpl; [reflexivity|rewrite H; reflexivity]. Qed.

Lemma send_ok pub out_prefix retain message : exists r, send pub out_prefix retain message = Ok r.
Proof.
  unfold send. destruct message as [[|c d]|]; try (eexists; reflexivity).
  destruct (to_mqtt_total (c :: d)) as [[m [_ ->]]|[_ ->]].
  - rewrite (catch_all_ok _ _ pub_caught_all). eexists; reflexivity.
  - rewrite send_parse_caught_value. eexists; reflexivity.
Qed.

Section Sub.
  Variable sub : nat -> pstr -> Z -> res unit.

  Definition has_slash (pfx t : pstr) : Prop := mem_N slash (pfx ++ t) = true.

  Lemma qos_level_ok pfx t : has_slash pfx t ->
    exists z, match (do lv <- get_idx (split slash (pfx ++ t)) sub_qos_index; of_option ValueError (parse lv)) with
              | Ok z => Ok z
              | Raise e => if sub_int_caught e then Ok 0%Z else Raise e
              end = Ok z.
  Proof.
    intro H. apply split_length_delim in H.
    destruct (get_idx_ok (split slash (pfx ++ t)) sub_qos_index) as [x ->]; [reflexivity|exact H|].
    cbn [bind]. destruct (parse x); cbn [of_option]; [eexists; reflexivity|].
    rewrite sub_int_caught_value. eexists; reflexivity.
  Qed.

  Lemma hsub_ok pfx topics : Forall (has_slash pfx) topics ->
    forall k, exists l, handle_subscription sub pfx k topics = Ok l /\ map fst l = map (app pfx) topics.
  Proof.
    induction 1 as [|t r Ht _ IH]; intro k; [exists []; split; reflexivity|].
    cbn [handle_subscription].
    destruct (qos_level_ok pfx t Ht) as [z ->]. cbn [bind].
    rewrite (catch_all_ok _ _ sub_caught_all). cbn [bind].
    destruct (IH (S k)) as [l [-> M]]. cbn [bind].
    eexists. split; [reflexivity|]. simpl. rewrite M. reflexivity.
  Qed.

  Lemma hsub_topics pfx topics : forall k l,
    handle_subscription sub pfx k topics = Ok l -> map fst l = map (app pfx) topics.
  Proof.
    induction topics as [|t r IH]; intros k l H; cbn [handle_subscription] in H.
    - inversion H. reflexivity.
    - match type of H with bind ?x _ = _ => destruct x as [z|e]; [|discriminate] end. cbn [bind] in H.
      match type of H with bind ?x _ = _ => destruct x as [u|e]; [|discriminate] end. cbn [bind] in H.
      destruct (handle_subscription sub pfx (S k) r) as [l'|e] eqn:E; [|discriminate]. cbn [bind] in H.
      inversion H; subst. simpl. f_equal. eapply IH. exact E.
  Qed.

  (* rendered templates *)
  Lemma render_init_child n c t : render init_child_tmpl n c t = child_topic [] n c t.
  Proof. unfold init_child_tmpl, child_topic. cbn [render render_part]. rewrite app_nil_r. reflexivity. Qed.
  Lemma render_pres_child n c t : render pres_child_tmpl n c t = child_topic [] n c t.
  Proof. unfold pres_child_tmpl, child_topic. cbn [render render_part]. rewrite app_nil_r. reflexivity. Qed.
  Lemma render_init_node n c t : render init_node_tmpl n c t = stream_topic [] n.
  Proof.
    unfold init_node_tmpl, stream_topic. cbn [render render_part]. rewrite app_nil_r.
    change (print 4) with [52]. reflexivity.
  Qed.
  Lemma render_pres_node n c t : render pres_node_tmpl n c t = stream_topic [] n.
  Proof.
    unfold pres_node_tmpl, stream_topic. cbn [render render_part]. rewrite app_nil_r.
    change (print 4) with [52]. reflexivity.
  Qed.

  Lemma child_topic_pfx pfx n c t : pfx ++ child_topic [] n c t = child_topic pfx n c t.
  Proof. reflexivity. Qed.
  Lemma stream_topic_pfx pfx n : pfx ++ stream_topic [] n = stream_topic pfx n.
  Proof. reflexivity. Qed.

  Lemma child_topic_slash pfx n c t : has_slash pfx (child_topic [] n c t).
  Proof. unfold has_slash, child_topic. apply (mem_delim_app slash pfx). Qed.
  Lemma stream_topic_slash pfx n : has_slash pfx (stream_topic [] n).
  Proof. unfold has_slash, stream_topic. apply (mem_delim_app slash pfx). Qed.

  Lemma init_literals : init_topic_literals = [presentation_topic []; internal_topic []].
  Proof. reflexivity. Qed.
  Lemma init_types : init_child_types = [1; 2]%Z /\ pres_child_types = [1; 2]%Z.
  Proof. split; reflexivity. Qed.

  Definition restored_topics (st : net) : list pstr :=
    flat_map (fun nc => flat_map (fun c => child_topics init_child_tmpl init_child_types (fst nc) c) (snd nc)) st
    ++ map (fun nc => render init_node_tmpl (fst nc) 0 0) st.

  Lemma restored_topics_slash pfx st : Forall (has_slash pfx) (restored_topics st).
  Proof.
    apply Forall_forall. intros t H. unfold restored_topics in H. apply in_app_or in H as [H|H].
    - apply in_flat_map in H as [[n cs] [_ H]]. apply in_flat_map in H as [c [_ H]].
      unfold child_topics in H. apply in_map_iff in H as [ty [<- _]].
      rewrite render_init_child. apply child_topic_slash.
    - apply in_map_iff in H as [[n cs] [<- _]]. rewrite render_init_node. apply stream_topic_slash.
  Qed.

  Lemma restored_topics_cover st n c : has_child st n c ->
    In (child_topic [] n c 1) (restored_topics st) /\ In (child_topic [] n c 2) (restored_topics st) /\
    In (stream_topic [] n) (restored_topics st).
  Proof.
    intros [cs [Hn Hc]]. unfold restored_topics.
    assert (forall ty, In ty [1; 2]%Z -> In (child_topic [] n c ty)
              (flat_map (fun nc => flat_map (fun c => child_topics init_child_tmpl init_child_types (fst nc) c) (snd nc)) st)) as K.
    { intros ty Hty. apply in_flat_map. exists (n, cs). split; [exact Hn|].
      apply in_flat_map. exists c. split; [exact Hc|].
      unfold child_topics. apply in_map_iff. exists ty. split; [apply render_init_child|].
      destruct init_types as [-> _]. exact Hty. }
    split; [apply in_or_app; left; apply K; simpl; tauto|].
    split; [apply in_or_app; left; apply K; simpl; tauto|].
    apply in_or_app; right. apply in_map_iff. exists (n, cs). split; [apply render_init_node|exact Hn].
  Qed.

  Lemma init_literals_slash pfx : Forall (has_slash pfx) init_topic_literals.
  Proof.
    rewrite init_literals. repeat constructor; unfold has_slash, presentation_topic, internal_topic;
      apply (mem_delim_app slash pfx).
  Qed.

  Lemma map_app_pfx_in (pfx t : pstr) l : In t l -> In (pfx ++ t) (map (app pfx) l).
  Proof. intro H. apply in_map_iff. exists t. split; [reflexivity|exact H]. Qed.

  (* init_topics: always returns; what it subscribes *)
  Lemma init_topics_spec pfx pers st k :
    exists l, init_topics sub pfx pers st k = Ok l /\
      map fst l = map (app pfx) (init_topic_literals ++ (if pers then restored_topics st else [])).
  Proof.
    unfold init_topics.
    destruct (hsub_ok pfx _ (init_literals_slash pfx) k) as [s1 [-> M1]]. cbn [bind].
    destruct pers; cbn [negb].
    - destruct (hsub_ok pfx _ (restored_topics_slash pfx st) (k + length s1)) as [s2 [E2 M2]].
      unfold restored_topics in E2. rewrite E2. cbn [bind].
      eexists. split; [reflexivity|]. rewrite !map_app, M1, M2. reflexivity.
    - eexists. split; [reflexivity|]. rewrite app_nil_r. exact M1.
  Qed.

  (* network state facts *)
  Lemma has_child_add_sensor st n n' c : has_child (add_sensor st n) n' c <-> has_child st n' c.
  Proof.
    unfold add_sensor. destruct (has_node st n); [tauto|]. unfold has_child. split.
    - intros [cs [H1 H2]]. apply in_app_or in H1 as [H1|[H1|[]]]; [exists cs; tauto|].
      inversion H1; subst. destruct H2.
    - intros [cs [H1 H2]]. exists cs. split; [apply in_or_app; tauto|exact H2].
  Qed.

  Lemma mem_Z_In x l : mem_Z x l = true <-> In x l.
  Proof.
    induction l as [|y l IH]; simpl; [split; [discriminate|tauto]|].
    rewrite orb_true_iff, IH, Z.eqb_eq. split; intros [H|H]; auto.
  Qed.

  Lemma add_child_inv st n c st' : add_child st n c = Some st' ->
    has_child st' n c /\
    (forall n' c', has_child st' n' c' -> has_child st n' c' \/ (n' = n /\ c' = c)) /\
    (forall n' c', has_child st n' c' -> has_child st' n' c').
  Proof.
    revert st'. induction st as [|[n0 cs] st IH]; intros st' H; simpl in H; [discriminate|].
    destruct (Z.eqb n0 n) eqn:E.
    - apply Z.eqb_eq in E. subst n0. destruct (mem_Z c cs); [discriminate|]. inversion H; subst; clear H.
      split; [|split].
      + exists (cs ++ [c]). split; [left; reflexivity|apply in_or_app; right; left; reflexivity].
      + intros n' c' [cs' [[H1|H1] H2]].
        * injection H1 as <- <-. apply in_app_or in H2 as [H2|[H2|[]]].
          -- left. exists cs. split; [left; reflexivity|exact H2].
          -- right. split; [reflexivity|symmetry; exact H2].
        * left. exists cs'. split; [right; exact H1|exact H2].
      + intros n' c' [cs' [[H1|H1] H2]].
        * injection H1 as <- <-. exists (cs ++ [c]). split; [left; reflexivity|apply in_or_app; left; exact H2].
        * exists cs'. split; [right; exact H1|exact H2].
    - destruct (add_child st n c) as [st1|] eqn:A; [|discriminate]. inversion H; subst; clear H.
      destruct (IH st1 eq_refl) as [I1 [I2 I3]]. split; [|split].
      + destruct I1 as [cs' [H1 H2]]. exists cs'. split; [right; exact H1|exact H2].
      + intros n' c' [cs' [[H1|H1] H2]].
        * left. exists cs'. split; [left; exact H1|exact H2].
        * destruct (I2 n' c') as [[cs2 [K1 K2]]|K]; [exists cs'; tauto| |right; exact K].
          left. exists cs2. split; [right; exact K1|exact K2].
      + intros n' c' [cs' [[H1|H1] H2]].
        * exists cs'. split; [left; exact H1|exact H2].
        * destruct (I3 n' c') as [cs2 [K1 K2]]; [exists cs'; tauto|].
          exists cs2. split; [right; exact K1|exact K2].
  Qed.

  Lemma add_child_none st n c : add_child st n c = None -> has_node st n = true -> has_child st n c.
  Proof.
    unfold has_node. induction st as [|[n0 cs] st IH]; simpl; intros A H; [discriminate|].
    destruct (Z.eqb n0 n) eqn:E.
    - apply Z.eqb_eq in E; subst. destruct (mem_Z c cs) eqn:M; [|discriminate].
      exists cs. split; [left; reflexivity|apply mem_Z_In; exact M].
    - rewrite Z.eqb_sym, E in H. simpl in H. destruct (add_child st n c) eqn:A'; [discriminate|].
      destruct (IH eq_refl H) as [cs' [H1 H2]]. exists cs'. split; [right; exact H1|exact H2].
  Qed.

  Lemma subscribed_app subs more t : subscribed subs t -> subscribed (subs ++ more) t.
  Proof. unfold subscribed. rewrite map_app. intro H. apply in_or_app. left. exact H. Qed.
  Lemma covered_app pfx subs more n c : child_covered pfx subs n c -> child_covered pfx (subs ++ more) n c.
  Proof. intros [A [B C]]. repeat split; apply subscribed_app; assumption. Qed.

  (* _handle_presentation: always returns; state and subscriptions *)
  Lemma presentation_spec pfx st k n c :
    exists st' l, mqtt_handle_presentation sub pfx st k n c = Ok (st', l) /\
      (forall n' c', has_child st n' c' -> has_child st' n' c') /\
      (forall n' c', has_child st' n' c' -> has_child st n' c' \/ child_covered pfx l n' c') /\
      (has_node st n = true -> c <> system_child_id -> has_child st' n c).
  Proof.
    unfold mqtt_handle_presentation, handle_presentation.
    destruct (Z.eqb c system_child_id) eqn:E.
    - apply Z.eqb_eq in E. subst c. change (Z.eqb system_child_id pres_skip_child) with true. cbn [orb].
      exists (add_sensor st n), []. split; [reflexivity|]. split; [|split].
      + intros n' c' H. apply (proj2 (has_child_add_sensor st n n' c')). exact H.
      + intros n' c' H. left. apply (proj1 (has_child_add_sensor st n n' c')). exact H.
      + intros _ H. contradiction H. reflexivity.
    - change pres_skip_child with system_child_id. rewrite E. cbn [orb].
      destruct (add_child st n c) as [st'|] eqn:A; cbn [negb].
      + destruct (add_child_inv st n c st' A) as [I1 [I2 I3]].
        set (topics := child_topics pres_child_tmpl pres_child_types n c ++ [render pres_node_tmpl n c 0]).
        assert (Forall (has_slash pfx) topics) as FS.
        { unfold topics, child_topics. destruct init_types as [_ ->]. cbn [map app].
          rewrite !render_pres_child, render_pres_node.
          repeat constructor; try apply child_topic_slash; apply stream_topic_slash. }
        destruct (hsub_ok pfx topics FS k) as [l [-> M]]. cbn [bind].
        exists st', l. split; [reflexivity|]. split; [exact I3|]. split; [|intros _ _; exact I1].
        intros n' c' H. destruct (I2 n' c' H) as [K|[-> ->]]; [left; exact K|right].
        unfold child_covered, subscribed. rewrite M.
        unfold topics, child_topics. destruct init_types as [_ ->]. cbn [map app].
        rewrite !render_pres_child, render_pres_node, !child_topic_pfx, stream_topic_pfx.
        simpl. tauto.
      + exists st, []. split; [reflexivity|]. split; [tauto|]. split; [tauto|].
        intros HN _. apply add_child_none; assumption.
  Qed.
End Sub.

(* ------------------------------------------------------------------ *)
(* histories                                                           *)

Section Hist.
  Variable sub : nat -> pstr -> Z -> res unit.

  Lemma subscribed_app_r subs more t : subscribed more t -> subscribed (subs ++ more) t.
  Proof. unfold subscribed. rewrite map_app. intro H. apply in_or_app. right. exact H. Qed.
  Lemma covered_app_r pfx subs more n c : child_covered pfx more n c -> child_covered pfx (subs ++ more) n c.
  Proof. intros [A [B C]]. repeat split; apply subscribed_app_r; assumption. Qed.

  Definition step_rel (pfx : pstr) (s s' : mstate) : Prop :=
    (exists more, ms_subs s' = ms_subs s ++ more) /\
    (forall n c, has_child (ms_net s) n c -> has_child (ms_net s') n c) /\
    (forall n c, has_child (ms_net s') n c -> has_child (ms_net s) n c \/ child_covered pfx (ms_subs s') n c).

  Lemma step_spec pfx s o : exists s', step sub pfx s o = Ok s' /\ step_rel pfx s s'.
  Proof.
    destruct o as [n|n c]; cbn [step].
    - eexists. split; [reflexivity|]. unfold step_rel. cbn [ms_net ms_subs]. split; [|split].
      + exists []. symmetry. apply app_nil_r.
      + intros n' c' H. apply (proj2 (has_child_add_sensor (ms_net s) n n' c')). exact H.
      + intros n' c' H. left. apply (proj1 (has_child_add_sensor (ms_net s) n n' c')). exact H.
    - destruct (presentation_spec sub pfx (ms_net s) (length (ms_subs s)) n c) as [st' [l [-> [P1 [P2 _]]]]].
      cbn [bind fst snd]. eexists. split; [reflexivity|]. unfold step_rel. cbn [ms_net ms_subs].
      split; [exists l; reflexivity|]. split; [exact P1|].
      intros n' c' H. destruct (P2 n' c' H) as [K|K]; [left; exact K|right; apply covered_app_r; exact K].
  Qed.

  Lemma run_ops_spec pfx ops : forall s, exists s', run_ops sub pfx s ops = Ok s' /\ step_rel pfx s s'.
  Proof.
    induction ops as [|o ops IH]; intro s; cbn [run_ops].
    - exists s. split; [reflexivity|]. unfold step_rel. split; [exists []; symmetry; apply app_nil_r|].
      split; [tauto|]. intros n c H. left. exact H.
    - destruct (step_spec pfx s o) as [s1 [-> [[m1 M1] [A1 B1]]]]. cbn [bind].
      destruct (IH s1) as [s2 [-> [[m2 M2] [A2 B2]]]].
      exists s2. split; [reflexivity|]. unfold step_rel. split; [|split].
      + exists (m1 ++ m2). rewrite M2, M1, app_assoc. reflexivity.
      + intros n c H. apply A2, A1, H.
      + intros n c H. destruct (B2 n c H) as [K|K]; [|right; exact K].
        destruct (B1 n c K) as [K1|K1]; [left; exact K1|right]. rewrite M2. apply covered_app. exact K1.
  Qed.

  Lemma start_ok pfx pers st0 ops : exists s, start sub pfx pers st0 ops = Ok s.
  Proof.
    unfold start. destruct (init_topics_spec sub pfx pers st0 0) as [l [-> _]]. cbn [bind].
    destruct (run_ops_spec pfx ops (mkM st0 l)) as [s [-> _]]. eexists; reflexivity.
  Qed.

  Lemma start_cover pfx pers st0 ops s : start sub pfx pers st0 ops = Ok s ->
    subscribed (ms_subs s) (presentation_topic pfx) /\
    subscribed (ms_subs s) (internal_topic pfx) /\
    (forall n c, has_child st0 n c -> has_child (ms_net s) n c) /\
    (forall n c, has_child (ms_net s) n c ->
       (pers = false /\ has_child st0 n c) \/ child_covered pfx (ms_subs s) n c).
  Proof.
    unfold start. destruct (init_topics_spec sub pfx pers st0 0) as [l [-> M]]. cbn [bind].
    destruct (run_ops_spec pfx ops (mkM st0 l)) as [s' [-> [[more E] [A B]]]]. intro H. inversion H; subst s'; clear H.
    cbn [ms_net ms_subs] in *.
    assert (forall t, In t (init_topic_literals ++ (if pers then restored_topics st0 else [])) ->
                      subscribed (ms_subs s) (pfx ++ t)) as S.
    { intros t Ht. rewrite E. apply subscribed_app. unfold subscribed. rewrite M. apply map_app_pfx_in. exact Ht. }
    split; [apply (S (presentation_topic [])); apply in_or_app; left; rewrite init_literals; simpl; tauto|].
    split; [apply (S (internal_topic [])); apply in_or_app; left; rewrite init_literals; simpl; tauto|].
    split; [exact A|].
    intros n c H. destruct (B n c H) as [K|K]; [|right; exact K].
    destruct pers; [right|left; split; [reflexivity|exact K]].
    destruct (restored_topics_cover st0 n c K) as [R1 [R2 R3]].
    repeat split.
    - apply (S (child_topic [] n c 1)). apply in_or_app. right. exact R1.
    - apply (S (child_topic [] n c 2)). apply in_or_app. right. exact R2.
    - apply (S (stream_topic [] n)). apply in_or_app. right. exact R3.
  Qed.

  Lemma init_no_persistence pfx st k l : init_topics sub pfx false st k = Ok l ->
    map fst l = [presentation_topic pfx; internal_topic pfx].
  Proof.
    destruct (init_topics_spec sub pfx false st k) as [l' [-> M]]. intro H. inversion H; subst l'; clear H.
    rewrite M, app_nil_r, init_literals. reflexivity.
  Qed.

  Lemma present_known pfx s n c : has_node (ms_net s) n = true -> c <> system_child_id ->
    exists s', step sub pfx s (Present n c) = Ok s' /\ has_child (ms_net s') n c /\
               (has_child (ms_net s) n c \/ child_covered pfx (ms_subs s') n c).
  Proof.
    intros HN HC. cbn [step].
    destruct (presentation_spec sub pfx (ms_net s) (length (ms_subs s)) n c) as [st' [l [-> [P1 [P2 P3]]]]].
    cbn [bind fst snd]. eexists. split; [reflexivity|]. cbn [ms_net ms_subs]. split; [exact (P3 HN HC)|].
    destruct (P2 n c (P3 HN HC)) as [K|K]; [left; exact K|right; apply covered_app_r; exact K].
  Qed.
End Hist.

Lemma cover_pers sub pfx st0 ops s : start sub pfx true st0 ops = Ok s ->
  subscribed (ms_subs s) (presentation_topic pfx) /\
  subscribed (ms_subs s) (internal_topic pfx) /\
  (forall n c, has_child st0 n c -> has_child (ms_net s) n c) /\
  (forall n c, has_child (ms_net s) n c -> child_covered pfx (ms_subs s) n c).
Proof.
  intro H. destruct (start_cover sub pfx true st0 ops s H) as [A [B [C D]]].
  repeat (split; [assumption|]). intros n c K. destruct (D n c K) as [[E _]|E]; [discriminate|exact E].
Qed.

Lemma cover_nopers sub pfx st0 ops s : start sub pfx false st0 ops = Ok s ->
  subscribed (ms_subs s) (presentation_topic pfx) /\
  subscribed (ms_subs s) (internal_topic pfx) /\
  (forall n c, has_child st0 n c -> has_child (ms_net s) n c) /\
  (forall n c, has_child (ms_net s) n c -> has_child st0 n c \/ child_covered pfx (ms_subs s) n c).
Proof.
  intro H. destruct (start_cover sub pfx false st0 ops s H) as [A [B [C D]]].
  repeat (split; [assumption|]). intros n c K. destruct (D n c K) as [[_ E]|E]; [left|right]; exact E.
Qed.

Lemma hsub_ok_slash sub (pfx : pstr) k topics :
  Forall (fun t => mem_N 47 (pfx ++ t) = true) topics ->
  exists l, handle_subscription sub pfx k topics = Ok l /\ map fst l = map (app pfx) topics.
Proof. intro F. apply hsub_ok. exact F. Qed.

(* the property's wording: every canonical command *)
Lemma roundtrip_canonical pfx m :
  wire_ok (m_payload m) = true -> (m_ack m = 0 \/ m_ack m = 1)%Z ->
  encode m = line_of m ++ [nl] /\
  to_mqtt (encode m) = Ok (topic_of m, m_payload m, m_ack m) /\
  from_mqtt pfx (pfx ++ topic_of m) (m_payload m) (m_ack m) = Ok (Some (line_of m)) /\
  ((0 < m_ack m)%Z <-> m_ack m = 1%Z).
Proof.
  intros W A. pose proof (decode_encode m W) as D.
  destruct (roundtrip_any pfx (encode m) m (m_payload m) (m_ack m) D) as [T R].
  rewrite delivered_same in R by exact A.
  split; [rewrite line_of_body; apply encode_body|]. split; [exact T|]. split; [exact R|lia].
Qed.
