(* Round trip of the Intel-HEX model: loading the text our encoder writes for a
   contiguous image at address 0 gives back the image. *)
From Coq Require Import List NArith ZArith Bool Lia ZifyBool FMapPositive.
From PMS Require Import Base.PyStr Base.Exn Model.Hex Model.IntelHex Proofs.HexProofs Proofs.OtaProofs.
Import ListNotations.
Open Scope N_scope.

(* ---------------------------------------------------------------- text layer *)

Definition eol_free (l : pstr) : bool := forallb (fun c => negb (is_eol c)) l.

Lemma split_eol_cons : forall c s,
  split_eol (c :: s) =
  if is_eol c then [] :: split_eol s
  else match split_eol s with h :: t => (c :: h) :: t | [] => [[c]] end.
Proof. reflexivity. Qed.

Lemma split_eol_line : forall l rest, eol_free l = true ->
  split_eol (l ++ 10 :: rest) = l :: split_eol rest.
Proof.
  induction l as [|c l IH]; intros rest H.
  - rewrite app_nil_l, split_eol_cons. reflexivity.
  - unfold eol_free in H. cbn [forallb] in H. apply andb_true_iff in H. destruct H as [Hc Hl].
    rewrite <- app_comm_cons, split_eol_cons.
    destruct (is_eol c); [discriminate|].
    rewrite (IH rest Hl). reflexivity.
Qed.

Lemma hexdigit_not_eol : forall u d, is_eol (hexdigit u d) = false.
Proof.
  intros u d. unfold is_eol, hexdigit.
  destruct (d <? 10) eqn:E; destruct u; lia.
Qed.

Lemma hexlify_gen_eol_free : forall u b, eol_free (hexlify_gen u b) = true.
Proof.
  intros u b. induction b as [|x b IH]; [reflexivity|].
  rewrite hexlify_gen_cons. unfold eol_free in *. cbn [forallb].
  rewrite !hexdigit_not_eol, IH. reflexivity.
Qed.

Lemma print_record_eol_free : forall u r, eol_free (print_record u r) = true.
Proof.
  intros u r. unfold print_record, eol_free. cbn [forallb].
  change (forallb (fun c => negb (is_eol c)) (hexlify_gen u (record_bytes r)))
    with (eol_free (hexlify_gen u (record_bytes r))).
  rewrite hexlify_gen_eol_free. reflexivity.
Qed.

Lemma ihex_lines_print : forall u rs, ihex_lines (ihex_print u rs) = map (print_record u) rs.
Proof.
  intros u rs. unfold ihex_lines, ihex_print. induction rs as [|r rs IH]; [reflexivity|].
  cbn [map concat]. rewrite <- app_assoc. cbn [app].
  rewrite (split_eol_line _ _ (print_record_eol_free u r)).
  cbn [filter]. unfold print_record at 1. cbn [nonempty]. rewrite IH. reflexivity.
Qed.

(* ---------------------------------------------------------------- one record *)

Definition rec_ok (r : ihrec) : Prop :=
  r_addr r < 65536 /\ r_type r <= 5 /\ bytes_ok (r_data r) = true /\ (List.length (r_data r) <= 255)%nat.

Lemma fold_add_acc : forall b a, fold_left N.add b a = a + fold_left N.add b 0.
Proof.
  induction b as [|x b IH]; intros a; cbn [fold_left]; [lia|].
  rewrite (IH (a + x)), (IH (0 + x)). lia.
Qed.

Lemma sum_bytes_app : forall a b, sum_bytes (a ++ b) = sum_bytes a + sum_bytes b.
Proof.
  intros a b. unfold sum_bytes. rewrite fold_left_app. apply fold_add_acc.
Qed.

Lemma checksum_zero : forall b, sum_bytes (b ++ [checksum b]) mod 256 = 0.
Proof.
  intros b. rewrite sum_bytes_app. unfold checksum.
  replace (sum_bytes [(256 - sum_bytes b mod 256) mod 256]) with ((256 - sum_bytes b mod 256) mod 256)
    by reflexivity.
  set (sm := sum_bytes b). clearbody sm.
  pose proof (N.div_mod sm 256 ltac:(lia)) as D.
  pose proof (N.mod_lt sm 256 ltac:(lia)) as L.
  remember (sm mod 256) as m eqn:Em. remember (sm / 256) as q eqn:Eq.
  destruct (N.eq_dec m 0) as [E|E].
  - rewrite E. change ((256 - 0) mod 256) with 0. rewrite N.add_0_r. congruence.
  - rewrite (N.mod_small (256 - m)) by lia.
    replace (sm + (256 - m)) with ((q + 1) * 256) by lia.
    apply N.mod_mul. lia.
Qed.

Lemma checksum_byte : forall b, checksum b < 256.
Proof. intros b. unfold checksum. apply N.mod_lt. lia. Qed.

Lemma firstn_app_exact : forall {A} (l r : list A), firstn (List.length l) (l ++ r) = l.
Proof.
  intros A l r. induction l as [|x l IH]; [destruct r; reflexivity|].
  cbn [List.length app firstn]. rewrite IH. reflexivity.
Qed.

Lemma decode_record_colon : forall rest,
  decode_record (58 :: rest) =
  match unhexlify rest with
  | Ok bin =>
      match bin with
      | len :: ah :: al :: ty :: tail =>
          if N.of_nat (List.length bin) <? 5 then None
          else if negb (N.of_nat (List.length bin) =? 5 + len) then None
          else if negb (ty <=? 5) then None
          else if negb (sum_bytes bin mod 256 =? 0) then None
          else Some (mkRec (ah * 256 + al) ty (firstn (N.to_nat len) tail))
      | _ => None
      end
  | Raise _ => None
  end.
Proof. reflexivity. Qed.

Lemma decode_print : forall u r, rec_ok r -> decode_record (print_record u r) = Some r.
Proof.
  intros u [addr ty data] (Ha & Ht & Hd & Hl). cbn [r_addr r_type r_data] in *.
  unfold print_record. rewrite decode_record_colon.
  set (len := N.of_nat (List.length data)).
  set (ah := addr / 256). set (al := addr mod 256).
  set (body := len :: ah :: al :: ty :: data).
  assert (RB : record_bytes (mkRec addr ty data) = len :: ah :: al :: ty :: (data ++ [checksum body])) by reflexivity.
  assert (Hah : ah < 256) by (apply N.div_lt_upper_bound; lia).
  assert (Hal : al < 256) by (apply N.mod_lt; lia).
  assert (Hlen : len < 256) by (unfold len; lia).
  assert (Hok : bytes_ok (record_bytes (mkRec addr ty data)) = true).
  { rewrite RB. apply bytes_ok_cons; split; [assumption|].
    apply bytes_ok_cons; split; [assumption|].
    apply bytes_ok_cons; split; [assumption|].
    apply bytes_ok_cons; split; [lia|].
    rewrite bytes_ok_app, Hd. apply bytes_ok_cons. split; [apply checksum_byte|reflexivity]. }
  rewrite (unhexlify_hexlify_gen u _ Hok), RB.
  assert (L : N.of_nat (List.length (len :: ah :: al :: ty :: data ++ [checksum body])) = 5 + len).
  { cbn [List.length]. rewrite app_length. cbn [List.length]. unfold len. lia. }
  rewrite L.
  destruct (5 + len <? 5) eqn:E1; [lia|].
  rewrite N.eqb_refl. cbn [negb].
  destruct (ty <=? 5) eqn:E3; [|lia]. cbn [negb].
  assert (CS : sum_bytes (len :: ah :: al :: ty :: data ++ [checksum body]) mod 256 = 0).
  { change (len :: ah :: al :: ty :: data ++ [checksum body]) with (body ++ [checksum body]).
    apply checksum_zero. }
  rewrite CS. cbn [N.eqb negb].
  unfold len at 1. rewrite Nat2N.id, firstn_app_exact.
  f_equal. f_equal. unfold ah, al.
  pose proof (N.div_mod addr 256 ltac:(lia)). lia.
Qed.

(* ---------------------------------------------------------------- loader on records *)

Fixpoint load_recs (s : ihstate) (rs : list ihrec) : option ihstate :=
  match rs with
  | [] => Some s
  | rc :: r =>
      match apply_record s rc with
      | IhCont s' => load_recs s' r
      | IhEof s' => Some s'
      | IhErr => None
      end
  end.

Lemma load_lines_print : forall u rs s, Forall rec_ok rs ->
  load_lines s (map (print_record u) rs) = load_recs s rs.
Proof.
  intros u rs. induction rs as [|r rs IH]; intros s H; [reflexivity|].
  inversion H as [|x y Hr Hrs]; subst.
  cbn [map load_lines load_recs]. rewrite (decode_print u r Hr).
  destruct (apply_record s r); [apply IH; assumption|reflexivity|reflexivity].
Qed.

(* ---------------------------------------------------------------- buffer invariant *)

Definition span_of (P : list N) : option (N * N) :=
  match P with [] => None | _ => Some (0, N.of_nat (List.length P) - 1) end.

Definition holds (buf : PositiveMap.t N) (sp : option (N * N)) (P : list N) : Prop :=
  (forall a, ih_get buf a = nth_error P (N.to_nat a)) /\ sp = span_of P.

Lemma succ_pos_inj : forall a b, N.succ_pos a = N.succ_pos b -> a = b.
Proof.
  intros a b H. pose proof (N.succ_pos_spec a) as A. pose proof (N.succ_pos_spec b) as B.
  rewrite H in A. lia.
Qed.

Lemma ih_get_put_same : forall buf a x, ih_get (ih_put buf a x) a = Some x.
Proof. intros. unfold ih_get, ih_put. apply PositiveMap.gss. Qed.

Lemma ih_get_put_other : forall buf a b x, a <> b -> ih_get (ih_put buf b x) a = ih_get buf a.
Proof.
  intros buf a b x H. unfold ih_get, ih_put. apply PositiveMap.gso.
  intros E. apply H. apply succ_pos_inj. assumption.
Qed.

Lemma holds_snoc : forall buf sp P x, holds buf sp P ->
  holds (ih_put buf (N.of_nat (List.length P)) x) (span_add sp (N.of_nat (List.length P))) (P ++ [x]).
Proof.
  intros buf sp P x [Hg Hs]. split.
  - intros a. destruct (N.eq_dec a (N.of_nat (List.length P))) as [->|Ha].
    + rewrite ih_get_put_same, Nat2N.id, nth_error_app2 by lia.
      rewrite Nat.sub_diag. reflexivity.
    + rewrite ih_get_put_other by assumption. rewrite Hg.
      destruct (Nat.lt_ge_cases (N.to_nat a) (List.length P)) as [Lt|Ge].
      * rewrite nth_error_app1 by assumption. reflexivity.
      * assert (E1 : nth_error P (N.to_nat a) = None) by (apply nth_error_None; lia).
        assert (E2 : nth_error (P ++ [x]) (N.to_nat a) = None).
        { apply nth_error_None. rewrite app_length. cbn [List.length]. lia. }
        rewrite E1, E2. reflexivity.
  - subst sp. destruct P as [|y P].
    + reflexivity.
    + unfold span_of, span_add. cbn [app].
      assert (L1 : N.of_nat (List.length (y :: P ++ [x])) = N.of_nat (List.length (y :: P)) + 1).
      { cbn [List.length]. rewrite app_length. cbn [List.length]. lia. }
      rewrite L1. generalize (N.of_nat (List.length (y :: P))). intros k.
      f_equal. f_equal; lia.
Qed.

Lemma store_bytes_holds : forall d P buf sp, holds buf sp P ->
  exists buf' sp', store_bytes buf sp (N.of_nat (List.length P)) d = Some (buf', sp') /\ holds buf' sp' (P ++ d).
Proof.
  induction d as [|x d IH]; intros P buf sp H.
  - exists buf, sp. rewrite app_nil_r. split; [reflexivity|assumption].
  - cbn [store_bytes].
    assert (E : ih_get buf (N.of_nat (List.length P)) = None).
    { rewrite (proj1 H), Nat2N.id. apply nth_error_None. lia. }
    rewrite E.
    destruct (IH (P ++ [x]) _ _ (holds_snoc buf sp P x H)) as (buf' & sp' & S & Hh).
    exists buf', sp'. rewrite <- app_assoc in Hh. cbn [app] in Hh. split; [|assumption].
    rewrite <- S. f_equal. rewrite app_length. cbn [List.length]. lia.
Qed.

Lemma map_nth_error_seq : forall (P : list N),
  map (fun i => match nth_error P i with Some x => x | None => 255 end) (seq 0 (List.length P)) = P.
Proof.
  induction P as [|x P IH]; [reflexivity|].
  cbn [List.length]. rewrite <- cons_seq, <- seq_shift, map_cons, map_map.
  cbn [nth_error]. f_equal. exact IH.
Qed.

Lemma map_nrange : forall {A} (f : N -> A) n a,
  map f (nrange a n) = map (fun i => f (a + N.of_nat i)) (seq 0 n).
Proof.
  intros A f n. induction n as [|n IH]; intros a; [reflexivity|].
  cbn [nrange]. rewrite <- cons_seq, <- seq_shift, !map_cons, map_map, IH.
  f_equal; [f_equal; lia|]. apply map_ext. intros i. f_equal. lia.
Qed.

Lemma tobin_holds : forall s P, holds (ih_buf s) (ih_span s) P -> ih_tobin s = P.
Proof.
  intros s P [Hg Hs]. unfold ih_tobin. rewrite Hs.
  destruct P as [|y P]; [reflexivity|]. unfold span_of.
  set (Q := y :: P) in *.
  replace (N.to_nat (N.of_nat (List.length Q) - 1 - 0 + 1)) with (List.length Q)
    by (unfold Q; cbn [List.length]; lia).
  rewrite map_nrange. rewrite <- (map_nth_error_seq Q) at 2.
  apply map_ext. intros i. rewrite Hg. rewrite N.add_0_l, Nat2N.id. reflexivity.
Qed.

(* ---------------------------------------------------------------- the data records *)

Definition Inv (s : ihstate) (P : list N) (u : N) : Prop :=
  holds (ih_buf s) (ih_span s) P /\ ih_offset s = u * 65536.

Lemma data_records_nil : forall fuel n off u, data_records fuel n off u [] = [].
Proof. intros [|f]; reflexivity. Qed.

Lemma data_records_cons : forall f n off u x l,
  data_records (S f) n off u (x :: l) =
  (if off / 65536 =? u then [] else [mkRec 0 4 [off / 65536 / 256; (off / 65536) mod 256]])
  ++ mkRec (off mod 65536) 0 (firstn n (x :: l))
  :: data_records f n (off + N.of_nat n) (off / 65536) (skipn n (x :: l)).
Proof. reflexivity. Qed.

Lemma apply_ext_record : forall s u, u < 65536 ->
  apply_record s (mkRec 0 4 [u / 256; u mod 256]) =
  IhCont (mkIh (u * 65536) (ih_buf s) (ih_span s) (ih_start s)).
Proof.
  intros s u H. unfold apply_record. cbn [r_type r_data r_addr List.length be16].
  change (N.of_nat 2 =? 2) with true. change (0 =? 0) with true. cbn [negb orb].
  pose proof (N.div_mod u 256 ltac:(lia)) as D.
  replace (u / 256 * 256 + u mod 256) with u by lia. reflexivity.
Qed.

Lemma apply_data_record : forall s P u d,
  Inv s P u -> u = N.of_nat (List.length P) / 65536 ->
  exists s', apply_record s (mkRec (N.of_nat (List.length P) mod 65536) 0 d) = IhCont s' /\ Inv s' (P ++ d) u.
Proof.
  intros s P u d [Hh Ho] Hu. unfold apply_record. cbn [r_type r_data r_addr].
  rewrite Ho.
  pose proof (N.div_mod (N.of_nat (List.length P)) 65536 ltac:(lia)) as D.
  replace (N.of_nat (List.length P) mod 65536 + u * 65536) with (N.of_nat (List.length P)) by lia.
  destruct (store_bytes_holds d P _ _ Hh) as (buf' & sp' & S & Hh').
  rewrite S. eexists. split; [reflexivity|]. split; [exact Hh'|reflexivity].
Qed.

Lemma load_recs_app_cont : forall pre s s' rest,
  (forall t, load_recs s (pre ++ t) = load_recs s' t) ->
  load_recs s (pre ++ rest) = load_recs s' rest.
Proof. intros. auto. Qed.

Lemma load_data_records : forall fuel n l P u s tail,
  (1 <= n)%nat -> (List.length l <= fuel)%nat ->
  N.of_nat (List.length P) + N.of_nat (List.length l) <= 4294967296 ->
  Inv s P u ->
  exists s' u', Inv s' (P ++ l) u' /\
    load_recs s (data_records fuel n (N.of_nat (List.length P)) u l ++ tail) = load_recs s' tail.
Proof.
  induction fuel as [|f IH]; intros n l P u s tail Hn Hf Hsz HI.
  - destruct l; [|cbn [List.length] in Hf; lia].
    exists s, u. rewrite app_nil_r. split; [assumption|reflexivity].
  - destruct l as [|x l0].
    { exists s, u. rewrite app_nil_r. split; [assumption|reflexivity]. }
    rewrite data_records_cons.
    set (l := x :: l0) in *.
    set (off := N.of_nat (List.length P)) in *.
    assert (Hoff : off < 4294967296) by (unfold l in Hsz; cbn [List.length] in Hsz; lia).
    assert (Hu1 : off / 65536 < 65536) by (apply N.div_lt_upper_bound; lia).
    (* state after the optional extended address record *)
    assert (Pre : exists s1, Inv s1 P (off / 65536) /\
              forall t, load_recs s ((if off / 65536 =? u then [] else [mkRec 0 4 [off / 65536 / 256; (off / 65536) mod 256]]) ++ t)
                        = load_recs s1 t).
    { destruct (off / 65536 =? u) eqn:E.
      - apply N.eqb_eq in E. exists s. rewrite E. split; [assumption|reflexivity].
      - eexists. split.
        2:{ intros t. cbn [app load_recs]. rewrite (apply_ext_record s _ Hu1). reflexivity. }
        destruct HI as [Hh Ho]. split; [exact Hh|reflexivity]. }
    destruct Pre as (s1 & HI1 & Hpre).
    rewrite <- app_assoc, Hpre. cbn [app load_recs].
    destruct (apply_data_record s1 P (off / 65536) (firstn n l) HI1 eq_refl) as (s2 & A & HI2).
    fold off in A. rewrite A.
    destruct (Nat.le_gt_cases n (List.length l)) as [Le|Gt].
    + assert (Lc : List.length (firstn n l) = n) by (rewrite firstn_length; lia).
      assert (Eo : off + N.of_nat n = N.of_nat (List.length (P ++ firstn n l))).
      { rewrite app_length, Lc. unfold off. lia. }
      rewrite Eo.
      destruct (IH n (skipn n l) (P ++ firstn n l) (off / 65536) s2 tail Hn) as (s' & u' & HI' & L).
      * rewrite skipn_length. unfold l in *. cbn [List.length] in *. lia.
      * rewrite app_length, Lc, skipn_length. unfold off in *. lia.
      * exact HI2.
      * exists s', u'. rewrite <- app_assoc, firstn_skipn in HI'. split; [exact HI'|exact L].
    + rewrite skipn_all2 by lia. rewrite data_records_nil. cbn [app].
      rewrite firstn_all2 in HI2 by lia.
      exists s2, (off / 65536). split; [exact HI2|reflexivity].
Qed.

Lemma data_records_ok : forall fuel n l off u,
  (n <= 255)%nat -> bytes_ok l = true ->
  off + N.of_nat (List.length l) <= 4294967296 ->
  Forall rec_ok (data_records fuel n off u l).
Proof.
  induction fuel as [|f IH]; intros n l off u Hn Hb Hsz; [constructor|].
  destruct l as [|x l0]; [constructor|].
  rewrite data_records_cons.
  set (l := x :: l0) in *.
  assert (Hoff : off < 4294967296) by (unfold l in Hsz; cbn [List.length] in Hsz; lia).
  assert (Hu1 : off / 65536 < 65536) by (apply N.div_lt_upper_bound; lia).
  apply Forall_app. split.
  - destruct (off / 65536 =? u); constructor; [|constructor].
    unfold rec_ok. cbn [r_addr r_type r_data List.length].
    split; [lia|]. split; [lia|]. split; [|lia].
    apply bytes_ok_cons. split; [apply N.div_lt_upper_bound; lia|].
    apply bytes_ok_cons. split; [apply N.mod_lt; lia|reflexivity].
  - constructor.
    + unfold rec_ok. cbn [r_addr r_type r_data].
      split; [apply N.mod_lt; lia|]. split; [lia|].
      split; [apply bytes_ok_firstn; assumption|].
      rewrite firstn_length. lia.
    + destruct (Nat.le_gt_cases n (List.length l)) as [Le|Gt].
      * apply IH; [assumption|apply bytes_ok_skipn; assumption|].
        rewrite skipn_length. lia.
      * rewrite skipn_all2 by lia. rewrite data_records_nil. constructor.
Qed.

Lemma holds_empty : holds (PositiveMap.empty N) None [].
Proof.
  split; [|reflexivity]. intros a. unfold ih_get. rewrite PositiveMap.gempty.
  destruct (N.to_nat a); reflexivity.
Qed.

(* load_fw(our_encoder(img)) = img for every byte string below 4 GiB, every
   record length 1..255, upper- or lower-case digits *)
Lemma ihex_roundtrip : forall u n img,
  (1 <= n <= 255)%nat -> bytes_ok img = true ->
  N.of_nat (List.length img) <= 4294967296 ->
  ihex_load (ihex_encode u n img) = Some img.
Proof.
  intros u n img [Hn1 Hn2] Hb Hsz.
  unfold ihex_load, ihex_encode. rewrite ihex_lines_print.
  assert (Hok : Forall rec_ok (ihex_records n img)).
  { unfold ihex_records. apply Forall_app. split.
    - apply data_records_ok; [assumption|assumption|lia].
    - constructor; [|constructor]. unfold rec_ok. cbn. repeat split; lia. }
  rewrite (load_lines_print u _ ih_init Hok). unfold ihex_records.
  assert (I0 : Inv ih_init [] 0) by (split; [apply holds_empty|reflexivity]).
  destruct (load_data_records (List.length img) n img [] 0 ih_init [mkRec 0 1 []] Hn1 (le_n _)
              ltac:(cbn [List.length]; lia) I0) as (s' & u' & [Hh _] & L).
  change (N.of_nat (List.length (@nil N))) with 0 in L. rewrite L.
  cbn [load_recs apply_record r_type r_data List.length]. change (N.of_nat 0 =? 0) with true.
  cbn [option_map]. rewrite app_nil_l in Hh. rewrite (tobin_holds s' img Hh). reflexivity.
Qed.
