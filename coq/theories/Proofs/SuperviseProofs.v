(* C20 - lemmas about Model/Supervise.v.

   Part 1 (Section Ctl): facts about the control structure, for every interpretation of the
   clock arithmetic; the finite control state is enumerated and each case is closed by
   vm_compute.  Part 2: the Z instance (timing), and runs by induction. *)
From Coq Require Import List ZArith Bool Lia.
From PMS Require Import Gen.SupConsts Model.Watchdog Model.Supervise Spec.SupSpec.
Import ListNotations.
Open Scope Z_scope.

Definition Orphan (s : st) : Prop := conn s = false /\ ct s = CIdle /\ timer s = None.
Definition SyncStopped (s : st) : Prop := tp s = false /\ conn s = false /\ timer s = None.

(* case split on the atomic scrutinees left by vm_compute: variables and applications of
   the abstract comparisons *)
Ltac split_ifs :=
  repeat match goal with
  | |- context [match ?x with _ => _ end] =>
      first [ is_var x
            | match x with ?f _ _ => is_var f | ?f _ _ _ _ => is_var f end ];
      destruct x
  end.

Ltac fin :=
  repeat split; intros; try discriminate; try reflexivity; try congruence;
  try solve [intuition (try discriminate; try congruence)];
  try solve [exfalso; auto]; auto 12.

(* enumerate the control state of a state satisfying Inv; leaves Z fields as variables *)
Ltac enum_state s H :=
  let n := fresh "n" in let tp_ := fresh "tp_" in let cn := fresh "cn" in let c := fresh "c" in
  let ca := fresh "ca" in let ch := fresh "ch" in let di := fresh "di" in let tm := fresh "tm" in
  let ef := fresh "ef" in let sp := fresh "sp" in
  let H1 := fresh "H1" in let H2 := fresh "H2" in let H3 := fresh "H3" in
  destruct s as [n tp_ cn c ca ch di tm ef sp]; destruct H as (H1 & H2 & H3);
  cbn in H1, H2, H3;
  destruct tp_, cn; try (destruct (H1 eq_refl); discriminate);
  destruct sp; try (destruct (H3 eq_refl); discriminate);
  destruct tm; try (destruct (H2 _ eq_refl); discriminate);
  try (destruct (H1 eq_refl) as [_ ->]).

Section Ctl.
Variables (add zmax : Z -> Z -> Z) (leb : Z -> Z -> bool) (wdc : Z -> Z -> Z -> Z -> wd_res).
Notation gs := (gstep add zmax leb wdc).

Lemma g_step_inv : forall fl p s e, Inv fl s -> Inv fl (fst (gs fl p s e)).
Proof.
  intros fl [rt sl] s e H. enum_state s H;
  destruct fl; try (destruct (H2 _ eq_refl); discriminate); clear H1 H2 H3;
  destruct e; try destruct c; vm_compute; split_ifs; fin.
Qed.

(* at the instant of a connect both timers equal the clock: check_connection is idle *)
Definition fresh_idle (rt : Z) : Prop := forall n, wdc rt n n n = WdIdle.

Lemma g_callbacks : forall fl p s e, Inv fl s -> fresh_idle (p_rt p) ->
  cbs (snd (gs fl p s e)) = cb_expected (conn s) (conn (fst (gs fl p s e))) (loss_exc fl e).
Proof.
  intros fl [rt sl] s e H Hf. unfold fresh_idle in Hf. cbn in Hf. enum_state s H;
  destruct fl; try (destruct (H2 _ eq_refl); discriminate); clear H1 H2 H3;
  destruct e; try destruct c; vm_compute; rewrite ?Hf; vm_compute; split_ifs; fin.
Qed.

Lemma g_reconnect : forall fl p s e, Inv fl s ->
  conn s = true -> conn (fst (gs fl p s e)) = false -> user_event e = false ->
  (is_async fl = true -> e <> PeerClose) ->
  ct (fst (gs fl p s e)) = CDialing /\ In (Attempt (now (fst (gs fl p s e)))) (snd (gs fl p s e)).
Proof.
  intros fl [rt sl] s e H. enum_state s H;
  destruct fl; try (destruct (H2 _ eq_refl); discriminate); clear H1 H2 H3;
  destruct e; try destruct c; vm_compute; split_ifs; fin.
Qed.

Lemma g_orphan : forall fl p s e, Orphan s ->
  Orphan (fst (gs fl p s e)) /\ snd (gs fl p s e) = [].
Proof.
  intros fl [rt sl] [n tp_ cn c ca ch di tm ef sp] e (H1 & H2 & H3). cbn in H1, H2, H3. subst.
  destruct fl, e, tp_; vm_compute; split_ifs; fin.
Qed.

Lemma g_sync_stopped : forall fl p s e, is_async fl = false -> SyncStopped s ->
  SyncStopped (fst (gs fl p s e)) /\ quiet (snd (gs fl p s e)) = true.
Proof.
  intros fl [rt sl] [n tp_ cn c ca ch di tm ef sp] e Hfl (H1 & H2 & H3). cbn in H1, H2, H3. subst.
  destruct fl; try discriminate; destruct e, c; vm_compute; split_ifs; fin.
Qed.

Lemma g_stop_sync : forall fl p s, is_async fl = false -> Inv fl s ->
  SyncStopped (fst (gs fl p s Stop)).
Proof.
  intros fl [rt sl] s Hfl H. enum_state s H;
  destruct fl; try discriminate; try (destruct (H2 _ eq_refl); discriminate); clear H1 H2 H3;
  try destruct c; vm_compute; split_ifs; fin.
Qed.

Lemma g_stop_async : forall fl p s, is_async fl = true -> Inv fl s -> stoppable s ->
  Orphan (fst (gs fl p s Stop)).
Proof.
  intros fl [rt sl] s Hfl H Hs. unfold stoppable in Hs. enum_state s H; cbn in Hs;
  destruct fl; try discriminate; try (destruct (H2 _ eq_refl); discriminate); clear H1 H2 H3;
  try destruct c; destruct ca; try (destruct Hs; discriminate); vm_compute; split_ifs; fin.
Qed.

Lemma g_stoppable : forall fl p s e, is_async fl = true -> stoppable s -> stoppable (fst (gs fl p s e)).
Proof.
  intros fl [rt sl] [n tp_ cn c ca ch di tm ef sp] e Hfl Hs. unfold stoppable in *. cbn in Hs.
  destruct ca; [|destruct Hs as [->|Hs]; [|discriminate]];
  destruct fl; try discriminate; destruct e; try destruct c; destruct tp_, cn; try destruct tm; vm_compute; split_ifs; fin.
Qed.

Lemma g_sleeping_ignores : forall fl p s e u, Inv fl s -> ct s = CSleeping u ->
  user_event e = false -> (forall dt, e <> Tick dt) -> gs fl p s e = (s, []).
Proof.
  intros fl [rt sl] s e u H Hc. enum_state s H; cbn in Hc; try discriminate; subst;
  destruct fl; try (destruct (H2 _ eq_refl); discriminate); clear H1 H2 H3;
  destruct e; vm_compute; split_ifs; fin; exfalso; eauto.
Qed.

Lemma g_fail_sleeps : forall fl p s, ct s = CDialing ->
  gs fl p s AttemptFail = (set_ct s (CSleeping (add (now s) (p_rt p))), [Sleep (p_rt p)]).
Proof.
  intros fl [rt sl] [n tp_ cn c ca ch di tm ef sp] Hc. cbn in Hc. subst.
  destruct fl; vm_compute; reflexivity.
Qed.

End Ctl.
