(* C20 - lemmas about Model/Supervise.v.

   Part 1 (Section Ctl): facts about the control structure, for every interpretation of the
   clock arithmetic; the finite control state is enumerated and each case is closed by
   vm_compute.  Part 2: the Z instance (timing), and runs by induction. *)
From Coq Require Import List ZArith Bool Lia.
From PMS Require Import Gen.SupConsts Model.Watchdog Model.Supervise Spec.SupSpec.
Import ListNotations.
Open Scope Z_scope.

Definition Orphan (s : st) : Prop := conn s = false /\ ct s = CIdle /\ timer s = None.
(* what stop() (or disconnect()) leaves, all flavours: no protocol reference, no link, no
   watchdog timer; a dial loop may still be running (it ends at its next loop test) *)
Definition Stopped (s : st) : Prop := tp s = false /\ conn s = false /\ timer s = None.

(* case split on the atomic scrutinees left by vm_compute: variables and applications of
   the abstract comparisons *)
Ltac split_ifs :=
  repeat match goal with
  | |- context [match ?x with _ => _ end] =>
      first [ is_var x
            | match x with ?f _ _ => is_var f | ?f _ _ _ _ => is_var f end ];
      destruct x
  end.

Ltac fin :=
  repeat split; intros; try discriminate; try reflexivity; try congruence;
  try solve [intuition (try discriminate; try congruence)];
  try solve [exfalso; auto]; auto 12.

(* enumerate the control state of a state satisfying Inv; leaves Z fields as variables *)
Ltac enum_state s H :=
  let n := fresh "n" in let tp_ := fresh "tp_" in let cn := fresh "cn" in let c := fresh "c" in
  let ca := fresh "ca" in let ch := fresh "ch" in let di := fresh "di" in let tm := fresh "tm" in
  let ef := fresh "ef" in let sp := fresh "sp" in
  let H1 := fresh "H1" in let H2 := fresh "H2" in let H3 := fresh "H3" in
  destruct s as [n tp_ cn c ca ch di tm ef sp]; destruct H as (H1 & H2 & H3);
  cbn in H1, H2, H3;
  destruct tp_, cn; try (destruct (H1 eq_refl); discriminate);
  destruct sp; try (destruct (H3 eq_refl); discriminate);
  destruct tm; try (destruct (H2 _ eq_refl); discriminate);
  try (destruct (H1 eq_refl) as [_ ->]).

Section Ctl.
Variables (add zmax : Z -> Z -> Z) (leb : Z -> Z -> bool) (wdc : Z -> Z -> Z -> Z -> wd_res).
Notation gs := (gstep add zmax leb wdc aser_guard_protocol atcp_guard_protocol).
(* the asyncio connect loops before the D21 repair *)
Notation gs_unfixed := (gstep add zmax leb wdc false false).

Lemma g_step_inv : forall fl p s e, Inv fl s -> Inv fl (fst (gs fl p s e)).
Proof.
  intros fl [rt sl] s e H. enum_state s H;
  destruct fl; try (destruct (H2 _ eq_refl); discriminate); clear H1 H2 H3;
  destruct e; try destruct c; vm_compute; split_ifs; fin.
Qed.

(* at the instant of a connect both timers equal the clock: check_connection is idle *)
Definition fresh_idle (rt : Z) : Prop := forall n, wdc rt n n n = WdIdle.

Lemma g_callbacks : forall fl p s e, Inv fl s -> fresh_idle (p_rt p) ->
  cbs (snd (gs fl p s e)) = cb_expected (conn s) (conn (fst (gs fl p s e))) (loss_exc fl e).
Proof.
  intros fl [rt sl] s e H Hf. unfold fresh_idle in Hf. cbn in Hf. enum_state s H;
  destruct fl; try (destruct (H2 _ eq_refl); discriminate); clear H1 H2 H3;
  destruct e; try destruct c; vm_compute; rewrite ?Hf; vm_compute; split_ifs; fin.
Qed.

Lemma g_reconnect : forall fl p s e, Inv fl s ->
  conn s = true -> conn (fst (gs fl p s e)) = false -> user_event e = false ->
  (is_async fl = true -> e <> PeerClose) ->
  ct (fst (gs fl p s e)) = CDialing /\ In (Attempt (now (fst (gs fl p s e)))) (snd (gs fl p s e)).
Proof.
  intros fl [rt sl] s e H. enum_state s H;
  destruct fl; try (destruct (H2 _ eq_refl); discriminate); clear H1 H2 H3;
  destruct e; try destruct c; vm_compute; split_ifs; fin.
Qed.

Lemma g_orphan : forall fl p s e, Orphan s ->
  Orphan (fst (gs fl p s e)) /\ snd (gs fl p s e) = [].
Proof.
  intros fl [rt sl] [n tp_ cn c ca ch di tm ef sp] e (H1 & H2 & H3). cbn in H1, H2, H3. subst.
  destruct fl, e, tp_; vm_compute; split_ifs; fin.
Qed.

(* all four flavours (the asyncio ones since the D21 repair): once the protocol reference
   is gone every event leaves it so and causes nothing but a sleep of the dial loop *)
Lemma g_stopped : forall fl p s e, Stopped s ->
  Stopped (fst (gs fl p s e)) /\ quiet (snd (gs fl p s e)) = true.
Proof.
  intros fl [rt sl] [n tp_ cn c ca ch di tm ef sp] e (H1 & H2 & H3). cbn in H1, H2, H3. subst.
  destruct fl; destruct e, c; vm_compute; split_ifs; fin.
Qed.

Lemma g_stop_stopped : forall fl p s, Inv fl s -> Stopped (fst (gs fl p s Stop)).
Proof.
  intros fl [rt sl] s H. enum_state s H;
  destruct fl; try (destruct (H2 _ eq_refl); discriminate); clear H1 H2 H3;
  try destruct c; vm_compute; split_ifs; fin.
Qed.

(* more precisely: a stopped dial loop makes no further attempt.  From a Stopped state the
   only outputs are sleeps, and each sleep needs a pending dial to fail, which only the
   loop that was already dialling at stop() can provide: after its sleep the loop test
   finds the protocol gone *)
Lemma g_stopped_no_dial : forall fl p s e, Stopped s -> ct s <> CDialing ->
  ct (fst (gs fl p s e)) <> CDialing /\ snd (gs fl p s e) = [].
Proof.
  intros fl [rt sl] [n tp_ cn c ca ch di tm ef sp] e (H1 & H2 & H3) Hc. cbn in H1, H2, H3, Hc. subst.
  destruct fl; destruct e, c; try (exfalso; apply Hc; reflexivity); vm_compute; split_ifs; fin.
Qed.

Lemma g_stop_async : forall fl p s, is_async fl = true -> Inv fl s -> stoppable s ->
  Orphan (fst (gs fl p s Stop)).
Proof.
  intros fl [rt sl] s Hfl H Hs. unfold stoppable in Hs. enum_state s H; cbn in Hs;
  destruct fl; try discriminate; try (destruct (H2 _ eq_refl); discriminate); clear H1 H2 H3;
  try destruct c; destruct ca; try (destruct Hs; discriminate); vm_compute; split_ifs; fin.
Qed.

Lemma g_stoppable : forall fl p s e, is_async fl = true -> stoppable s -> stoppable (fst (gs fl p s e)).
Proof.
  intros fl [rt sl] [n tp_ cn c ca ch di tm ef sp] e Hfl Hs. unfold stoppable in *. cbn in Hs.
  destruct ca; [|destruct Hs as [->|Hs]; [|discriminate]];
  destruct fl; try discriminate; destruct e; try destruct c; destruct tp_, cn; try destruct tm; vm_compute; split_ifs; fin.
Qed.

Lemma g_sleeping_ignores : forall fl p s e u, Inv fl s -> ct s = CSleeping u ->
  user_event e = false -> (forall dt, e <> Tick dt) -> gs fl p s e = (s, []).
Proof.
  intros fl [rt sl] s e u H Hc. enum_state s H; cbn in Hc; try discriminate; subst;
  destruct fl; try (destruct (H2 _ eq_refl); discriminate); clear H1 H2 H3;
  destruct e; vm_compute; split_ifs; fin; exfalso; eauto.
Qed.

Lemma g_fail_sleeps : forall fl p s, ct s = CDialing ->
  gs fl p s AttemptFail = (set_ct s (CSleeping (add (now s) (p_rt p))), [Sleep (p_rt p)]).
Proof.
  intros fl [rt sl] [n tp_ cn c ca ch di tm ef sp] Hc. cbn in Hc. subst.
  destruct fl; vm_compute; reflexivity.
Qed.

(* D13: after a link is established, an orderly close by the peer leaves an asyncio gateway
   without link, dial loop or timer *)
Lemma g_peer_close_orphan : forall fl p, is_async fl = true -> fresh_idle (p_rt p) ->
  let s1 := fst (gs fl p init AttemptOk) in
  conn s1 = true /\ Orphan (fst (gs fl p s1 PeerClose)) /\ snd (gs fl p s1 PeerClose) = [LostCb false].
Proof.
  intros fl [rt sl] Hfl Hf. unfold fresh_idle in Hf. cbn in Hf.
  destruct fl; try discriminate; vm_compute; rewrite ?Hf; vm_compute; fin.
Qed.

(* D21, the loop header before the repair (`while True:`): stop() while the start()
   coroutine is still dialling: the loop goes on *)
Lemma g_stop_initial_dial_unfixed : forall fl p, is_async fl = true ->
  leb (p_rt p) 0 = false -> leb (add 0 (p_rt p)) (add 0 (p_rt p)) = true ->
  let s1 := fst (gs_unfixed fl p init Stop) in
  let s2 := fst (gs_unfixed fl p s1 AttemptFail) in
  snd (gs_unfixed fl p s1 AttemptFail) = [Sleep (p_rt p)] /\
  snd (gs_unfixed fl p s2 (Tick (p_rt p))) = [Attempt (zmax (add 0 (p_rt p)) 0)].
Proof.
  intros fl [rt sl] Hfl H1 H2. cbn in H1, H2.
  destruct fl; try discriminate; vm_compute; rewrite ?H1; vm_compute; rewrite ?H2; vm_compute; split; reflexivity.
Qed.

(* the same history with the repaired header: the sleep ends, the loop test fails, no dial *)
Lemma g_stop_initial_dial : forall fl p, is_async fl = true ->
  leb (p_rt p) 0 = false -> leb (add 0 (p_rt p)) (add 0 (p_rt p)) = true ->
  let s1 := fst (gs fl p init Stop) in
  let s2 := fst (gs fl p s1 AttemptFail) in
  snd (gs fl p s1 AttemptFail) = [Sleep (p_rt p)] /\
  snd (gs fl p s2 (Tick (p_rt p))) = [] /\ ct (fst (gs fl p s2 (Tick (p_rt p)))) = CIdle.
Proof.
  intros fl [rt sl] Hfl H1 H2. cbn in H1, H2.
  destruct fl; try discriminate; vm_compute; rewrite ?H1; vm_compute; rewrite ?H2; vm_compute; repeat split; reflexivity.
Qed.

End Ctl.

(* ------------------------------------------------------------------ the Z instance *)

Lemma wd_fresh : forall rt, 0 <= rt -> forall n, wd_check rt n n n = WdIdle.
Proof.
  intros rt H n. unfold wd_check. change wd_factor with 2.
  destruct (n + 2 * rt <? n) eqn:E; [apply Z.ltb_lt in E; lia|].
  destruct (n <=? n + rt) eqn:E2; [reflexivity|apply Z.leb_gt in E2; lia].
Qed.

Lemma inv_init : forall fl, Inv fl init.
Proof. intro fl. repeat split; cbn; intros; discriminate. Qed.

Lemma step_inv : forall fl p s e, Inv fl s -> Inv fl (fst (step fl p s e)).
Proof. intros. apply g_step_inv. assumption. Qed.

Lemma final_cons : forall fl p s e es, final fl p s (e :: es) = final fl p (fst (step fl p s e)) es.
Proof. reflexivity. Qed.

Lemma final_app : forall fl p es1 es2 s, final fl p s (es1 ++ es2) = final fl p (final fl p s es1) es2.
Proof. intros. unfold final, gfinal. apply fold_left_app. Qed.

Lemma outputs_cons : forall fl p s e es,
  outputs fl p s (e :: es) = snd (step fl p s e) ++ outputs fl p (fst (step fl p s e)) es.
Proof.
  intros. unfold outputs, goutputs, step. cbn [grun].
  destruct (gstep Z.add Z.max Z.leb wd_check aser_guard_protocol atcp_guard_protocol fl p s e) as [s' o]. reflexivity.
Qed.

Lemma final_inv : forall fl p es s, Inv fl s -> Inv fl (final fl p s es).
Proof.
  induction es as [|e es IH]; intros s H; [exact H|].
  rewrite final_cons. apply IH, step_inv, H.
Qed.

Lemma reachable_inv : forall fl p es, Inv fl (final fl p init es).
Proof. intros. apply final_inv, inv_init. Qed.

Lemma callbacks_step : forall fl p s e, 0 <= p_rt p -> Inv fl s ->
  cbs (snd (step fl p s e)) = cb_expected (conn s) (conn (fst (step fl p s e))) (loss_exc fl e).
Proof. intros. apply g_callbacks; [assumption|]. unfold fresh_idle. apply wd_fresh. assumption. Qed.

Lemma filter_made_cbs : forall o, filter is_made (cbs o) = filter is_made o.
Proof. induction o as [|a o IH]; [reflexivity|]. unfold cbs in *. destruct a; cbn; rewrite ?IH; reflexivity. Qed.
Lemma filter_lost_cbs : forall o, filter is_lost (cbs o) = filter is_lost o.
Proof. induction o as [|a o IH]; [reflexivity|]. unfold cbs in *. destruct a; cbn; rewrite ?IH; reflexivity. Qed.

Lemma made_once : forall fl p es s, 0 <= p_rt p -> Inv fl s ->
  length (filter is_made (outputs fl p s es)) = links_made fl p s es.
Proof.
  induction es as [|e es IH]; intros s Hrt H; [reflexivity|].
  rewrite outputs_cons, filter_app, app_length. cbn [links_made].
  rewrite (IH _ Hrt (step_inv fl p s e H)). f_equal.
  rewrite <- filter_made_cbs, (callbacks_step fl p s e Hrt H).
  destruct (conn s), (conn (fst (step fl p s e))); reflexivity.
Qed.

Lemma lost_once : forall fl p es s, 0 <= p_rt p -> Inv fl s ->
  length (filter is_lost (outputs fl p s es)) = links_lost fl p s es.
Proof.
  induction es as [|e es IH]; intros s Hrt H; [reflexivity|].
  rewrite outputs_cons, filter_app, app_length. cbn [links_lost].
  rewrite (IH _ Hrt (step_inv fl p s e H)). f_equal.
  rewrite <- filter_lost_cbs, (callbacks_step fl p s e Hrt H).
  destruct (conn s), (conn (fst (step fl p s e))); reflexivity.
Qed.

Lemma alternate_expected : forall c c' x l, alternate c (cb_expected c c' x ++ l) = alternate c' l.
Proof. intros [] [] x l; reflexivity. Qed.

Lemma callbacks_alternate : forall fl p es s, 0 <= p_rt p -> Inv fl s ->
  alternate (conn s) (cbs (outputs fl p s es)) = true.
Proof.
  induction es as [|e es IH]; intros s Hrt H; [reflexivity|].
  rewrite outputs_cons. unfold cbs. rewrite filter_app. fold (cbs (snd (step fl p s e))).
  rewrite (callbacks_step fl p s e Hrt H), alternate_expected.
  apply IH; [assumption|apply step_inv, H].
Qed.

(* the exc argument: every lost callback of a step carries loss_exc *)
Lemma lost_exc : forall fl p s e x, 0 <= p_rt p -> Inv fl s ->
  In (LostCb x) (snd (step fl p s e)) -> x = loss_exc fl e.
Proof.
  intros fl p s e x Hrt H Hin.
  assert (Hc : In (LostCb x) (cbs (snd (step fl p s e)))) by (apply filter_In; split; [exact Hin|reflexivity]).
  rewrite (callbacks_step fl p s e Hrt H) in Hc. unfold cb_expected in Hc.
  destruct (negb (conn s) && conn (fst (step fl p s e))); [destruct Hc as [Hc|[]]; discriminate|].
  destruct (conn s && negb (conn (fst (step fl p s e)))); [|destruct Hc].
  destruct Hc as [Hc|[]]. congruence.
Qed.

Lemma reconnect_follows_loss : forall fl p s e, Inv fl s ->
  conn s = true -> conn (fst (step fl p s e)) = false -> user_event e = false ->
  (is_async fl = true -> e <> PeerClose) ->
  ct (fst (step fl p s e)) = CDialing /\ In (Attempt (now (fst (step fl p s e)))) (snd (step fl p s e)).
Proof. intros. apply g_reconnect; assumption. Qed.

Lemma orphan_run : forall fl p es s, Orphan s -> outputs fl p s es = [].
Proof.
  induction es as [|e es IH]; intros s H; [reflexivity|].
  rewrite outputs_cons. destruct (g_orphan Z.add Z.max Z.leb wd_check fl p s e H) as [H1 H2].
  unfold step. rewrite H2. apply IH, H1.
Qed.

Lemma peer_close_dead : forall fl p es, is_async fl = true -> 0 <= p_rt p ->
  let s1 := fst (step fl p init AttemptOk) in
  conn s1 = true /\ conn (fst (step fl p s1 PeerClose)) = false /\
  snd (step fl p s1 PeerClose) = [LostCb false] /\
  outputs fl p (fst (step fl p s1 PeerClose)) es = [].
Proof.
  intros fl p es Hfl Hrt.
  destruct (g_peer_close_orphan Z.add Z.max Z.leb wd_check fl p Hfl (wd_fresh _ Hrt)) as (H1 & H2 & H3).
  cbv zeta. repeat split; [exact H1|apply H2|exact H3|apply orphan_run, H2].
Qed.

(* --- quiet after stop *)
Lemma ctask_dialing_dec : forall c : ctask, {c = CDialing} + {c <> CDialing}.
Proof. intros [| |u]; [right|left|right]; try reflexivity; discriminate. Qed.

Lemma quiet_app : forall a b, quiet (a ++ b) = quiet a && quiet b.
Proof. intros. apply forallb_app. Qed.

Lemma stopped_run : forall fl p es s, Stopped s -> quiet (outputs fl p s es) = true.
Proof.
  induction es as [|e es IH]; intros s H; [reflexivity|].
  rewrite outputs_cons, quiet_app.
  destruct (g_stopped Z.add Z.max Z.leb wd_check fl p s e H) as [H1 H2].
  unfold step. rewrite H2. apply IH; assumption.
Qed.

(* every flavour, every state satisfying the invariant (in particular: stop() while the
   first connect loop of start() is still running) *)
Lemma quiet_after_stop : forall fl p s es, Inv fl s ->
  quiet (outputs fl p (fst (step fl p s Stop)) es) = true.
Proof. intros. apply stopped_run. apply g_stop_stopped; assumption. Qed.

Lemma quiet_after_stop_sync : forall fl p s es, is_async fl = false -> Inv fl s ->
  quiet (outputs fl p (fst (step fl p s Stop)) es) = true.
Proof. intros. apply quiet_after_stop; assumption. Qed.

Lemma quiet_after_stop_async_full : forall fl p s es, is_async fl = true -> Inv fl s ->
  quiet (outputs fl p (fst (step fl p s Stop)) es) = true.
Proof. intros. apply quiet_after_stop; assumption. Qed.

(* no dial after stop(): once the loop is not in a dial, nothing at all is output *)
Lemma stopped_no_dial_run : forall fl p es s, Stopped s -> ct s <> CDialing ->
  outputs fl p s es = [].
Proof.
  induction es as [|e es IH]; intros s H Hc; [reflexivity|].
  rewrite outputs_cons.
  destruct (g_stopped Z.add Z.max Z.leb wd_check fl p s e H) as [H1 _].
  destruct (g_stopped_no_dial Z.add Z.max Z.leb wd_check fl p s e H Hc) as [H3 H4].
  unfold step. rewrite H4. apply IH; assumption.
Qed.

Lemma stopped_dialing_step : forall fl p s e, Stopped s -> ct s = CDialing ->
  (snd (step fl p s e) = [Sleep (p_rt p)] /\ ct (fst (step fl p s e)) <> CDialing)
  \/ snd (step fl p s e) = [].
Proof.
  intros fl [rt sl] [n tp_ cn c ca ch di tm ef sp] e (H1 & H2 & H3) Hc. cbn in H1, H2, H3, Hc. subst.
  destruct fl; destruct e; try (right; vm_compute; reflexivity);
  try (left; vm_compute; split; [reflexivity|discriminate]).
  all: right; unfold step, gstep, tick; cbn [ct]; destruct (dt <=? 0); reflexivity.
Qed.

(* the exact form: whatever follows stop(), the only thing that can still be output is the
   one sleep of the dial that was in flight when stop() was called and then failed *)
Lemma stopped_at_most_one_sleep : forall fl p es s, Stopped s ->
  outputs fl p s es = [] \/ outputs fl p s es = [Sleep (p_rt p)].
Proof.
  induction es as [|e es IH]; intros s H; [left; reflexivity|].
  rewrite outputs_cons.
  destruct (g_stopped Z.add Z.max Z.leb wd_check fl p s e H) as [H1 _]. fold (step fl p s e) in H1.
  destruct (ctask_dialing_dec (ct s)) as [Hc|Hc].
  - destruct (stopped_dialing_step fl p s e H Hc) as [[Ho Hn]|Ho]; rewrite Ho.
    + right. rewrite (stopped_no_dial_run fl p es _ H1 Hn). reflexivity.
    + apply IH, H1.
  - left. rewrite <- outputs_cons. apply stopped_no_dial_run; assumption.
Qed.

Lemma after_stop_at_most_one_sleep : forall fl p s es, Inv fl s ->
  outputs fl p (fst (step fl p s Stop)) es = [] \/
  outputs fl p (fst (step fl p s Stop)) es = [Sleep (p_rt p)].
Proof. intros. apply stopped_at_most_one_sleep. apply g_stop_stopped; assumption. Qed.

(* asyncio, dial loop idle or cancellable (= transport.connect_task): not even that sleep *)
Lemma quiet_after_stop_async : forall fl p s es, is_async fl = true -> Inv fl s -> stoppable s ->
  outputs fl p (fst (step fl p s Stop)) es = [].
Proof. intros. apply orphan_run. apply g_stop_async; assumption. Qed.

Lemma stoppable_run : forall fl p es s, is_async fl = true -> stoppable s -> stoppable (final fl p s es).
Proof.
  induction es as [|e es IH]; intros s Hfl H; [exact H|].
  rewrite final_cons. apply IH; [assumption|]. apply g_stoppable; assumption.
Qed.

Lemma connected_stoppable : forall fl s, Inv fl s -> conn s = true -> stoppable s.
Proof. intros fl s (H1 & _) Hc. left. apply H1, Hc. Qed.

Lemma quiet_after_stop_async_connected : forall fl p es0 es1 es2, is_async fl = true ->
  conn (final fl p init es0) = true ->
  outputs fl p (fst (step fl p (final fl p init (es0 ++ es1)) Stop)) es2 = [].
Proof.
  intros fl p es0 es1 es2 Hfl Hc. apply quiet_after_stop_async; [assumption|apply reachable_inv|].
  rewrite final_app. apply stoppable_run; [assumption|].
  apply (connected_stoppable fl); [apply reachable_inv|exact Hc].
Qed.

Lemma outputs_unfixed_cons : forall fl p s e es,
  outputs_unfixed fl p s (e :: es)
  = snd (step_unfixed fl p s e) ++ outputs_unfixed fl p (fst (step_unfixed fl p s e)) es.
Proof.
  intros. unfold outputs_unfixed, goutputs, step_unfixed. cbn [grun].
  destruct (gstep Z.add Z.max Z.leb wd_check false false fl p s e) as [s' o]. reflexivity.
Qed.

(* D21 with the loop header before the repair: stop() during the first connect loop, the
   pending dial fails, reconnect_timeout later the loop dials again *)
Lemma stop_initial_dial_unfixed_refuted : forall fl p, is_async fl = true -> 0 < p_rt p ->
  outputs_unfixed fl p (fst (step_unfixed fl p init Stop)) [AttemptFail; Tick (p_rt p)]
  = [Sleep (p_rt p); Attempt (p_rt p)].
Proof.
  intros fl p Hfl Hrt.
  assert (H1 : (p_rt p <=? 0) = false) by (apply Z.leb_gt; lia).
  assert (H2 : (0 + p_rt p <=? 0 + p_rt p) = true) by (apply Z.leb_refl).
  destruct (g_stop_initial_dial_unfixed Z.add Z.max Z.leb wd_check fl p Hfl H1 H2) as [Ga Gb].
  rewrite outputs_unfixed_cons, outputs_unfixed_cons. unfold step_unfixed in *. rewrite Ga, Gb.
  unfold outputs_unfixed, goutputs. cbn [grun map concat app].
  rewrite Z.max_l by lia. reflexivity.
Qed.

(* the same history on the current code: the sleep, then nothing; the loop has ended *)
Lemma stop_initial_dial_ends : forall fl p, is_async fl = true -> 0 < p_rt p ->
  outputs fl p (fst (step fl p init Stop)) [AttemptFail; Tick (p_rt p)] = [Sleep (p_rt p)]
  /\ ct (final fl p (fst (step fl p init Stop)) [AttemptFail; Tick (p_rt p)]) = CIdle.
Proof.
  intros fl p Hfl Hrt.
  assert (H1 : (p_rt p <=? 0) = false) by (apply Z.leb_gt; lia).
  assert (H2 : (0 + p_rt p <=? 0 + p_rt p) = true) by (apply Z.leb_refl).
  destruct (g_stop_initial_dial Z.add Z.max Z.leb wd_check fl p Hfl H1 H2) as (Ga & Gb & Gc).
  split.
  - rewrite outputs_cons, outputs_cons. unfold step in *. rewrite Ga, Gb. reflexivity.
  - rewrite final_cons, final_cons. exact Gc.
Qed.

(* --- retry timing: the sleeping dial loop *)
(* the loop test at the top of the next iteration succeeds: the protocol reference is
   still set (all four loops test it) *)
Definition guard_ok (fl : flavour) (s : st) : Prop := tp s = true.

Lemma tick_nonpos : forall fl p s dt, dt <= 0 -> step fl p s (Tick dt) = (s, []).
Proof.
  intros. unfold step, gstep, tick. replace (dt <=? 0) with true by (symmetry; apply Z.leb_le; lia).
  reflexivity.
Qed.

Lemma guard_set_now : forall fl s u, guard_ok fl s ->
  guard aser_guard_protocol atcp_guard_protocol fl (set_now s u) = true.
Proof.
  intros fl s u H; destruct fl; cbn; exact H.
Qed.

Lemma tick_sleeping_reach : forall fl p s u dt, ct s = CSleeping u -> 0 < dt -> now s <= u ->
  u <= now s + dt -> guard_ok fl s ->
  step fl p s (Tick dt) = (set_ct (set_now s u) CDialing, [Attempt u]).
Proof.
  intros fl p s u dt Hc Hdt Hn Hu Hg. unfold step, gstep, tick. rewrite Hc.
  replace (dt <=? 0) with false by (symmetry; apply Z.leb_gt; lia).
  replace (u <=? now s + dt) with true by (symmetry; apply Z.leb_le; lia).
  rewrite Z.max_l by lia. unfold start_dial. rewrite (guard_set_now fl s u Hg). reflexivity.
Qed.

Lemma tick_sleeping_short : forall fl p s u dt, ct s = CSleeping u -> 0 < dt -> now s + dt < u ->
  step fl p s (Tick dt) = (set_now s (now s + dt), []).
Proof.
  intros fl p s u dt Hc Hdt Hu. unfold step, gstep, tick. rewrite Hc.
  replace (dt <=? 0) with false by (symmetry; apply Z.leb_gt; lia).
  replace (u <=? now s + dt) with false by (symmetry; apply Z.leb_gt; lia).
  reflexivity.
Qed.

Lemma total_ticks_nonneg : forall es, 0 <= total_ticks es.
Proof. induction es as [|e es IH]; cbn; [lia|]. destruct e; try exact IH. lia. Qed.

Lemma first_attempt_nil_app : forall o, first_attempt ([] ++ o) = first_attempt o.
Proof. reflexivity. Qed.

Lemma retry_timing : forall fl p u es s, Inv fl s -> ct s = CSleeping u -> now s < u ->
  guard_ok fl s -> no_user es = true ->
  if u <=? now s + total_ticks es
  then first_attempt (outputs fl p s es) = Some u
  else outputs fl p s es = [] /\ ct (final fl p s es) = CSleeping u
       /\ now (final fl p s es) = now s + total_ticks es.
Proof.
  intros fl p u. induction es as [|e es IH]; intros s H Hc Hn Hg Hu.
  - cbn [total_ticks]. replace (u <=? now s + 0) with false by (symmetry; apply Z.leb_gt; lia).
    repeat split; [exact Hc|cbn; lia].
  - cbn [no_user forallb] in Hu. apply andb_true_iff in Hu. destruct Hu as [He Hu]. fold (no_user es) in Hu.
    apply negb_true_iff in He.
    assert (Hsame : step fl p s e = (s, []) ->
      if u <=? now s + total_ticks es
      then first_attempt (outputs fl p s (e :: es)) = Some u
      else outputs fl p s (e :: es) = [] /\ ct (final fl p s (e :: es)) = CSleeping u
           /\ now (final fl p s (e :: es)) = now s + total_ticks es).
    { intro E. rewrite outputs_cons, final_cons, E. cbn [fst snd app]. apply IH; assumption. }
    destruct e; try (apply Hsame; unfold step;
      apply (g_sleeping_ignores Z.add Z.max Z.leb wd_check fl p s _ u H Hc He); intros dt0; discriminate);
    try discriminate.
    (* Tick dt *)
    cbn [total_ticks]. destruct (Z_le_gt_dec dt 0) as [Hd|Hd].
    + rewrite Z.max_l by lia. replace (now s + (0 + total_ticks es)) with (now s + total_ticks es) by lia.
      apply Hsame. apply tick_nonpos. exact Hd.
    + rewrite Z.max_r by lia. pose proof (total_ticks_nonneg es) as Hnn.
      destruct (Z_le_gt_dec u (now s + dt)) as [Hr|Hr].
      * replace (u <=? now s + (dt + total_ticks es)) with true by (symmetry; apply Z.leb_le; lia).
        rewrite outputs_cons, (tick_sleeping_reach fl p s u dt Hc) by (try assumption; lia). reflexivity.
      * pose proof (tick_sleeping_short fl p s u dt Hc ltac:(lia) ltac:(lia)) as E.
        rewrite outputs_cons, final_cons, E. cbn [fst snd app].
        assert (Hi : Inv fl (set_now s (now s + dt))).
        { pose proof (step_inv fl p s (Tick dt) H) as Hi. rewrite E in Hi. exact Hi. }
        specialize (IH (set_now s (now s + dt)) Hi Hc ltac:(cbn; lia) Hg Hu). cbn [now set_now] in IH.
        replace (now s + (dt + total_ticks es)) with (now s + dt + total_ticks es) by lia.
        exact IH.
Qed.

(* --- the watchdog inside the automata: the drop decision is Watchdog.wd_check, and a drop
   re-dials at the same instant *)
Lemma stcp_tick : forall p s dt, Inv SyncTcp s -> conn s = true -> 0 < dt ->
  let t := now s + dt in
  match wd_check (p_rt p) (check s) (disc s) t with
  | WdDrop => conn (fst (step SyncTcp p s (Tick dt))) = false
              /\ ct (fst (step SyncTcp p s (Tick dt))) = CDialing
              /\ snd (step SyncTcp p s (Tick dt)) = [Close; LostCb true; Attempt t]
  | WdProbe => conn (fst (step SyncTcp p s (Tick dt))) = true
              /\ snd (step SyncTcp p s (Tick dt)) = [Write]
  | WdIdle => conn (fst (step SyncTcp p s (Tick dt))) = true
              /\ snd (step SyncTcp p s (Tick dt)) = []
  end.
Proof.
  intros p s dt H Hc Hdt. destruct H as (H1 & H2 & _). destruct (H1 Hc) as [Htp Hct].
  assert (Htm : timer s = None).
  { destruct (timer s) eqn:E; [|reflexivity]. destruct (H2 _ eq_refl); discriminate. }
  destruct s as [n tp_ cn c ca ch di tm ef sp]. cbn in Hc, Htp, Hct, Htm. subst.
  cbv zeta. unfold step, gstep, tick. cbn [ct timer conn now].
  replace (dt <=? 0) with false by (symmetry; apply Z.leb_gt; lia).
  unfold reader_iter. cbn [now check disc set_now negb].
  destruct (wd_check (p_rt p) ch di (n + dt)); cbn; repeat split.
Qed.

Lemma atcp_timer : forall p s w dt, Inv AsyncTcp s -> timer s = Some w -> 0 < dt -> now s <= w ->
  w <= now s + dt ->
  match wd_check (p_rt p) (check s) (disc s) w with
  | WdDrop => conn (fst (step AsyncTcp p s (Tick dt))) = false
              /\ ct (fst (step AsyncTcp p s (Tick dt))) = CDialing
              /\ snd (step AsyncTcp p s (Tick dt)) = [Close; LostCb false; Attempt w]
  | WdProbe => conn (fst (step AsyncTcp p s (Tick dt))) = true
              /\ snd (step AsyncTcp p s (Tick dt)) = [Write]
              /\ timer (fst (step AsyncTcp p s (Tick dt))) = Some (w + p_rt p + p_slack p)
  | WdIdle => conn (fst (step AsyncTcp p s (Tick dt))) = true
              /\ snd (step AsyncTcp p s (Tick dt)) = []
              /\ timer (fst (step AsyncTcp p s (Tick dt))) = Some (w + p_rt p + p_slack p)
  end.
Proof.
  intros p s w dt H Htm Hdt Hn Hw. destruct H as (H1 & H2 & _). destruct (H2 _ Htm) as [Hc _].
  destruct (H1 Hc) as [Htp Hct].
  destruct s as [n tp_ cn c ca ch di tm ef sp]. cbn in Hc, Htp, Hct, Htm, Hn, Hw. subst.
  unfold step, gstep, tick. cbn [ct timer conn now].
  replace (dt <=? 0) with false by (symmetry; apply Z.leb_gt; lia).
  replace (w <=? n + dt) with true by (symmetry; apply Z.leb_le; lia).
  rewrite Z.max_l by lia. unfold atcp_check. cbn [now check disc tp conn set_now set_timer].
  destruct (wd_check (p_rt p) ch di w); cbn; repeat split.
Qed.

(* --- the forms stated in Props/C20.v *)
Lemma made_once_init : forall fl p es, 0 <= p_rt p ->
  length (filter is_made (outputs fl p init es)) = links_made fl p init es.
Proof. intros. apply made_once; [assumption|apply inv_init]. Qed.

Lemma lost_once_init : forall fl p es, 0 <= p_rt p ->
  length (filter is_lost (outputs fl p init es)) = links_lost fl p init es.
Proof. intros. apply lost_once; [assumption|apply inv_init]. Qed.

Lemma callbacks_alternate_init : forall fl p es, 0 <= p_rt p ->
  alternate false (cbs (outputs fl p init es)) = true.
Proof. intros. apply (callbacks_alternate fl p es init); [assumption|apply inv_init]. Qed.

Lemma reconnect_follows_loss_sync : forall fl p s e, is_async fl = false -> Inv fl s ->
  conn s = true -> conn (fst (step fl p s e)) = false -> user_event e = false ->
  ct (fst (step fl p s e)) = CDialing /\ In (Attempt (now (fst (step fl p s e)))) (snd (step fl p s e)).
Proof. intros. apply reconnect_follows_loss; try assumption. intro. congruence. Qed.

Lemma retry_after_fail : forall fl p s, ct s = CDialing ->
  step fl p s AttemptFail = (set_ct s (CSleeping (now s + p_rt p)), [Sleep (p_rt p)]).
Proof. intros. apply g_fail_sleeps. assumption. Qed.
