(* C04: the tree (and the callback log) over whole histories, both task flavours; corollaries. *)
From Coq Require Import List NArith ZArith Bool String Lia.
From PMS Require Import Base.PyStr Base.PyInt Base.Exn Model.Codec Model.Rules Model.TableTypes
  Gen.Tables Model.Validate Model.Hex Model.Ota Model.Oracles Model.Gateway Spec.SerialApi
  Proofs.PyStrFacts Proofs.PyIntFacts Proofs.CodecProofs Proofs.ValidateProofs Proofs.GwLemmas Proofs.GwInv
  Spec.TreeMeaning Proofs.TreeProofs.
Import ListNotations.
Open Scope string_scope.
Open Scope list_scope.
Open Scope Z_scope.

Definition recv_lines (ops : list op) : list pstr :=
  flat_map (fun o => match o with Recv l => [l] | _ => [] end) ops.

Lemma recv_lines_map ls : recv_lines (map Recv ls) = ls.
Proof. induction ls as [|l ls IH]; [reflexivity|]. unfold recv_lines in *. cbn [map flat_map app]. rewrite IH. reflexivity. Qed.

Section History.
  Variable orc : oracles.
  Variable clock : Z.

  Notation P g := (proj (g_sensors g)).

  (* the verdict of the configured version v on a message *)
  Definition accv (v : ver) : msg -> bool := validate (orc_version orc) (orc_float orc) (tab_of v).
  Definition mlv (v : ver) : tree -> pstr -> tree := meaning_line (safe_version orc) (accv v) v.
  Definition alv (v : ver) : tree -> pstr -> option msg := alerted_line (accv v) v.

  Lemma ml_cfg v g : cfg_is v (g_cf g) -> ml orc v g = mlv v.
  Proof. intros [T _]. unfold ml, mlv, accv, gvalidate, tab. rewrite T. reflexivity. Qed.
  Lemma al_cfg v g : cfg_is v (g_cf g) -> al orc v g = alv v.
  Proof. intros [T _]. unfold al, alv, accv, gvalidate, tab. rewrite T. reflexivity. Qed.

  (* abstract state: the tree and the list of callback events so far *)
  Definition astate := (tree * list event)%type.
  Definition astep (v : ver) (cb : bool) (s : astate) (l : pstr) : astate :=
    (mlv v (fst s) l,
     snd s ++ match alv v (fst s) l with
              | Some m => if cb then [ECallback m (mlv v (fst s) l)] else []
              | None => []
              end).
  Definition aof (g : gw) : astate := (P g, cbs (g_log g)).

  Lemma fst_fold_astep v cb ls s : fst (fold_left (astep v cb) ls s) = fold_left (mlv v) ls (fst s).
  Proof. revert s. induction ls as [|l ls IH]; intro s; simpl; [reflexivity|]. rewrite IH. reflexivity. Qed.

  (* the abstract state after an effect *)
  Lemma aof_eff v g0 g g' l : cfg_is v (g_cf g0) -> aof g0 = aof g ->
    eff g0 g' (ml orc v g0 (P g) l) (al orc v g0 (P g) l) ->
    aof g' = astep v (cf_callback (g_cf g0)) (aof g) l.
  Proof.
    intros CI A (C & T & D & ext & js & (L & _) & B).
    rewrite (ml_cfg v g0 CI) in *. rewrite (al_cfg v g0 CI) in *.
    unfold aof, astep. cbn [fst snd]. rewrite T, L, cbs_app, B.
    unfold aof in A. inversion A as [[A1 A2]]. reflexivity.
  Qed.

  Lemma aof_quiet g g' : quiet g g' -> P g' = P g -> aof g' = aof g.
  Proof.
    intros (_ & _ & ext & js & (L & _) & B) E. unfold aof. rewrite E, L, cbs_app, B, app_nil_r. reflexivity.
  Qed.

  Definition op_lines (o : op) : list pstr := match o with Recv l => [l] | _ => [] end.

  Definition async_idle (g : gw) : Prop := cf_async (g_cf g) = true -> g_jobs g = [].

  Lemma grows_async g g' ext js : grows g g' ext js -> cf_async (g_cf g) = true -> g_jobs g = [] -> g_jobs g' = [].
  Proof. intros (_ & J & _ & A) AS E. rewrite J, E, (A AS). reflexivity. Qed.

  Lemma quiet_async g g' : quiet g g' -> async_idle g -> g_cf g' = g_cf g -> async_idle g'.
  Proof.
    intros (_ & _ & ext & js & G & _) AI C AS. rewrite C in AS. eapply grows_async; [exact G|exact AS|apply AI; exact AS].
  Qed.

  Lemma step_fold v g o : cfg_is v (g_cf g) -> Inv orc g -> op_ok o -> async_idle g ->
    let g' := step orc clock g o in
    fold_left (astep v (cf_callback (g_cf g))) (pending g') (aof g') =
    fold_left (astep v (cf_callback (g_cf g))) (pending g ++ op_lines o) (aof g) /\ async_idle g'.
  Proof.
    intros CI I O AI. destruct o as [l| |s c vt x mt a|ns t x b|b]; cbn [step op_lines]; cbv zeta.
    - destruct (cf_async (g_cf g)) eqn:A.
      + pose proof (recv_async_eff orc clock v g l CI I A) as HE.
        pose proof (AI A) as J.
        rewrite (pending_eff _ _ _ _ HE).
        rewrite (aof_eff v g g _ l CI eq_refl HE).
        unfold pending. rewrite J. cbn [flat_map app fold_left]. split; [reflexivity|].
        intros _. destruct HE as (_ & _ & _ & ext & js & G & _). eapply grows_async; eassumption.
      + rewrite (recv_threaded orc clock g l A). split.
        * unfold pending. cbn [g_jobs set_jobs]. rewrite flat_map_app. reflexivity.
        * intro A'. cbn in A'. congruence.
    - destruct (g_jobs g) as [|[l|l] rest] eqn:J.
      + rewrite (pump_empty orc clock g J), app_nil_r. split; [reflexivity|exact AI].
      + pose proof (pump_logic_eff orc clock v g l rest CI I J) as HE.
        assert (A : cf_async (g_cf g) = false).
        { destruct (cf_async (g_cf g)) eqn:A; [|reflexivity]. rewrite (AI A) in J. discriminate. }
        rewrite (pending_eff _ _ _ _ HE).
        assert (CI0 : cfg_is v (g_cf (set_jobs g rest))) by exact CI.
        rewrite (aof_eff v (set_jobs g rest) g _ l CI0 eq_refl HE).
        unfold pending at 2. rewrite J, app_nil_r. cbn [flat_map app fold_left].
        split; [reflexivity|].
        intro A'. destruct HE as (C & _). rewrite C in A'. cbn in A'. congruence.
      + rewrite (pump_send orc clock g l rest J), app_nil_r.
        assert (Q : quiet (set_jobs g rest) (send (set_jobs g rest) l)) by apply quiet_send.
        rewrite (pending_quiet _ _ Q).
        rewrite (aof_quiet _ _ Q) by (rewrite sensors_send; reflexivity).
        unfold pending at 2. rewrite J. cbn [flat_map app]. split; [reflexivity|].
        intro A'. destruct Q as (C & _). rewrite C in A'. cbn in A'.
        rewrite (AI A') in J. discriminate.
    - destruct (step_set_child_q orc clock g s c vt x mt a I) as [Q E]. cbn [step] in Q, E.
      rewrite (pending_quiet _ _ Q), (aof_quiet _ _ Q E), app_nil_r. split; [reflexivity|].
      eapply quiet_async; [exact Q|exact AI|]. destruct Q as (C & _). exact C.
    - destruct (step_update_fw_q orc clock g ns t x b I) as [Q E]. cbn [step] in Q, E.
      rewrite (pending_quiet _ _ Q), (aof_quiet _ _ Q E), app_nil_r. split; [reflexivity|].
      eapply quiet_async; [exact Q|exact AI|]. destruct Q as (C & _). exact C.
    - rewrite app_nil_r. split; [reflexivity|exact AI].
  Qed.

  Lemma run_fold v ops : forall g, cfg_is v (g_cf g) -> Inv orc g -> Forall op_ok ops -> async_idle g ->
    let g' := run orc clock g ops in
    fold_left (astep v (cf_callback (g_cf g))) (pending g') (aof g') =
    fold_left (astep v (cf_callback (g_cf g))) (pending g ++ recv_lines ops) (aof g) /\ async_idle g'.
  Proof.
    induction ops as [|o ops IH]; intros g CI I F AI; cbv zeta.
    - simpl. rewrite app_nil_r. split; [reflexivity|exact AI].
    - inversion F as [|? ? O F']; subst.
      destruct (step_fold v g o CI I O AI) as [S1 A1].
      destruct (step_ok orc clock g o (cfg_is_ok _ _ CI) I O) as [I1 C1].
      assert (CI1 : cfg_is v (g_cf (step orc clock g o))) by (rewrite C1; exact CI).
      destruct (IH (step orc clock g o) CI1 I1 F' A1) as [S2 A2].
      unfold run in *. cbn [fold_left]. split; [|exact A2].
      rewrite C1 in S2. rewrite S2, fold_left_app, S1.
      change (recv_lines (o :: ops)) with (op_lines o ++ recv_lines ops).
      rewrite !fold_left_app. reflexivity.
  Qed.

  Lemma cfg_is_init v cf : cfg_is v cf -> cfg_is v (g_cf (gw_init cf)).
  Proof. intro C. exact C. Qed.

  (* C04.2, both flavours, any placement of pump iterations and controller calls: processing
     the still-queued lines abstractly from the current tree / callback log gives the meaning
     of ALL received lines in order *)
  Theorem history_meaning v cf ops : cfg_is v cf -> Forall op_ok ops ->
    let g := run orc clock (gw_init cf) ops in
    fold_left (astep v (cf_callback cf)) (pending g) (P g, cbs (g_log g)) =
    fold_left (astep v (cf_callback cf)) (recv_lines ops) ([], []).
  Proof.
    intros CI F g.
    assert (AI : async_idle (gw_init cf)) by (intros _; reflexivity).
    destruct (run_fold v ops (gw_init cf) CI (Inv_init orc cf) F AI) as [S _]. exact S.
  Qed.

  Theorem tree_is_fold_of_meaning v cf ops : cfg_is v cf -> Forall op_ok ops ->
    let g := run orc clock (gw_init cf) ops in
    fold_left (mlv v) (pending g) (P g) = fold_left (mlv v) (recv_lines ops) [].
  Proof.
    intros CI F g. pose proof (history_meaning v cf ops CI F) as H. cbv zeta in H. fold g in H.
    apply (f_equal fst) in H. rewrite !fst_fold_astep in H. exact H.
  Qed.

  (* asyncio flavour: nothing is ever queued *)
  Theorem async_never_queues v cf ops : cfg_is v cf -> Forall op_ok ops -> cf_async cf = true ->
    g_jobs (run orc clock (gw_init cf) ops) = [].
  Proof.
    intros CI F A.
    assert (AI : async_idle (gw_init cf)) by (intros _; reflexivity).
    destruct (run_fold v ops (gw_init cf) CI (Inv_init orc cf) F AI) as [_ A2].
    apply A2. destruct (run_ok orc clock ops (gw_init cf) (cfg_is_ok _ _ CI) (Inv_init orc cf) F) as [_ C].
    rewrite C. exact A.
  Qed.

  Theorem tree_async v cf ls : cfg_is v cf -> cf_async cf = true ->
    P (run orc clock (gw_init cf) (map Recv ls)) = fold_left (mlv v) ls [].
  Proof.
    intros CI A.
    assert (F : Forall op_ok (map Recv ls)) by (apply Forall_forall; intros o IN; apply in_map_iff in IN as [l [<- _]]; exact Logic.I).
    pose proof (tree_is_fold_of_meaning v cf (map Recv ls) CI F) as H. cbv zeta in H.
    unfold pending in H. rewrite (async_never_queues v cf _ CI F A) in H. cbn [flat_map fold_left] in H.
    rewrite recv_lines_map in H. exact H.
  Qed.

  (* asyncio flavour, with controller calls and (idle) pump iterations anywhere *)
  Theorem tree_async_ops v cf ops : cfg_is v cf -> Forall op_ok ops -> cf_async cf = true ->
    P (run orc clock (gw_init cf) ops) = fold_left (mlv v) (recv_lines ops) [].
  Proof.
    intros CI F A. pose proof (tree_is_fold_of_meaning v cf ops CI F) as H. cbv zeta in H.
    unfold pending in H. rewrite (async_never_queues v cf _ CI F A) in H. exact H.
  Qed.

  (* threaded flavour: any placement of pump iterations; once no line is queued any more *)
  Theorem tree_threaded_drained v cf ops : cfg_is v cf -> Forall op_ok ops ->
    pending (run orc clock (gw_init cf) ops) = [] ->
    P (run orc clock (gw_init cf) ops) = fold_left (mlv v) (recv_lines ops) [].
  Proof.
    intros CI F D. pose proof (tree_is_fold_of_meaning v cf ops CI F) as H. cbv zeta in H.
    rewrite D in H. exact H.
  Qed.

  (* the callback log over a history: exactly one event per alerting accepted line, in order,
     each with the tree after that line *)
  Theorem callbacks_drained v cf ops : cfg_is v cf -> Forall op_ok ops ->
    pending (run orc clock (gw_init cf) ops) = [] ->
    cbs (g_log (run orc clock (gw_init cf) ops)) =
    snd (fold_left (astep v (cf_callback cf)) (recv_lines ops) ([], [])).
  Proof.
    intros CI F D. pose proof (history_meaning v cf ops CI F) as H. cbv zeta in H.
    rewrite D in H. cbn [fold_left] in H. rewrite <- H. reflexivity.
  Qed.
End History.
