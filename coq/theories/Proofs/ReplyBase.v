(* C05 groundwork: observations of one dispatcher call, the view of the state the reply table
   reads, per-version finite facts about the generated tables/registry, the closed form of
   Gateway._route_message, and the algebra of handler effects. *)
From Coq Require Import List NArith ZArith Bool String Lia.
From PMS Require Import Base.PyStr Base.PyInt Base.Exn Model.Codec Model.Rules Model.TableTypes
  Gen.Tables Model.Validate Model.Hex Model.Ota Model.Oracles Model.Gateway Spec.SerialApi Spec.ReplyTable
  Proofs.PyStrFacts Proofs.PyIntFacts Proofs.CodecProofs Proofs.ValidateProofs Proofs.GwLemmas Proofs.GwInv.
Import ListNotations.
Open Scope string_scope.
Open Scope list_scope.
Open Scope Z_scope.

(* ---------------------------------------------------------------- observations *)
Fixpoint sends (l : list event) : list pstr :=
  match l with
  | [] => []
  | ESend s :: r => s :: sends r
  | _ :: r => sends r
  end.

Lemma sends_app a b : sends (a ++ b) = sends a ++ sends b.
Proof. induction a as [|[s|m t|e] a IH]; simpl; [reflexivity|rewrite IH; reflexivity|exact IH|exact IH]. Qed.

Definition olist {A} (o : option A) : list A := match o with Some x => [x] | None => [] end.

Definition queue_of (g : gw) (k : Z) : list pstr :=
  match get_node g k with Some nd => n_queue nd | None => [] end.
Definition vsleep (g : gw) (k : Z) : bool :=
  match get_node g k with Some nd => sleeping nd | None => false end.

(* the view of the state that the reply table reads *)
Definition view_of (clock : Z) (g : gw) : view :=
  mkView (map fst (g_sensors g))
    (fun n c => match get_node g n with Some nd => zhas c (n_children nd) | None => false end)
    (vsleep g)
    (fun n c s => match get_node g n with
                  | Some nd => match zassoc c (n_new nd) with
                               | Some dv => match zassoc s dv with Some (Some v) => Some (py_str v) | _ => None end
                               | None => None
                               end
                  | None => None
                  end)
    (fun n c s => match get_node g n with
                  | Some nd => match zassoc c (n_children nd) with
                               | Some ch => option_map py_str (zassoc s (c_values ch))
                               | None => None
                               end
                  | None => None
                  end)
    (fun n => match get_node g n with Some nd => n_reboot nd | None => false end)
    (g_metric g) clock
    (fun m => match respond_fw_config g m with Ok (_, Some r) => Some (m_payload r) | _ => None end)
    (fun m => match respond_fw g m with Ok (_, Some r) => Some (m_payload r) | _ => None end).

Lemma known_view clock g n : known (view_of clock g) n = zhas n (g_sensors g).
Proof.
  unfold known, view_of, zhas. simpl. induction (g_sensors g) as [|[k a] l IH]; simpl; [reflexivity|].
  destruct (Z.eqb n k); [reflexivity|exact IH].
Qed.

(* ---------------------------------------------------------------- finite facts, per version *)
Definition cfgv (v : ver) (g : gw) : Prop := cf_tab (g_cf g) = tab_of v /\ cf_ge20 (g_cf g) = ge20 v.

Lemma cfgv_tab v g : cfgv v g -> tab g = tab_of v.
Proof. intros [T _]. exact T. Qed.
Lemma cfgv_cfg v g : cfgv v g -> cfg_ok (g_cf g).
Proof. intros [T G]. exists v. split; assumption. Qed.
Lemma cfgv_ext v g g' : g_cf g' = g_cf g -> cfgv v g -> cfgv v g'.
Proof. unfold cfgv. intros ->. tauto. Qed.

Lemma ge20_eq v : ge20 v = v_ge20 v.
Proof. destruct v; reflexivity. Qed.

Lemma sys255 : system_child_id = 255.
Proof. reflexivity. Qed.

Lemma k_presentation v : vt_presentation (tab_of v) = 0. Proof. destruct v; vm_compute; reflexivity. Qed.
Lemma k_set v : vt_set (tab_of v) = 1. Proof. destruct v; vm_compute; reflexivity. Qed.
Lemma k_req v : vt_req (tab_of v) = 2. Proof. destruct v; vm_compute; reflexivity. Qed.
Lemma k_internal v : vt_internal (tab_of v) = 3. Proof. destruct v; vm_compute; reflexivity. Qed.
Lemma k_stream v : vt_stream (tab_of v) = 4. Proof. destruct v; vm_compute; reflexivity. Qed.
Lemma k_max_node v : vt_max_node (tab_of v) = 254. Proof. destruct v; vm_compute; reflexivity. Qed.
Lemma k_reboot v : sassoc (s2p "I_REBOOT") (vt_internal_members (tab_of v)) = Some 13.
Proof. destruct v; vm_compute; reflexivity. Qed.
Lemma k_id_response v : sassoc (s2p "I_ID_RESPONSE") (vt_internal_members (tab_of v)) = Some 4.
Proof. destruct v; vm_compute; reflexivity. Qed.
Lemma k_presentation_req v : ge20 v = true ->
  sassoc (s2p "I_PRESENTATION") (vt_internal_members (tab_of v)) = Some 19.
Proof. destruct v; intro H; try discriminate H; vm_compute; reflexivity. Qed.
Lemma k_discover v : ge20 v = true ->
  sassoc (s2p "I_DISCOVER") (vt_internal_members (tab_of v)) = Some 20.
Proof. destruct v; intro H; try discriminate H; vm_compute; reflexivity. Qed.
Lemma k_fw_config_response v :
  sassoc (s2p "ST_FIRMWARE_CONFIG_RESPONSE") (vt_stream_members (tab_of v)) = Some 1.
Proof. destruct v; vm_compute; reflexivity. Qed.
Lemma k_fw_response v : sassoc (s2p "ST_FIRMWARE_RESPONSE") (vt_stream_members (tab_of v)) = Some 3.
Proof. destruct v; vm_compute; reflexivity. Qed.

Lemma k_type_handlers v :
  type_handler (tab_of v) 0 = Some HPresentation /\ type_handler (tab_of v) 1 = Some HSet /\
  type_handler (tab_of v) 2 = Some HReq /\ type_handler (tab_of v) 3 = Some HInternal /\
  type_handler (tab_of v) 4 = Some HStream.
Proof. destruct v; vm_compute; repeat split; reflexivity. Qed.

(* what each handler function of handler.py does, in the words of the reply table; the
   per-handler lemmas of ReplyProofs.v justify every line.  None: a function that must not be
   registered for an internal sub-type. *)
Definition act_of (o : option hfun) : option action :=
  match o with
  | None | Some HLog | Some HGatewayReady => Some Silent
  | Some HBattery | Some HSketchName | Some HSketchVersion | Some HHeartbeat22
  | Some HDiscoverResponse => Some NodeGuard
  | Some HTime => Some Time
  | Some HConfig => Some Config
  | Some HIdRequest => Some IdRequest
  | Some HGatewayReady20 => Some Discover
  | Some HHeartbeat | Some HPreSleep => Some WakeUp
  | Some _ => None
  end.

Lemma map_eq_In {A B} (f g : A -> B) l x : map f l = map g l -> In x l -> f x = g x.
Proof.
  induction l as [|a l IH]; simpl; intros E H; [contradiction|].
  inversion E. destruct H as [H|H]; [subst; assumption|auto].
Qed.

(* the handler resolution of the generated registry against the hand-written table *)
Lemma internal_resolution v s : between 0 (max_sub v 3) s = true ->
  act_of (sub_handler (tab_of v) 3 s) = Some (internal_action v s).
Proof.
  intro B.
  apply (map_eq_In (fun s => act_of (sub_handler (tab_of v) 3 s)) (fun s => Some (internal_action v s))
                   (zrange (max_sub v 3))).
  - destruct v; vm_compute; reflexivity.
  - apply In_zrange. unfold between in B. lia.
Qed.

Definition stream_expected (s : Z) : option hfun :=
  if s =? 0 then Some HFwConfigReq else if s =? 2 then Some HFwReq else None.

Lemma stream_resolution v s : between 0 (max_sub v 4) s = true ->
  sub_handler (tab_of v) 4 s = stream_expected s.
Proof.
  intro B.
  apply (map_eq_In (sub_handler (tab_of v) 4) stream_expected (zrange (max_sub v 4))).
  - destruct v; vm_compute; reflexivity.
  - apply In_zrange. unfold between in B. lia.
Qed.

(* header ranges of a validated message *)
Lemma validated_ranges orc v m :
  validate (orc_version orc) (orc_float orc) (tab_of v) m = true ->
  0 <= m_node m <= 255 /\ 0 <= m_type m <= 4 /\ (m_ack m = 0 \/ m_ack m = 1) /\
  between 0 (max_sub v (m_type m)) (m_sub m) = true /\
  spec_child_ok (m_type m) (m_sub m) (m_child m) = true.
Proof.
  rewrite validate_conforms. unfold spec_accepts. intro V.
  repeat match type of V with _ && _ = true => apply andb_true_iff in V as [V ?] end.
  match goal with H : one_of _ _ = true |- _ => unfold one_of in H; cbn [existsb] in H end.
  unfold between in *. repeat split; try lia; assumption.
Qed.

(* ---------------------------------------------------------------- effects *)
Lemma encode_nonnil m : encode m <> [].
Proof. rewrite encode_body. destruct (body_of m); discriminate. Qed.

Lemma send_encode g m : send g (encode m) = emit g (ESend (encode m)).
Proof. unfold send. pose proof (encode_nonnil m). destruct (encode m); [contradiction|reflexivity]. Qed.

Definition enqueue (g : gw) (x : msg) : gw :=
  match get_node g (m_node x) with
  | Some nd => put_node g (with_queue nd (n_queue nd ++ [encode x]))
  | None => g
  end.

Section Effects.
  Variable orc : oracles.
  Variable clock : Z.
  Variable v : ver.

  Notation wh g := (withheld (vsleep g)).

  (* Gateway._route_message, closed *)
  Lemma route_closed g x : cfgv v g ->
    route g x = if m_type x =? 0 then (g, None)
                else if wh g x then (enqueue g x, None) else (g, Some x).
  Proof.
    intro C. unfold route. rewrite (cfgv_tab v g C), k_presentation, k_stream.
    destruct (m_type x =? 0); [reflexivity|].
    unfold withheld, vsleep, enqueue.
    destruct (get_node g (m_node x)) as [nd|]; [|rewrite andb_false_r; reflexivity].
    destruct (m_type x =? 4); cbn [negb orb andb]; [reflexivity|].
    destruct (sleeping nd); reflexivity.
  Qed.

  (* outputs of a piece of a dispatcher call: the command strings handed to tasks.add_job *)
  Definition outs (g g' : gw) (ns : list pstr) : Prop :=
    if cf_async (g_cf g)
    then sends (g_log g') = sends (g_log g) ++ ns /\ g_jobs g' = g_jobs g
    else sends (g_log g') = sends (g_log g) /\ g_jobs g' = g_jobs g ++ map JSend ns.

  (* g' arises from g by emitting / withholding exactly the commands N (in this order) and
     by changes that routing does not see *)
  Definition heff (g g' : gw) (N : list msg) : Prop :=
    g_cf g' = g_cf g /\
    (forall k, vsleep g' k = vsleep g k) /\
    outs g g' (emitted_part (vsleep g) N) /\
    (forall k, queue_of g' k = queue_of g k ++ withheld_part (vsleep g) k N).

  Lemma withheld_ext (s1 s2 : Z -> bool) x : (forall k, s1 k = s2 k) -> withheld s1 x = withheld s2 x.
  Proof. intro E. unfold withheld. rewrite E. reflexivity. Qed.
  Lemma emitted_ext (s1 s2 : Z -> bool) N : (forall k, s1 k = s2 k) -> emitted_part s1 N = emitted_part s2 N.
  Proof.
    intro E. unfold emitted_part. f_equal. apply filter_ext. intro x. rewrite (withheld_ext s1 s2 x E). reflexivity.
  Qed.
  Lemma withheld_part_ext (s1 s2 : Z -> bool) k N : (forall k, s1 k = s2 k) -> withheld_part s1 k N = withheld_part s2 k N.
  Proof.
    intro E. unfold withheld_part. f_equal. apply filter_ext. intro x. rewrite (withheld_ext s1 s2 x E). reflexivity.
  Qed.
  Lemma emitted_app sl a b : emitted_part sl (a ++ b) = emitted_part sl a ++ emitted_part sl b.
  Proof. unfold emitted_part. rewrite filter_app, map_app. reflexivity. Qed.
  Lemma withheld_part_app sl k a b : withheld_part sl k (a ++ b) = withheld_part sl k a ++ withheld_part sl k b.
  Proof. unfold withheld_part. rewrite filter_app, map_app. reflexivity. Qed.

  Lemma heff_refl g : heff g g [].
  Proof.
    split; [reflexivity|]. split; [reflexivity|]. split.
    - unfold outs. destruct (cf_async (g_cf g)); simpl; rewrite app_nil_r; split; reflexivity.
    - intro k. simpl. rewrite app_nil_r. reflexivity.
  Qed.

  Lemma heff_trans g g1 g2 N1 N2 : heff g g1 N1 -> heff g1 g2 N2 -> heff g g2 (N1 ++ N2).
  Proof.
    intros (C1 & S1 & O1 & Q1) (C2 & S2 & O2 & Q2).
    split; [congruence|]. split; [intro k; rewrite S2; apply S1|]. split.
    - unfold outs in *. rewrite C1 in O2. rewrite emitted_app.
      rewrite (emitted_ext (vsleep g1) (vsleep g) N2 S1) in O2.
      destruct (cf_async (g_cf g)).
      + destruct O1 as [A1 B1], O2 as [A2 B2]. split; [|congruence].
        rewrite A2, A1, app_assoc. reflexivity.
      + destruct O1 as [A1 B1], O2 as [A2 B2]. split; [congruence|].
        rewrite B2, B1, map_app, app_assoc. reflexivity.
    - intro k. rewrite Q2, Q1, withheld_part_app, (withheld_part_ext (vsleep g1) (vsleep g) k N2 S1), app_assoc.
      reflexivity.
  Qed.

  Lemma heff_trans_l g g1 g2 N : heff g g1 [] -> heff g1 g2 N -> heff g g2 N.
  Proof. intros A B. exact (heff_trans g g1 g2 [] N A B). Qed.
  Lemma heff_trans_r g g1 g2 N : heff g g1 N -> heff g1 g2 [] -> heff g g2 N.
  Proof. intros A B. pose proof (heff_trans g g1 g2 N [] A B) as H. rewrite app_nil_r in H. exact H. Qed.

  (* a change that keeps configuration, job queue, the sends of the log, and the routing view *)
  Lemma heff_silent g g' :
    g_cf g' = g_cf g -> g_jobs g' = g_jobs g -> sends (g_log g') = sends (g_log g) ->
    (forall k, vsleep g' k = vsleep g k) -> (forall k, queue_of g' k = queue_of g k) -> heff g g' [].
  Proof.
    intros C J L S Q. split; [exact C|]. split; [exact S|]. split.
    - unfold outs. destruct (cf_async (g_cf g)); simpl; rewrite app_nil_r; split; assumption.
    - intro k. simpl. rewrite app_nil_r. apply Q.
  Qed.

  Lemma heff_alert g m : heff g (alert g m) [].
  Proof.
    apply heff_silent; unfold alert;
      destruct (cf_callback (g_cf g)), (cf_persist (g_cf g)); simpl; try reflexivity;
      try (rewrite sends_app; simpl; rewrite app_nil_r; reflexivity).
  Qed.

  Lemma heff_set_ota g o : heff g (set_ota g o) [].
  Proof. apply heff_silent; reflexivity. Qed.

  Lemma get_node_put g nd k :
    get_node (put_node g nd) k = if Z.eqb k (n_id nd) then Some nd else get_node g k.
  Proof.
    unfold get_node, put_node. simpl. destruct (Z.eqb_spec k (n_id nd)) as [->|N].
    - apply zassoc_zset_same.
    - apply zassoc_zset_other. congruence.
  Qed.

  Lemma heff_put_node g nd nd' :
    get_node g (n_id nd') = Some nd -> n_queue nd' = n_queue nd -> sleeping nd' = sleeping nd ->
    heff g (put_node g nd') [].
  Proof.
    intros G Q S. apply heff_silent; try reflexivity.
    - intro k. unfold vsleep. rewrite get_node_put. destruct (Z.eqb_spec k (n_id nd')) as [->|N]; [|reflexivity].
      rewrite G. exact S.
    - intro k. unfold queue_of. rewrite get_node_put. destruct (Z.eqb_spec k (n_id nd')) as [->|N]; [|reflexivity].
      rewrite G. exact Q.
  Qed.

  Lemma get_node_add_sensor_other g sid k :
    get_node (add_sensor g sid) k =
    match get_node g k with
    | Some nd => Some nd
    | None => if Z.eqb k sid then Some (new_node sid) else None
    end.
  Proof.
    unfold add_sensor. destruct (zhas sid (g_sensors g)) eqn:H.
    - destruct (get_node g k) eqn:G; [reflexivity|].
      destruct (Z.eqb_spec k sid) as [->|N]; [|reflexivity].
      unfold zhas in H. unfold get_node in G. rewrite G in H. discriminate.
    - unfold get_node. simpl. rewrite zassoc_app. destruct (zassoc k (g_sensors g)); [reflexivity|].
      simpl. reflexivity.
  Qed.

  Lemma heff_add_sensor g sid : heff g (add_sensor g sid) [].
  Proof.
    apply heff_silent.
    - apply cf_add_sensor.
    - unfold add_sensor. destruct (zhas sid (g_sensors g)); reflexivity.
    - unfold add_sensor. destruct (zhas sid (g_sensors g)); reflexivity.
    - intro k. unfold vsleep. rewrite get_node_add_sensor_other.
      destruct (get_node g k); [reflexivity|]. destruct (Z.eqb k sid); reflexivity.
    - intro k. unfold queue_of. rewrite get_node_add_sensor_other.
      destruct (get_node g k); [reflexivity|]. destruct (Z.eqb k sid); reflexivity.
  Qed.

  (* a withheld command goes to the end of the addressed node's queue *)
  Lemma heff_enqueue g x : Inv orc g -> wh g x = true -> heff g (enqueue g x) [x].
  Proof.
    intros I W. unfold enqueue.
    assert (W' := W). unfold withheld, vsleep in W'. apply andb_true_iff in W' as [_ W'].
    destruct (get_node g (m_node x)) as [nd|] eqn:G; [|discriminate].
    pose proof (get_node_ok orc g _ _ I G) as [K _]. simpl in K.
    split; [reflexivity|]. split; [|split].
    - intro k. unfold vsleep. rewrite get_node_put. simpl. rewrite K.
      destruct (Z.eqb_spec k (m_node x)) as [->|N]; [rewrite G|]; reflexivity.
    - unfold outs, emitted_part. simpl. rewrite W. simpl.
      destruct (cf_async (g_cf g)); simpl; rewrite app_nil_r; split; reflexivity.
    - intro k. unfold queue_of, withheld_part. rewrite get_node_put. simpl. rewrite K, W. simpl.
      rewrite (Z.eqb_sym (m_node x) k).
      destruct (Z.eqb_spec k (m_node x)) as [->|N]; simpl; [rewrite G; reflexivity|rewrite app_nil_r; reflexivity].
  Qed.

  (* tasks.add_job(msg.encode) of a command that is not withheld *)
  Lemma heff_add_job g x : wh g x = false -> heff g (add_job_send g (encode x)) [x].
  Proof.
    intro W. split; [apply cf_add_job|]. split; [|split].
    - intro k. unfold vsleep, get_node. destruct (add_job_send_frame g (encode x)) as (S&_). rewrite S. reflexivity.
    - unfold outs, emitted_part. simpl. rewrite W. simpl. unfold add_job_send.
      destruct (cf_async (g_cf g)).
      + rewrite send_encode. simpl. rewrite sends_app. split; reflexivity.
      + simpl. split; reflexivity.
    - intro k. unfold queue_of, get_node, withheld_part. destruct (add_job_send_frame g (encode x)) as (S&_).
      rewrite S. simpl. rewrite W. simpl. rewrite app_nil_r. reflexivity.
  Qed.

  (* is_sensor's `if self._route_message(msg): self.tasks.add_job(msg.encode)` *)
  Definition deliver (g : gw) (x : msg) : gw :=
    let '(g1, r) := route g x in
    match r with Some m' => add_job_send g1 (encode m') | None => g1 end.

  Lemma heff_deliver g x : cfgv v g -> Inv orc g -> (m_type x =? 0) = false -> heff g (deliver g x) [x].
  Proof.
    intros C I T. unfold deliver. rewrite (route_closed g x C), T.
    destruct (wh g x) eqn:W.
    - apply heff_enqueue; assumption.
    - apply heff_add_job. exact W.
  Qed.

  (* the reply of a handler, as far as routing lets it through (presentations are dropped) *)
  Definition olist_np (rep : option msg) : list msg :=
    match rep with Some x => if m_type x =? 0 then [] else [x] | None => [] end.

  Lemma route_opt_eff g rep g2 routed : cfgv v g -> Inv orc g ->
    route_opt g rep = (g2, routed) ->
    exists H, heff g g2 H /\
      H ++ filter (fun x => negb (wh g x)) (olist_np rep) = olist_np rep /\
      olist routed = filter (fun x => negb (wh g x)) (olist_np rep) /\
      H = filter (fun x => wh g x) (olist_np rep).
  Proof.
    intros C I R. destruct rep as [x|]; simpl in R.
    - rewrite (route_closed g x C) in R. unfold olist_np.
      destruct (m_type x =? 0).
      + inversion R; subst. exists []. split; [apply heff_refl|repeat split; reflexivity].
      + simpl. destruct (wh g x) eqn:W; inversion R; subst; simpl.
        * exists [x]. split; [apply heff_enqueue; assumption|repeat split; reflexivity].
        * exists []. split; [apply heff_refl|repeat split; reflexivity].
    - inversion R; subst. exists []. split; [apply heff_refl|repeat split; reflexivity].
  Qed.
End Effects.
