(* C16 - proofs: the enumerator `explore` is complete for every schedule; the generated
   programs pass the check (vm_compute); the pre-fix send is refuted; the queue is FIFO. *)
From Coq Require Import List NArith Bool Arith Lia.
From PMS Require Import Base.Exn Model.SendRace Gen.SendSteps.
Import ListNotations.

(* ------------------------------------------------------------------ sound equality tests *)

Lemma exn_eqb_sound : forall a b, exn_eqb a b = true -> a = b.
Proof. destruct a, b; simpl; intro H; try discriminate H; reflexivity. Qed.

Lemma meth_eqb_sound : forall a b, meth_eqb a b = true -> a = b.
Proof.
  destruct a, b; simpl; intro H; try discriminate H; try reflexivity;
    apply N.eqb_eq in H; subst; reflexivity.
Qed.

Lemma val_eqb_sound : forall a b, val_eqb a b = true -> a = b.
Proof.
  destruct a, b; simpl; intro H; try discriminate H; try reflexivity.
  - apply N.eqb_eq in H; subst; reflexivity.
  - apply N.eqb_eq in H; subst; reflexivity.
  - apply meth_eqb_sound in H; subst; reflexivity.
Qed.

Lemma list_eqb_sound {A} (eqb : A -> A -> bool) :
  (forall x y, eqb x y = true -> x = y) -> forall l m, list_eqb eqb l m = true -> l = m.
Proof.
  intros Hs; induction l as [|x l IH]; destruct m as [|y m]; simpl; intro H; try discriminate H.
  - reflexivity.
  - apply andb_true_iff in H as [H1 H2]. apply Hs in H1. apply IH in H2. subst; reflexivity.
Qed.

Lemma opt_eqb_sound {A} (eqb : A -> A -> bool) :
  (forall x y, eqb x y = true -> x = y) -> forall a b, opt_eqb eqb a b = true -> a = b.
Proof.
  intros Hs [x|] [y|]; simpl; intro H; try discriminate H; try reflexivity.
  apply Hs in H; subst; reflexivity.
Qed.

Lemma entry_eqb_sound : forall a b, entry_eqb a b = true -> a = b.
Proof.
  intros [[c v] o] [[d w] p]; simpl; intro H.
  apply andb_true_iff in H as [H H3]. apply andb_true_iff in H as [H1 H2].
  apply N.eqb_eq in H1. apply val_eqb_sound in H2. apply eqb_prop in H3. subst; reflexivity.
Qed.

Lemma N_eqb_sound : forall x y, N.eqb x y = true -> x = y.
Proof. intros x y H; apply N.eqb_eq; exact H. Qed.

Lemma heap_eqb_sound : forall a b, heap_eqb a b = true -> a = b.
Proof.
  intros [a1 a2 a3 a4 a5 a6 a7 a8] [b1 b2 b3 b4 b5 b6 b7 b8]; unfold heap_eqb; simpl; intro H.
  repeat (apply andb_true_iff in H as [H ?]).
  apply eqb_prop in H.
  repeat match goal with
         | X : Bool.eqb _ _ = true |- _ => apply eqb_prop in X
         | X : N.eqb _ _ = true |- _ => apply N.eqb_eq in X
         | X : opt_eqb _ _ _ = true |- _ => apply (opt_eqb_sound _ N_eqb_sound) in X
         | X : list_eqb _ _ _ = true |- _ => apply (list_eqb_sound _ entry_eqb_sound) in X
         end.
  subst; reflexivity.
Qed.

Lemma thread_eqb_sound : forall a b, thread_eqb a b = true -> a = b.
Proof.
  intros [p r e] [p' r' e']; unfold thread_eqb; simpl; intro H.
  apply andb_true_iff in H as [H H3]. apply andb_true_iff in H as [H1 H2].
  apply Nat.eqb_eq in H1. apply (opt_eqb_sound _ exn_eqb_sound) in H2.
  apply (list_eqb_sound _ val_eqb_sound) in H3. subst; reflexivity.
Qed.

Lemma cfg_eqb_sound : forall a b, cfg_eqb a b = true -> a = b.
Proof.
  intros [a1 a2 a3] [b1 b2 b3]; unfold cfg_eqb; simpl; intro H.
  apply andb_true_iff in H as [H H3]. apply andb_true_iff in H as [H1 H2].
  apply thread_eqb_sound in H1. apply thread_eqb_sound in H2. apply heap_eqb_sound in H3.
  subst; reflexivity.
Qed.

(* ------------------------------------------------------------------ dedup keeps everything *)

Lemma add_new_keeps : forall acc c x, In x acc -> In x (add_new acc c).
Proof.
  intros acc c x H; unfold add_new. destruct (existsb (cfg_eqb c) acc); [exact H | right; exact H].
Qed.

Lemma add_new_adds : forall acc c, In c (add_new acc c).
Proof.
  intros acc c; unfold add_new. destruct (existsb (cfg_eqb c) acc) eqn:E.
  - apply existsb_exists in E as [y [Hy Heq]]. apply cfg_eqb_sound in Heq. subst; exact Hy.
  - left; reflexivity.
Qed.

Lemma fold_add_new : forall l acc x, In x acc \/ In x l -> In x (fold_left add_new l acc).
Proof.
  induction l as [|a l IH]; simpl; intros acc x H.
  - destruct H as [H|[]]; exact H.
  - apply IH. destruct H as [H|[H|H]].
    + left; apply add_new_keeps; exact H.
    + subst; left; apply add_new_adds.
    + right; exact H.
Qed.

Lemma dedup_complete : forall l x, In x l -> In x (dedup l).
Proof. intros l x H; unfold dedup; apply fold_add_new; right; exact H. Qed.

(* ------------------------------------------------------------------ every step makes progress *)

Lemma find_label_ge : forall code l base k, find_label code l base = Some k -> base <= k.
Proof.
  induction code as [|s r IH]; simpl; intros l base k H; [discriminate H|].
  destruct (s_ins s); try (apply IH in H; lia).
  destruct (Nat.eqb l l0); [injection H as <-; lia | apply IH in H; lia].
Qed.

Lemma jump_progress : forall prog t l,
  t_pc t < length prog -> remaining prog (jump prog t l) < length prog - t_pc t.
Proof.
  intros prog t l Hlt; unfold jump, goto.
  destruct (find_label (skipn (S (t_pc t)) prog) l (S (t_pc t))) eqn:E.
  - apply find_label_ge in E. unfold remaining; simpl. lia.
  - unfold remaining, die; simpl. lia.
Qed.

Lemma step_thread_progress : forall prog t h,
  enabled prog t = true -> remaining prog (fst (step_thread prog t h)) < remaining prog t.
Proof.
  intros prog t h He. unfold enabled in He. destruct (t_exn t) eqn:Ex; [discriminate He|].
  apply Nat.ltb_lt in He. unfold remaining at 2; rewrite Ex.
  unfold step_thread. destruct (nth_error prog (t_pc t)) as [s|] eqn:En.
  2:{ apply nth_error_None in En; lia. }
  destruct (exec_instr (s_ins s) (t_regs t) h) as [rs h'|l| |e h'].
  - unfold remaining; simpl; lia.
  - simpl; apply jump_progress; exact He.
  - unfold remaining; simpl; lia.
  - destruct (s_hdl s) as [l|]; [destruct (exn_eqb e OSError)|]; simpl;
      try (apply jump_progress; exact He); unfold remaining, die; simpl; lia.
Qed.

Lemma cstep_progress : forall pa pb w c c',
  cstep pa pb w c = Some c' -> measure pa pb c' < measure pa pb c.
Proof.
  intros pa pb w c c' H; unfold cstep in H; destruct w.
  - destruct (enabled pa (c_a c)) eqn:E; [|discriminate H].
    pose proof (step_thread_progress pa (c_a c) (c_h c) E) as P.
    destruct (step_thread pa (c_a c) (c_h c)) as [t h]; injection H as <-.
    unfold measure; simpl in *; lia.
  - destruct (enabled pb (c_b c)) eqn:E; [|discriminate H].
    pose proof (step_thread_progress pb (c_b c) (c_h c) E) as P.
    destruct (step_thread pb (c_b c) (c_h c)) as [t h]; injection H as <-.
    unfold measure; simpl in *; lia.
Qed.

(* ------------------------------------------------------------------ explore is complete *)

Lemma reach_incl : forall pa pb n S c, In c S -> In c (reach pa pb n S).
Proof.
  intros pa pb n; destruct n; simpl; intros S c H; [exact H | apply in_or_app; left; exact H].
Qed.

Lemma cstep_in_succs : forall pa pb w c c', cstep pa pb w c = Some c' -> In c' (succs pa pb c).
Proof.
  intros pa pb w c c' H; unfold succs; apply in_or_app; destruct w.
  - left; rewrite H; left; reflexivity.
  - right; rewrite H; left; reflexivity.
Qed.

Lemma run_in_reach : forall pa pb sched n S c,
  In c S -> measure pa pb c <= n -> In (run_sched pa pb sched c) (reach pa pb n S).
Proof.
  intros pa pb; induction sched as [|w r IH]; intros n S c Hin Hm; simpl.
  - apply reach_incl; exact Hin.
  - destruct (cstep pa pb w c) as [c'|] eqn:E.
    + pose proof (cstep_progress _ _ _ _ _ E) as P.
      destruct n as [|n']; [lia|]. simpl. apply in_or_app; right.
      apply IH; [|lia]. apply dedup_complete. apply in_flat_map. exists c; split; [exact Hin|].
      eapply cstep_in_succs; exact E.
    + apply IH; assumption.
Qed.

(* explore_complete: the configuration reached by ANY schedule is in the enumeration *)
Theorem explore_complete : forall pa pb sched c, In (run_sched pa pb sched c) (explore pa pb c).
Proof.
  intros pa pb sched c; unfold explore; apply run_in_reach; [left; reflexivity | lia].
Qed.

Lemma all_scenarios_complete : forall sc, In sc all_scenarios.
Proof.
  intros [[] [] [] []]; vm_compute; repeat (first [left; reflexivity | right]).
Qed.

Lemma check_all_safe : forall P, check_all P = true ->
  forall sc sched, safe sc (run_sched (p_send P) (event_prog P (sc_ev sc)) sched (init_cfg P sc)) = true.
Proof.
  intros P H sc sched. unfold check_all in H. rewrite forallb_forall in H.
  specialize (H sc (all_scenarios_complete sc)). unfold check_scenario in H.
  rewrite forallb_forall in H. apply H. apply explore_complete.
Qed.

(* ------------------------------------------------------------------ the sender terminates *)

Lemma disabled_remaining : forall prog t, enabled prog t = false -> remaining prog t = 0.
Proof.
  intros prog t H; unfold enabled in H; unfold remaining. destruct (t_exn t); [reflexivity|].
  apply Nat.ltb_ge in H. lia.
Qed.

Lemma sender_budget : forall pa pb sched c,
  remaining pa (c_a (run_sched pa pb sched c)) <= remaining pa (c_a c) - count_occ bool_dec sched true.
Proof.
  intros pa pb; induction sched as [|w r IH]; intros c; simpl; [lia|].
  destruct w; simpl.
  - unfold cstep. destruct (enabled pa (c_a c)) eqn:E.
    + pose proof (step_thread_progress pa (c_a c) (c_h c) E) as P.
      destruct (step_thread pa (c_a c) (c_h c)) as [t h]. specialize (IH (mkCfg t (c_b c) h)).
      simpl in *. lia.
    + specialize (IH c). apply disabled_remaining in E. lia.
  - unfold cstep. destruct (enabled pb (c_b c)) eqn:E.
    + destruct (step_thread pb (c_b c) (c_h c)) as [t h]. specialize (IH (mkCfg (c_a c) t h)).
      simpl in *. lia.
    + apply IH.
Qed.

(* ------------------------------------------------------------------ the generated programs *)

Definition P_now : progs :=
  mkProgs send_steps send_nregs disconnect_steps disconnect_nregs
          connection_lost_steps connection_lost_nregs connection_made_steps connection_made_nregs.

(* the pre-fix send with the current event code *)
Definition P_unfixed : progs :=
  mkProgs send_steps_unfixed send_unfixed_nregs disconnect_steps disconnect_nregs
          connection_lost_steps connection_lost_nregs connection_made_steps connection_made_nregs.

(* THE finite obligation, re-checked against the step lists generated from the code as it is now *)
Lemma check_now : check_all P_now = true.
Proof. vm_compute. reflexivity. Qed.

Definition final (P : progs) (sc : scenario) (sched : list bool) : config :=
  run_sched (p_send P) (event_prog P (sc_ev sc)) sched (init_cfg P sc).

Definition returned (prog : list step) (t : thread) : Prop :=
  t_exn t = None /\ length prog <= t_pc t.

Lemma written_length_leb : forall log, Nat.leb (length (written log)) 1 = true -> length (written log) <= 1.
Proof. intros log H; apply Nat.leb_le; exact H. Qed.

Theorem send_race_safe_proof : forall (sc : scenario) (sched : list bool),
  let c := final P_now sc sched in
  t_exn (c_a c) = None
  /\ length (written (h_log (c_h c))) <= 1
  /\ (forall cid a, In (cid, a, true) (h_log (c_h c)) -> a = VMsgBytes)
  /\ (sc_msg sc = false -> h_log (c_h c) = [])
  /\ (length send_steps <= count_occ bool_dec sched true -> returned send_steps (c_a c))
  /\ t_exn (c_b c) = None.
Proof.
  intros sc sched c.
  pose proof (check_all_safe P_now check_now sc sched) as H. fold (final P_now sc sched) in H. fold c in H.
  unfold safe in H. repeat (apply andb_true_iff in H as [H ?]).
  assert (Ha : t_exn (c_a c) = None).
  { unfold no_exn in H. destruct (t_exn (c_a c)); [discriminate H | reflexivity]. }
  split; [exact Ha|]. split; [apply written_length_leb; assumption|].
  split.
  { intros cid a Hin.
    match goal with X : forallb entry_ok _ = true |- _ => rewrite forallb_forall in X; specialize (X _ Hin) end.
    simpl in *. apply val_eqb_sound; assumption. }
  split.
  { intro Hm. match goal with X : (sc_msg sc || _)%bool = true |- _ => rewrite Hm in X; simpl in X end.
    destruct (h_log (c_h c)); [reflexivity | discriminate]. }
  split.
  { intro Hc. split; [exact Ha|].
    pose proof (sender_budget send_steps (event_prog P_now (sc_ev sc)) sched (init_cfg P_now sc)) as B.
    change (run_sched send_steps (event_prog P_now (sc_ev sc)) sched (init_cfg P_now sc)) with c in B.
    assert (R0 : remaining send_steps (c_a (init_cfg P_now sc)) <= length send_steps).
    { unfold remaining; simpl; lia. }
    assert (R : remaining send_steps (c_a c) = 0) by lia.
    unfold remaining in R. rewrite Ha in R. lia. }
  match goal with X : no_exn (c_b c) = true |- _ => unfold no_exn in X; destruct (t_exn (c_b c)); [discriminate X | reflexivity] end.
Qed.

(* ------------------------------------------------------------------ sensitivity: the pre-fix code *)

(* guard passes (6 sender steps), the reader thread loses the connection, the sender goes on *)
Definition unfixed_witness_sc : scenario := mkSc EvLostNoErr true false true.
Definition unfixed_witness_sched : list bool := repeat true 6 ++ repeat false 40 ++ repeat true 40.

Theorem send_race_unfixed_refuted_proof :
  exists sc sched, t_exn (c_a (final P_unfixed sc sched)) = Some AttributeError.
Proof. exists unfixed_witness_sc, unfixed_witness_sched. vm_compute. reflexivity. Qed.

(* and with a user disconnect: self.protocol is None at the second look *)
Theorem send_race_unfixed_refuted_disconnect :
  exists sched, t_exn (c_a (final P_unfixed (mkSc EvDisconnect true false true) sched)) = Some AttributeError.
Proof. exists unfixed_witness_sched. vm_compute. reflexivity. Qed.

(* ------------------------------------------------------------------ the queue *)

Section QueueProofs.
  Variable job : Type.
  Notation qst := (qstate job).

  Lemma nth_upd_same : forall (A : Type) (l : list A) i x d, i < length l -> nth i (upd l i x) d = x.
  Proof.
    induction l as [|y l IH]; simpl; intros i x d H; [lia|]. destruct i; simpl; [reflexivity|].
    apply IH; lia.
  Qed.

  Lemma nth_upd_other : forall (A : Type) (l : list A) i j x d, i <> j -> nth j (upd l i x) d = nth j l d.
  Proof.
    induction l as [|y l IH]; simpl; intros i j x d H; [reflexivity|].
    destruct i, j; simpl; try reflexivity; try lia. apply IH; lia.
  Qed.

  Lemma length_upd : forall (A : Type) (l : list A) i x, length (upd l i x) = length l.
  Proof. induction l as [|y l IH]; simpl; intros i x; [reflexivity|]. destruct i; simpl; [reflexivity|]. rewrite IH; reflexivity. Qed.

  Lemma nth_error_upd_same : forall (A : Type) (l : list A) i x y, nth_error (upd l i x) i = Some y -> y = x.
  Proof.
    induction l as [|z l IH]; simpl; intros i x y H.
    - destruct i; discriminate H.
    - destruct i; simpl in H; [injection H as <-; reflexivity | eapply IH; exact H].
  Qed.

  Lemma proj_app : forall p (l m : list (nat * job)), proj p (l ++ m) = proj p l ++ proj p m.
  Proof. intros p l m; unfold proj. rewrite filter_app, map_app. reflexivity. Qed.

  Record qinv (lists : list (list job)) (s : qst) : Prop := mkQinv {
    qi_err : q_err s = false;
    qi_fifo : q_appended s = q_sent s ++ q_queue s;
    qi_one : length (q_checked s) <= 1;
    qi_chk : forall i, nth_error (q_checked s) i = Some true -> q_queue s <> [];
    qi_len : length (q_pending s) = length lists;
    qi_proj : forall p, proj p (q_appended s) ++ nth p (q_pending s) [] = nth p lists [];
    qi_tag : forall x, In x (q_appended s) -> fst x < length lists
  }.

  Lemma qinv_init : forall lists pumps, pumps <= 1 -> qinv lists (qinit lists pumps).
  Proof.
    intros lists pumps Hp; constructor; simpl; try reflexivity.
    - rewrite repeat_length; exact Hp.
    - intros i H. apply nth_error_In in H. apply repeat_spec in H. discriminate H.
    - intros x [].
  Qed.

  Lemma qinv_step : forall lists s e, qinv lists s -> qinv lists (qstep s e).
  Proof.
    intros lists s e I. destruct I as [Ierr Ififo Ione Ichk Ilen Iproj Itag]. destruct e as [p|i]; simpl.
    - destruct (nth_error (q_pending s) p) as [[|j r]|] eqn:En;
        try (constructor; assumption).
      assert (Hp : p < length (q_pending s)) by (apply nth_error_Some; rewrite En; discriminate).
      assert (Hn : nth p (q_pending s) [] = j :: r) by (apply nth_error_nth; exact En).
      constructor; simpl; try assumption.
      + rewrite Ififo, app_assoc; reflexivity.
      + intros i H. apply Ichk in H. destruct (q_queue s); [contradiction|discriminate].
      + rewrite length_upd; exact Ilen.
      + intro p'. rewrite proj_app. destruct (Nat.eq_dec p p') as [<-|Hne].
        * rewrite nth_upd_same by exact Hp. unfold proj at 2; simpl. rewrite Nat.eqb_refl; simpl.
          rewrite <- app_assoc; simpl. rewrite <- Hn. apply Iproj.
        * rewrite nth_upd_other by exact Hne. unfold proj at 2; simpl.
          destruct (Nat.eqb p p') eqn:E; [apply Nat.eqb_eq in E; contradiction|]. simpl.
          rewrite app_nil_r. apply Iproj.
      + intros x Hx. apply in_app_or in Hx as [Hx|[<-|[]]]; [apply Itag; exact Hx|]. simpl. lia.
    - destruct (nth_error (q_checked s) i) as [[|]|] eqn:En; try (constructor; assumption).
      + (* popleft *)
        pose proof (Ichk i En) as Hne. destruct (q_queue s) as [|x r] eqn:Eq; [contradiction|].
        constructor; simpl; try assumption.
        * rewrite Ififo, <- app_assoc; reflexivity.
        * rewrite length_upd; exact Ione.
        * intros i' H.
          assert (Hi : i < length (q_checked s)) by (apply nth_error_Some; rewrite En; discriminate).
          assert (Hi' : i' < length (upd (q_checked s) i false)) by (apply nth_error_Some; rewrite H; discriminate).
          rewrite length_upd in Hi'. assert (i' = i) by lia. subst i'.
          apply nth_error_upd_same in H. discriminate H.
      + (* truth test *)
        destruct (q_queue s) as [|x r] eqn:Eq; [constructor; rewrite ?Eq; assumption|].
        constructor; simpl; try assumption.
        * rewrite length_upd; exact Ione.
        * intros _ _; discriminate.
  Qed.

  Lemma qinv_run : forall lists evs s, qinv lists s -> qinv lists (qrun evs s).
  Proof.
    intros lists; induction evs as [|e r IH]; intros s I; simpl; [exact I|].
    apply IH. apply qinv_step; exact I.
  Qed.

  Theorem queue_fifo_exactly_once_proof : forall (lists : list (list job)) (evs : list qev),
    let s := qrun evs (qinit lists 1) in
    q_err s = false
    /\ q_appended s = q_sent s ++ q_queue s
    /\ (forall p, proj p (q_appended s) ++ nth p (q_pending s) [] = nth p lists [])
    /\ (forall x, In x (q_appended s) -> fst x < length lists).
  Proof.
    intros lists evs s. destruct (qinv_run lists evs _ (qinv_init lists 1 (le_n 1))) as [A B _ _ _ E F].
    repeat split; assumption.
  Qed.

  (* when every producer is done and the pump has emptied the deque: the sent sequence contains
     exactly the producers' jobs, each producer's in its own order *)
  Theorem queue_drained_proof : forall (lists : list (list job)) (evs : list qev),
    let s := qrun evs (qinit lists 1) in
    (forall p, nth p (q_pending s) [] = []) -> q_queue s = [] ->
    (forall p, proj p (q_sent s) = nth p lists []) /\ (forall x, In x (q_sent s) -> fst x < length lists).
  Proof.
    intros lists evs s Hp Hq.
    destruct (queue_fifo_exactly_once_proof lists evs) as [_ [B [C D]]]. fold s in B, C, D.
    rewrite Hq, app_nil_r in B. rewrite B in C, D. split; [|exact D].
    intro p. specialize (C p). rewrite Hp, app_nil_r in C. exact C.
  Qed.
End QueueProofs.

(* two poll threads (not what SyncTasks.start does; shows the check-then-pop matters) *)
Theorem queue_two_pumps_refuted_proof :
  exists evs, q_err (qrun evs (qinit [[7%N]] 2)) = true.
Proof. exists [QProd 0; QPump 0; QPump 1; QPump 0; QPump 1]. vm_compute. reflexivity. Qed.
