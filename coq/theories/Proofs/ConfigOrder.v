(* C18 - numeric comparison of dotted versions (Spec.ConfigSpec.cmpv) is a total
   preorder; its recursive characterisation; the floor function meets its
   specification. *)
From Coq Require Import List NArith ZArith Bool Lia Arith.
From PMS Require Import Base.PyStr Model.ConfigSyntax Spec.ConfigSpec.
Import ListNotations.
Open Scope N_scope.
Open Scope list_scope.

(* ---- lexicographic order on lists *)
Lemma lex_refl a : lex a a = Eq.
Proof. induction a as [|x a IH]; simpl; [reflexivity|]. rewrite N.compare_refl. exact IH. Qed.

Lemma lex_antisym a : forall b, lex b a = CompOpp (lex a b).
Proof.
  induction a as [|x a IH]; intros [|y b]; simpl; try reflexivity.
  rewrite (N.compare_antisym x y). destruct (x ?= y); simpl; auto.
Qed.

Lemma lex_eq a : forall b, lex a b = Eq -> a = b.
Proof.
  induction a as [|x a IH]; intros [|y b]; simpl; intro H; try discriminate; [reflexivity|].
  destruct (x ?= y) eqn:E; try discriminate.
  apply N.compare_eq in E. subst y. f_equal. apply IH. exact H.
Qed.

Lemma lex_lt_trans a : forall b c, lex a b = Lt -> lex b c = Lt -> lex a c = Lt.
Proof.
  induction a as [|x a IH]; intros [|y b] [|z c]; simpl; intros H1 H2; try discriminate; try reflexivity.
  destruct (x ?= y) eqn:E1; try discriminate.
  - apply N.compare_eq in E1. subst y. destruct (x ?= z); try discriminate; auto. eapply IH; eauto.
  - destruct (y ?= z) eqn:E2; try discriminate.
    + apply N.compare_eq in E2. subst z. rewrite E1. reflexivity.
    + assert (E : (x ?= z) = Lt) by (rewrite N.compare_lt_iff in *; lia). rewrite E. reflexivity.
Qed.

Lemma lex_le_trans a b c : lex a b <> Gt -> lex b c <> Gt -> lex a c <> Gt.
Proof.
  intros H1 H2.
  destruct (lex a b) eqn:E1; [|  |congruence].
  - apply lex_eq in E1. subst b. exact H2.
  - destruct (lex b c) eqn:E2; [| |congruence].
    + apply lex_eq in E2. subst c. rewrite E1. discriminate.
    + rewrite (lex_lt_trans _ _ _ E1 E2). discriminate.
Qed.

(* ---- padding *)
Lemma lex_app_zeros k a : forall b, List.length a = List.length b ->
  lex (a ++ repeat 0 k) (b ++ repeat 0 k) = lex a b.
Proof.
  induction a as [|x a IH]; intros [|y b] H; simpl in *; try discriminate.
  - apply lex_refl.
  - destruct (x ?= y); auto.
Qed.

Lemma pad_length n l : (List.length l <= n)%nat -> List.length (pad n l) = n.
Proof. intro H. unfold pad. rewrite app_length, repeat_length. lia. Qed.

Lemma pad_more n m l : (List.length l <= n)%nat -> (n <= m)%nat ->
  pad m l = pad n l ++ repeat 0 (m - n).
Proof.
  intros H1 H2. unfold pad. rewrite <- app_assoc, <- repeat_app. do 2 f_equal. lia.
Qed.

Lemma cmpv_at n a b : (List.length a <= n)%nat -> (List.length b <= n)%nat ->
  cmpv a b = lex (pad n a) (pad n b).
Proof.
  intros Ha Hb. unfold cmpv.
  set (m := Nat.max (List.length a) (List.length b)).
  assert (Hm : (m <= n)%nat) by (unfold m; lia).
  rewrite (pad_more m n a), (pad_more m n b) by (unfold m; lia).
  rewrite lex_app_zeros; [reflexivity|].
  rewrite !pad_length by (unfold m; lia). reflexivity.
Qed.

(* ---- cmpv is a total preorder; Eq identifies versions up to trailing zero sections *)
Theorem cmpv_refl a : cmpv a a = Eq.
Proof. unfold cmpv. apply lex_refl. Qed.

Theorem cmpv_antisym a b : cmpv b a = CompOpp (cmpv a b).
Proof. unfold cmpv. rewrite (Nat.max_comm (List.length b)). apply lex_antisym. Qed.

Theorem cmpv_total a b : le_num a b \/ le_num b a.
Proof. unfold le_num. rewrite (cmpv_antisym a b). destruct (cmpv a b); simpl; auto; left + right; discriminate. Qed.

Theorem le_num_trans a b c : le_num a b -> le_num b c -> le_num a c.
Proof.
  unfold le_num.
  set (n := Nat.max (List.length a) (Nat.max (List.length b) (List.length c))).
  rewrite (cmpv_at n a b), (cmpv_at n b c), (cmpv_at n a c) by (unfold n; lia).
  apply lex_le_trans.
Qed.

Theorem cmpv_eq_compat a b c : cmpv a b = Eq -> cmpv a c = cmpv b c.
Proof.
  set (n := Nat.max (List.length a) (Nat.max (List.length b) (List.length c))).
  rewrite (cmpv_at n a b), (cmpv_at n a c), (cmpv_at n b c) by (unfold n; lia).
  intro H. apply lex_eq in H. rewrite H. reflexivity.
Qed.

Lemma le_numb_iff a b : le_numb a b = true <-> le_num a b.
Proof. unfold le_numb, le_num. destruct (cmpv a b); split; congruence. Qed.

Lemma le_numb_false a b : le_numb a b = false -> le_numb b a = true.
Proof.
  unfold le_numb. rewrite (cmpv_antisym a b). destruct (cmpv a b); simpl; congruence.
Qed.

(* "2", "2.0" and "2.0.0" are the same version numerically; 2.0.5 lies between 2.0 and 2.1 *)
Example cmpv_trailing_zero : cmpv [2] [2; 0] = Eq /\ cmpv [2; 0] [2; 0; 0] = Eq /\ cmpv [2; 0; 0; 0] [2] = Eq.
Proof. vm_compute. auto. Qed.
Example cmpv_between : cmpv [2; 0] [2; 0; 5] = Lt /\ cmpv [2; 0; 5] [2; 1] = Lt /\ cmpv [2; 10] [2; 9] = Gt.
Proof. vm_compute. auto. Qed.

(* ---- recursive characterisation: walk both lists, a missing section is 0 *)
Definition nz (l : list N) : bool := existsb (fun x => negb (N.eqb x 0)) l.

Fixpoint cmpr (a b : list N) : comparison :=
  match a, b with
  | [], _ => if nz b then Lt else Eq
  | _, [] => if nz a then Gt else Eq
  | x :: a', y :: b' => match N.compare x y with Eq => cmpr a' b' | c => c end
  end.

Lemma lex_zeros_l b : lex (repeat 0 (List.length b)) b = if nz b then Lt else Eq.
Proof.
  induction b as [|y b IH]; simpl; [reflexivity|].
  destruct y as [|q]; simpl; [exact IH | reflexivity].
Qed.

Lemma cmpv_nil_l b : cmpv [] b = if nz b then Lt else Eq.
Proof.
  unfold cmpv, pad. simpl. rewrite Nat.sub_0_r, Nat.sub_diag, app_nil_r. apply lex_zeros_l.
Qed.

Lemma cmpv_nil_r a : cmpv a [] = if nz a then Gt else Eq.
Proof. rewrite (cmpv_antisym [] a), cmpv_nil_l. destruct (nz a); reflexivity. Qed.

Lemma cmpv_cons x a y b :
  cmpv (x :: a) (y :: b) = match N.compare x y with Eq => cmpv a b | c => c end.
Proof. unfold cmpv, pad. simpl. reflexivity. Qed.

Theorem cmpv_cmpr a : forall b, cmpv a b = cmpr a b.
Proof.
  induction a as [|x a IH]; intros b.
  - rewrite cmpv_nil_l. destruct b; reflexivity.
  - destruct b as [|y b].
    + rewrite cmpv_nil_r. reflexivity.
    + rewrite cmpv_cons. simpl. rewrite IH. reflexivity.
Qed.

(* ---- the floor function meets its specification (for the five supported versions) *)
Lemma in_supported c :
  In c (map fst supported) -> c = [1; 4] \/ c = [1; 5] \/ c = [2; 0] \/ c = [2; 1] \/ c = [2; 2].
Proof. simpl. intuition. Qed.

Theorem floor_module_spec v :
  (exists c, is_floor v c /\ In (c, floor_module v) supported)
  \/ ((forall c, In c (map fst supported) -> ~ le_num c v) /\ floor_module v = fallback_module).
Proof.
  unfold floor_module. cbn [supported floor_from].
  destruct (le_numb [1; 4] v) eqn:E14; destruct (le_numb [1; 5] v) eqn:E15;
  destruct (le_numb [2; 0] v) eqn:E20; destruct (le_numb [2; 1] v) eqn:E21;
  destruct (le_numb [2; 2] v) eqn:E22; cbn -[le_num];
  first
    [ right; split; [|reflexivity]; intros c Hc Hle; apply le_numb_iff in Hle;
      apply in_supported in Hc; destruct Hc as [->|[->|[->|[->| ->]]]]; congruence
    | left; eexists; split; [|simpl; eauto 6]; split; [simpl; eauto 6|]; split;
      [apply le_numb_iff; assumption|];
      intros c' Hc' Hle; apply le_numb_iff in Hle; apply in_supported in Hc';
      destruct Hc' as [->|[->|[->|[->| ->]]]]; try congruence; vm_compute; discriminate ].
Qed.
