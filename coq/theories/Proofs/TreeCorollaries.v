(* C04: callback exactness, setters, and the readable corollaries of the tree meaning. *)
From Coq Require Import List NArith ZArith Bool String Lia.
From PMS Require Import Base.PyStr Base.PyInt Base.Exn Model.Codec Model.Rules Model.TableTypes
  Gen.Tables Model.Validate Model.Hex Model.Ota Model.Oracles Model.Gateway Spec.SerialApi
  Proofs.PyStrFacts Proofs.PyIntFacts Proofs.CodecProofs Proofs.ValidateProofs Proofs.GwLemmas Proofs.GwInv
  Spec.TreeMeaning Proofs.TreeProofs Proofs.TreeHistory Proofs.DirtyProofs Proofs.IdProofs.
Import ListNotations.
Open Scope string_scope.
Open Scope list_scope.
Open Scope Z_scope.

(* ---- inverting the classification ---- *)
Lemma kind_of_nodepres v m : kind_of v m = KNodePres -> m_type m = 0 /\ m_child m = 255.
Proof.
  unfold kind_of, internal_kind.
  destruct (Z.eqb_spec (m_type m) 0); [destruct (Z.eqb_spec (m_child m) 255); [auto|discriminate]|].
  destruct (m_type m =? 1); [discriminate|].
  destruct (m_type m =? 3).
  - repeat match goal with |- context [if ?b then _ else _] => destruct b end; try discriminate.
    destruct v; discriminate.
  - destruct (m_type m =? 4); [|discriminate]. destruct ((m_sub m =? 0) || (m_sub m =? 2)); discriminate.
Qed.

Lemma kind_of_idrequest v m : kind_of v m = KIdRequest -> m_type m = 3 /\ m_sub m = 3.
Proof.
  unfold kind_of, internal_kind.
  destruct (m_type m =? 0); [destruct (m_child m =? 255); discriminate|].
  destruct (m_type m =? 1); [discriminate|].
  destruct (Z.eqb_spec (m_type m) 3).
  - destruct (m_sub m =? 0); [discriminate|].
    destruct (Z.eqb_spec (m_sub m) 3); [auto|].
    repeat match goal with |- context [if ?b then _ else _] => destruct b end; try discriminate.
    destruct v; discriminate.
  - destruct (m_type m =? 4); [|discriminate]. destruct ((m_sub m =? 0) || (m_sub m =? 2)); discriminate.
Qed.

(* ---- lookups under the tree operations ---- *)
Lemma zassoc_tupd n k f t :
  zassoc n (tupd k f t) = if n =? k then option_map f (zassoc k t) else zassoc n t.
Proof.
  unfold tupd. destruct (zassoc k t) as [a|] eqn:E.
  - destruct (Z.eqb_spec n k).
    + subst n. rewrite zassoc_zset_same. reflexivity.
    + apply zassoc_zset_other. congruence.
  - destruct (Z.eqb_spec n k); [subst n; rewrite E; reflexivity|reflexivity].
Qed.

Definition child_of (t : tree) (n c : Z) : option pchild :=
  match zassoc n t with Some nd => zassoc c (pn_children nd) | None => None end.
Definition value_of (t : tree) (n c s : Z) : option pyval :=
  match child_of t n c with Some ch => zassoc s (pc_values ch) | None => None end.

Lemma child_of_tupd t k f n c :
  child_of (tupd k f t) n c =
  if n =? k then match zassoc k t with Some nd => zassoc c (pn_children (f nd)) | None => None end
  else child_of t n c.
Proof.
  unfold child_of. rewrite zassoc_tupd. destruct (n =? k); [|reflexivity].
  destruct (zassoc k t); reflexivity.
Qed.

Lemma child_of_tupd_same t k f n c : (forall nd, pn_children (f nd) = pn_children nd) ->
  child_of (tupd k f t) n c = child_of t n c.
Proof.
  intro H. rewrite child_of_tupd. destruct (Z.eqb_spec n k); [|reflexivity]. subst.
  unfold child_of. destruct (zassoc k t); [rewrite H|]; reflexivity.
Qed.

Lemma child_of_append t n c k : zhas k t = false -> child_of (t ++ [(k, tnew k)]) n c = child_of t n c.
Proof.
  intro Z. unfold child_of. rewrite zassoc_app. destruct (zassoc n t) as [nd|] eqn:E; [reflexivity|].
  simpl. destruct (n =? k); reflexivity.
Qed.

Lemma child_of_tadd t n c k : child_of (tadd k t) n c = child_of t n c.
Proof. unfold tadd. destruct (zhas k t) eqn:Z; [reflexivity|apply child_of_append; exact Z]. Qed.

Definition is_set (k : kind) : bool := match k with KSet => true | _ => false end.
Definition is_child_pres (k : kind) : bool := match k with KChildPres => true | _ => false end.

(* every child of every node after a message, as a closed equation: a new child only by a child
   presentation to a known node without that child; new values only by set on a known child *)
Theorem child_frame sv k t m n c :
  child_of (meaning sv k t m) n c =
  if is_child_pres k && (n =? m_node m) && (c =? m_child m) && known t n && negb (known_child t n c)
  then Some (mkPChild (m_child m) (m_sub m) (m_payload m) [])
  else if is_set k && (n =? m_node m) && (c =? m_child m)
  then option_map (fun ch => mkPChild (pc_id ch) (pc_type ch) (pc_desc ch)
                                      (zset (m_sub m) (PS (m_payload m)) (pc_values ch)))
                  (child_of t n c)
  else child_of t n c.
Proof.
  destruct k; unfold meaning; cbn [is_child_pres is_set andb];
    try (apply child_of_tupd_same; intros; reflexivity); try reflexivity.
  - (* node presentation *)
    rewrite child_of_tupd_same by (intros; reflexivity). apply child_of_tadd.
  - (* child presentation *)
    rewrite child_of_tupd. unfold known, known_child, child_of, zhas.
    destruct (Z.eqb_spec n (m_node m)); [|reflexivity]. subst n. cbn [andb].
    destruct (zassoc (m_node m) t) as [nd|] eqn:E; [|rewrite andb_false_r; reflexivity].
    cbn [andb]. rewrite andb_true_r.
    destruct (zassoc (m_child m) (pn_children nd)) as [ch0|] eqn:E0.
    + destruct (Z.eqb_spec c (m_child m)); [subst c; rewrite E0; reflexivity|reflexivity].
    + unfold with_pchildren. cbn [pn_children]. rewrite zassoc_app.
      destruct (Z.eqb_spec c (m_child m)).
      * subst c. rewrite E0. simpl. rewrite Z.eqb_refl. reflexivity.
      * cbn [andb]. destruct (zassoc c (pn_children nd)); [reflexivity|]. simpl.
        destruct (Z.eqb_spec c (m_child m)); [contradiction|reflexivity].
  - (* set *)
    rewrite child_of_tupd. unfold child_of.
    destruct (Z.eqb_spec n (m_node m)); [|reflexivity]. subst n. cbn [andb].
    destruct (zassoc (m_node m) t) as [nd|] eqn:E; [|destruct (c =? m_child m); reflexivity].
    destruct (zassoc (m_child m) (pn_children nd)) as [ch0|] eqn:E0.
    + unfold with_pchildren. cbn [pn_children].
      destruct (Z.eqb_spec c (m_child m)).
      * subst c. rewrite zassoc_zset_same, E0. reflexivity.
      * apply zassoc_zset_other. congruence.
    + destruct (Z.eqb_spec c (m_child m)); [subst c; rewrite E0; reflexivity|reflexivity].
  - (* id request *)
    destruct (tnext t <=? 254); [|reflexivity]. apply child_of_append. apply tnext_fresh.
Qed.

(* C04 corollary: each value is the last one reported for that node, child and value type *)
Theorem value_frame sv k t m n c s :
  value_of (meaning sv k t m) n c s =
  if is_set k && (n =? m_node m) && (c =? m_child m) && (s =? m_sub m) && known_child t n c
  then Some (PS (m_payload m)) else value_of t n c s.
Proof.
  unfold value_of. rewrite child_frame.
  destruct (is_child_pres k && (n =? m_node m) && (c =? m_child m) && known t n && negb (known_child t n c)) eqn:CP.
  - (* a new child has no values; it had none before *)
    repeat match type of CP with _ && _ = true => apply andb_true_iff in CP as [CP ?] end.
    destruct k; try discriminate CP. cbn [is_set andb].
    match goal with H : negb (known_child t n c) = true |- _ => apply negb_true_iff in H; rename H into KC end.
    unfold known_child in KC. unfold child_of.
    destruct (zassoc n t) as [nd|]; [|reflexivity]. rewrite (zhas_false _ _ KC). reflexivity.
  - destruct (is_set k && (n =? m_node m) && (c =? m_child m)) eqn:ST; cbn [andb]; [|reflexivity].
    unfold known_child, child_of, zhas. destruct (zassoc n t) as [nd|]; [|rewrite andb_false_r; reflexivity].
    destruct (zassoc c (pn_children nd)) as [ch|]; [|rewrite andb_false_r; reflexivity].
    cbn [option_map pc_values]. rewrite andb_true_r.
    destruct (Z.eqb_spec s (m_sub m)).
    + subst s. apply zassoc_zset_same.
    + apply zassoc_zset_other. congruence.
Qed.

(* C04 corollary: first presentation wins - a presented child keeps its type and description
   through every later message *)
Theorem first_presentation_wins sv k t m n c ch : child_of t n c = Some ch ->
  exists ch', child_of (meaning sv k t m) n c = Some ch' /\
              pc_id ch' = pc_id ch /\ pc_type ch' = pc_type ch /\ pc_desc ch' = pc_desc ch.
Proof.
  intro H. rewrite child_frame.
  assert (KC : known_child t n c = true).
  { unfold known_child, child_of, zhas in *. destruct (zassoc n t); [rewrite H; reflexivity|discriminate]. }
  rewrite KC. cbn [negb]. rewrite andb_false_r.
  destruct (is_set k && (n =? m_node m) && (c =? m_child m)).
  - rewrite H. eexists. split; [reflexivity|]. repeat split; reflexivity.
  - exists ch. repeat split; assumption.
Qed.

(* ... in particular a second presentation of the same child changes nothing at all *)
Theorem second_presentation_ignored sv t m :
  known_child t (m_node m) (m_child m) = true -> meaning sv KChildPres t m = t.
Proof. intro K. apply meaning_unchanged. unfold alerting_k. rewrite K, andb_false_r. reflexivity. Qed.

(* ... and a presentation to an unknown node, or a value for an unknown node or child, is dropped *)
Theorem unknown_target_ignored sv t m :
  (known t (m_node m) = false -> meaning sv KChildPres t m = t) /\
  (known_child t (m_node m) (m_child m) = false -> meaning sv KSet t m = t).
Proof.
  split; intro K; apply meaning_unchanged; unfold alerting_k; rewrite K; reflexivity.
Qed.

Section Corollaries.
  Variable orc : oracles.
  Variable clock : Z.

  Notation P g := (proj (g_sensors g)).

  Lemma fold_first_presentation v ls : forall t n c ch, child_of t n c = Some ch ->
    exists ch', child_of (fold_left (mlv orc v) ls t) n c = Some ch' /\
                pc_id ch' = pc_id ch /\ pc_type ch' = pc_type ch /\ pc_desc ch' = pc_desc ch.
  Proof.
    induction ls as [|l ls IH]; intros t n c ch H; [exists ch; repeat split; assumption|].
    cbn [fold_left].
    assert (S1 : exists ch1, child_of (mlv orc v t l) n c = Some ch1 /\
                             pc_id ch1 = pc_id ch /\ pc_type ch1 = pc_type ch /\ pc_desc ch1 = pc_desc ch).
    { unfold mlv, meaning_line. destruct (decode l) as [m|]; [|exists ch; repeat split; assumption].
      destruct (accv orc v m); [|exists ch; repeat split; assumption].
      apply first_presentation_wins. exact H. }
    destruct S1 as (ch1 & H1 & A1 & B1 & C1).
    destruct (IH _ n c ch1 H1) as (ch' & H' & A' & B' & C').
    exists ch'. repeat split; congruence.
  Qed.

  (* C04.2, one dispatcher call: an equality between WHOLE trees *)
  Theorem logic_tree_meaning v g l g' r : cfg_is v (g_cf g) -> Inv orc g ->
    logic orc clock g l = Ok (g', r) ->
    P g' = meaning_line (safe_version orc) (gvalidate orc g) v (P g) l.
  Proof. intros CI I E. destruct (logic_eff orc clock v g l g' r CI I E) as (_ & T & _). exact T. Qed.

  (* some accepted messages alert although the tree does not change *)
  Theorem alerting_without_change sv t m :
    meaning sv KGatewayReady t m = t /\ alerting_k KGatewayReady t m = true /\ meaning sv KStreamReq t m = t /\ alerting_k KStreamReq t m = known t (m_node m) /\ (known_child t (m_node m) (m_child m) = true ->
     value_of t (m_node m) (m_child m) (m_sub m) = Some (PS (m_payload m)) ->
     meaning sv KSet t m = t /\ alerting_k KSet t m = true).
  Proof.
    split; [reflexivity|]. split; [reflexivity|]. split; [reflexivity|]. split; [reflexivity|].
    intros H H0. split; [|exact H].
    unfold meaning. unfold known_child in H. unfold value_of, child_of in H0.
    destruct (zassoc (m_node m) t) as [nd|] eqn:E; [|discriminate].
    destruct (zassoc (m_child m) (pn_children nd)) as [ch|] eqn:E0; [|discriminate].
    eapply tupd_id; [exact E|]. cbn beta. rewrite E0.
    rewrite (zset_same_id _ _ _ H0). destruct ch. cbn.
    rewrite (zset_same_id _ _ _ E0). destruct nd. reflexivity.
  Qed.

  (* C04.3 *)
  Theorem callback_exact v g l g' r : cfg_is v (g_cf g) -> Inv orc g ->
    logic orc clock g l = Ok (g', r) ->
    exists ext, g_log g' = g_log g ++ ext /\
      cbs ext = match alerted_line (gvalidate orc g) v (P g) l with
                | Some m => if cf_callback (g_cf g) then [ECallback m (P g')] else []
                | None => []
                end.
  Proof.
    intros CI I E. destruct (logic_eff orc clock v g l g' r CI I E) as (_ & T & _ & ext & js & (L & _) & B).
    exists ext. split; [exact L|]. rewrite T. exact B.
  Qed.

  Lemma alerted_line_spec acc v t l m : alerted_line acc v t l = Some m <->
    decode l = Some m /\ acc m = true /\ alerting v t m = true.
  Proof.
    unfold alerted_line. destruct (decode l) as [m0|]; [|split; [discriminate|intros [H _]; discriminate H]].
    destruct (acc m0) eqn:A; cbn [andb].
    - destruct (alerting v t m0) eqn:B.
      + split; [intro H; inversion H; subst; auto|intros [H _]; exact H].
      + split; [discriminate|]. intros (H & _ & H2). inversion H; subst. congruence.
    - split; [discriminate|]. intros (H & H1 & _). inversion H; subst. congruence.
  Qed.

  Theorem callback_never_twice v g l g' r : cfg_is v (g_cf g) -> Inv orc g ->
    logic orc clock g l = Ok (g', r) ->
    exists ext, g_log g' = g_log g ++ ext /\ (List.length (cbs ext) <= 1)%nat /\
                (cf_callback (g_cf g) = false -> cbs ext = []).
  Proof.
    intros CI I E. destruct (callback_exact v g l g' r CI I E) as (ext & L & B).
    exists ext. split; [exact L|]. rewrite B.
    destruct (alerted_line (gvalidate orc g) v (P g) l); [|split; [simpl; lia|reflexivity]].
    destruct (cf_callback (g_cf g)); (split; [simpl; lia|]); [discriminate|reflexivity].
  Qed.

  (* exactly once for every accepted state-changing message *)
  Theorem changed_alerts v g l g' r : cfg_is v (g_cf g) -> Inv orc g ->
    logic orc clock g l = Ok (g', r) -> P g' <> P g ->
    exists m ext, decode l = Some m /\ gvalidate orc g m = true /\ alerting v (P g) m = true /\
                  g_log g' = g_log g ++ ext /\
                  cbs ext = (if cf_callback (g_cf g) then [ECallback m (P g')] else []).
  Proof.
    intros CI I E N. destruct (callback_exact v g l g' r CI I E) as (ext & L & B).
    destruct (logic_eff orc clock v g l g' r CI I E) as (_ & T & _).
    destruct (alerted_line (gvalidate orc g) v (P g) l) as [m|] eqn:A.
    - apply alerted_line_spec in A as (D & V & AL). exists m, ext. repeat split; assumption.
    - exfalso. apply N. rewrite T. apply (al_none_ml orc v g (P g) l). exact A.
  Qed.

  (* Gateway.alert, completely: nothing in it can fail, and it touches the log and the flag only *)
  Theorem callback_raise_irrelevant g m :
    g_cf (alert g m) = g_cf g /\ g_sensors (alert g m) = g_sensors g /\ g_ota (alert g m) = g_ota g /\
    g_metric (alert g m) = g_metric g /\ g_jobs (alert g m) = g_jobs g /\
    g_dirty (alert g m) = (cf_persist (g_cf g) || g_dirty g) /\
    g_log (alert g m) = g_log g ++ (if cf_callback (g_cf g) then [ECallback m (P g)] else []).
  Proof.
    unfold alert. destruct (cf_callback (g_cf g)), (cf_persist (g_cf g)); cbn;
      rewrite ?app_nil_r; repeat split; reflexivity.
  Qed.

  (* C04.4 *)
  Theorem setters_fallback p :
    (battery_of p = match parse p with
                    | Some z => if (0 <=? z) && (z <=? 100) then z else 0
                    | None => 0
                    end) /\
    0 <= battery_of p <= 100 /\
    (heartbeat_of p = match parse p with Some z => z | None => 0 end) /\
    (safe_version orc p = if orc_version orc p then p else s2p "1.4") /\
    (forall z, 0 <= z <= 100 -> battery_of (print z) = z) /\
    (forall z, heartbeat_of (print z) = z).
  Proof.
    split; [reflexivity|]. split.
    { unfold battery_of. destruct (parse p) as [z|]; [|lia].
      destruct ((0 <=? z) && (z <=? 100)) eqn:B; lia. }
    split; [reflexivity|]. split; [reflexivity|]. split.
    - intros z B. unfold battery_of. rewrite parse_print.
      destruct ((0 <=? z) && (z <=? 100)) eqn:E; [reflexivity|lia].
    - intro z. unfold heartbeat_of. rewrite parse_print. reflexivity.
  Qed.

  (* C04 corollary: nodes appear only through node presentation or id assignment *)
  Theorem nodes_only_by_presentation_or_id v g l g' r k : cfg_is v (g_cf g) -> Inv orc g ->
    logic orc clock g l = Ok (g', r) ->
    zhas k (g_sensors g') = true -> zhas k (g_sensors g) = false ->
    exists m, decode l = Some m /\ gvalidate orc g m = true /\
              ((m_type m = 0 /\ m_child m = 255 /\ k = m_node m) \/
               (m_type m = 3 /\ m_sub m = 3 /\ k = tnext (P g) /\ k <= 254)).
  Proof.
    intros CI I E K' K. destruct (logic_eff orc clock v g l g' r CI I E) as (_ & T & _).
    rewrite <- known_proj in K, K'. unfold known in K, K'. rewrite T in K'.
    unfold ml, meaning_line in K'.
    destruct (decode l) as [m|]; [|congruence].
    destruct (gvalidate orc g m) eqn:V; [|congruence].
    exists m. split; [reflexivity|]. split; [exact V|].
    apply zhas_keys in K'.
    destruct (keys_meaning (safe_version orc) (kind_of v m) (P g) m) as [Q|[(Kd & _ & Q)|(Kd & L & Q)]];
      rewrite Q in K'.
    - apply zhas_keys in K'. congruence.
    - apply in_app_or in K' as [K'|[K'|[]]]; [apply zhas_keys in K'; congruence|].
      left. destruct (kind_of_nodepres v m Kd). auto.
    - apply in_app_or in K' as [K'|[K'|[]]]; [apply zhas_keys in K'; congruence|].
      right. destruct (kind_of_idrequest v m Kd). subst k. auto.
  Qed.
End Corollaries.
