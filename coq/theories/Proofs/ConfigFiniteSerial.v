(* C18 - finite side condition for the Serial gateway classes: 3^7 choice vectors x 2
   call styles each, evaluated by the kernel's vm over the generated signatures.
   (Split per transport so that the three files build in parallel.) *)
From Coq Require Import List Bool.
From PMS Require Import Base.PyStr Model.ConfigSyntax Model.ConfigCheck Spec.ConfigSpec.

Lemma check_SerialGw (orc : avop -> pstr -> pstr -> option bool) (cont : pstr -> bool) :
  check_class orc cont SerialGw = true.
Proof. vm_cast_no_check (eq_refl true). Qed.

Lemma check_AsyncSerialGw (orc : avop -> pstr -> pstr -> option bool) (cont : pstr -> bool) :
  check_class orc cont AsyncSerialGw = true.
Proof. vm_cast_no_check (eq_refl true). Qed.
