(* C20 - lemmas about Model/Watchdog.v (the TCP watchdog on arbitrary schedules). *)
From Coq Require Import List ZArith Bool Lia.
From PMS Require Import Gen.SupConsts Model.Watchdog.
Import ListNotations.
Open Scope Z_scope.

Lemma wd_check_drop : forall rt c d t, wd_check rt c d t = WdDrop <-> d + 2 * rt < t.
Proof.
  intros. unfold wd_check. change wd_factor with 2.
  destruct (d + 2 * rt <? t) eqn:E.
  - apply Z.ltb_lt in E. split; [intros _; exact E|reflexivity].
  - apply Z.ltb_ge in E. destruct (t <=? c + rt); split; intro H; try discriminate; lia.
Qed.

Lemma wd_check_idle : forall rt c d t, wd_check rt c d t = WdIdle <-> t <= d + 2 * rt /\ t <= c + rt.
Proof.
  intros. unfold wd_check. change wd_factor with 2.
  destruct (d + 2 * rt <? t) eqn:E.
  - apply Z.ltb_lt in E. split; [discriminate|lia].
  - apply Z.ltb_ge in E. destruct (t <=? c + rt) eqn:E2.
    + apply Z.leb_le in E2. split; [intros _; lia|reflexivity].
    + apply Z.leb_gt in E2. split; [discriminate|lia].
Qed.

Lemma wd_check_probe : forall rt c d t, wd_check rt c d t = WdProbe <-> t <= d + 2 * rt /\ c + rt < t.
Proof.
  intros. unfold wd_check. change wd_factor with 2.
  destruct (d + 2 * rt <? t) eqn:E.
  - apply Z.ltb_lt in E. split; [discriminate|lia].
  - apply Z.ltb_ge in E. destruct (t <=? c + rt) eqn:E2.
    + apply Z.leb_le in E2. split; [discriminate|lia].
    + apply Z.leb_gt in E2. split; [intros _; lia|reflexivity].
Qed.

Definition no_drop (l : list wd_res) : bool := negb (existsb is_drop l).

(* --- timely answers are safe *)
Definition J (rt delta : Z) (w : wd) (last t0 : Z) : Prop :=
  last <= w_check w + rt /\ (w_disc w < w_check w -> w_check w <= w_disc w + rt + delta) /\ w_check w <= t0
  /\ last <= t0.

Lemma timely_safe_gen : forall rt delta, 0 <= delta <= rt ->
  forall es w last t0, J rt delta w last t0 ->
  timely rt (rt - delta) delta w last t0 es = true -> existsb is_drop (wd_run rt w es) = false.
Proof.
  intros rt delta Hd. induction es as [|e es IH]; intros w last t0 HJ Ht; [reflexivity|].
  destruct HJ as (J1 & J2 & J3 & J4). destruct w as [c d]. cbn [w_check w_disc] in *.
  cbn [timely] in Ht. apply andb_true_iff in Ht. destruct Ht as [Ht Hrest].
  apply andb_true_iff in Ht. destruct Ht as [Hmono Hout]. apply Z.leb_le in Hmono.
  cbn [w_check w_disc] in Hout.
  destruct e as [t|t]; cbn [wev_time] in *.
  - apply andb_true_iff in Hrest. destruct Hrest as [Hdense Hrest]. apply Z.leb_le in Hdense.
    assert (Hnd : t <= d + 2 * rt).
    { destruct (d <? c) eqn:E.
      - apply Z.ltb_lt in E. apply Z.leb_le in Hout. specialize (J2 E). lia.
      - apply Z.ltb_ge in E. lia. }
    cbn [wd_run wd_step w_check w_disc]. cbn [wd_step w_check w_disc fst] in Hrest.
    destruct (wd_check rt c d t) eqn:Ec.
    + apply wd_check_drop in Ec. lia.
    + apply wd_check_probe in Ec. cbn [existsb is_drop orb]. apply (IH _ t t); [|exact Hrest].
      unfold J. cbn [w_check w_disc]. repeat split; try lia.
      intro Hlt. destruct (d <? c) eqn:E.
      * apply Z.ltb_lt in E. apply Z.leb_le in Hout. lia.
      * apply Z.ltb_ge in E. lia.
    + apply wd_check_idle in Ec. cbn [existsb is_drop orb]. apply (IH _ t t); [|exact Hrest].
      unfold J. cbn [w_check w_disc]. repeat split; try lia.
  - cbn [wd_run wd_step w_check w_disc]. cbn [wd_step w_check w_disc fst] in Hrest.
    change wd_reset_on_answer with true in *. cbn [existsb is_drop orb].
    apply (IH _ last t); [|exact Hrest].
    unfold J. cbn [w_check w_disc]. repeat split; try lia.
Qed.

Lemma timely_safe : forall rt delta c es, 0 <= delta <= rt ->
  timely rt (rt - delta) delta (wd_init c) c c es = true -> dropped rt c es = false.
Proof.
  intros rt delta c es Hd Ht. unfold dropped. apply (timely_safe_gen rt delta Hd es (wd_init c) c c); [|exact Ht].
  unfold J, wd_init. cbn. repeat split; lia.
Qed.

(* --- silence is detected *)
Lemma silent_dropped : forall rt delta ps w last, dense delta last ps = true ->
  last <= w_disc w + 2 * rt ->
  match first_drop rt w ps with
  | Some t => w_disc w + 2 * rt < t <= w_disc w + 2 * rt + delta
  | None => forallb (fun t => t <=? w_disc w + 2 * rt) ps = true
  end.
Proof.
  intros rt delta. induction ps as [|t ps IH]; intros w last Hd Hl; [reflexivity|].
  cbn [dense] in Hd. apply andb_true_iff in Hd. destruct Hd as [Hd Hrest].
  apply andb_true_iff in Hd. destruct Hd as [H1 H2]. apply Z.leb_le in H1. apply Z.leb_le in H2.
  destruct w as [c d]. cbn [w_disc] in *. cbn [first_drop wd_step w_check w_disc].
  destruct (wd_check rt c d t) eqn:Ec.
  - apply wd_check_drop in Ec. lia.
  - apply wd_check_probe in Ec. specialize (IH (mkWd t d) t Hrest). cbn [w_disc] in IH.
    specialize (IH ltac:(lia)). destruct (first_drop rt (mkWd t d) ps); [exact IH|].
    cbn [forallb]. rewrite IH. replace (t <=? d + 2 * rt) with true by (symmetry; apply Z.leb_le; lia). reflexivity.
  - apply wd_check_idle in Ec. specialize (IH (mkWd c d) t Hrest). cbn [w_disc] in IH.
    specialize (IH ltac:(lia)). destruct (first_drop rt (mkWd c d) ps); [exact IH|].
    cbn [forallb]. rewrite IH. replace (t <=? d + 2 * rt) with true by (symmetry; apply Z.leb_le; lia). reflexivity.
Qed.

Lemma dense_chain : forall q k last, 0 <= q -> dense q last (chain q last k) = true.
Proof.
  intros q. induction k as [|k IH]; intros last Hq; [reflexivity|].
  cbn [chain dense]. rewrite IH by exact Hq.
  replace (last <=? last + q) with true by (symmetry; apply Z.leb_le; lia).
  replace (last + q <=? last + q) with true by (symmetry; apply Z.leb_le; lia). reflexivity.
Qed.

(* --- the asyncio chain *)
Lemma async_safe_gen : forall rt slack, 0 < slack < rt ->
  forall es w last t0 pending,
  w_check w <= last -> last <= t0 -> (pending = false -> last <= w_disc w) ->
  periodic (rt + slack) last t0 es = true -> answered_each rt w pending es = true ->
  existsb is_drop (wd_run rt w es) = false.
Proof.
  intros rt slack Hs. induction es as [|e es IH]; intros w last t0 pending Hc Hl Hp Hper Hans; [reflexivity|].
  destruct w as [c d]. cbn [w_check w_disc] in *.
  destruct e as [t|t].
  - cbn [periodic] in Hper. apply andb_true_iff in Hper. destruct Hper as [Hper Hrest].
    apply andb_true_iff in Hper. destruct Hper as [Ht _]. apply Z.eqb_eq in Ht.
    cbn [answered_each wd_step w_check w_disc] in Hans. cbn [wd_run wd_step w_check w_disc].
    destruct (wd_check rt c d t) eqn:Ec.
    + apply andb_true_iff in Hans. destruct Hans as [Hpend _]. apply negb_true_iff in Hpend.
      specialize (Hp Hpend). apply wd_check_drop in Ec. lia.
    + apply andb_true_iff in Hans. destruct Hans as [_ Hans]. cbn [existsb is_drop orb].
      apply (IH _ t t true); cbn [w_check w_disc]; try lia; try assumption.
    + apply wd_check_idle in Ec. lia.
  - cbn [periodic] in Hper. apply andb_true_iff in Hper. destruct Hper as [Hper Hrest].
    apply andb_true_iff in Hper. destruct Hper as [Ht0 _]. apply Z.leb_le in Ht0.
    cbn [answered_each wd_step w_check w_disc] in Hans. cbn [wd_run wd_step w_check w_disc].
    change wd_reset_on_answer with true in *. cbn [existsb is_drop orb].
    apply (IH _ last t false); cbn [w_check w_disc]; try lia; try assumption.
Qed.

Lemma async_timely_safe : forall rt slack c es, 0 < slack < rt ->
  periodic (rt + slack) c c es = true -> answered_each rt (wd_init c) false es = true ->
  dropped rt c es = false.
Proof.
  intros rt slack c es Hs Hp Ha. unfold dropped.
  apply (async_safe_gen rt slack Hs es (wd_init c) c c false); cbn; try lia; try assumption.
Qed.

(* --- D14: an answer that arrives exactly reconnect_timeout after its probe is too late *)
Definition d14_schedule : list wev :=
  map WPoll [20; 40; 60; 80; 100; 120] ++ [WAnswer 120]
  ++ map WPoll [140; 160; 180; 200; 220; 240; 260; 280; 300; 320; 340] ++ [WAnswer 340].

Lemma boundary_refuted : exists rt delta c es,
  0 < delta <= rt /\ timely rt rt delta (wd_init c) c c es = true /\ dropped rt c es = true.
Proof. exists 100, 20, 0, d14_schedule. split; [lia|]. split; vm_compute; reflexivity. Qed.

Lemma async_silent_dropped : forall rt slack k w last, 0 <= rt + slack ->
  last <= w_disc w + 2 * rt ->
  match first_drop rt w (chain (rt + slack) last k) with
  | Some t => w_disc w + 2 * rt < t <= w_disc w + 2 * rt + (rt + slack)
  | None => forallb (fun t => t <=? w_disc w + 2 * rt) (chain (rt + slack) last k) = true
  end.
Proof. intros. apply silent_dropped with (last := last); [apply dense_chain|]; assumption. Qed.
