From Coq Require Import List NArith Bool Lia.
From PMS Require Import Base.PyStr.
Import ListNotations.
Open Scope N_scope.

Lemma pstr_eqb_eq a b : pstr_eqb a b = true <-> a = b.
Proof.
  revert b; induction a as [|x a IH]; intros [|y b]; simpl; split; intro H;
    try reflexivity; try discriminate.
  - apply andb_true_iff in H as [H1 H2]. apply N.eqb_eq in H1. apply IH in H2. congruence.
  - inversion H; subst. rewrite N.eqb_refl. simpl. apply IH. reflexivity.
Qed.

Lemma pstr_eqb_refl a : pstr_eqb a a = true.
Proof. apply pstr_eqb_eq. reflexivity. Qed.

Lemma mem_N_In x l : mem_N x l = true <-> In x l.
Proof.
  induction l as [|y l IH]; simpl; [split; [discriminate|tauto]|].
  rewrite orb_true_iff, IH, N.eqb_eq. split; intros [H|H]; auto.
Qed.

Lemma mem_N_app x a b : mem_N x (a ++ b) = mem_N x a || mem_N x b.
Proof. induction a as [|y a IH]; simpl; [reflexivity|]. rewrite IH. apply orb_assoc. Qed.

Lemma split_nonempty d s : split d s <> [].
Proof.
  induction s as [|c s IH]; simpl; [discriminate|].
  destruct (N.eqb c d); [discriminate|]. destruct (split d s); discriminate.
Qed.

Lemma split_no_delim d a : mem_N d a = false -> split d a = [a].
Proof.
  induction a as [|c a IH]; simpl; intro H; [reflexivity|].
  apply orb_false_iff in H as [H1 H2]. rewrite N.eqb_sym, H1. rewrite (IH H2). reflexivity.
Qed.

Lemma split_app_delim d a b :
  mem_N d a = false -> split d (a ++ d :: b) = a :: split d b.
Proof.
  induction a as [|c a IH]; simpl; intro H.
  - rewrite N.eqb_refl. reflexivity.
  - apply orb_false_iff in H as [H1 H2]. rewrite N.eqb_sym, H1. rewrite (IH H2). reflexivity.
Qed.

Lemma join_split d s : join [d] (split d s) = s.
Proof.
  induction s as [|c s IH]; simpl; [reflexivity|].
  destruct (N.eqb c d) eqn:E.
  - apply N.eqb_eq in E. subst c.
    pose proof (split_nonempty d s) as NE.
    destruct (split d s) as [|h t] eqn:S; [contradiction|].
    simpl in *. rewrite IH. reflexivity.
  - pose proof (split_nonempty d s) as NE.
    destruct (split d s) as [|h t] eqn:S; [contradiction|].
    simpl in *. destruct t; simpl in *; rewrite <- IH; reflexivity.
Qed.

(* the last field of a split: a delimiter-free suffix *)
Lemma split_fields_no_delim d s : Forall (fun f => mem_N d f = false) (split d s).
Proof.
  induction s as [|c s IH]; simpl; [constructor; [reflexivity|constructor]|].
  destruct (N.eqb c d) eqn:Ec; [constructor; [reflexivity|exact IH]|].
  destruct (split d s) as [|h t]; [repeat constructor; simpl; rewrite N.eqb_sym, Ec; reflexivity|].
  inversion IH; subst. constructor; [|assumption].
  simpl. rewrite N.eqb_sym, Ec. assumption.
Qed.

Lemma join_last_suffix d l : l <> [] -> exists pre, join d l = pre ++ last l [].
Proof.
  induction l as [|x l IH]; [congruence|]. intros _.
  destruct l as [|y l]; [exists []; reflexivity|].
  destruct IH as [pre E]; [discriminate|].
  exists (x ++ d ++ pre). change (join d (x :: y :: l)) with (x ++ d ++ join d (y :: l)).
  rewrite E. change (last (x :: y :: l) []) with (last (y :: l) []).
  rewrite !app_assoc. reflexivity.
Qed.

Lemma split_last_suffix d s :
  exists pre, s = pre ++ last (split d s) [] /\ mem_N d (last (split d s) []) = false.
Proof.
  destruct (join_last_suffix [d] (split d s) (split_nonempty d s)) as [pre E].
  rewrite join_split in E. exists pre. split; [exact E|].
  pose proof (split_fields_no_delim d s) as F.
  pose proof (split_nonempty d s) as NE.
  rewrite Forall_forall in F. apply F.
  destruct (split d s) as [|h t]; [contradiction|].
  clear. revert h. induction t as [|y t IH]; intro h; [left; reflexivity|].
  right. apply IH.
Qed.

Lemma no_trailing_app_r sp a b : b <> [] -> no_trailing sp (a ++ b) = no_trailing sp b.
Proof.
  intro NE. unfold no_trailing. rewrite rev_app_distr.
  destruct (rev b) eqn:R; [|reflexivity].
  apply (f_equal (@rev N)) in R. rewrite rev_involutive in R. simpl in R. contradiction.
Qed.

Lemma no_trailing_snoc sp a c : no_trailing sp (a ++ [c]) = negb (sp c).
Proof. unfold no_trailing. rewrite rev_app_distr. reflexivity. Qed.

Lemma no_trailing_suffix sp a b : no_trailing sp (a ++ b) = true -> no_trailing sp b = true.
Proof.
  destruct b as [|x b]; [reflexivity|]. intro H.
  rewrite no_trailing_app_r in H by discriminate. exact H.
Qed.

Lemma rstrip_nil_iff sp s : rstrip sp s = [] <-> forallb sp s = true.
Proof.
  induction s as [|c s IH]; simpl; [tauto|].
  destruct (rstrip sp s) eqn:R.
  - destruct (sp c); simpl; split; intro H; try discriminate; try reflexivity.
    apply IH. reflexivity.
  - split; [discriminate|]. intro H. apply andb_true_iff in H as [_ H].
    apply IH in H. discriminate.
Qed.

Lemma rstrip_id sp s : no_trailing sp s = true -> rstrip sp s = s.
Proof.
  induction s as [|c s IH]; [reflexivity|]. intro H. simpl.
  destruct s as [|c2 s2].
  - simpl. unfold no_trailing in H. simpl in H. destruct (sp c); [discriminate|reflexivity].
  - assert (H2 : no_trailing sp (c2 :: s2) = true).
    { change (c :: c2 :: s2) with ([c] ++ (c2 :: s2)) in H.
      rewrite no_trailing_app_r in H by discriminate. exact H. }
    rewrite (IH H2). reflexivity.
Qed.

Lemma rstrip_snoc_space sp s c : sp c = true -> rstrip sp (s ++ [c]) = rstrip sp s.
Proof.
  intro Hc. induction s as [|x s IH]; simpl.
  - rewrite Hc. reflexivity.
  - rewrite IH. reflexivity.
Qed.

Lemma rstrip_no_trailing sp s : no_trailing sp (rstrip sp s) = true.
Proof.
  induction s as [|c s IH]; [reflexivity|]. simpl.
  destruct (rstrip sp s) as [|y r] eqn:R.
  - destruct (sp c) eqn:E; [reflexivity|]. unfold no_trailing. simpl. rewrite E. reflexivity.
  - change (c :: y :: r) with ([c] ++ (y :: r)).
    rewrite no_trailing_app_r by discriminate. exact IH.
Qed.

Lemma lstrip_id sp c s : sp c = false -> lstrip sp (c :: s) = c :: s.
Proof. intro H. simpl. rewrite H. reflexivity. Qed.

Lemma last_app_cons {A} (a : list A) x b d : last (a ++ x :: b) d = last (x :: b) d.
Proof.
  induction a as [|y a IH]; [reflexivity|].
  simpl app. rewrite <- IH. simpl. destruct (a ++ x :: b) eqn:E; [|reflexivity].
  destruct a; discriminate.
Qed.
