(* Facts about Base/Version.v: awesomeversion's comparison on dotted numeric strings is the
   plain numeric comparison num_ge of the section lists; the two verdicts of the core machine
   (is_version accepts, the constants module get_const selects) read numerically. *)
From Coq Require Import List NArith Bool String Lia.
From PMS Require Import Base.PyStr Base.Version Proofs.PyStrFacts.
Import ListNotations.
Open Scope N_scope.
Open Scope list_scope.

Lemma all_zero_nonzero l : all_zero l = negb (nonzero l).
Proof.
  induction l as [|x l IH]; [reflexivity|].
  unfold all_zero, nonzero in *. cbn [forallb existsb]. rewrite IH.
  rewrite N.eqb_sym. destruct (x =? 0); reflexivity.
Qed.

Lemma num_ge_nil_r a : num_ge a [] = true.
Proof. destruct a; reflexivity. Qed.

Lemma num_ge_refl a : num_ge a a = true.
Proof. induction a as [|x a IH]; [reflexivity|]. cbn [num_ge]. rewrite N.eqb_refl. exact IH. Qed.

(* num_ge a b  <->  not (b > a) in compare_base_sections' reading *)
Lemma num_ge_base_cmp a : forall b,
  num_ge a b = negb (match base_cmp b a with Some r => r | None => false end).
Proof.
  induction a as [|x a IH]; intros [|y b].
  - reflexivity.
  - cbn [num_ge base_cmp]. rewrite all_zero_nonzero. destruct (nonzero (y :: b)); reflexivity.
  - cbn [num_ge base_cmp]. destruct (nonzero (x :: a)); reflexivity.
  - cbn [num_ge base_cmp]. rewrite (N.eqb_sym y x). destruct (x =? y) eqn:E.
    + apply IH.
    + cbn [negb]. apply N.eqb_neq in E.
      destruct (y <? x) eqn:L1; destruct (x <? y) eqn:L2; try reflexivity;
        [apply N.ltb_lt in L1; apply N.ltb_lt in L2; lia
        |apply N.ltb_ge in L1; apply N.ltb_ge in L2; lia].
Qed.

(* `not AwesomeVersion(b) > AwesomeVersion(a)`  =  a is numerically at least b *)
Theorem not_gt_num_ge a b : negb (av_gt_num b a) = num_ge (sections a) (sections b).
Proof.
  unfold av_gt_num. destruct (pstr_eqb b a) eqn:E.
  - apply pstr_eqb_eq in E. subst b. rewrite num_ge_refl. reflexivity.
  - symmetry. apply num_ge_base_cmp.
Qed.

(* `not AwesomeVersion(a) < AwesomeVersion(b)`  =  a is numerically at least b *)
Theorem not_lt_num_ge a b : negb (av_lt_num a b) = num_ge (sections a) (sections b).
Proof.
  unfold av_lt_num. destruct (pstr_eqb a b) eqn:E.
  - apply pstr_eqb_eq in E. subst b. rewrite num_ge_refl. reflexivity.
  - symmetry. apply num_ge_base_cmp.
Qed.

Theorem ver_ge14_num s : ver_ge14 s = num_ge (sections s) [1; 4].
Proof. unfold ver_ge14. rewrite not_gt_num_ge. reflexivity. Qed.

Theorem safe_num_spec s : safe_num s = if num_ge (sections s) [1; 4] then s else s2p "1.4".
Proof. unfold safe_num. rewrite ver_ge14_num. reflexivity. Qed.

(* two-section constants: at least [a;b] and [c;d] <= [a;b] lexicographically  =>  at least [c;d] *)
Lemma num_ge_two l a b c d :
  num_ge l [a; b] = true -> (c < a \/ (c = a /\ d <= b)) -> num_ge l [c; d] = true.
Proof.
  intros H O.
  destruct l as [|x [|y r]]; cbn [num_ge all_zero forallb] in *.
  - destruct (0 =? a) eqn:A; [|discriminate]. destruct (0 =? b) eqn:B; [|discriminate].
    apply N.eqb_eq in A. apply N.eqb_eq in B.
    assert (C : c = 0) by lia. assert (D : d = 0) by lia. subst c d. reflexivity.
  - destruct (x =? a) eqn:A.
    + apply N.eqb_eq in A. subst x. destruct (0 =? b) eqn:B; [|discriminate].
      apply N.eqb_eq in B. destruct (a =? c) eqn:C.
      * apply N.eqb_eq in C. assert (D : d = 0) by lia. subst d. reflexivity.
      * apply N.eqb_neq in C. apply N.ltb_lt. lia.
    + apply N.ltb_lt in H. destruct (x =? c) eqn:C.
      * apply N.eqb_eq in C. lia.
      * apply N.ltb_lt. lia.
  - rewrite num_ge_nil_r in *. destruct (x =? a) eqn:A.
    + apply N.eqb_eq in A. subst x. destruct (a =? c) eqn:C.
      * apply N.eqb_eq in C. destruct (y =? b) eqn:B.
        -- apply N.eqb_eq in B. subst y. destruct (b =? d) eqn:D; [reflexivity|].
           apply N.eqb_neq in D. apply N.ltb_lt. lia.
        -- apply N.eqb_neq in B. apply N.ltb_lt in H. destruct (y =? d) eqn:D; [reflexivity|].
           apply N.ltb_lt. lia.
      * apply N.eqb_neq in C. apply N.ltb_lt. lia.
    + apply N.ltb_lt in H. destruct (x =? c) eqn:C.
      * apply N.eqb_eq in C. lia.
      * apply N.ltb_lt. lia.
Qed.

Lemma below14_below l a b : num_ge l [1; 4] = false -> (1 < a \/ (1 = a /\ 4 <= b)) -> num_ge l [a; b] = false.
Proof.
  intros H O. destruct (num_ge l [a; b]) eqn:E; [|reflexivity].
  rewrite (num_ge_two l a b 1 4 E O) in H. discriminate.
Qed.

(* get_const(safe_is_version(s)) selects the greatest supported version not numerically above s *)
Theorem const_index_floor s : const_index s = floor_index (sections s).
Proof.
  unfold const_index. rewrite safe_num_spec. destruct (num_ge (sections s) [1; 4]) eqn:E.
  - unfold const_keys_desc, floor_index. cbn [first_not_lt]. rewrite !not_lt_num_ge.
    change (sections (s2p "2.2")) with [2; 2]. change (sections (s2p "2.1")) with [2; 1].
    change (sections (s2p "2.0")) with [2; 0]. change (sections (s2p "1.5")) with [1; 5].
    change (sections (s2p "1.4")) with [1; 4]. rewrite E.
    destruct (num_ge (sections s) [2; 2]), (num_ge (sections s) [2; 1]),
      (num_ge (sections s) [2; 0]), (num_ge (sections s) [1; 5]); reflexivity.
  - unfold floor_index.
    rewrite (below14_below _ 2 2 E), (below14_below _ 2 1 E), (below14_below _ 2 0 E),
      (below14_below _ 1 5 E) by lia.
    vm_compute. reflexivity.
Qed.

(* floor_index is the floor: index i is chosen iff s is at least version i and below version i+1 *)
Theorem floor_index_spec l :
  let vs := [[1; 4]; [1; 5]; [2; 0]; [2; 1]; [2; 2]] in
  let i := floor_index l in
  (num_ge l [1; 4] = true -> num_ge l (nth i vs []) = true) /\
  (forall j, (i < j < 5)%nat -> num_ge l (nth j vs []) = false) /\
  (num_ge l [1; 4] = false -> i = 0%nat).
Proof.
  cbv zeta. unfold floor_index.
  destruct (num_ge l [2; 2]) eqn:E22; [|destruct (num_ge l [2; 1]) eqn:E21;
    [|destruct (num_ge l [2; 0]) eqn:E20; [|destruct (num_ge l [1; 5]) eqn:E15]]].
  all: split; [intros H14; cbn [nth]; assumption|split].
  all: try (intros j J;
            destruct j as [|[|[|[|[|j]]]]]; try lia; cbn [nth]; assumption).
  all: try (intros F; first [rewrite (num_ge_two l 2 2 1 4) in F by (assumption || lia)
                            |rewrite (num_ge_two l 2 1 1 4) in F by (assumption || lia)
                            |rewrite (num_ge_two l 2 0 1 4) in F by (assumption || lia)
                            |rewrite (num_ge_two l 1 5 1 4) in F by (assumption || lia)
                            |reflexivity]; try discriminate).
Qed.

(* non-vacuity / the boundary cases *)
Example ver_ge14_accepts :
  map ver_ge14 [s2p "1.4"; s2p "1.4.0"; s2p "1.04"; s2p "2"; s2p "10.0"; s2p "1.10"; s2p "01.4"; s2p "1.4.0.0"]
  = [true; true; true; true; true; true; true; true].
Proof. vm_compute. reflexivity. Qed.
Example ver_ge14_rejects :
  map ver_ge14 [s2p "1.3.9"; s2p "1.3"; s2p "0.9"; s2p "1"; s2p "0"; s2p "1.03.99"]
  = [false; false; false; false; false; false].
Proof. vm_compute. reflexivity. Qed.
Example const_index_examples :
  map const_index [s2p "1.4"; s2p "1.4.9"; s2p "1.5"; s2p "1.9"; s2p "2"; s2p "2.0.0"; s2p "2.1"; s2p "2.1.9"; s2p "2.2"; s2p "2.10"; s2p "3"; s2p "1.3"; s2p "0"]
  = [0; 0; 1; 1; 2; 2; 3; 3; 4; 4; 4; 0; 0]%nat.
Proof. vm_compute. reflexivity. Qed.
