(* The global invariant of the core machine and totality of the dispatcher (C01). *)
From Coq Require Import List NArith ZArith Bool String Lia.
From PMS Require Import Base.PyStr Base.PyInt Base.Exn Model.Codec Model.Rules Model.TableTypes
  Gen.Tables Model.Validate Model.Hex Model.Ota Model.Oracles Model.Gateway Spec.SerialApi
  Proofs.PyStrFacts Proofs.CodecProofs Proofs.ValidateProofs Proofs.GwLemmas Proofs.HexProofs Proofs.OtaProofs.
Import ListNotations.
Open Scope string_scope.
Open Scope list_scope.
Open Scope Z_scope.

Definition ge20 (v : ver) : bool := match v with V20 | V21 | V22 => true | _ => false end.

(* the five configurations the library can select (get_const + the >= 2.0 test agree) *)
Definition cfg_ok (cf : config) : Prop := exists v, cf_tab cf = tab_of v /\ cf_ge20 cf = ge20 v.

(* ---- facts about the generated registry, closed by vm_compute per version ---- *)
Definition has_member (l : list (pstr * Z)) (n : string) : bool :=
  match sassoc (s2p n) l with Some _ => true | None => false end.

Definition all_sub_handlers (t : vtab) : list hfun :=
  flat_map (fun tn => flat_map (fun sn => match registry_fun t (snd sn) with Some h => [h] | None => [] end)
                               (snd tn)) (vt_sub_names t).

Definition leaf_ok (h : hfun) : bool :=
  match h with
  | HPresentation | HSet | HReq | HInternal | HStream | HUnknown => false
  | _ => true
  end.
Definition is_gr20 (h : hfun) : bool := match h with HGatewayReady20 => true | _ => false end.

Definition hfun_eqb (a b : hfun) : bool :=
  match a, b with
  | HPresentation, HPresentation | HSet, HSet | HReq, HReq | HInternal, HInternal | HStream, HStream => true
  | _, _ => false
  end.

Definition tab_facts (t : vtab) (ge : bool) : bool :=
  (negb ge || has_member (vt_internal_members t) "I_PRESENTATION") &&
  has_member (vt_internal_members t) "I_REBOOT" && has_member (vt_internal_members t) "I_ID_RESPONSE" &&
  (negb (existsb is_gr20 (all_sub_handlers t)) || has_member (vt_internal_members t) "I_DISCOVER") &&
  has_member (vt_stream_members t) "ST_FIRMWARE_CONFIG_RESPONSE" &&
  has_member (vt_stream_members t) "ST_FIRMWARE_RESPONSE" &&
  forallb leaf_ok (all_sub_handlers t) &&
  match type_handler t 0, type_handler t 1, type_handler t 2, type_handler t 3, type_handler t 4 with
  | Some HPresentation, Some HSet, Some HReq, Some HInternal, Some HStream => true
  | _, _, _, _, _ => false
  end.

Lemma tab_facts_all v : tab_facts (tab_of v) (ge20 v) = true.
Proof. destruct v; vm_compute; reflexivity. Qed.

Lemma sub_handler_in t ty sub h : sub_handler t ty sub = Some h -> In h (all_sub_handlers t).
Proof.
  unfold sub_handler, all_sub_handlers. intro H.
  destruct (zassoc ty (vt_sub_names t)) as [names|] eqn:E1; [|discriminate].
  destruct (zassoc sub names) as [name|] eqn:E2; [|discriminate].
  apply zassoc_In in E1. apply zassoc_In in E2.
  apply in_flat_map. exists (ty, names). split; [exact E1|].
  apply in_flat_map. exists (sub, name). split; [exact E2|]. simpl. rewrite H. left. reflexivity.
Qed.

Section Inv.
  Variable orc : oracles.
  Variable clock : Z.

  Definition dvalid (t : vtab) (nid c vt : Z) (v : pyval) : Prop :=
    validate (orc_version orc) (orc_float orc) t (mkMsg nid c (vt_set t) 0 vt (py_str v)) = true.
  Definition dv_ok (t : vtab) (nid c : Z) (dv : list (Z * option pyval)) : Prop :=
    Forall (fun kv => match snd kv with Some v => dvalid t nid c (fst kv) v | None => True end) dv.
  Definition node_ok (t : vtab) (kn : Z * node) : Prop :=
    n_id (snd kn) = fst kn /\
    Forall (fun cd => dv_ok t (n_id (snd kn)) (fst cd) (snd cd)) (n_new (snd kn)).
  Definition word (z : Z) : Prop := word_ok z = true.
  Definition store_ok (l : list (Z * (Z * Z))) : Prop :=
    Forall (fun e => word (fst (snd e)) /\ word (snd (snd e))) l.
  Definition fws_ok (l : list ((Z * Z) * fware)) : Prop :=
    Forall (fun e => word (fw_blocks (snd e)) /\ word (fw_crc (snd e))) l.
  Definition ota_ok (o : ota) : Prop :=
    store_ok (o_requested o) /\ store_ok (o_unstarted o) /\ store_ok (o_started o) /\ fws_ok (o_fw o).

  Definition Inv (g : gw) : Prop :=
    Forall (node_ok (tab g)) (g_sensors g) /\ ota_ok (g_ota g).

  Lemma Inv_ext g g' :
    g_sensors g' = g_sensors g -> g_ota g' = g_ota g -> g_cf g' = g_cf g -> Inv g -> Inv g'.
  Proof. unfold Inv, tab. intros -> -> ->. tauto. Qed.

  Lemma Inv_send g l : Inv g -> Inv (send g l).
  Proof. destruct (send_frame g l) as (?&?&?&_). apply Inv_ext; assumption. Qed.
  Lemma Inv_add_job g l : Inv g -> Inv (add_job_send g l).
  Proof. destruct (add_job_send_frame g l) as (?&?&?&_). apply Inv_ext; assumption. Qed.
  Lemma Inv_fold_add_job ls g : Inv g -> Inv (fold_left add_job_send ls g).
  Proof. destruct (fold_add_job_send_frame ls g) as (?&?&?&_). apply Inv_ext; assumption. Qed.
  Lemma Inv_alert g m : Inv g -> Inv (alert g m).
  Proof. destruct (alert_frame g m) as (?&?&?&_). apply Inv_ext; assumption. Qed.
  Lemma Inv_emit g e : Inv g -> Inv (emit g e).
  Proof. apply Inv_ext; reflexivity. Qed.
  Lemma Inv_set_jobs g j : Inv g -> Inv (set_jobs g j).
  Proof. apply Inv_ext; reflexivity. Qed.

  Lemma Inv_put_node g nd : Inv g -> node_ok (tab g) (n_id nd, nd) -> Inv (put_node g nd).
  Proof.
    intros [S O] N. split; [|exact O]. unfold put_node. simpl.
    change (tab (set_sensors g (zset (n_id nd) nd (g_sensors g)))) with (tab g).
    apply Forall_zset; assumption.
  Qed.

  Lemma get_node_ok g k nd : Inv g -> get_node g k = Some nd -> node_ok (tab g) (k, nd).
  Proof. intros [S _] H. unfold get_node in H. exact (zassoc_Forall _ _ _ _ S H). Qed.

  Lemma cf_send g l : g_cf (send g l) = g_cf g.
  Proof. destruct (send_frame g l) as (_&_&H&_). exact H. Qed.
  Lemma cf_add_job g l : g_cf (add_job_send g l) = g_cf g.
  Proof. destruct (add_job_send_frame g l) as (_&_&H&_). exact H. Qed.
  Lemma cf_alert g m : g_cf (alert g m) = g_cf g.
  Proof. destruct (alert_frame g m) as (_&_&H&_). exact H. Qed.

  (* ---- route ---- *)
  Lemma route_ok g m : Inv g ->
    Inv (fst (route g m)) /\ g_cf (fst (route g m)) = g_cf g.
  Proof.
    intro I. unfold route.
    destruct (m_type m =? vt_presentation (tab g)); [split; [exact I|reflexivity]|].
    destruct (get_node g (m_node m)) as [nd|] eqn:G; [|split; [exact I|reflexivity]].
    destruct ((m_type m =? vt_stream (tab g)) || negb (sleeping nd)); [split; [exact I|reflexivity]|].
    simpl fst. split; [|reflexivity].
    apply Inv_put_node; [exact I|].
    pose proof (get_node_ok _ _ _ I G) as [K N]. split; simpl in *; [reflexivity|exact N].
  Qed.

  Lemma route_opt_ok g r : Inv g ->
    Inv (fst (route_opt g r)) /\ g_cf (fst (route_opt g r)) = g_cf g.
  Proof. destruct r; simpl; [apply route_ok|intro I; split; [exact I|reflexivity]]. Qed.

  (* ---- is_sensor ---- *)
  Definition facts (g : gw) : Prop := tab_facts (tab g) (cf_ge20 (g_cf g)) = true.

  Lemma facts_of_cfg g : cfg_ok (g_cf g) -> facts g.
  Proof. intros [v [T G]]. unfold facts, tab. rewrite T, G. apply tab_facts_all. Qed.

  Ltac split_facts F :=
    unfold facts, tab_facts in F;
    repeat match type of F with _ && _ = true => apply andb_true_iff in F as [F ?] end.

  Lemma member_some l n : has_member l n = true -> exists z, sassoc (s2p n) l = Some z.
  Proof. unfold has_member. destruct (sassoc (s2p n) l) as [z|]; [exists z; reflexivity|discriminate]. Qed.

  Lemma is_sensor_ok g sid cid : facts g -> Inv g ->
    exists g1 b, is_sensor g sid cid = Ok (g1, b) /\ Inv g1 /\ g_cf g1 = g_cf g /\
      (b = true -> g1 = g /\ exists nd, get_node g sid = Some nd /\
                                      forall c, cid = Some c -> zhas c (n_children nd) = true).
  Proof.
    intros F I. unfold is_sensor.
    set (ret := match get_node g sid with
                | Some nd => match cid with Some c => zhas c (n_children nd) | None => true end
                | None => false end).
    destruct ret eqn:R.
    - simpl. exists g. exists true. split; [reflexivity|]. split; [exact I|]. split; [reflexivity|].
      intros _. split; [reflexivity|].
      subst ret. destruct (get_node g sid) as [nd|]; [|discriminate R].
      exists nd. split; [reflexivity|]. intros c ->. exact R.
    - simpl. destruct (node_id_ok sid) eqn:NK; simpl;
        [|exists g; exists false; split; [reflexivity|]; split; [exact I|]; split; [reflexivity|discriminate]].
      destruct (cf_ge20 (g_cf g)) eqn:GE.
      + split_facts F. rewrite GE in F. simpl in F. apply member_some in F as [ip E]. rewrite E.
        destruct (route g (mkMsg sid system_child_id (vt_internal (tab g)) 0 ip [])) as [g1 r] eqn:RT.
        pose proof (route_ok g (mkMsg sid system_child_id (vt_internal (tab g)) 0 ip []) I) as [I1 C1].
        rewrite RT in I1, C1. simpl in I1, C1.
        destruct r as [m'|].
        * exists (add_job_send g1 (encode m')). exists false. split; [reflexivity|].
          split; [apply Inv_add_job; exact I1|]. split; [rewrite cf_add_job; exact C1|discriminate].
        * exists g1. exists false. split; [reflexivity|]. split; [exact I1|]. split; [exact C1|discriminate].
      + exists g. exists false. split; [reflexivity|]. split; [exact I|]. split; [reflexivity|discriminate].
  Qed.

  (* ---- messages decoded from a line copy faithfully ---- *)
  Lemma copy_ok m r : wire_ok (m_payload m) = true -> copy m r = Ok (override m r).
  Proof. apply copy_spec. Qed.

  (* result of a handler: Ok, invariant kept, configuration untouched *)
  Definition hres_ok (g : gw) (r : res (gw * option msg)) : Prop :=
    exists g' rep, r = Ok (g', rep) /\ Inv g' /\ g_cf g' = g_cf g.

  Lemma hres_intro g g' rep : Inv g' -> g_cf g' = g_cf g -> hres_ok g (Ok (g', rep)).
  Proof. intros. exists g'. exists rep. auto. Qed.

  Lemma node_ok_same t k nd nd' :
    n_id nd' = n_id nd -> n_new nd' = n_new nd -> node_ok t (k, nd) -> node_ok t (n_id nd', nd').
  Proof.
    intros E1 E2 [K N]. simpl in *. split; simpl; [reflexivity|]. rewrite E1, E2. exact N.
  Qed.

  Lemma get_node_add_sensor g sid : exists nd, get_node (add_sensor g sid) sid = Some nd.
  Proof.
    unfold add_sensor. destruct (zhas sid (g_sensors g)) eqn:H.
    - apply zhas_true in H. exact H.
    - unfold get_node. simpl. rewrite zassoc_app.
      unfold zhas in H. destruct (zassoc sid (g_sensors g)); [discriminate|].
      simpl. rewrite Z.eqb_refl. eexists. reflexivity.
  Qed.

  Lemma Inv_add_sensor g sid : Inv g -> Inv (add_sensor g sid).
  Proof.
    intros [S O]. unfold add_sensor. destruct (zhas sid (g_sensors g)); [split; assumption|].
    split; [|exact O]. simpl. apply Forall_app. split; [exact S|].
    constructor; [|constructor]. split; simpl; [reflexivity|constructor].
  Qed.

  Lemma cf_add_sensor g sid : g_cf (add_sensor g sid) = g_cf g.
  Proof. unfold add_sensor. destruct (zhas sid (g_sensors g)); reflexivity. Qed.

  Lemma tab_cf g g' : g_cf g' = g_cf g -> tab g' = tab g.
  Proof. unfold tab. intros ->. reflexivity. Qed.

  (* put a node that keeps id and desired state *)
  Lemma Inv_put_same g k nd nd' :
    Inv g -> get_node g k = Some nd -> n_id nd' = n_id nd -> n_new nd' = n_new nd -> Inv (put_node g nd').
  Proof.
    intros I G E1 E2. apply Inv_put_node; [exact I|].
    apply (node_ok_same _ k nd); try assumption. apply get_node_ok; assumption.
  Qed.

  Lemma handle_presentation_ok g m : facts g -> Inv g -> hres_ok g (handle_presentation orc g m).
  Proof.
    intros F I. unfold handle_presentation.
    destruct (m_child m =? system_child_id).
    - destruct (get_node_add_sensor g (m_node m)) as [nd G]. rewrite G.
      apply hres_intro.
      + apply Inv_alert. eapply Inv_put_same; [apply Inv_add_sensor; exact I|exact G|reflexivity|reflexivity].
      + rewrite cf_alert. simpl. apply cf_add_sensor.
    - destruct (is_sensor_ok g (m_node m) None F I) as (g1 & b & E & I1 & C1 & K). rewrite E. cbn [bind].
      destruct b; cbn [negb].
      + destruct (K eq_refl) as [-> [nd [G _]]]. rewrite G.
        destruct (zhas (m_child m) (n_children nd)); [apply hres_intro; [exact I|reflexivity]|].
        apply hres_intro; [|rewrite cf_alert; reflexivity].
        apply Inv_alert. eapply Inv_put_same; [exact I|exact G|reflexivity|reflexivity].
      + apply hres_intro; assumption.
  Qed.

  (* update_child_value keeps the id and only confirms (None) desired entries *)
  Lemma update_child_value_ok t k nd c vt v :
    node_ok t (k, nd) -> node_ok t (n_id (update_child_value nd c vt v), update_child_value nd c vt v).
  Proof.
    intros [K N]. simpl in *. unfold update_child_value.
    destruct (zassoc c (n_children nd)) as [ch|]; [|split; simpl; [reflexivity|exact N]].
    destruct (zassoc c (n_new nd)) as [dv|] eqn:D; [|split; simpl; [reflexivity|exact N]].
    split; simpl; [reflexivity|].
    apply Forall_zset; [exact N|]. simpl.
    pose proof (zassoc_Forall _ _ _ _ N D) as DV. simpl in DV.
    apply Forall_zset; [exact DV|]. simpl. exact Logic.I.
  Qed.

  Lemma internal_member_ok g n : has_member (vt_internal_members (tab g)) n = true ->
    exists z, internal_member g n = Ok z.
  Proof. intro H. apply member_some in H as [z E]. unfold internal_member. rewrite E. exists z. reflexivity. Qed.
  Lemma stream_member_ok g n : has_member (vt_stream_members (tab g)) n = true ->
    exists z, stream_member g n = Ok z.
  Proof. intro H. apply member_some in H as [z E]. unfold stream_member. rewrite E. exists z. reflexivity. Qed.

  Lemma handle_set_ok g m : facts g -> Inv g -> wire_ok (m_payload m) = true -> hres_ok g (handle_set g m).
  Proof.
    intros F I W. unfold handle_set.
    destruct (is_sensor_ok g (m_node m) (Some (m_child m)) F I) as (g1 & b & E & I1 & C1 & K). rewrite E. cbn [bind].
    destruct b; cbn [negb]; [|apply hres_intro; assumption].
    destruct (K eq_refl) as [-> [nd [G _]]]. rewrite G.
    assert (I2 : Inv (alert (put_node g (update_child_value nd (m_child m) (m_sub m) (m_payload m))) m)).
    { apply Inv_alert. apply Inv_put_node; [exact I|].
      apply (update_child_value_ok _ (m_node m)). apply get_node_ok; assumption. }
    destruct (n_reboot (update_child_value nd (m_child m) (m_sub m) (m_payload m))).
    - split_facts F.
      match goal with H : has_member _ "I_REBOOT" = true |- _ => destruct (internal_member_ok g _ H) as [z Ez] end.
      rewrite Ez. cbn [bind]. rewrite copy_ok by exact W. cbn [bind].
      apply hres_intro; [exact I2|rewrite cf_alert; reflexivity].
    - apply hres_intro; [exact I2|rewrite cf_alert; reflexivity].
  Qed.

  Lemma handle_req_ok g m : facts g -> Inv g -> wire_ok (m_payload m) = true -> hres_ok g (handle_req g m).
  Proof.
    intros F I W. unfold handle_req.
    destruct (is_sensor_ok g (m_node m) (Some (m_child m)) F I) as (g1 & b & E & I1 & C1 & K). rewrite E. cbn [bind].
    destruct b; cbn [negb]; [|apply hres_intro; assumption].
    destruct (K eq_refl) as [-> [nd [G _]]]. rewrite G.
    destruct (get_desired_value nd (m_child m) (m_sub m)); [|apply hres_intro; [exact I|reflexivity]].
    rewrite copy_ok by exact W. cbn [bind]. apply hres_intro; [exact I|reflexivity].
  Qed.

  Lemma handle_id_request_ok g m : facts g -> Inv g -> wire_ok (m_payload m) = true -> hres_ok g (handle_id_request g m).
  Proof.
    intros F I W. unfold handle_id_request.
    destruct (next_id g) as [nid|]; [|apply hres_intro; [exact I|reflexivity]].
    destruct (zhas nid (g_sensors (add_sensor g nid))); cbn [negb];
      [|apply hres_intro; [apply Inv_add_sensor; exact I|apply cf_add_sensor]].
    split_facts F.
    match goal with H : has_member _ "I_ID_RESPONSE" = true |- _ => destruct (internal_member_ok g _ H) as [z Ez] end.
    rewrite Ez. cbn [bind]. rewrite copy_ok by exact W. cbn [bind].
    apply hres_intro; [apply Inv_alert; apply Inv_add_sensor; exact I|rewrite cf_alert; apply cf_add_sensor].
  Qed.

  Lemma node_attr_ok f g m : facts g -> Inv g ->
    (forall nd p, n_id (f nd p) = n_id nd /\ n_new (f nd p) = n_new nd) ->
    hres_ok g (node_attr_handler f g m).
  Proof.
    intros F I Hf. unfold node_attr_handler.
    destruct (is_sensor_ok g (m_node m) None F I) as (g1 & b & E & I1 & C1 & K). rewrite E. cbn [bind].
    destruct b; cbn [negb]; [|apply hres_intro; assumption].
    destruct (K eq_refl) as [-> [nd [G _]]]. rewrite G.
    destruct (Hf nd (m_payload m)) as [H1 H2].
    apply hres_intro; [|rewrite cf_alert; reflexivity].
    apply Inv_alert. eapply Inv_put_same; eassumption.
  Qed.

  (* ---- wake-up flush ---- *)
  Lemma create_set_message_valid g nid c vt v :
    dvalid (tab g) nid c vt v ->
    create_set_message orc g nid c (VtInt vt) v None None = Ok (mkMsg nid c (vt_set (tab g)) 0 vt (py_str v)).
  Proof. intro D. unfold create_set_message. simpl. unfold gvalidate. unfold dvalid in D. rewrite D. reflexivity. Qed.

  Lemma flush_values_pre_ok g nid c dv vals :
    dv_ok (tab g) nid c dv -> snd (flush_values_pre orc g nid c dv vals) = None.
  Proof.
    intro D. induction vals as [|[vt x] r IH]; simpl; [reflexivity|].
    destruct (zassoc vt dv) as [[v|]|] eqn:E; try exact IH.
    pose proof (zassoc_Forall _ _ _ _ D E) as V. simpl in V.
    rewrite (create_set_message_valid g nid c vt v V).
    destruct (flush_values_pre orc g nid c dv r). simpl in *. exact IH.
  Qed.

  Lemma flush_children_pre_ok g nd chs :
    Forall (fun cd => dv_ok (tab g) (n_id nd) (fst cd) (snd cd)) (n_new nd) ->
    snd (flush_children_pre orc g nd chs) = None.
  Proof.
    intro N. induction chs as [|[k ch] r IH]; simpl; [reflexivity|].
    destruct (zassoc (c_id ch) (n_new nd)) as [dv|] eqn:E; [|exact IH].
    pose proof (zassoc_Forall _ _ _ _ N E) as D. simpl in D.
    pose proof (flush_values_pre_ok g (n_id nd) (c_id ch) dv (c_values ch) D) as P.
    destruct (flush_values_pre orc g (n_id nd) (c_id ch) dv (c_values ch)) as [a e]. simpl in P. subst e.
    destruct (flush_children_pre orc g nd r). simpl in *. exact IH.
  Qed.

  Lemma init_smart_sleep_ok t k nd : node_ok t (k, nd) -> node_ok t (n_id (init_smart_sleep nd), init_smart_sleep nd).
  Proof.
    intros [K N]. simpl in *. split; simpl; [reflexivity|].
    generalize (n_children nd). intro chs. revert N. generalize (n_new nd).
    induction chs as [|[c ch] r IH]; intros nw N; simpl; [exact N|].
    apply IH. destruct (zhas c nw); [exact N|].
    apply Forall_app. split; [exact N|]. constructor; [|constructor]. simpl. constructor.
  Qed.

  Lemma handle_smartsleep_ok g k nd : Inv g -> get_node g k = Some nd ->
    exists g2, handle_smartsleep orc g nd = Ok g2 /\ Inv g2 /\ g_cf g2 = g_cf g /\
               exists nd2, get_node g2 k = Some nd2.
  Proof.
    intros I G. unfold handle_smartsleep.
    pose proof (get_node_ok _ _ _ I G) as NK.
    pose proof (init_smart_sleep_ok _ _ _ NK) as N1.
    set (nd1 := init_smart_sleep nd) in *.
    set (nd2 := with_queue nd1 []).
    assert (N2 : node_ok (tab g) (n_id nd2, nd2)) by (destruct N1 as [A B]; split; simpl in *; assumption).
    set (g1 := put_node g nd2).
    assert (I1 : Inv g1) by (apply Inv_put_node; assumption).
    set (g2 := fold_left add_job_send (n_queue nd1) g1).
    assert (I2 : Inv g2) by (apply Inv_fold_add_job; exact I1).
    assert (C2 : g_cf g2 = g_cf g).
    { destruct (fold_add_job_send_frame (n_queue nd1) g1) as (_&_&C&_). exact C. }
    assert (FP : snd (flush_children_pre orc g2 nd2 (n_children nd2)) = None).
    { apply flush_children_pre_ok. rewrite (tab_cf _ _ C2). destruct N2 as [_ B]. exact B. }
    destruct (flush_children_pre orc g2 nd2 (n_children nd2)) as [sets e]. simpl in FP. subst e.
    exists (fold_left add_job_send sets g2). split; [reflexivity|]. split; [apply Inv_fold_add_job; exact I2|].
    destruct (fold_add_job_send_frame sets g2) as (S3&_&C3&_). split; [congruence|].
    destruct (fold_add_job_send_frame (n_queue nd1) g1) as (S2&_).
    exists nd2. unfold get_node. rewrite S3. unfold g2. rewrite S2. unfold g1. simpl.
    assert (E : n_id nd2 = k) by (destruct NK as [A _]; simpl in A; exact A).
    change (zassoc k (zset (n_id nd2) nd2 (g_sensors g)) = Some nd2).
    rewrite E. apply zassoc_zset_same.
  Qed.

  Lemma handle_heartbeat_ok g m : facts g -> Inv g -> hres_ok g (handle_heartbeat_response orc g m).
  Proof.
    intros F I. unfold handle_heartbeat_response.
    destruct (is_sensor_ok g (m_node m) None F I) as (g1 & b & E & I1 & C1 & K). rewrite E. cbn [bind].
    destruct b; cbn [negb]; [|apply hres_intro; assumption].
    destruct (K eq_refl) as [-> [nd [G _]]]. rewrite G.
    destruct (handle_smartsleep_ok g (m_node m) nd I G) as (g2 & E2 & I2 & C2 & nd2 & G2).
    rewrite E2. cbn [bind]. rewrite G2.
    apply hres_intro; [|rewrite cf_alert; exact C2].
    apply Inv_alert. eapply Inv_put_same; [exact I2|exact G2|reflexivity|reflexivity].
  Qed.

  Lemma handle_pre_sleep_ok g m : facts g -> Inv g -> hres_ok g (handle_pre_sleep orc g m).
  Proof.
    intros F I. unfold handle_pre_sleep.
    destruct (is_sensor_ok g (m_node m) None F I) as (g1 & b & E & I1 & C1 & K). rewrite E. cbn [bind].
    destruct b; cbn [negb]; [|apply hres_intro; assumption].
    destruct (K eq_refl) as [-> [nd [G _]]]. rewrite G.
    destruct (handle_smartsleep_ok g (m_node m) nd I G) as (g2 & E2 & I2 & C2 & _).
    rewrite E2. cbn [bind]. apply hres_intro; assumption.
  Qed.

  (* ---- OTA ---- *)
  Lemma ota_get_fw_ok o nid first req :
    ota_ok o ->
    ota_ok (fst (ota_get_fw o nid first req)) /\
    forall t v f, snd (ota_get_fw o nid first req) = Some (t, v, f) ->
      word (fw_blocks f) /\ word (fw_crc f) /\
      (match req with Some (rt, rv) => t = rt /\ v = rv | None => word t /\ word v end).
  Proof.
    intros (R & U & S & FW). unfold ota_get_fw.
    set (s1 := if first then o_requested o else o_unstarted o).
    set (s2 := if first then o_unstarted o else o_started o).
    assert (S1 : store_ok s1) by (subst s1; destruct first; assumption).
    assert (S2 : store_ok s2) by (subst s2; destruct first; assumption).
    replace (if first then (o_requested o, o_unstarted o) else (o_unstarted o, o_started o)) with (s1, s2)
      by (subst s1 s2; destruct first; reflexivity).
    cbv beta iota.
    assert (LK : forall t v f, fw_lookup t v (o_fw o) = Some f -> word (fw_blocks f) /\ word (fw_crc f)).
    { intros t v f. induction (o_fw o) as [|[[t' v'] f'] l IH]; simpl; [discriminate|].
      inversion FW; subst. destruct (Z.eqb t t' && Z.eqb v v'); [intro H; inversion H; subst; assumption|auto]. }
    assert (CASE : forall id s1' s2', store_ok s1' -> store_ok s2' -> word (fst id) /\ word (snd id) ->
      let o' := if first then mkOta (o_fw o) s1' s2' (o_started o) else mkOta (o_fw o) (o_requested o) s1' s2' in
      let r := (let '(t, v) := match req with Some r => r | None => id end in
                match fw_lookup t v (o_fw o) with Some f => (o', Some (t, v, f)) | None => (o', None) end) in
      ota_ok (fst r) /\ forall t v f, snd r = Some (t, v, f) ->
         word (fw_blocks f) /\ word (fw_crc f) /\
         (match req with Some (rt, rv) => t = rt /\ v = rv | None => word t /\ word v end)).
    { intros id s1' s2' A B W o' r.
      assert (OK' : ota_ok o') by (subst o'; destruct first; repeat split; assumption).
      subst r. destruct req as [[rt rv]|]; [|destruct id as [t0 v0]].
      - destruct (fw_lookup rt rv (o_fw o)) as [f|] eqn:L; simpl; (split; [exact OK'|]); intros t v f' H;
          [inversion H; subst; destruct (LK _ _ _ L); auto|discriminate].
      - destruct (fw_lookup t0 v0 (o_fw o)) as [f|] eqn:L; simpl; (split; [exact OK'|]); intros t v f' H;
          [inversion H; subst; destruct (LK _ _ _ L); simpl in W; tauto|discriminate]. }
    destruct (zassoc nid s1) as [id|] eqn:E1.
    - pose proof (zassoc_Forall _ _ _ _ S1 E1) as W. simpl in W.
      apply CASE; [apply Forall_zdel; exact S1|apply Forall_zset; assumption|exact W].
    - destruct (zassoc nid s2) as [id|] eqn:E2.
      + pose proof (zassoc_Forall _ _ _ _ S2 E2) as W. simpl in W.
        apply CASE; [exact S1|apply Forall_zset; [apply Forall_zdel; exact S2|exact W]|exact W].
      + simpl. split; [repeat split; assumption|discriminate].
  Qed.

  Lemma Inv_set_ota g o : Inv g -> ota_ok o -> Inv (set_ota g o).
  Proof. intros [S _] O. split; assumption. Qed.

  Lemma words_ok_list ws : Forall word ws -> words_ok ws = true.
  Proof. induction 1 as [|w r H _ IH]; [reflexivity|]. simpl. unfold word in H. rewrite H. exact IH. Qed.

  Lemma respond_fw_config_ok g m : facts g -> Inv g -> wire_ok (m_payload m) = true ->
    hres_ok g (respond_fw_config g m).
  Proof.
    intros F I W. unfold respond_fw_config.
    destruct (fw_hex_to_int (m_payload m) 5); [|apply hres_intro; [exact I|reflexivity]].
    destruct I as [S O].
    destruct (ota_get_fw_ok (g_ota g) (m_node m) true None O) as [O' R].
    destruct (ota_get_fw (g_ota g) (m_node m) true None) as [o' r]. simpl in O', R.
    assert (I' : Inv (set_ota g o')) by (apply Inv_set_ota; [split; assumption|exact O']).
    destruct r as [[[t v] f]|]; [|apply hres_intro; [exact I'|reflexivity]].
    destruct (R t v f eq_refl) as (B & C & Wt & Wv).
    split_facts F.
    match goal with H : has_member _ "ST_FIRMWARE_CONFIG_RESPONSE" = true |- _ =>
      destruct (stream_member_ok g _ H) as [z Ez] end.
    rewrite Ez. cbn [bind]. rewrite copy_ok by exact W. cbn [bind].
    unfold fw_config_payload. rewrite fw_int_to_hex_ok by (apply words_ok_list; repeat constructor; assumption).
    cbn [bind]. apply hres_intro; [exact I'|reflexivity].
  Qed.

  Lemma respond_fw_ok g m : facts g -> Inv g -> wire_ok (m_payload m) = true -> hres_ok g (respond_fw g m).
  Proof.
    intros F I W. unfold respond_fw.
    destruct (fw_hex_to_int (m_payload m) 3) as [ws|e] eqn:E; [|apply hres_intro; [exact I|reflexivity]].
    destruct (fw_int_hex_roundtrip _ _ _ E) as (_ & _ & WS).
    destruct ws as [|rt [|rv [|rb [|x y]]]]; try (apply hres_intro; [exact I|reflexivity]).
    destruct I as [S O].
    destruct (ota_get_fw_ok (g_ota g) (m_node m) false (Some (rt, rv)) O) as [O' R].
    destruct (ota_get_fw (g_ota g) (m_node m) false (Some (rt, rv))) as [o' r]. simpl in O', R.
    assert (I' : Inv (set_ota g o')) by (apply Inv_set_ota; [split; assumption|exact O']).
    destruct r as [[[t v] f]|]; [|apply hres_intro; [exact I'|reflexivity]].
    destruct (R t v f eq_refl) as (B & C & -> & ->).
    split_facts F.
    match goal with H : has_member _ "ST_FIRMWARE_RESPONSE" = true |- _ =>
      destruct (stream_member_ok g _ H) as [z Ez] end.
    rewrite Ez. cbn [bind]. rewrite copy_ok by exact W. cbn [bind].
    unfold fw_response_payload. rewrite fw_int_to_hex_ok by exact WS.
    cbn [bind]. apply hres_intro; [exact I'|reflexivity].
  Qed.

  Lemma handle_gateway_ready_20_ok g m : facts g -> Inv g -> wire_ok (m_payload m) = true ->
    has_member (vt_internal_members (tab g)) "I_DISCOVER" = true -> hres_ok g (handle_gateway_ready_20 g m).
  Proof.
    intros F I W H. unfold handle_gateway_ready_20.
    destruct (internal_member_ok g _ H) as [z Ez]. rewrite Ez. cbn [bind].
    rewrite copy_ok by exact W. cbn [bind]. apply hres_intro; [apply Inv_alert; exact I|apply cf_alert].
  Qed.

  Lemma handle_discover_ok g m : facts g -> Inv g -> hres_ok g (handle_discover_response g m).
  Proof.
    intros F I. unfold handle_discover_response.
    destruct (is_sensor_ok g (m_node m) None F I) as (g1 & b & E & I1 & C1 & _). rewrite E. cbn [bind].
    apply hres_intro; assumption.
  Qed.

  Lemma run_leaf_ok h g m : facts g -> Inv g -> wire_ok (m_payload m) = true ->
    In h (all_sub_handlers (tab g)) -> hres_ok g (run_leaf orc clock h g m).
  Proof.
    intros F I W IN.
    assert (LO : leaf_ok h = true).
    { pose proof F as F'. split_facts F'.
      match goal with H : forallb leaf_ok _ = true |- _ => rewrite forallb_forall in H; apply H; exact IN end. }
    destruct h; try discriminate LO; unfold run_leaf.
    - apply respond_fw_config_ok; assumption.
    - apply respond_fw_ok; assumption.
    - apply handle_id_request_ok; assumption.
    - unfold handle_config. rewrite copy_ok by exact W. cbn [bind]. apply hres_intro; [exact I|reflexivity].
    - unfold handle_time. rewrite copy_ok by exact W. cbn [bind]. apply hres_intro; [exact I|reflexivity].
    - apply node_attr_ok; [assumption|assumption|intros; split; reflexivity].
    - apply node_attr_ok; [assumption|assumption|intros; split; reflexivity].
    - apply node_attr_ok; [assumption|assumption|intros; split; reflexivity].
    - apply hres_intro; [exact I|reflexivity].
    - unfold handle_gateway_ready. apply hres_intro; [apply Inv_alert; exact I|apply cf_alert].
    - apply handle_gateway_ready_20_ok; try assumption.
      pose proof F as F'. split_facts F'.
      assert (X : existsb is_gr20 (all_sub_handlers (tab g)) = true)
        by (apply existsb_exists; exists HGatewayReady20; split; [exact IN|reflexivity]).
      match goal with H : negb (existsb is_gr20 _) || _ = true |- _ =>
        rewrite X in H; simpl in H; exact H end.
    - apply handle_heartbeat_ok; assumption.
    - apply handle_discover_ok; assumption.
    - apply node_attr_ok; [assumption|assumption|intros; split; reflexivity].
    - apply handle_pre_sleep_ok; assumption.
  Qed.

  Lemma handle_internal_ok g m : facts g -> Inv g -> wire_ok (m_payload m) = true ->
    hres_ok g (handle_internal orc clock g m).
  Proof.
    intros F I W. unfold handle_internal.
    destruct (sub_handler (tab g) (m_type m) (m_sub m)) as [h|] eqn:E; [|apply hres_intro; [exact I|reflexivity]].
    apply run_leaf_ok; try assumption. eapply sub_handler_in. exact E.
  Qed.

  Lemma handle_stream_ok g m : facts g -> Inv g -> wire_ok (m_payload m) = true ->
    hres_ok g (handle_stream orc clock g m).
  Proof.
    intros F I W. unfold handle_stream.
    destruct (is_sensor_ok g (m_node m) None F I) as (g1 & b & E & I1 & C1 & K). rewrite E. cbn [bind].
    destruct b; cbn [negb]; [|apply hres_intro; assumption].
    destruct (K eq_refl) as [-> _].
    destruct (sub_handler (tab g) (m_type m) (m_sub m)) as [h|] eqn:E2; [|apply hres_intro; [exact I|reflexivity]].
    destruct (run_leaf_ok h g m F I W (sub_handler_in _ _ _ _ E2)) as (g2 & rep & E3 & I2 & C2).
    rewrite E3. cbn [bind]. apply hres_intro; [apply Inv_alert; exact I2|rewrite cf_alert; exact C2].
  Qed.

  (* ---- the dispatcher ---- *)
  Lemma validated_type_range g m : cfg_ok (g_cf g) -> gvalidate orc g m = true -> between 0 4 (m_type m) = true.
  Proof.
    intros [v [T _]] V. unfold gvalidate, tab in V. rewrite T in V.
    rewrite validate_conforms in V. unfold spec_accepts in V.
    repeat match type of V with _ && _ = true => apply andb_true_iff in V as [V ?] end. assumption.
  Qed.

  Lemma type_handler_cases g ty : facts g -> between 0 4 ty = true ->
    (ty = 0 /\ type_handler (tab g) ty = Some HPresentation) \/ (ty = 1 /\ type_handler (tab g) ty = Some HSet) \/
    (ty = 2 /\ type_handler (tab g) ty = Some HReq) \/ (ty = 3 /\ type_handler (tab g) ty = Some HInternal) \/
    (ty = 4 /\ type_handler (tab g) ty = Some HStream).
  Proof.
    intros F B. split_facts F.
    match goal with H : match type_handler _ 0 with _ => _ end = true |- _ => rename H into TH end.
    destruct (type_handler (tab g) 0) as [[]|] eqn:E0; try discriminate TH.
    destruct (type_handler (tab g) 1) as [[]|] eqn:E1; try discriminate TH.
    destruct (type_handler (tab g) 2) as [[]|] eqn:E2; try discriminate TH.
    destruct (type_handler (tab g) 3) as [[]|] eqn:E3; try discriminate TH.
    destruct (type_handler (tab g) 4) as [[]|] eqn:E4; try discriminate TH.
    unfold between in B.
    assert (C : ty = 0 \/ ty = 1 \/ ty = 2 \/ ty = 3 \/ ty = 4) by lia.
    destruct C as [->|[->|[->|[->| ->]]]]; tauto.
  Qed.

  Theorem logic_total g l : cfg_ok (g_cf g) -> Inv g ->
    exists g' r, logic orc clock g l = Ok (g', r) /\ Inv g' /\ g_cf g' = g_cf g.
  Proof.
    intros C I. pose proof (facts_of_cfg g C) as F. unfold logic.
    destruct (decode l) as [m|] eqn:D; [|exists g; exists None; auto].
    pose proof (decoded_payload_wire_ok _ _ D) as W.
    destruct (gvalidate orc g m) eqn:V; cbn [negb]; [|exists g; exists None; auto].
    pose proof (validated_type_range g m C V) as B.
    assert (H : exists h, type_handler (tab g) (m_type m) = Some h /\ hres_ok g (run_handler orc clock h g m)).
    { destruct (type_handler_cases g (m_type m) F B) as [[_ E]|[[_ E]|[[_ E]|[[_ E]|[_ E]]]]];
        eexists; (split; [exact E|]); unfold run_handler.
      - apply handle_presentation_ok; assumption.
      - apply handle_set_ok; assumption.
      - apply handle_req_ok; assumption.
      - apply handle_internal_ok; assumption.
      - apply handle_stream_ok; assumption. }
    destruct H as (h & E & g1 & rep & E1 & I1 & C1). rewrite E, E1. cbn [bind].
    pose proof (route_opt_ok g1 rep I1) as [I2 C2].
    destruct (route_opt g1 rep) as [g2 routed]. simpl in I2, C2.
    exists g2. eexists. split; [reflexivity|]. split; [exact I2|congruence].
  Qed.

  (* a rejected line has no effect at all *)
  Theorem rejected_is_noop g l :
    (decode l = None \/ exists m, decode l = Some m /\ gvalidate orc g m = false) ->
    logic orc clock g l = Ok (g, None).
  Proof.
    intros [D|[m [D V]]]; unfold logic; rewrite D; [reflexivity|]. rewrite V. reflexivity.
  Qed.

  (* ---- controller calls ---- *)
  Lemma set_child_value_ok g sid cid vt v mt a : facts g -> Inv g ->
    match set_child_value orc g sid cid vt v mt a with
    | Ok g' => Inv g' /\ g_cf g' = g_cf g
    | Raise _ => True
    end.
  Proof.
    intros F I. unfold set_child_value.
    destruct (is_sensor_ok g sid (Some cid) F I) as (g1 & b & E & I1 & C1 & K). rewrite E. cbn [bind].
    destruct b; cbn [negb]; [|split; assumption].
    destruct (K eq_refl) as [-> [nd [G _]]]. rewrite G.
    destruct (sleeping nd).
    - destruct (create_set_message orc g (n_id nd) cid vt v None None) as [m0|e] eqn:CM; cbn [bind]; [|exact Logic.I].
      destruct (zassoc cid (n_new nd)) as [dv|] eqn:D; [|exact Logic.I].
      destruct (validate_child_state orc nd cid vt v); cbn [bind]; [|exact Logic.I].
      unfold create_set_message in CM.
      destruct (vt_int vt) as [vti|]; [|exact Logic.I].
      simpl in CM. destruct (gvalidate orc g (mkMsg (n_id nd) cid (vt_set (tab g)) 0 vti (py_str v))) eqn:V; [|discriminate].
      split; [|reflexivity]. apply Inv_put_node; [exact I|].
      pose proof (get_node_ok _ _ _ I G) as [KK N]. simpl in KK, N.
      split; simpl; [reflexivity|].
      apply Forall_zset; [exact N|]. simpl.
      pose proof (zassoc_Forall _ _ _ _ N D) as DV. simpl in DV.
      apply Forall_zset; [exact DV|]. simpl. exact V.
    - destruct (create_set_message orc g (n_id nd) cid vt v mt a); cbn [bind]; [|exact Logic.I].
      split; [apply Inv_add_job; exact I|apply cf_add_job].
  Qed.

  (* firmware images the update call may be given: bytes, and a block count that fits 16 bits *)
  Definition image_ok (bin : option (list N)) : Prop :=
    match bin with
    | Some b => bytes_ok b = true /\ word (fw_blocks (prepare_fw b))
    | None => True
    end.

  Lemma fw_store_ok t v f l : fws_ok l -> word (fw_blocks f) /\ word (fw_crc f) -> fws_ok (fw_store t v f l).
  Proof.
    intros FW W. induction l as [|[[t' v'] f'] l IH]; simpl; [constructor; [exact W|constructor]|].
    inversion FW; subst. destruct (Z.eqb t t' && Z.eqb v v'); constructor; try assumption.
    apply IH. assumption.
  Qed.

  Definition update_one (t v : Z) (g : gw) (nid : Z) : gw :=
    match get_node g nid with
    | None => g
    | Some nd =>
        let o := g_ota g in
        put_node (set_ota g (mkOta (o_fw o) (zset nid (t, v) (o_requested o))
                                   (zdel nid (o_unstarted o)) (zdel nid (o_started o))))
                 (with_reboot nd true)
    end.

  Lemma update_one_ok t v g nid : word t -> word v -> Inv g ->
    Inv (update_one t v g nid) /\ g_cf (update_one t v g nid) = g_cf g.
  Proof.
    intros Wt Wv I. unfold update_one. destruct (get_node g nid) as [nd|] eqn:G; [|split; [exact I|reflexivity]].
    split; [|reflexivity].
    eapply Inv_put_same; [|exact G|reflexivity|reflexivity].
    destruct I as [S (R&U&ST&FW)]. split; [exact S|].
    repeat split; simpl; try assumption.
    - apply Forall_zset; [exact R|split; assumption].
    - apply Forall_zdel; exact U.
    - apply Forall_zdel; exact ST.
  Qed.

  Lemma update_fold_ok t v nids g : word t -> word v -> Inv g ->
    Inv (fold_left (update_one t v) nids g) /\ g_cf (fold_left (update_one t v) nids g) = g_cf g.
  Proof.
    intros Wt Wv. revert g. induction nids as [|nid r IH]; intros g I; simpl; [split; [exact I|reflexivity]|].
    destruct (update_one_ok t v g nid Wt Wv I) as [I1 C1].
    destruct (IH _ I1) as [I2 C2]. split; [exact I2|congruence].
  Qed.

  Lemma update_fw_ok g nids fwt fwv bin : Inv g -> image_ok bin ->
    match update_fw g nids fwt fwv bin with
    | Ok g' => Inv g' /\ g_cf g' = g_cf g
    | Raise _ => True
    end.
  Proof.
    intros I IM. unfold update_fw.
    destruct bin as [[|b0 br]|] eqn:EB; [split; [exact I|reflexivity]| |].
    all: destruct (vt_int fwt) as [t|]; [|split; [exact I|reflexivity]];
         destruct (vt_int fwv) as [v|]; [|split; [exact I|reflexivity]];
         destruct (negb ((0 <=? t) && (t <=? 65535)) || negb ((0 <=? v) && (v <=? 65535))) eqn:RG;
         [split; [exact I|reflexivity]|].
    all: apply orb_false_iff in RG as [R1 R2]; apply negb_false_iff in R1, R2;
         assert (Wt : word t) by exact R1; assert (Wv : word v) by exact R2.
    all: match goal with |- context [fw_lookup _ _ ?fwl] => set (FWL := fwl) end.
    all: assert (FO : fws_ok FWL).
    1: { subst FWL. destruct I as [_ (_&_&_&FW)]. apply fw_store_ok; [exact FW|].
         destruct IM as [BO BL]. split; [exact BL|]. rewrite prepare_fw_crc. apply crc16_range.
         apply prepare_fw_bytes. exact BO. }
    2: { subst FWL. destruct I as [_ (_&_&_&FW)]. exact FW. }
    all: set (g0 := set_ota g (mkOta FWL (o_requested (g_ota g)) (o_unstarted (g_ota g)) (o_started (g_ota g))));
         assert (I0 : Inv g0) by (destruct I as [S (R&U&ST&_)]; split; [exact S|repeat split; assumption]);
         assert (C0 : g_cf g0 = g_cf g) by reflexivity;
         destruct (fw_lookup t v FWL); [|split; assumption].
    all: destruct (update_fold_ok t v nids g0 Wt Wv I0) as [I1 C1];
         change (Inv (fold_left (update_one t v) nids g0) /\ g_cf (fold_left (update_one t v) nids g0) = g_cf g);
         split; [exact I1|congruence].
  Qed.

  (* ---- steps and reachable states ---- *)
  Definition op_ok (o : op) : Prop :=
    match o with UpdateFw _ _ _ bin => image_ok bin | _ => True end.

  Lemma recv_ok g l : cfg_ok (g_cf g) -> Inv g -> Inv (recv orc clock g l) /\ g_cf (recv orc clock g l) = g_cf g.
  Proof.
    intros C I. unfold recv. destruct (cf_async (g_cf g)); [|split; [apply Inv_set_jobs; exact I|reflexivity]].
    destruct (logic_total g l C I) as (g1 & r & E & I1 & C1). rewrite E.
    destruct r; [split; [apply Inv_send; exact I1|rewrite cf_send; exact C1]|split; assumption].
  Qed.

  Lemma pump_ok g : cfg_ok (g_cf g) -> Inv g -> Inv (pump orc clock g) /\ g_cf (pump orc clock g) = g_cf g.
  Proof.
    intros C I. unfold pump. destruct (g_jobs g) as [|[l|l] r]; [split; [exact I|reflexivity]| |].
    - assert (I0 : Inv (set_jobs g r)) by (apply Inv_set_jobs; exact I).
      destruct (logic_total (set_jobs g r) l C I0) as (g1 & rep & E & I1 & C1). rewrite E.
      destruct rep; [split; [apply Inv_send; exact I1|rewrite cf_send; exact C1]|split; assumption].
    - split; [apply Inv_send; apply Inv_set_jobs; exact I|rewrite cf_send; reflexivity].
  Qed.

  Lemma step_ok g o : cfg_ok (g_cf g) -> Inv g -> op_ok o ->
    Inv (step orc clock g o) /\ g_cf (step orc clock g o) = g_cf g.
  Proof.
    intros C I O. destruct o as [l| |s c vt v mt a|ns t v b|b]; simpl.
    - apply recv_ok; assumption.
    - apply pump_ok; assumption.
    - pose proof (set_child_value_ok g s c vt v mt a (facts_of_cfg g C) I) as H.
      destruct (set_child_value orc g s c vt v mt a); [exact H|split; [apply Inv_emit; exact I|reflexivity]].
    - pose proof (update_fw_ok g ns t v b I O) as H.
      destruct (update_fw g ns t v b); [exact H|split; [apply Inv_emit; exact I|reflexivity]].
    - split; [|reflexivity]. revert I. apply Inv_ext; reflexivity.
  Qed.

  Lemma Inv_init cf : Inv (gw_init cf).
  Proof. split; [constructor|repeat split; constructor]. Qed.

  Lemma run_ok ops g : cfg_ok (g_cf g) -> Inv g -> Forall op_ok ops ->
    Inv (run orc clock g ops) /\ g_cf (run orc clock g ops) = g_cf g.
  Proof.
    revert g. induction ops as [|o ops IH]; intros g C I F; [split; [exact I|reflexivity]|].
    inversion F; subst. destruct (step_ok g o C I) as [I1 C1]; [assumption|].
    unfold run. simpl. destruct (IH (step orc clock g o)) as [I2 C2]; try assumption; [rewrite C1; exact C|].
    split; [exact I2|unfold run in C2; congruence].
  Qed.

  (* C01: in every reachable state the dispatcher processes every next line, and every
     queued line, without raising *)
  Theorem pump_total cf ops l : cfg_ok cf -> Forall op_ok ops ->
    let g := run orc clock (gw_init cf) ops in
    (exists g' r, logic orc clock g l = Ok (g', r)) /\
    (forall l' rest, g_jobs g = JLogic l' :: rest ->
       exists g' r, logic orc clock (set_jobs g rest) l' = Ok (g', r)).
  Proof.
    intros C F g. destruct (run_ok ops (gw_init cf) C (Inv_init cf) F) as [I CF]. fold g in I, CF.
    assert (Cg : cfg_ok (g_cf g)) by (rewrite CF; exact C).
    split.
    - destruct (logic_total g l Cg I) as (g' & r & E & _). exists g'. exists r. exact E.
    - intros l' rest J.
      destruct (logic_total (set_jobs g rest) l' Cg (Inv_set_jobs g rest I)) as (g' & r & E & _).
      exists g'. exists r. exact E.
  Qed.
End Inv.
