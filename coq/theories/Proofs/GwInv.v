(* The global invariant of the core machine and totality of the dispatcher (C01). *)
From Coq Require Import List NArith ZArith Bool String Lia.
From PMS Require Import Base.PyStr Base.PyInt Base.Exn Model.Codec Model.Rules Model.TableTypes
  Gen.Tables Model.Validate Model.Hex Model.Ota Model.Oracles Model.Gateway Spec.SerialApi
  Proofs.PyStrFacts Proofs.CodecProofs Proofs.ValidateProofs Proofs.GwLemmas.
Import ListNotations.
Open Scope string_scope.
Open Scope list_scope.
Open Scope Z_scope.

Definition ge20 (v : ver) : bool := match v with V20 | V21 | V22 => true | _ => false end.

(* the five configurations the library can select (get_const + the >= 2.0 test agree) *)
Definition cfg_ok (cf : config) : Prop := exists v, cf_tab cf = tab_of v /\ cf_ge20 cf = ge20 v.

(* ---- facts about the generated registry, closed by vm_compute per version ---- *)
Definition has_member (l : list (pstr * Z)) (n : string) : bool :=
  match sassoc (s2p n) l with Some _ => true | None => false end.

Definition all_sub_handlers (t : vtab) : list hfun :=
  flat_map (fun tn => flat_map (fun sn => match registry_fun t (snd sn) with Some h => [h] | None => [] end)
                               (snd tn)) (vt_sub_names t).

Definition leaf_ok (h : hfun) : bool :=
  match h with
  | HPresentation | HSet | HReq | HInternal | HStream | HUnknown => false
  | _ => true
  end.
Definition is_gr20 (h : hfun) : bool := match h with HGatewayReady20 => true | _ => false end.

Definition hfun_eqb (a b : hfun) : bool :=
  match a, b with
  | HPresentation, HPresentation | HSet, HSet | HReq, HReq | HInternal, HInternal | HStream, HStream => true
  | _, _ => false
  end.

Definition tab_facts (t : vtab) (ge : bool) : bool :=
  (negb ge || has_member (vt_internal_members t) "I_PRESENTATION") &&
  has_member (vt_internal_members t) "I_REBOOT" && has_member (vt_internal_members t) "I_ID_RESPONSE" &&
  (negb (existsb is_gr20 (all_sub_handlers t)) || has_member (vt_internal_members t) "I_DISCOVER") &&
  has_member (vt_stream_members t) "ST_FIRMWARE_CONFIG_RESPONSE" &&
  has_member (vt_stream_members t) "ST_FIRMWARE_RESPONSE" &&
  forallb leaf_ok (all_sub_handlers t) &&
  match type_handler t 0, type_handler t 1, type_handler t 2, type_handler t 3, type_handler t 4 with
  | Some HPresentation, Some HSet, Some HReq, Some HInternal, Some HStream => true
  | _, _, _, _, _ => false
  end.

Lemma tab_facts_all v : tab_facts (tab_of v) (ge20 v) = true.
Proof. destruct v; vm_compute; reflexivity. Qed.

Lemma sub_handler_in t ty sub h : sub_handler t ty sub = Some h -> In h (all_sub_handlers t).
Proof.
  unfold sub_handler, all_sub_handlers. intro H.
  destruct (zassoc ty (vt_sub_names t)) as [names|] eqn:E1; [|discriminate].
  destruct (zassoc sub names) as [name|] eqn:E2; [|discriminate].
  apply zassoc_In in E1. apply zassoc_In in E2.
  apply in_flat_map. exists (ty, names). split; [exact E1|].
  apply in_flat_map. exists (sub, name). split; [exact E2|]. simpl. rewrite H. left. reflexivity.
Qed.

Section Inv.
  Variable orc : oracles.
  Variable clock : Z.

  Definition dvalid (t : vtab) (nid c vt : Z) (v : pyval) : Prop :=
    validate (orc_version orc) (orc_float orc) t (mkMsg nid c (vt_set t) 0 vt (py_str v)) = true.
  Definition dv_ok (t : vtab) (nid c : Z) (dv : list (Z * option pyval)) : Prop :=
    Forall (fun kv => match snd kv with Some v => dvalid t nid c (fst kv) v | None => True end) dv.
  Definition node_ok (t : vtab) (kn : Z * node) : Prop :=
    n_id (snd kn) = fst kn /\
    Forall (fun cd => dv_ok t (n_id (snd kn)) (fst cd) (snd cd)) (n_new (snd kn)).
  Definition word (z : Z) : Prop := word_ok z = true.
  Definition store_ok (l : list (Z * (Z * Z))) : Prop :=
    Forall (fun e => word (fst (snd e)) /\ word (snd (snd e))) l.
  Definition fws_ok (l : list ((Z * Z) * fware)) : Prop :=
    Forall (fun e => word (fw_blocks (snd e)) /\ word (fw_crc (snd e))) l.
  Definition ota_ok (o : ota) : Prop :=
    store_ok (o_requested o) /\ store_ok (o_unstarted o) /\ store_ok (o_started o) /\ fws_ok (o_fw o).

  Definition Inv (g : gw) : Prop :=
    Forall (node_ok (tab g)) (g_sensors g) /\ ota_ok (g_ota g).

  Lemma Inv_ext g g' :
    g_sensors g' = g_sensors g -> g_ota g' = g_ota g -> g_cf g' = g_cf g -> Inv g -> Inv g'.
  Proof. unfold Inv, tab. intros -> -> ->. tauto. Qed.

  Lemma Inv_send g l : Inv g -> Inv (send g l).
  Proof. destruct (send_frame g l) as (?&?&?&_). apply Inv_ext; assumption. Qed.
  Lemma Inv_add_job g l : Inv g -> Inv (add_job_send g l).
  Proof. destruct (add_job_send_frame g l) as (?&?&?&_). apply Inv_ext; assumption. Qed.
  Lemma Inv_fold_add_job ls g : Inv g -> Inv (fold_left add_job_send ls g).
  Proof. destruct (fold_add_job_send_frame ls g) as (?&?&?&_). apply Inv_ext; assumption. Qed.
  Lemma Inv_alert g m : Inv g -> Inv (alert g m).
  Proof. destruct (alert_frame g m) as (?&?&?&_). apply Inv_ext; assumption. Qed.
  Lemma Inv_emit g e : Inv g -> Inv (emit g e).
  Proof. apply Inv_ext; reflexivity. Qed.
  Lemma Inv_set_jobs g j : Inv g -> Inv (set_jobs g j).
  Proof. apply Inv_ext; reflexivity. Qed.

  Lemma Inv_put_node g nd : Inv g -> node_ok (tab g) (n_id nd, nd) -> Inv (put_node g nd).
  Proof.
    intros [S O] N. split; [|exact O]. unfold put_node. simpl.
    change (tab (set_sensors g (zset (n_id nd) nd (g_sensors g)))) with (tab g).
    apply Forall_zset; assumption.
  Qed.

  Lemma get_node_ok g k nd : Inv g -> get_node g k = Some nd -> node_ok (tab g) (k, nd).
  Proof. intros [S _] H. unfold get_node in H. exact (zassoc_Forall _ _ _ _ S H). Qed.

  Lemma cf_send g l : g_cf (send g l) = g_cf g.
  Proof. destruct (send_frame g l) as (_&_&H&_). exact H. Qed.
  Lemma cf_add_job g l : g_cf (add_job_send g l) = g_cf g.
  Proof. destruct (add_job_send_frame g l) as (_&_&H&_). exact H. Qed.
  Lemma cf_alert g m : g_cf (alert g m) = g_cf g.
  Proof. destruct (alert_frame g m) as (_&_&H&_). exact H. Qed.

  (* ---- route ---- *)
  Lemma route_ok g m : Inv g ->
    Inv (fst (route orc g m)) /\ g_cf (fst (route orc g m)) = g_cf g.
  Proof.
    intro I. unfold route.
    destruct (m_type m =? vt_presentation (tab g)); [split; [exact I|reflexivity]|].
    destruct (get_node g (m_node m)) as [nd|] eqn:G; [|split; [exact I|reflexivity]].
    destruct ((m_type m =? vt_stream (tab g)) || negb (sleeping nd)); [split; [exact I|reflexivity]|].
    simpl fst. split; [|reflexivity].
    apply Inv_put_node; [exact I|].
    pose proof (get_node_ok _ _ _ I G) as [K N]. split; simpl in *; assumption.
  Qed.

  Lemma route_opt_ok g r : Inv g ->
    Inv (fst (route_opt orc g r)) /\ g_cf (fst (route_opt orc g r)) = g_cf g.
  Proof. destruct r; simpl; [apply route_ok|intro I; split; [exact I|reflexivity]]. Qed.
End Inv.
