(* Smart sleep (C07 / C08): definitions shared by the proofs, association-list facts, the
   header of an encoded line, and the per-version characterisation of wake-up announcements. *)
From Coq Require Import List NArith ZArith Bool String Lia.
From PMS Require Import Base.PyStr Base.PyInt Base.Exn Model.Codec Model.Rules Model.TableTypes
  Gen.Tables Model.Validate Model.Hex Model.Ota Model.Oracles Model.Gateway Spec.SerialApi
  Proofs.PyStrFacts Proofs.PyIntFacts Proofs.CodecProofs Proofs.ValidateProofs Proofs.GwLemmas Proofs.GwInv.
Import ListNotations.
Open Scope string_scope.
Open Scope list_scope.
Open Scope Z_scope.

(* ---------------------------------------------------------------- association lists *)
Lemma zassoc_zset {A} k k' (a : A) l :
  zassoc k' (zset k a l) = if Z.eqb k' k then Some a else zassoc k' l.
Proof.
  destruct (Z.eqb_spec k' k) as [->|N]; [apply zassoc_zset_same|].
  apply zassoc_zset_other. congruence.
Qed.

Lemma zset_not_nil {A} k (a : A) l : zset k a l <> [].
Proof. destruct l as [|[k' a'] l]; simpl; [discriminate|]. destruct (Z.eqb k k'); discriminate. Qed.

(* assignment to an existing key keeps the order of the keys *)
Lemma zset_keys {A} k (a : A) l : zhas k l = true -> map fst (zset k a l) = map fst l.
Proof.
  unfold zhas. induction l as [|[k' a'] l IH]; simpl; [discriminate|].
  destruct (Z.eqb_spec k k') as [->|N]; simpl; [reflexivity|]. intro H. rewrite IH by exact H. reflexivity.
Qed.
(* assignment to a new key appends it *)
Lemma zset_new {A} k (a : A) l : zhas k l = false -> zset k a l = l ++ [(k, a)].
Proof.
  unfold zhas. induction l as [|[k' a'] l IH]; simpl; [reflexivity|].
  destruct (Z.eqb k k'); [discriminate|]. intro H. rewrite IH by exact H. reflexivity.
Qed.

Lemma zhas_zassoc {A} k (l : list (Z * A)) : zhas k l = match zassoc k l with Some _ => true | None => false end.
Proof. reflexivity. Qed.

Lemma zhas_zset {A} k k' (a : A) l : zhas k' (zset k a l) = (Z.eqb k' k || zhas k' l).
Proof. unfold zhas. rewrite zassoc_zset. destruct (Z.eqb k' k); reflexivity. Qed.

Lemma zhas_app {A} k (l1 l2 : list (Z * A)) : zhas k (l1 ++ l2) = zhas k l1 || zhas k l2.
Proof. unfold zhas. rewrite zassoc_app. destruct (zassoc k l1); reflexivity. Qed.

(* ---------------------------------------------------------------- header of an encoded line *)
(* node id / command type of a line as the receiver reads them: first / third ";" field *)
Definition line_node (s : pstr) : option Z :=
  match split semi s with a :: _ => parse a | [] => None end.
Definition line_type (s : pstr) : option Z :=
  match split semi s with _ :: _ :: c :: _ => parse c | _ => None end.

Lemma split_encode m : exists rest,
  split semi (encode m) =
  print (m_node m) :: print (m_child m) :: print (m_type m) :: print (m_ack m) :: print (m_sub m) :: rest.
Proof.
  rewrite encode_body. unfold body_of. rewrite <- !app_assoc.
  exists (split semi (m_payload m ++ [nl])).
  repeat (change ([semi] ++ ?x) with (semi :: x);
          rewrite split_app_delim by apply print_no_semi; f_equal).
Qed.

(* for EVERY message (any payload, also one the wire format cannot carry) *)
Lemma line_node_encode m : line_node (encode m) = Some (m_node m).
Proof. unfold line_node. destruct (split_encode m) as [r ->]. apply parse_print. Qed.
Lemma line_type_encode m : line_type (encode m) = Some (m_type m).
Proof. unfold line_type. destruct (split_encode m) as [r ->]. apply parse_print. Qed.

Lemma encode_not_nil m : encode m <> [].
Proof. rewrite encode_body. destruct (body_of m); discriminate. Qed.

(* ---------------------------------------------------------------- wake-up announcements *)
Definition is_wake_h (h : option hfun) : bool :=
  match h with Some HHeartbeat | Some HPreSleep => true | _ => false end.

(* the dispatcher reaches handle_heartbeat_response (2.0/2.1 registry) or
   handle_pre_sleep_notification (2.2 registry) for this (type, sub-type) *)
Definition wake_ts (t : vtab) (ty sub : Z) : bool :=
  match type_handler t ty with
  | Some HInternal | Some HStream => is_wake_h (sub_handler t ty sub)
  | _ => false
  end.
Definition wake_msg (t : vtab) (m : msg) : bool := wake_ts t (m_type m) (m_sub m).

(* hand-written: internal command, I_HEARTBEAT_RESPONSE (22) in 2.0/2.1, I_PRE_SLEEP_NOTIFICATION (32)
   in 2.2; no smart sleep in 1.4/1.5 *)
Definition wake_sub (v : ver) : option Z :=
  match v with V20 | V21 => Some 22 | V22 => Some 32 | _ => None end.
Definition wake_spec (v : ver) (ty sub : Z) : bool :=
  match wake_sub v with Some s => (ty =? 3) && (sub =? s) | None => false end.

Definition wake_check (v : ver) : bool :=
  forallb (fun tn => forallb (fun sn =>
     implb (is_wake_h (registry_fun (tab_of v) (snd sn))) (wake_spec v (fst tn) (fst sn)))
     (snd tn)) (vt_sub_names (tab_of v)) &&
  match wake_sub v with Some s => wake_ts (tab_of v) 3 s | None => true end.

Lemma wake_check_all v : wake_check v = true.
Proof. destruct v; vm_compute; reflexivity. Qed.

Lemma wake_ts_spec v ty sub : wake_ts (tab_of v) ty sub = wake_spec v ty sub.
Proof.
  pose proof (wake_check_all v) as C. unfold wake_check in C. apply andb_true_iff in C as [C1 C2].
  destruct (wake_spec v ty sub) eqn:S.
  - unfold wake_spec in S. destruct (wake_sub v) as [s|]; [|discriminate].
    apply andb_true_iff in S as [S1 S2]. apply Z.eqb_eq in S1, S2. subst. exact C2.
  - destruct (wake_ts (tab_of v) ty sub) eqn:W; [|reflexivity].
    assert (H : is_wake_h (sub_handler (tab_of v) ty sub) = true).
    { unfold wake_ts in W. destruct (type_handler (tab_of v) ty) as [[]|]; try discriminate; exact W. }
    unfold sub_handler in H.
    destruct (zassoc ty (vt_sub_names (tab_of v))) as [names|] eqn:E1; [|discriminate].
    destruct (zassoc sub names) as [name|] eqn:E2; [|discriminate].
    apply zassoc_In in E1. apply zassoc_In in E2.
    rewrite forallb_forall in C1. specialize (C1 _ E1). simpl in C1.
    rewrite forallb_forall in C1. specialize (C1 _ E2). simpl in C1.
    rewrite H in C1. simpl in C1. congruence.
Qed.

(* which command reaches handle_set: exactly the set command (1) *)
Definition is_hset (h : option hfun) : bool := match h with Some HSet => true | _ => false end.
Definition set_check (v : ver) : bool :=
  forallb (fun tn => implb (is_hset (registry_fun (tab_of v) (snd tn))) (fst tn =? 1)) (vt_mtype_names (tab_of v)) &&
  is_hset (type_handler (tab_of v) 1).
Lemma set_check_all v : set_check v = true.
Proof. destruct v; vm_compute; reflexivity. Qed.

Lemma type_handler_set v ty : is_hset (type_handler (tab_of v) ty) = (ty =? 1).
Proof.
  pose proof (set_check_all v) as C. unfold set_check in C. apply andb_true_iff in C as [C1 C2].
  destruct (Z.eqb_spec ty 1) as [->|N]; [exact C2|].
  destruct (is_hset (type_handler (tab_of v) ty)) eqn:H; [|reflexivity].
  unfold type_handler in H. destruct (zassoc ty (vt_mtype_names (tab_of v))) as [name|] eqn:E; [|discriminate].
  apply zassoc_In in E. rewrite forallb_forall in C1. specialize (C1 _ E). simpl in C1.
  rewrite H in C1. simpl in C1. apply Z.eqb_eq in C1. contradiction.
Qed.


(* the command values of the five tables *)
Lemma tab_consts v :
  vt_presentation (tab_of v) = 0 /\ vt_set (tab_of v) = 1 /\ vt_req (tab_of v) = 2 /\
  vt_internal (tab_of v) = 3 /\ vt_stream (tab_of v) = 4.
Proof. destruct v; vm_compute; repeat split; reflexivity. Qed.

(* ---------------------------------------------------------------- node-level notions *)
(* the pending desired value of (child, value type): new_state[child].values.get(vt) *)
Definition desired (nd : node) (c vt : Z) : option pyval :=
  match zassoc c (n_new nd) with
  | Some dv => match zassoc vt dv with Some (Some v) => Some v | _ => None end
  | None => None
  end.
(* the value last reported by the node *)
Definition reported (nd : node) (c vt : Z) : option pyval :=
  match zassoc c (n_children nd) with Some ch => zassoc vt (c_values ch) | None => None end.

(* an entry of a hold queue of node k: a non-stream command addressed to k *)
Definition qentry (k : Z) (s : pstr) : Prop := exists m, s = encode m /\ m_node m = k.

(* every withheld string is addressed to the node whose queue holds it *)
Definition QInv (g : gw) : Prop :=
  forall k nd, get_node g k = Some nd -> Forall (qentry k) (n_queue nd).

Lemma sleeping_with_new nd nw : sleeping (with_new nd nw) = match nw with [] => false | _ => true end.
Proof. reflexivity. Qed.

Lemma sleeping_false_new nd : sleeping nd = false -> n_new nd = [].
Proof. unfold sleeping. destruct (n_new nd); [reflexivity|discriminate]. Qed.
