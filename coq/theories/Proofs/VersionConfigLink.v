(* Link between the two developments that talk about versions:
   - the hand-written verdicts of the core machine in Base/Version.v (ver_ge14, safe_num,
     const_index, num_ge, floor_index), and
   - the C18 model of validation.is_version / safe_is_version / const.get_const, which is
     interpreted over the facts GENERATED from the source (Gen/Signatures.v: the comparison
     tests, the key order, the key -> module table) and its specification Spec/ConfigSpec.v.
   On every dotted numeric string they agree, so a change of the library's tests or tables
   breaks these lemmas at build time. *)
From Coq Require Import List NArith ZArith Bool Lia String.
From PMS Require Import Base.PyStr Base.PyInt Base.Exn Base.Version Proofs.PyStrFacts
  Model.ConfigSyntax Model.ConfigVersion Spec.ConfigSpec Proofs.ConfigOrder Proofs.ConfigProofs
  Proofs.VersionProofs Gen.Signatures.
Import ListNotations.
Open Scope N_scope.
Open Scope list_scope.

Lemma nz_nonzero l : nz l = nonzero l.
Proof. reflexivity. Qed.

Lemma num_ge_cmpr a : forall b, num_ge a b = match cmpr b a with Gt => false | _ => true end.
Proof.
  induction a as [|x a IH]; intros [|y b].
  - reflexivity.
  - cbn [num_ge cmpr]. rewrite all_zero_nonzero. change (nz (y :: b)) with (nonzero (y :: b)).
    destruct (nonzero (y :: b)); reflexivity.
  - cbn [num_ge cmpr]. destruct (nz (x :: a)); reflexivity.
  - cbn [num_ge cmpr]. destruct (N.compare_spec y x) as [E|L|G].
    + subst y. rewrite N.eqb_refl. apply IH.
    + assert (X : (x =? y) = false) by (apply N.eqb_neq; lia). rewrite X. apply N.ltb_lt. exact L.
    + assert (X : (x =? y) = false) by (apply N.eqb_neq; lia). rewrite X. apply N.ltb_ge. lia.
Qed.

(* num_ge is the order of the C18 specification (pad with zeros, compare lexicographically) *)
Theorem num_ge_le_numb a b : num_ge a b = le_numb b a.
Proof. unfold le_numb. rewrite cmpv_cmpr. apply num_ge_cmpr. Qed.

(* the five constants modules in the order of Gen/Tables.all_tabs *)
Definition const_modules : list pstr :=
  [s2p "mysensors.const_14"; s2p "mysensors.const_15"; s2p "mysensors.const_20";
   s2p "mysensors.const_21"; s2p "mysensors.const_22"].

(* the hand-written key list of Base/Version.v is the generated one, in the generated order,
   and each index names the module the generated table maps the key to *)
Lemma const_keys_match_generated :
  map fst const_keys_desc = iter_keys /\
  map (fun ki => Some (nth (snd ki) const_modules [])) const_keys_desc
  = map (fun k => assoc k const_versions) iter_keys /\
  get_const_default = nth 0 const_modules [] /\ safe_fallback = v_floor.
Proof. vm_compute. repeat split; reflexivity. Qed.

Lemma floor_module_index l : floor_module l = nth (floor_index l) const_modules [].
Proof.
  unfold floor_module, floor_index. cbn [supported floor_from].
  rewrite <- !num_ge_le_numb.
  destruct (num_ge l [1; 4]), (num_ge l [1; 5]), (num_ge l [2; 0]), (num_ge l [2; 1]),
    (num_ge l [2; 2]); vm_compute; reflexivity.
Qed.

Section Link.
  Variable orc : avop -> pstr -> pstr -> option bool.
  Variable cont : pstr -> bool.

  Theorem is_version_core v : dotted_numeric v = true ->
    is_version orc cont (VStr v) = if ver_ge14 v then Ok v else Raise VolInvalid.
  Proof.
    intro Hv. unfold is_version, is_version_with, is_container. cbn [py_str].
    rewrite Hv. cbn [negb andb]. rewrite andb_false_r. rewrite (is_version_test_num orc v Hv).
    rewrite ver_ge14_num, num_ge_le_numb.
    destruct (le_numb [1; 4] (sections v)); reflexivity.
  Qed.

  Theorem safe_is_version_core v : dotted_numeric v = true ->
    safe_is_version orc cont (VStr v) = Ok (safe_num v).
  Proof.
    intro Hv. rewrite (safe_is_version_num orc cont v Hv), safe_num_spec, num_ge_le_numb.
    reflexivity.
  Qed.

  Theorem gateway_const_core v : dotted_numeric v = true ->
    gateway_const orc cont (VStr v) = Ok (nth (const_index v) const_modules []) /\
    node_const orc cont (VStr v) = Ok (nth (const_index v) const_modules []).
  Proof.
    intro Hv. rewrite node_same_rule, (gateway_const_floor orc cont v Hv), const_index_floor,
      floor_module_index. split; reflexivity.
  Qed.
End Link.
