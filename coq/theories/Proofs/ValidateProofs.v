From Coq Require Import List NArith ZArith QArith Bool Lia.
From PMS Require Import Base.PyStr Base.PyInt Model.Codec Model.Rules Model.TableTypes
  Gen.Tables Model.Validate Spec.SerialApi Proofs.PyStrFacts.
Import ListNotations.
Open Scope Z_scope.

(* ---- syntactic classification of validator shapes ---- *)
Definition classify (r : rule) : option pclass :=
  match r with
  | RStr => Some AnyStr
  | RLit [] => Some Empty
  | RIn l => Some (Words l)
  | RFun FIsVersion => Some Version14
  | RAll [RAll [RCoerceInt; RRange lo hi true true]; RCoerceStr] => Some (IntRange lo hi)
  | RAll [RCoerceInt; RRange lo hi true true; RCoerceStr] => Some (IntRange lo hi)
  | RAll [RCoerceInt; RRange lo hi true true] => Some (IntRange lo hi)
  | RAll [RCoerceInt; RCoerceStr] => Some IntAny
  | RAll [RCoerceFloat; RRange lo hi true true; RCoerceStr] => Some (FloatRange lo hi)
  | RAll [RCoerceFloat; RRange lo hi true true] => Some (FloatRange lo hi)
  | RAll [RStr; RFun FRgb] => Some Rgb
  | RAll [RStr; RFun FRgbw] => Some Rgbw
  | RAll [RStr; RFun FGps] => Some Gps
  | RAny [RLit []; RAll [RCoerceInt; RCoerceStr]] => Some IntOrEmpty
  | RAny [RAll [RCoerceInt; RRange lo hi true true]; RLit a; RLit b] => Some (IntRangeOr lo hi [a; b])
  | RAny (RStr :: _) => Some AnyStr
  | _ => None
  end.

Section Sound.
  Variable orc_version : pstr -> bool.
  Variable orc_float : pstr -> fres.
  Notation accepts := (accepts orc_version orc_float).
  Notation in_class := (in_class orc_version orc_float).

  Lemma pstr_eqb_nil_r p : pstr_eqb p [] = match p with [] => true | _ => false end.
  Proof. destruct p; reflexivity. Qed.

  Ltac crush_shape :=
    repeat match goal with
    | H : match ?x with _ => _ end = Some _ |- _ => destruct x; try discriminate H
    | H : Some _ = Some _ |- _ => inversion H; subst; clear H
    end.

  Ltac atoms := repeat match goal with
    | |- context [mem_pstr ?a ?b] => destruct (mem_pstr a b)
    | |- context [range_ok_Z ?a ?b ?c ?d ?e] => destruct (range_ok_Z a b c d e)
    | |- context [range_ok_F ?a ?b ?c ?d ?e] => destruct (range_ok_F a b c d e)
    | |- context [pstr_eqb ?a ?b] => destruct (pstr_eqb a b)
    | |- context [orc_version ?a] => destruct (orc_version a)
    | |- context [hex_ok ?a] => destruct (hex_ok a)
    | |- context [Nat.eqb ?a ?b] => destruct (Nat.eqb a b)
    end; cbn [andb orb negb]; try reflexivity.

  Lemma classify_sound r k : classify r = Some k -> forall p, accepts r p = in_class k p.
  Proof.
    intros H p. unfold classify in H. crush_shape;
      unfold Rules.accepts, SerialApi.in_class, int_in, is_float;
      cbn [eval eval_fun option_map].
    all: try reflexivity.
    all: try (destruct (parse p); cbn [option_map]; atoms; fail).
    all: try (destruct (orc_float p); atoms; fail).
    all: try (atoms; fail).
    all: try (destruct (split 44 p) as [|a [|b [|c [|d rest]]]]; try reflexivity;
              destruct (orc_float a), (orc_float b), (orc_float c); reflexivity).
    all: cbn [mem_pstr]; destruct (parse p); cbn [option_map]; atoms.
  Qed.
End Sound.

(* ---- ranges ---- *)
Definition zrange (n : Z) : list Z := map Z.of_nat (seq 0 (Z.to_nat (n + 1))).

Lemma zmem_In k l : zmem k l = true <-> In k l.
Proof.
  induction l as [|x l IH]; simpl; [split; [discriminate|tauto]|].
  rewrite orb_true_iff, IH, Z.eqb_eq. split; intros [H|H]; auto.
Qed.

Lemma In_zrange s n : In s (zrange n) <-> 0 <= s <= n.
Proof.
  unfold zrange. rewrite in_map_iff. split.
  - intros [k [E H]]. apply in_seq in H. lia.
  - intro H. exists (Z.to_nat s). split; [lia|]. apply in_seq. lia.
Qed.

Lemma zmem_zrange s n : zmem s (zrange n) = between 0 n s.
Proof.
  apply eq_true_iff_eq. rewrite zmem_In, In_zrange. unfold between.
  rewrite andb_true_iff, !Z.leb_le. tauto.
Qed.

Fixpoint zlist_eqb (a b : list Z) : bool :=
  match a, b with
  | [], [] => true
  | x :: a', y :: b' => Z.eqb x y && zlist_eqb a' b'
  | _, _ => false
  end.
Lemma zlist_eqb_eq a b : zlist_eqb a b = true -> a = b.
Proof.
  revert b; induction a as [|x a IH]; intros [|y b]; simpl; intro H; try reflexivity; try discriminate.
  apply andb_true_iff in H as [H1 H2]. apply Z.eqb_eq in H1. f_equal; auto.
Qed.

Fixpoint plist_eqb (a b : list pstr) : bool :=
  match a, b with
  | [], [] => true
  | x :: a', y :: b' => pstr_eqb x y && plist_eqb a' b'
  | _, _ => false
  end.
Lemma plist_eqb_eq a b : plist_eqb a b = true -> a = b.
Proof.
  revert b; induction a as [|x a IH]; intros [|y b]; simpl; intro H; try reflexivity; try discriminate.
  apply andb_true_iff in H as [H1 H2]. apply pstr_eqb_eq in H1. f_equal; auto.
Qed.

Definition pclass_eqb (a b : pclass) : bool :=
  match a, b with
  | AnyStr, AnyStr | Empty, Empty | IntAny, IntAny | IntOrEmpty, IntOrEmpty
  | Rgb, Rgb | Rgbw, Rgbw | Gps, Gps | Version14, Version14 => true
  | Words l, Words l' => plist_eqb l l'
  | IntRange a b, IntRange a' b' => Z.eqb a a' && Z.eqb b b'
  | FloatRange a b, FloatRange a' b' => Z.eqb a a' && Z.eqb b b'
  | IntRangeOr a b l, IntRangeOr a' b' l' => Z.eqb a a' && Z.eqb b b' && plist_eqb l l'
  | _, _ => false
  end.
Lemma pclass_eqb_eq a b : pclass_eqb a b = true -> a = b.
Proof.
  destruct a, b; simpl; intro H; try reflexivity; try discriminate;
    repeat match goal with H : _ && _ = true |- _ => apply andb_true_iff in H as [? ?] end;
    repeat match goal with
           | H : Z.eqb _ _ = true |- _ => apply Z.eqb_eq in H
           | H : plist_eqb _ _ = true |- _ => apply plist_eqb_eq in H
           end; subst; reflexivity.
Qed.

(* ---- the finite table check, closed by vm_compute per version ---- *)
Definition cell_ok (v : ver) (tab : vtab) (t s : Z) : bool :=
  match classify (payload_rule tab t s) with
  | Some k => pclass_eqb k (spec_class v t s)
  | None => false
  end.

Definition col_ok (v : ver) (tab : vtab) (t : Z) : bool :=
  zlist_eqb (subtypes tab t) (zrange (max_sub v t)) && forallb (cell_ok v tab t) (zrange (max_sub v t)).

Definition consts_ok (tab : vtab) : bool :=
  (vt_presentation tab =? 0) && (vt_set tab =? 1) && (vt_req tab =? 2) && (vt_internal tab =? 3) &&
  (vt_stream tab =? 4) && (vt_id_request tab =? 3) && (vt_id_response tab =? 4) &&
  zlist_eqb (map fst (vt_mtypes tab)) [0; 1; 2; 3; 4] &&
  (broadcast_id =? 255) && (system_child_id =? 255).

Definition table_ok (v : ver) (tab : vtab) : bool :=
  consts_ok tab && col_ok v tab 0 && col_ok v tab 1 && col_ok v tab 2 && col_ok v tab 3 && col_ok v tab 4.

Lemma if_bool (a b c : bool) : (if a then b else c) = (a && b) || (negb a && c).
Proof. destruct a, b, c; reflexivity. Qed.

Section Conform.
  Variable orc_version : pstr -> bool.
  Variable orc_float : pstr -> fres.

  Lemma header_conforms tab m :
    consts_ok tab = true ->
    node_ok m = between 0 255 (m_node m) /\
    ack_ok m = one_of (m_ack m) [0; 1] /\
    child_ok tab m && type_ok tab m =
      spec_child_ok (m_type m) (m_sub m) (m_child m) && between 0 4 (m_type m).
  Proof.
    unfold consts_ok. intro H.
    repeat match type of H with _ && _ = true => apply andb_true_iff in H as [H ?] end.
    repeat match goal with
           | H : Z.eqb _ _ = true |- _ => apply Z.eqb_eq in H
           | H : zlist_eqb _ _ = true |- _ => apply zlist_eqb_eq in H
           end.
    unfold node_ok, ack_ok, child_ok, type_ok, spec_child_ok, between, one_of,
      c_internal, c_stream, c_presentation.
    repeat match goal with H : _ = _ |- _ => rewrite H; clear H end.
    cbn [zmem existsb].
    rewrite !if_bool.
    repeat split; lia.
  Qed.

  Lemma payload_conforms v tab t s p :
    col_ok v tab t = true -> between 0 (max_sub v t) s = true ->
    zmem s (subtypes tab t) = true /\
    accepts orc_version orc_float (payload_rule tab t s) p = in_class orc_version orc_float (spec_class v t s) p.
  Proof.
    unfold col_ok. intros H B. apply andb_true_iff in H as [H1 H2].
    apply zlist_eqb_eq in H1. rewrite H1, zmem_zrange. split; [exact B|].
    rewrite forallb_forall in H2.
    assert (I : In s (zrange (max_sub v t))).
    { apply In_zrange. unfold between in B. lia. }
    specialize (H2 s I). unfold cell_ok in H2.
    destruct (classify (payload_rule tab t s)) as [k|] eqn:K; [|discriminate].
    apply pclass_eqb_eq in H2. subst. apply classify_sound. exact K.
  Qed.

  Lemma sub_outside v tab t s :
    col_ok v tab t = true -> between 0 (max_sub v t) s = false -> zmem s (subtypes tab t) = false.
  Proof.
    unfold col_ok. intros H B. apply andb_true_iff in H as [H1 _].
    apply zlist_eqb_eq in H1. rewrite H1, zmem_zrange. exact B.
  Qed.

  Theorem validate_conforms_tab v tab m :
    table_ok v tab = true ->
    validate orc_version orc_float tab m =
    spec_accepts orc_version orc_float v (m_node m) (m_child m) (m_type m) (m_ack m) (m_sub m) (m_payload m).
  Proof.
    unfold table_ok. intro H.
    repeat match type of H with _ && _ = true => apply andb_true_iff in H as [H ?] end.
    destruct (header_conforms tab m H) as (HN & HA & HCT).
    unfold validate, spec_accepts, sub_ok, payload_ok. rewrite HN, HA.
    destruct (between 0 255 (m_node m)); [|reflexivity]. cbn [andb].
    (* regroup so that child&&type can be rewritten jointly *)
    transitivity ((child_ok tab m && type_ok tab m) && one_of (m_ack m) [0; 1] &&
                  zmem (m_sub m) (subtypes tab (m_type m)) &&
                  accepts orc_version orc_float (payload_rule tab (m_type m) (m_sub m)) (m_payload m)).
    { rewrite <- !andb_assoc. reflexivity. }
    rewrite HCT.
    destruct (spec_child_ok (m_type m) (m_sub m) (m_child m)); [|reflexivity]. cbn [andb].
    destruct (between 0 4 (m_type m)) eqn:BT; [|reflexivity]. cbn [andb].
    destruct (one_of (m_ack m) [0; 1]); [|reflexivity]. cbn [andb].
    assert (COL : col_ok v tab (m_type m) = true).
    { unfold between in BT.
      assert (E : m_type m = 0 \/ m_type m = 1 \/ m_type m = 2 \/ m_type m = 3 \/ m_type m = 4) by lia.
      destruct E as [E|[E|[E|[E|E]]]]; rewrite E; assumption. }
    destruct (between 0 (max_sub v (m_type m)) (m_sub m)) eqn:BS.
    - destruct (payload_conforms v tab (m_type m) (m_sub m) (m_payload m) COL BS) as [S P].
      rewrite S, P. reflexivity.
    - rewrite (sub_outside v tab _ _ COL BS). reflexivity.
  Qed.
End Conform.

Lemma table_ok_14 : table_ok V14 tab_14 = true. Proof. vm_compute. reflexivity. Qed.
Lemma table_ok_15 : table_ok V15 tab_15 = true. Proof. vm_compute. reflexivity. Qed.
Lemma table_ok_20 : table_ok V20 tab_20 = true. Proof. vm_compute. reflexivity. Qed.
Lemma table_ok_21 : table_ok V21 tab_21 = true. Proof. vm_compute. reflexivity. Qed.
Lemma table_ok_22 : table_ok V22 tab_22 = true. Proof. vm_compute. reflexivity. Qed.

Definition tab_of (v : ver) : vtab :=
  match v with V14 => tab_14 | V15 => tab_15 | V20 => tab_20 | V21 => tab_21 | V22 => tab_22 end.

Theorem validate_conforms orc_version orc_float v m :
  validate orc_version orc_float (tab_of v) m =
  spec_accepts orc_version orc_float v (m_node m) (m_child m) (m_type m) (m_ack m) (m_sub m) (m_payload m).
Proof.
  apply validate_conforms_tab.
  destruct v; [apply table_ok_14|apply table_ok_15|apply table_ok_20|apply table_ok_21|apply table_ok_22].
Qed.

(* ---- finite facts about the generated tables ---- *)
Lemma zassoc_In {A} k (l : list (Z * A)) a : zassoc k l = Some a -> In (k, a) l.
Proof.
  induction l as [|[k' a'] l IH]; simpl; [discriminate|].
  destruct (Z.eqb_spec k k'); intro H; [inversion H; subst; left; reflexivity|right; auto].
Qed.

Definition has_rule (tab : vtab) (t s : Z) : bool :=
  match zassoc t (vt_payloads tab) with
  | Some d => match zassoc s d with Some _ => true | None => false end
  | None => false
  end.

Definition mono_ok (cur next : vtab) : bool :=
  forallb (fun tl => forallb (fun s => zmem s (subtypes next (fst tl))) (snd tl)) (vt_mtypes cur).
Definition rules_ok (tab : vtab) : bool :=
  forallb (fun tl => forallb (fun s => has_rule tab (fst tl) s) (snd tl)) (vt_mtypes tab).
Definition schema_ok (tab : vtab) : bool :=
  forallb (fun p => match child_schema tab p with Some _ => true | None => false end)
          (subtypes tab (vt_presentation tab)).

Lemma lift_mtypes (P : Z -> Z -> bool) tab :
  forallb (fun tl => forallb (fun s => P (fst tl) s) (snd tl)) (vt_mtypes tab) = true ->
  forall t s, zmem s (subtypes tab t) = true -> P t s = true.
Proof.
  intros H t s M. unfold subtypes in M.
  destruct (zassoc t (vt_mtypes tab)) as [l|] eqn:E; [|discriminate].
  apply zassoc_In in E. rewrite forallb_forall in H. specialize (H _ E). simpl in H.
  rewrite forallb_forall in H. apply H. apply zmem_In. exact M.
Qed.

Theorem subtypes_monotone v t s :
  zmem s (subtypes (tab_of v) t) = true -> zmem s (subtypes (tab_of (ver_next v)) t) = true.
Proof.
  apply (lift_mtypes (fun t s => zmem s (subtypes (tab_of (ver_next v)) t))).
  destruct v; vm_compute; reflexivity.
Qed.

Theorem every_subtype_has_rule v t s :
  zmem s (subtypes (tab_of v) t) = true -> has_rule (tab_of v) t s = true.
Proof.
  apply (lift_mtypes (has_rule (tab_of v))). destruct v; vm_compute; reflexivity.
Qed.

Theorem child_schema_total v p :
  zmem p (subtypes (tab_of v) (vt_presentation (tab_of v))) = true ->
  exists sch, child_schema (tab_of v) p = Some sch.
Proof.
  intro M. assert (S : schema_ok (tab_of v) = true) by (destruct v; vm_compute; reflexivity).
  unfold schema_ok in S. rewrite forallb_forall in S. apply zmem_In in M. specialize (S _ M).
  destruct (child_schema (tab_of v) p) as [sch|]; [exists sch; reflexivity|discriminate].
Qed.

(* all generated validators are well-kinded: no Range on a str, no In on an int, ... *)
Definition kinds_ok (tab : vtab) : bool :=
  forallb (fun td => forallb (fun sr => well_kinded (snd sr)) (snd td)) (vt_payloads tab) &&
  forallb (fun sr => well_kinded (snd sr)) (vt_setreq tab).
Theorem tables_well_kinded v : kinds_ok (tab_of v) = true.
Proof. destruct v; vm_compute; reflexivity. Qed.

(* The validator FUNCTIONS (validate_gps, validate_hex, validate_v_rgb, validate_v_rgbw) are
   modelled by hand in Model/Rules.v (eval_fun).  Their AST fingerprints are regenerated on
   every run; this obligation pins the fingerprints the hand model was written against, so a
   changed function body breaks it (and triggers the enlarged search), even when the rewrite
   is harmless. *)
Require Import String.
Theorem validator_functions_unchanged :
  fn_hashes = [(s2p "FGps", s2p "9ecc978b1525c8ed"); (s2p "FHex", s2p "9e4105613a820f9c");
               (s2p "FRgb", s2p "1d36f795cba6d63d"); (s2p "FRgbw", s2p "f19d72d3d74541eb")].
Proof. vm_compute. reflexivity. Qed.
