(* The version verdicts of the core machine (Model/Oracles.v: orc_version, orc_const) on
   dotted numeric strings, read numerically and independently of the oracle tables:
   C03 (a node presentation validates iff its payload is numerically >= 1.4) and
   C04 (the version a node holds / the table it is served with). *)
From Coq Require Import List NArith ZArith Bool String Lia.
From PMS Require Import Base.PyStr Base.PyInt Base.Version Model.Codec Model.Rules Model.TableTypes
  Gen.Tables Model.Validate Model.Oracles Model.Gateway Spec.SerialApi
  Proofs.ValidateProofs Proofs.VersionProofs.
Import ListNotations.
Open Scope list_scope.

(* ---- the oracle functions on dotted numeric strings *)
Lemma orc_version_numeric o p : dotted_numeric p = true ->
  orc_version o p = num_ge (sections p) [1; 4]%N.
Proof. intro D. unfold orc_version. rewrite D. apply ver_ge14_num. Qed.

Lemma orc_const_numeric o p : dotted_numeric p = true ->
  orc_const o p = floor_index (sections p).
Proof. intro D. unfold orc_const. rewrite D. apply const_index_floor. Qed.

(* on every string: the machine's verdict is the numeric rule, the table only decides the rest *)
Lemma orc_version_rule o p : orc_version o p = version_rule (orc_version o) p.
Proof.
  unfold version_rule. destruct (dotted_numeric p) eqn:D; [|reflexivity].
  apply orc_version_numeric. exact D.
Qed.

(* ---- the spec only looks at the version verdict pointwise *)
Lemma in_class_ext f g fl k p : (forall q, f q = g q) -> in_class f fl k p = in_class g fl k p.
Proof. intro E. destruct k; try reflexivity. cbn [in_class]. apply E. Qed.

Lemma spec_accepts_ext f g fl v n c t a s p : (forall q, f q = g q) ->
  spec_accepts f fl v n c t a s p = spec_accepts g fl v n c t a s p.
Proof. intro E. unfold spec_accepts. rewrite (in_class_ext f g fl _ p E). reflexivity. Qed.

(* C03: validation over the generated tables with the machine's oracles = the hand-written
   spec whose version class is the NUMERIC rule on dotted numeric payloads *)
Theorem validate_conforms_numeric o v m :
  validate (orc_version o) (orc_float o) (tab_of v) m =
  spec_accepts (version_rule (orc_version o)) (orc_float o) v
               (m_node m) (m_child m) (m_type m) (m_ack m) (m_sub m) (m_payload m).
Proof. rewrite validate_conforms. apply spec_accepts_ext. apply orc_version_rule. Qed.

(* C03: a node presentation with an otherwise valid header and a dotted numeric payload
   validates iff the payload is numerically >= 1.4 - whatever the oracle tables say *)
Theorem node_presentation_version_numeric o v n c a s p :
  (0 <= n <= 255)%Z -> (0 <= c <= 255)%Z -> (a = 0 \/ a = 1)%Z -> (s = 17 \/ s = 18)%Z ->
  dotted_numeric p = true ->
  validate (orc_version o) (orc_float o) (tab_of v) (mkMsg n c 0 a s p) = num_ge (sections p) [1; 4]%N.
Proof.
  intros Hn Hc Ha Hs D. rewrite validate_conforms.
  cbn [m_node m_child m_type m_ack m_sub m_payload]. unfold spec_accepts.
  assert (B1 : between 0 255 n = true) by (unfold between; lia).
  assert (B2 : spec_child_ok 0 s c = true).
  { unfold spec_child_ok, c_internal, c_stream, c_presentation, between.
    cbn [Z.eqb andb orb]. lia. }
  assert (B3 : between 0 4 0 = true) by reflexivity.
  assert (B4 : one_of a [0; 1]%Z = true) by (destruct Ha as [-> | ->]; reflexivity).
  assert (B5 : between 0 (max_sub v 0) s = true)
    by (destruct v; destruct Hs as [-> | ->]; reflexivity).
  assert (B6 : spec_class v 0 s = Version14) by (destruct Hs as [-> | ->]; reflexivity).
  rewrite B1, B2, B3, B4, B5, B6. cbn [andb in_class].
  apply orc_version_numeric. exact D.
Qed.

Corollary node_presentation_version_numeric_iff o v n c a s p :
  (0 <= n <= 255)%Z -> (0 <= c <= 255)%Z -> (a = 0 \/ a = 1)%Z -> (s = 17 \/ s = 18)%Z ->
  dotted_numeric p = true ->
  (validate (orc_version o) (orc_float o) (tab_of v) (mkMsg n c 0 a s p) = true
   <-> num_ge (sections p) [1; 4]%N = true).
Proof.
  intros Hn Hc Ha Hs D. rewrite (node_presentation_version_numeric o v n c a s p Hn Hc Ha Hs D).
  tauto.
Qed.

(* ---- C04: the version held for a node, the table it is served with *)
Lemma tab_of_floor l : nth (floor_index l) all_tabs tab_14 = tab_of (floor_ver l).
Proof.
  unfold floor_index, floor_ver.
  destruct (num_ge l [2; 2]%N), (num_ge l [2; 1]%N), (num_ge l [2; 0]%N), (num_ge l [1; 5]%N);
    reflexivity.
Qed.

Theorem safe_version_numeric o p : dotted_numeric p = true ->
  safe_version o p = if num_ge (sections p) [1; 4]%N then p else s2p "1.4".
Proof. intro D. unfold safe_version. rewrite (orc_version_numeric o p D). reflexivity. Qed.

Theorem node_tab_numeric o nd : dotted_numeric (n_pver nd) = true ->
  node_tab o nd = tab_of (floor_ver (sections (n_pver nd))).
Proof.
  intro D. unfold node_tab. rewrite (orc_const_numeric o _ D). apply tab_of_floor.
Qed.

(* floor_ver is the floor among the five supported versions *)
Theorem floor_ver_spec l :
  (num_ge l [1; 4]%N = true ->
     num_ge l (ver_sections (floor_ver l)) = true /\
     forall v, num_ge l (ver_sections v) = true -> (ver_index v <= ver_index (floor_ver l))%nat) /\
  (num_ge l [1; 4]%N = false -> floor_ver l = V14).
Proof.
  unfold floor_ver.
  destruct (num_ge l [2; 2]%N) eqn:E22; [|destruct (num_ge l [2; 1]%N) eqn:E21;
    [|destruct (num_ge l [2; 0]%N) eqn:E20; [|destruct (num_ge l [1; 5]%N) eqn:E15]]].
  all: split;
    [intro H14; split; [cbn [ver_sections]; assumption|];
     intros [] Hv; cbn [ver_sections ver_index] in *; solve [lia | congruence]
    |intro F;
     first [rewrite (num_ge_two l 2 2 1 4) in F by (assumption || lia)
           |rewrite (num_ge_two l 2 1 1 4) in F by (assumption || lia)
           |rewrite (num_ge_two l 2 0 1 4) in F by (assumption || lia)
           |rewrite (num_ge_two l 1 5 1 4) in F by (assumption || lia)
           |reflexivity]; try discriminate].
Qed.
