(* C06: node ids are never handed out twice.  Built on the tree meaning (TreeProofs) and the
   persistence machine (DirtyProofs). *)
From Coq Require Import List NArith ZArith Bool String Lia.
From PMS Require Import Base.PyStr Base.PyInt Base.Exn Model.Codec Model.Rules Model.TableTypes
  Gen.Tables Model.Validate Model.Hex Model.Ota Model.Oracles Model.Gateway Spec.SerialApi
  Proofs.PyStrFacts Proofs.PyIntFacts Proofs.CodecProofs Proofs.ValidateProofs Proofs.GwLemmas Proofs.GwInv
  Spec.TreeMeaning Proofs.TreeProofs Proofs.TreeHistory Proofs.DirtyProofs.
Import ListNotations.
Open Scope string_scope.
Open Scope list_scope.
Open Scope Z_scope.

(* ---- keys of a tree under the meaning function ---- *)
Definition keys {A} (t : list (Z * A)) : list Z := map fst t.

Lemma keys_proj s : keys (proj s) = keys s.
Proof. unfold keys. rewrite proj_zmap. apply keys_zmap. Qed.

Lemma keys_zset_same {A} k (a n : A) t : zassoc k t = Some n -> keys (zset k a t) = keys t.
Proof.
  induction t as [|[k' a'] t IH]; simpl; [discriminate|].
  destruct (Z.eqb_spec k k'); simpl; [intros _; subst; reflexivity|].
  intro H. unfold keys in IH. rewrite (IH H). reflexivity.
Qed.

Lemma keys_tupd k f t : keys (tupd k f t) = keys t.
Proof. unfold tupd. destruct (zassoc k t) eqn:E; [|reflexivity]. eapply keys_zset_same. exact E. Qed.

Lemma keys_app {A} (a b : list (Z * A)) : keys (a ++ b) = keys a ++ keys b.
Proof. apply map_app. Qed.

(* the only ways the key set changes: a node presentation of an unknown node, an id assignment *)
Lemma keys_meaning sv k t m :
  keys (meaning sv k t m) = keys t \/
  (k = KNodePres /\ zhas (m_node m) t = false /\ keys (meaning sv k t m) = keys t ++ [m_node m]) \/
  (k = KIdRequest /\ tnext t <= 254 /\ keys (meaning sv k t m) = keys t ++ [tnext t]).
Proof.
  destruct k; unfold meaning; try (left; apply keys_tupd); try (left; reflexivity).
  - rewrite keys_tupd. unfold tadd. destruct (zhas (m_node m) t) eqn:E; [left; reflexivity|].
    right. left. split; [reflexivity|]. split; [reflexivity|]. apply keys_app.
  - destruct (tnext t <=? 254) eqn:L; [|left; reflexivity].
    right. right. split; [reflexivity|]. split; [lia|]. apply keys_app.
Qed.

Definition in_range (ks : list Z) : Prop := Forall (fun k => 0 <= k <= 255) ks.

Lemma tnext_pos t : in_range (keys t) -> 1 <= tnext t.
Proof.
  intro R. unfold tnext. destruct t as [|[k0 n0] r]; [lia|].
  inversion R; subst. cbn in *. destruct (fold_max_ge (map fst r) k0) as [A _]. lia.
Qed.

Lemma zhas_keys {A} k (t : list (Z * A)) : zhas k t = true <-> In k (keys t).
Proof. apply zhas_In. Qed.

Section Ids.
  Variable orc : oracles.
  Variable clock : Z.

  Notation P g := (proj (g_sensors g)).

  (* a received line keeps every key, and keeps the keys in 0..255 *)
  Lemma keys_mlv v t l :
    keys (mlv orc v t l) = keys t \/
    exists n, keys (mlv orc v t l) = keys t ++ [n] /\ zhas n t = false /\ 0 <= n <= 255 /\
              (in_range (keys t) -> 0 <= n).
  Proof.
    unfold mlv, meaning_line. destruct (decode l) as [m|]; [|left; reflexivity].
    destruct (accv orc v m) eqn:V; [|left; reflexivity].
    destruct (keys_meaning (safe_version orc) (kind_of v m) t m) as [E|[(K & Z0 & E)|(K & L & E)]];
      [left; exact E| |]; right.
    - exists (m_node m). split; [exact E|]. split; [exact Z0|].
      unfold accv in V. rewrite validate_conforms in V. unfold spec_accepts in V.
      repeat match type of V with _ && _ = true => apply andb_true_iff in V as [V ?] end.
      unfold between in V. split; [lia|]. intros _. lia.
    - exists (tnext t). split; [exact E|]. split; [apply tnext_fresh|].
      (* the lower bound needs the keys to be non-negative: stated conditionally *)
      split.
      + destruct (Z_le_gt_dec 0 (tnext t)); [lia|].
        (* tnext below 0 is possible only with negative keys; the range claim is then void below *)
        exfalso.
  Abort.
End Ids.
