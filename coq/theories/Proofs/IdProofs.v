(* C06: node ids are never handed out twice.  Built on the tree meaning (TreeProofs) and the
   persistence machine (DirtyProofs). *)
From Coq Require Import List NArith ZArith Bool String Lia Sorted.
From PMS Require Import Base.PyStr Base.PyInt Base.Exn Model.Codec Model.Rules Model.TableTypes
  Gen.Tables Model.Validate Model.Hex Model.Ota Model.Oracles Model.Gateway Spec.SerialApi
  Proofs.PyStrFacts Proofs.PyIntFacts Proofs.CodecProofs Proofs.ValidateProofs Proofs.GwLemmas Proofs.GwInv
  Spec.TreeMeaning Proofs.TreeProofs Proofs.TreeHistory Proofs.DirtyProofs.
Import ListNotations.
Open Scope string_scope.
Open Scope list_scope.
Open Scope Z_scope.

(* ---- keys of a tree under the meaning function ---- *)
Definition keys {A} (t : list (Z * A)) : list Z := map fst t.

Lemma keys_proj s : keys (proj s) = keys s.
Proof. unfold keys. rewrite proj_zmap. apply keys_zmap. Qed.

Lemma keys_zset_same {A} k (a n : A) t : zassoc k t = Some n -> keys (zset k a t) = keys t.
Proof.
  unfold keys. induction t as [|[k' a'] t IH]; simpl; [discriminate|].
  destruct (Z.eqb_spec k k'); simpl; [intros _; subst; reflexivity|].
  intro H. rewrite (IH H). reflexivity.
Qed.

Lemma keys_tupd k f t : keys (tupd k f t) = keys t.
Proof. unfold tupd. destruct (zassoc k t) eqn:E; [|reflexivity]. eapply keys_zset_same. exact E. Qed.

Lemma keys_app {A} (a b : list (Z * A)) : keys (a ++ b) = keys a ++ keys b.
Proof. apply map_app. Qed.

(* the only ways the key set changes: a node presentation of an unknown node, an id assignment *)
Lemma keys_meaning sv k t m :
  keys (meaning sv k t m) = keys t \/
  (k = KNodePres /\ zhas (m_node m) t = false /\ keys (meaning sv k t m) = keys t ++ [m_node m]) \/
  (k = KIdRequest /\ tnext t <= 254 /\ keys (meaning sv k t m) = keys t ++ [tnext t]).
Proof.
  destruct k; unfold meaning; try (left; apply keys_tupd); try (left; reflexivity).
  - rewrite keys_tupd. unfold tadd. destruct (zhas (m_node m) t) eqn:E; [left; reflexivity|].
    right. left. split; [reflexivity|]. split; [reflexivity|]. apply keys_app.
  - destruct (tnext t <=? 254) eqn:L; [|left; reflexivity].
    right. right. split; [reflexivity|]. split; [lia|]. apply keys_app.
Qed.

Definition in_range (ks : list Z) : Prop := Forall (fun k => 0 <= k <= 255) ks.

Lemma tnext_pos t : in_range (keys t) -> 1 <= tnext t.
Proof.
  intro R. unfold tnext. destruct t as [|[k0 n0] r]; [lia|].
  inversion R; subst. cbn in *. destruct (fold_max_ge (map fst r) k0) as [A _]. lia.
Qed.

Lemma zhas_keys {A} k (t : list (Z * A)) : zhas k t = true <-> In k (keys t).
Proof. apply zhas_In. Qed.

Section Ids.
  Variable orc : oracles.
  Variable clock : Z.

  Notation P g := (proj (g_sensors g)).

  (* a received line keeps every key in place, and adds at most one, fresh and in 0..255 *)
  Lemma keys_mlv v t l : in_range (keys t) ->
    keys (mlv orc v t l) = keys t \/
    exists n, keys (mlv orc v t l) = keys t ++ [n] /\ zhas n t = false /\ 0 <= n <= 255.
  Proof.
    intro R. unfold mlv, meaning_line. destruct (decode l) as [m|]; [|left; reflexivity].
    destruct (accv orc v m) eqn:V; [|left; reflexivity].
    destruct (keys_meaning (safe_version orc) (kind_of v m) t m) as [E|[(K & Z0 & E)|(K & L & E)]];
      [left; exact E| |]; right.
    - exists (m_node m). split; [exact E|]. split; [exact Z0|].
      unfold accv in V. rewrite validate_conforms in V. unfold spec_accepts in V.
      repeat match type of V with _ && _ = true => apply andb_true_iff in V as [V ?] end.
      unfold between in V. lia.
    - exists (tnext t). split; [exact E|]. split; [apply tnext_fresh|].
      pose proof (tnext_pos t R). lia.
  Qed.

  Lemma in_range_mlv v t l : in_range (keys t) -> in_range (keys (mlv orc v t l)).
  Proof.
    intro R. destruct (keys_mlv v t l R) as [E|(n & E & _ & B)]; rewrite E; [exact R|].
    apply Forall_app. split; [exact R|]. constructor; [exact B|constructor].
  Qed.

  Lemma mono_mlv v t l k : in_range (keys t) -> In k (keys t) -> In k (keys (mlv orc v t l)).
  Proof.
    intros R I. destruct (keys_mlv v t l R) as [E|(n & E & _)]; rewrite E; [exact I|].
    apply in_or_app. left. exact I.
  Qed.

  (* ---- which line the dispatcher processes in a step, and the tree after the step ---- *)
  Definition line_run (g : gw) (o : op) : option pstr :=
    match o with
    | Recv l => if cf_async (g_cf g) then Some l else None
    | Pump => match g_jobs g with JLogic l :: _ => Some l | _ => None end
    | _ => None
    end.

  Lemma step_tree v g o : cfg_is v (g_cf g) -> Inv orc g -> op_ok o ->
    P (step orc clock g o) = match line_run g o with Some l => mlv orc v (P g) l | None => P g end.
  Proof.
    intros CI I O. destruct o as [l| |s c vt x mt a|ns t x b|b]; cbn [step line_run].
    - destruct (cf_async (g_cf g)) eqn:A.
      + destruct (recv_async_eff orc clock v g l CI I A) as (_ & T & _). rewrite T, (ml_cfg orc v g CI). reflexivity.
      + rewrite (recv_threaded orc clock g l A). reflexivity.
    - destruct (g_jobs g) as [|[l|l] rest] eqn:J.
      + rewrite (pump_empty orc clock g J). reflexivity.
      + destruct (pump_logic_eff orc clock v g l rest CI I J) as (_ & T & _).
        rewrite T, (ml_cfg orc v g CI). reflexivity.
      + rewrite (pump_send orc clock g l rest J), sensors_send. reflexivity.
    - destruct (step_set_child_q orc clock g s c vt x mt a I) as [_ E]. exact E.
    - destruct (step_update_fw_q orc clock g ns t x b I) as [_ E]. exact E.
    - reflexivity.
  Qed.

  (* C06.2: no step removes a key (or moves it) *)
  Theorem step_keys_monotone v g o k : cfg_is v (g_cf g) -> Inv orc g -> op_ok o ->
    in_range (keys (g_sensors g)) ->
    zhas k (g_sensors g) = true -> zhas k (g_sensors (step orc clock g o)) = true.
  Proof.
    intros CI I O R H. apply zhas_keys. rewrite <- keys_proj, (step_tree v g o CI I O).
    apply zhas_keys in H. rewrite <- keys_proj in H, R.
    destruct (line_run g o); [apply mono_mlv; assumption|exact H].
  Qed.

  Theorem step_keys_in_range v g o : cfg_is v (g_cf g) -> Inv orc g -> op_ok o ->
    in_range (keys (g_sensors g)) -> in_range (keys (g_sensors (step orc clock g o))).
  Proof.
    intros CI I O R. rewrite <- keys_proj, (step_tree v g o CI I O). rewrite <- keys_proj in R.
    destruct (line_run g o); [apply in_range_mlv|]; exact R.
  Qed.

  Theorem keys_monotone v ops : forall g k, cfg_is v (g_cf g) -> Inv orc g -> Forall op_ok ops ->
    in_range (keys (g_sensors g)) ->
    zhas k (g_sensors g) = true ->
    zhas k (g_sensors (run orc clock g ops)) = true /\ in_range (keys (g_sensors (run orc clock g ops))).
  Proof.
    induction ops as [|o ops IH]; intros g k CI I F R H; [split; assumption|].
    inversion F as [|? ? O F']; subst. unfold run. cbn [fold_left].
    destruct (step_ok orc clock g o (cfg_is_ok _ _ CI) I O) as [I1 C1].
    apply IH; try assumption.
    - rewrite C1. exact CI.
    - eapply step_keys_in_range; eassumption.
    - eapply step_keys_monotone; eassumption.
  Qed.

  (* reachable states have their keys in 0..255 *)
  Theorem keys_in_range v cf ops : cfg_is v cf -> Forall op_ok ops ->
    in_range (keys (g_sensors (run orc clock (gw_init cf) ops))).
  Proof.
    intros CI F. revert F. generalize (Inv_init orc cf).
    assert (R : in_range (keys (g_sensors (gw_init cf)))) by constructor.
    assert (C : cfg_is v (g_cf (gw_init cf))) by exact CI.
    revert R C. generalize (gw_init cf). induction ops as [|o ops IH]; intros g R C I F; [exact R|].
    inversion F as [|? ? O F']; subst. unfold run. cbn [fold_left].
    destruct (step_ok orc clock g o (cfg_is_ok _ _ C) I O) as [I1 C1].
    apply IH; try assumption.
    - eapply step_keys_in_range; eassumption.
    - rewrite C1. exact C.
  Qed.

  (* ---- C06.1: the id carried by an id response ---- *)
  Lemma copy_payload m rp r p : copy m rp = Ok r -> r_payload rp = Some p -> m_payload r = p.
  Proof.
    unfold copy. destruct (decode (encode m)) as [m'|]; [|discriminate].
    intros H E. inversion H. subst. unfold override. cbn. rewrite E. reflexivity.
  Qed.

  Theorem id_response_fresh v g m g' r : cfg_is v (g_cf g) -> in_range (keys (g_sensors g)) ->
    handle_id_request g m = Ok (g', Some r) ->
    exists nid, m_payload r = print nid /\ 1 <= nid <= 254 /\
                zhas nid (g_sensors g) = false /\ zhas nid (g_sensors g') = true /\
                (forall k, zhas k (g_sensors g) = true -> k < nid) /\
                g_sensors g' = g_sensors g ++ [(nid, new_node nid)].
  Proof.
    intros CI R. unfold handle_id_request. rewrite (next_id_spec g (max_node_cfg v g CI)).
    destruct (tnext (P g) <=? 254) eqn:L; [|discriminate].
    rewrite zhas_add_sensor. cbn [negb].
    destruct (internal_member g "I_ID_RESPONSE") as [ir|]; cbn [bind]; [|discriminate].
    destruct (copy m (mkRepl None None None (Some 0) (Some ir) (Some (print (tnext (P g)))))) as [r0|] eqn:CP;
      cbn [bind]; [|discriminate].
    intro H. inversion H. subst. clear H.
    exists (tnext (P g)).
    assert (FR : zhas (tnext (P g)) (g_sensors g) = false).
    { rewrite <- known_proj. apply tnext_fresh. }
    split; [eapply copy_payload; [exact CP|reflexivity]|].
    split; [rewrite <- keys_proj in R; pose proof (tnext_pos _ R); lia|].
    split; [exact FR|].
    rewrite sensors_alert. split; [apply zhas_add_sensor|].
    split.
    - intros k K. apply tnext_gt. rewrite <- known_proj in K. exact K.
    - unfold add_sensor. rewrite FR. reflexivity.
  Qed.

  (* C06.3: no id left: no response, state unchanged *)
  Theorem exhaustion_silent v g m k : cfg_is v (g_cf g) ->
    zhas k (g_sensors g) = true -> 254 <= k -> handle_id_request g m = Ok (g, None).
  Proof.
    intros CI K L. unfold handle_id_request. rewrite (next_id_spec g (max_node_cfg v g CI)).
    assert (G : k < tnext (P g)) by (apply tnext_gt; rewrite <- known_proj in K; exact K).
    destruct (tnext (P g) <=? 254) eqn:E; [lia|reflexivity].
  Qed.

  (* ---- through the dispatcher: an accepted id request runs handle_id_request on the state itself ---- *)
  Lemma ikind_id h : ikind h = KIdRequest -> h = HIdRequest.
  Proof. destruct h; simpl; intro H; try discriminate H; reflexivity. Qed.

  Theorem logic_id_request v g l m g' r : cfg_is v (g_cf g) -> Inv orc g ->
    decode l = Some m -> gvalidate orc g m = true -> m_type m = 3 -> m_sub m = 3 ->
    logic orc clock g l = Ok (g', r) ->
    exists g1 rep routed, handle_id_request g m = Ok (g1, rep) /\ route_opt g1 rep = (g', routed) /\
                          r = option_map encode routed.
  Proof.
    intros CI I D V Ty Su. pose proof (facts_of_cfg g (cfg_is_ok _ _ CI)) as F.
    destruct (validated_ranges orc v g m CI V) as (_ & BT & BS).
    unfold logic. rewrite D, V. cbn [negb].
    destruct (type_handler_cases g (m_type m) F BT) as [[T E]|[[T E]|[[T E]|[[T E]|[T E]]]]]; try lia.
    rewrite E. unfold run_handler, handle_internal.
    rewrite Ty in BS. pose proof (registry_internal v (m_sub m) BS) as RI.
    destruct CI as [TB _]. unfold tab. rewrite TB, Ty.
    rewrite Su in RI. rewrite Su.
    destruct (sub_handler (tab_of v) 3 3) as [h|]; [|discriminate RI].
    cbn [okind] in RI. change (internal_kind v 3) with KIdRequest in RI. apply ikind_id in RI. subst h.
    unfold run_leaf.
    destruct (handle_id_request g m) as [[g1 rep]|]; cbn [bind]; [|discriminate].
    destruct (route_opt g1 rep) as [g2 routed] eqn:RO.
    intro H. inversion H. subst. exists g1, rep, routed. repeat split. exact RO.
  Qed.

  Theorem exhaustion_silent_logic v g l m k : cfg_is v (g_cf g) -> Inv orc g ->
    decode l = Some m -> gvalidate orc g m = true -> m_type m = 3 -> m_sub m = 3 ->
    zhas k (g_sensors g) = true -> 254 <= k ->
    logic orc clock g l = Ok (g, None).
  Proof.
    intros CI I D V Ty Su K L.
    destruct (logic_total orc clock g l (cfg_is_ok _ _ CI) I) as (g' & r & E & _).
    destruct (logic_id_request v g l m g' r CI I D V Ty Su E) as (g1 & rep & routed & H1 & H2 & H3).
    rewrite (exhaustion_silent v g m k CI K L) in H1. inversion H1. subst g1 rep.
    cbn in H2. inversion H2. subst. exact E.
  Qed.
End Ids.

(* ---- histories, with periodic saves and clean stop/restart ---- *)
Definition is_id_request (m : msg) : bool := (m_type m =? 3) && (m_sub m =? 3).

Lemma kind_of_id_request v m : is_id_request m = true -> kind_of v m = KIdRequest.
Proof.
  unfold is_id_request. intro H. apply andb_true_iff in H as [T S].
  apply Z.eqb_eq in T. apply Z.eqb_eq in S. unfold kind_of. rewrite T, S. reflexivity.
Qed.

Lemma keys_load_tree t : keys (load_tree t) = keys t.
Proof. unfold keys, load_tree. rewrite map_map. reflexivity. Qed.

Section IdsHistory.
  Variable orc : oracles.
  Variable clock : Z.

  Notation P g := (proj (g_sensors g)).

  (* the id that processing line l hands out in a state whose tree is t (None: no id response) *)
  Definition id_of_line (v : ver) (t : tree) (l : pstr) : option Z :=
    match decode l with
    | Some m => if accv orc v m && is_id_request m && (tnext t <=? 254) then Some (tnext t) else None
    | None => None
    end.

  Definition id_of_pstep (v : ver) (s : pstate) (o : pop) : option Z :=
    match o with
    | POp o => match line_run (fst s) o with
               | Some l => id_of_line v (P (fst s)) l
               | None => None
               end
    | _ => None
    end.

  Fixpoint ids_handed (v : ver) (s : pstate) (pops : list pop) : list Z :=
    match pops with
    | [] => []
    | o :: r => (match id_of_pstep v s o with Some n => [n] | None => [] end) ++
                ids_handed v (pstep orc clock s o) r
    end.

  Lemma id_line_adds v t l n : id_of_line v t l = Some n ->
    n = tnext t /\ tnext t <= 254 /\ mlv orc v t l = t ++ [(n, tnew n)].
  Proof.
    unfold id_of_line, mlv, meaning_line. destruct (decode l) as [m|]; [|discriminate].
    destruct (accv orc v m); [|discriminate]. cbn [andb].
    destruct (is_id_request m) eqn:IR; [|discriminate]. cbn [andb].
    destruct (tnext t <=? 254) eqn:L; [|discriminate].
    intro H. inversion H. subst. split; [reflexivity|]. split; [lia|].
    rewrite (kind_of_id_request v m IR). unfold meaning. rewrite L. reflexivity.
  Qed.

  (* id_of_line is the payload of the id response that handle_id_request builds (soundness),
     and None means handle_id_request answers nothing (completeness) *)
  Theorem id_of_line_sound v g l n : cfg_is v (g_cf g) -> id_of_line v (P g) l = Some n ->
    exists m g1 rsp, decode l = Some m /\ gvalidate orc g m = true /\ is_id_request m = true /\
                     handle_id_request g m = Ok (g1, Some rsp) /\ m_payload rsp = print n.
  Proof.
    intros CI. unfold id_of_line. destruct (decode l) as [m|] eqn:D; [|discriminate].
    destruct (accv orc v m) eqn:V; [|discriminate]. cbn [andb].
    destruct (is_id_request m) eqn:IR; [|discriminate]. cbn [andb].
    destruct (tnext (P g) <=? 254) eqn:L; [|discriminate].
    intro H. inversion H. subst n. clear H.
    pose proof (facts_of_cfg g (cfg_is_ok _ _ CI)) as F. unfold facts, tab_facts in F.
    repeat match type of F with _ && _ = true => apply andb_true_iff in F as [F ?] end.
    match goal with H : has_member _ "I_ID_RESPONSE" = true |- _ =>
      destruct (internal_member_ok g _ H) as [z Ez] end.
    pose proof (decoded_payload_wire_ok _ _ D) as W.
    exists m. eexists. eexists. split; [reflexivity|].
    split; [destruct CI as [T _]; unfold gvalidate, tab; rewrite T; exact V|]. split; [exact IR|].
    unfold handle_id_request. rewrite (next_id_spec g (max_node_cfg v g CI)), L, zhas_add_sensor. cbn [negb].
    rewrite Ez. cbn [bind]. rewrite (copy_spec _ _ W). cbn [bind]. split; reflexivity.
  Qed.

  Theorem id_of_line_complete v g l m : cfg_is v (g_cf g) -> decode l = Some m ->
    gvalidate orc g m = true -> is_id_request m = true -> id_of_line v (P g) l = None ->
    handle_id_request g m = Ok (g, None).
  Proof.
    intros CI D V IR. unfold id_of_line. rewrite D.
    assert (V' : accv orc v m = true) by (destruct CI as [T _]; unfold gvalidate, tab in V; rewrite T in V; exact V).
    rewrite V', IR. cbn [andb]. destruct (tnext (P g) <=? 254) eqn:L; [discriminate|]. intros _.
    unfold handle_id_request. rewrite (next_id_spec g (max_node_cfg v g CI)), L. reflexivity.
  Qed.

  (* periodic saves anywhere; restarts only with persistence enabled *)
  Definition pop_ok2 (cf : config) (o : pop) : Prop :=
    match o with POp o => op_ok o | PSave => True | PRestart => cf_persist cf = true end.

  Definition IInv (cf : config) (s : pstate) : Prop :=
    g_cf (fst s) = cf /\ Inv orc (fst s) /\ in_range (keys (g_sensors (fst s))) /\
    (cf_persist cf = true -> synced s).

  Lemma IInv_PInv v cf s : cf_persist cf = true -> IInv cf s -> PInv orc v cf s.
  Proof. intros PE (C & I & _ & S). split; [exact C|]. split; [exact I|apply S; exact PE]. Qed.

  Lemma save_tick_sensors g d : g_sensors (fst (save_tick g d)) = g_sensors g.
  Proof. unfold save_tick. destruct (cf_persist (g_cf g) && g_dirty g); reflexivity. Qed.

  Lemma ipstep v cf s o : cfg_is v cf -> pop_ok2 cf o -> IInv cf s ->
    IInv cf (pstep orc clock s o) /\
    (forall k, zhas k (g_sensors (fst s)) = true -> zhas k (g_sensors (fst (pstep orc clock s o))) = true) /\
    (forall n, id_of_pstep v s o = Some n ->
               1 <= n <= 254 /\ (forall k, zhas k (g_sensors (fst s)) = true -> k < n) /\
               zhas n (g_sensors (fst (pstep orc clock s o))) = true).
  Proof.
    intros CI O H. pose proof H as (C & I & R & S). destruct s as [g d]. cbn [fst snd] in *.
    assert (CI' : cfg_is v (g_cf g)) by (rewrite C; exact CI).
    assert (SY : cf_persist cf = true -> synced (pstep orc clock (g, d) o)).
    { intro PE. assert (O' : pop_ok o) by (destruct o; [exact O|exact Logic.I|exact Logic.I]).
      destruct (pstep_inv orc clock v cf (g, d) o CI PE O' (IInv_PInv v cf _ PE H)) as (_ & _ & S'). exact S'. }
    destruct o as [o| |]; cbn [pstep fst snd id_of_pstep] in *.
    - destruct (step_ok orc clock g o (cfg_is_ok _ _ CI') I O) as [I1 C1].
      split; [split; [cbn [fst]; congruence|]; split; [exact I1|]; split; [eapply step_keys_in_range; eassumption|exact SY]|].
      split; [intros k K; eapply step_keys_monotone; eassumption|].
      intros n N. pose proof (step_tree orc clock v g o CI' I O) as T.
      destruct (line_run g o) as [l|]; [|discriminate N].
      destruct (id_line_adds v (P g) l n N) as (E & L & ML).
      rewrite <- keys_proj in R. pose proof (tnext_pos _ R) as POS.
      split; [lia|]. split.
      + intros k K. rewrite E. apply tnext_gt. rewrite <- known_proj in K. exact K.
      + rewrite <- known_proj. unfold known. rewrite T, ML, zhas_app.
        unfold zhas at 2. cbn. rewrite Z.eqb_refl. apply orb_true_r.
    - split; [|split; [intros k K; rewrite save_tick_sensors; exact K|intros n N; discriminate N]].
      split; [unfold save_tick; destruct (cf_persist (g_cf g) && g_dirty g); exact C|].
      split; [|split; [rewrite save_tick_sensors; exact R|exact SY]].
      unfold save_tick. destruct (cf_persist (g_cf g) && g_dirty g); [|exact I].
      revert I. apply Inv_ext; reflexivity.
    - assert (PE' : cf_persist (g_cf g) = true) by (rewrite C; exact O).
      pose proof (restart_spec g d PE' (S O)) as RS.
      assert (KS : keys (g_sensors (fst (restart g d))) = keys (g_sensors g)).
      { rewrite RS. cbn [fst g_sensors set_dirty set_sensors]. rewrite keys_load_tree. apply keys_proj. }
      split; [|split; [|intros n N; discriminate N]].
      + split; [rewrite RS; exact C|]. split; [rewrite RS; apply Inv_loaded; exact I|].
        split; [rewrite KS; exact R|exact SY].
      + intros k K. apply zhas_keys. rewrite KS. apply zhas_keys. exact K.
  Qed.

  Lemma ids_gen v cf pops : cfg_is v cf -> Forall (pop_ok2 cf) pops -> forall s, IInv cf s ->
    NoDup (ids_handed v s pops) /\ StronglySorted Z.lt (ids_handed v s pops) /\
    Forall (fun n => 1 <= n <= 254 /\ forall k, zhas k (g_sensors (fst s)) = true -> k < n)
           (ids_handed v s pops).
  Proof.
    intros CI. induction pops as [|o r IH]; intros F s H; cbn [ids_handed].
    - split; [constructor|]. split; constructor.
    - inversion F as [|? ? O F']; subst.
      destruct (ipstep v cf s o CI O H) as (H1 & MONO & IDS).
      destruct (IH F' _ H1) as (ND & SS & FA).
      assert (FA' : Forall (fun n => 1 <= n <= 254 /\ forall k, zhas k (g_sensors (fst s)) = true -> k < n)
                           (ids_handed v (pstep orc clock s o) r)).
      { eapply Forall_impl; [|exact FA]. intros n [B K]. split; [exact B|]. intros k Hk. apply K, MONO, Hk. }
      destruct (id_of_pstep v s o) as [n|]; cbn [app]; [|split; [exact ND|split; [exact SS|exact FA']]].
      destruct (IDS n eq_refl) as (B & GT & IN).
      assert (LT : Forall (Z.lt n) (ids_handed v (pstep orc clock s o) r)).
      { eapply Forall_impl; [|exact FA]. intros x [_ K]. apply K. exact IN. }
      split; [|split].
      + constructor; [|exact ND]. intro X. rewrite Forall_forall in LT. specialize (LT _ X). lia.
      + constructor; assumption.
      + constructor; [split; assumption|exact FA'].
  Qed.

  Lemma IInv_init cf : IInv cf (gw_init cf, None).
  Proof.
    split; [reflexivity|]. split; [apply Inv_init|]. split; [constructor|]. intros _ D. discriminate D.
  Qed.

  (* C06.2 over whole histories, including periodic saves and (with persistence) clean
     stop/restart: the ids handed out are pairwise distinct - strictly increasing -, lie in
     1..254, and each exceeds every node id known when it is handed out *)
  Theorem ids_never_twice v cf pops : cfg_is v cf -> Forall (pop_ok2 cf) pops ->
    NoDup (ids_handed v (gw_init cf, None) pops) /\
    StronglySorted Z.lt (ids_handed v (gw_init cf, None) pops) /\
    Forall (fun n => 1 <= n <= 254) (ids_handed v (gw_init cf, None) pops).
  Proof.
    intros CI F. destruct (ids_gen v cf pops CI F _ (IInv_init cf)) as (ND & SS & FA).
    split; [exact ND|]. split; [exact SS|]. eapply Forall_impl; [|exact FA]. intros n [B _]. exact B.
  Qed.

  Lemma prun_IInv v cf pops : cfg_is v cf -> Forall (pop_ok2 cf) pops -> forall s, IInv cf s ->
    IInv cf (prun orc clock s pops).
  Proof.
    intros CI. induction pops as [|p r IH]; intros F0 s0 H0; [exact H0|].
    inversion F0 as [|? ? Op Fr]; subst. unfold prun. cbn [fold_left]. apply IH; [exact Fr|].
    exact (proj1 (ipstep v cf s0 p CI Op H0)).
  Qed.

  (* per step, in every reachable state of the persistence machine *)
  Theorem id_fresh_in_history v cf pops o n : cfg_is v cf -> Forall (pop_ok2 cf) pops -> pop_ok2 cf o ->
    let s := prun orc clock (gw_init cf, None) pops in
    id_of_pstep v s o = Some n ->
    1 <= n <= 254 /\ zhas n (g_sensors (fst s)) = false /\
    (forall k, zhas k (g_sensors (fst s)) = true -> k < n) /\
    zhas n (g_sensors (fst (pstep orc clock s o))) = true.
  Proof.
    intros CI F O s N.
    assert (H : IInv cf s) by (apply (prun_IInv v cf pops CI F), IInv_init).
    destruct (ipstep v cf s o CI O H) as (_ & _ & IDS). destruct (IDS n N) as (B & GT & IN).
    split; [exact B|]. split; [|split; assumption].
    destruct (zhas n (g_sensors (fst s))) eqn:Z; [|reflexivity]. specialize (GT _ Z). lia.
  Qed.

  (* C06.4: a clean stop/restart keeps every reserved id (the whole key list, in order) *)
  Theorem restart_keeps_reservations v cf pops : cfg_is v cf -> cf_persist cf = true -> Forall pop_ok pops ->
    let s := prun orc clock (gw_init cf, None) pops in
    keys (g_sensors (fst (pstep orc clock s PRestart))) = keys (g_sensors (fst s)).
  Proof.
    intros CI PE F s. destruct (stop_loses_nothing orc clock v cf pops CI PE F) as (_ & _ & L).
    fold s in L. rewrite L, keys_load_tree. apply keys_proj.
  Qed.
End IdsHistory.
