(* AST fingerprints of the hand-modelled functions of /repo that Model/Gateway.v (and Codec.v) were
   written against.  Written by tools_pin_fingerprints.py; compared with the regenerated
   Gen/Fingerprints.v on every run. *)
From Coq Require Import List NArith String.
From PMS Require Import Base.PyStr Gen.Fingerprints.
Import ListNotations.
Open Scope string_scope.

Definition pinned_fp : list (pstr * pstr) := [
  (s2p "AsyncTasks.add_job", s2p "34f7e1b9d8e5");
  (s2p "Gateway._get_next_id", s2p "fd328de43fe8");
  (s2p "Gateway._route_message", s2p "521d35b871dc");
  (s2p "Gateway.add_sensor", s2p "b4939e255f1b");
  (s2p "Gateway.alert", s2p "99bb84dc1381");
  (s2p "Gateway.create_message_to_set_sensor_value", s2p "e2f3124644db");
  (s2p "Gateway.is_sensor", s2p "efc56a672c53");
  (s2p "Gateway.logic", s2p "8090b61b121e");
  (s2p "Gateway.set_child_value", s2p "46409b6f745c");
  (s2p "Message.__init__", s2p "765513938fd9");
  (s2p "Message.copy", s2p "2717039efef2");
  (s2p "Message.decode", s2p "5d383599df36");
  (s2p "Message.encode", s2p "44b395425965");
  (s2p "Message.modify", s2p "75e077aa68d3");
  (s2p "Message.validate", s2p "c79669b31895");
  (s2p "OTAFirmware._get_fw", s2p "bb9985e00c87");
  (s2p "OTAFirmware.make_update", s2p "62d3ab2281ea");
  (s2p "OTAFirmware.respond_fw", s2p "46f307a5723b");
  (s2p "OTAFirmware.respond_fw_config", s2p "1d7128c42fcc");
  (s2p "Sensor.add_child_sensor", s2p "4cc012f299e4");
  (s2p "Sensor.battery_level.get", s2p "688761a88287");
  (s2p "Sensor.battery_level.set", s2p "b1952da7e3e5");
  (s2p "Sensor.get_desired_value", s2p "f466ce120e9d");
  (s2p "Sensor.heartbeat.get", s2p "fbd0aea2f27c");
  (s2p "Sensor.heartbeat.set", s2p "c0321a2cc046");
  (s2p "Sensor.init_smart_sleep_mode", s2p "8f0857edf66f");
  (s2p "Sensor.is_smart_sleep_node.get", s2p "c70d5f383923");
  (s2p "Sensor.protocol_version.get", s2p "c07ef973a857");
  (s2p "Sensor.protocol_version.set", s2p "d04028b9ba6b");
  (s2p "Sensor.set_child_desired_state", s2p "73ee91959fa7");
  (s2p "Sensor.update_child_value", s2p "589d08419b0c");
  (s2p "Sensor.validate_child_state", s2p "3d2841829706");
  (s2p "SyncTasks.add_job", s2p "8f80d50f47bc");
  (s2p "SyncTasks.update_fw", s2p "61fe7dfdbfd9");
  (s2p "Tasks.run_job", s2p "81fde6414cb2");
  (s2p "handler.handle_battery_level", s2p "e41d7c28fe0c");
  (s2p "handler.handle_config", s2p "4fe41bdddc9e");
  (s2p "handler.handle_discover_response", s2p "b085aa231026");
  (s2p "handler.handle_firmware_config_request", s2p "a57fe0b20f84");
  (s2p "handler.handle_firmware_request", s2p "24bf428a2638");
  (s2p "handler.handle_gateway_ready", s2p "20f4cf5c685c");
  (s2p "handler.handle_gateway_ready_20", s2p "f9096015e2d0");
  (s2p "handler.handle_heartbeat_response", s2p "5f20a2ea20b2");
  (s2p "handler.handle_heartbeat_response_22", s2p "c88a6541b9f0");
  (s2p "handler.handle_id_request", s2p "29cb7b9b67a7");
  (s2p "handler.handle_internal", s2p "52f008dfdb82");
  (s2p "handler.handle_log_message", s2p "f16efbf9939e");
  (s2p "handler.handle_pre_sleep_notification", s2p "2eabaf1500f8");
  (s2p "handler.handle_presentation", s2p "9766d08dff55");
  (s2p "handler.handle_req", s2p "8a3e1d464b93");
  (s2p "handler.handle_set", s2p "faa3bf639e70");
  (s2p "handler.handle_sketch_name", s2p "f9bf354a6a7b");
  (s2p "handler.handle_sketch_version", s2p "0dd908cfcb72");
  (s2p "handler.handle_smartsleep", s2p "9c62bf4346a0");
  (s2p "handler.handle_stream", s2p "180630bc1086");
  (s2p "handler.handle_time", s2p "ce6ac747d0a1");
  (s2p "ota.fw_hex_to_int", s2p "e7c36b913566");
  (s2p "ota.fw_int_to_hex", s2p "f741dfbbde80");
  (s2p "ota.prepare_fw", s2p "4546914289df");
  (s2p "validation.is_battery_level", s2p "cf82d1748bc6");
  (s2p "validation.is_heartbeat", s2p "cab53203bad3");
  (s2p "validation.safe_is_version", s2p "55d011a5fc8e")].

Theorem modelled_code_unchanged : code_fp = pinned_fp.
Proof. vm_compute. reflexivity. Qed.
