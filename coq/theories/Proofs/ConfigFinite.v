(* C18 - every documented option subset is accepted and honoured: the finite
   check over the generated signatures, and its lifting to the Prop statement. *)
From Coq Require Import List NArith ZArith Bool Lia Arith String.
From PMS Require Import Base.PyStr Base.Exn Proofs.PyStrFacts
  Model.ConfigSyntax Model.ConfigVersion Model.Config Model.ConfigCheck
  Spec.ConfigSpec Gen.Signatures
  Proofs.ConfigFiniteSerial Proofs.ConfigFiniteTCP Proofs.ConfigFiniteMQTT.
Import ListNotations.
Open Scope list_scope.

Lemma val_eqb_eq a : forall b, val_eqb a b = true -> a = b.
Proof.
  induction a as [| x | x | x | x | x | x | a1 IH1 a2 IH2]; intros [| y | y | y | y | y | y | b1 b2];
    simpl; intro H; try discriminate; try reflexivity.
  - apply Bool.eqb_prop in H. congruence.
  - apply Z.eqb_eq in H. congruence.
  - apply pstr_eqb_eq in H. congruence.
  - apply pstr_eqb_eq in H. congruence.
  - apply pstr_eqb_eq in H. congruence.
  - apply Nat.eqb_eq in H. congruence.
  - apply andb_prop in H. destruct H as [H1 H2]. rewrite (IH1 _ H1), (IH2 _ H2). reflexivity.
Qed.

Lemma look_is_sound lk path v : look_is lk path v = true -> lk path = Some v.
Proof.
  unfold look_is. destruct (lk path) as [x|]; [|discriminate]. intro H.
  apply val_eqb_eq in H. congruence.
Qed.

Lemma honoured_b_sound lk c sel o v : honoured_b lk c sel o v = true -> honoured lk c sel o v.
Proof.
  destruct o; simpl; intro H; try (apply look_is_sound; exact H).
  - (* persistence *)
    destruct (is_true_val v).
    + unfold is_ref in H.
      match type of H with match ?x with _ => _ end = true => destruct x as [[]|] end; try discriminate.
      eexists. reflexivity.
    + apply look_is_sound. exact H.
  - (* persistence_file *)
    intro Hon. rewrite Hon in H. simpl in H. apply look_is_sound. exact H.
  - (* protocol_version *)
    apply andb_prop in H. destruct H as [H1 H2]. split; [apply look_is_sound; exact H1|].
    simpl in H2. rewrite orb_false_r in H2. apply orb_prop in H2.
    destruct H2 as [H2|H2]; apply andb_prop in H2; destruct H2 as [Hv Hc];
      apply val_eqb_eq in Hv; apply look_is_sound in Hc;
      [exists false|exists true]; split; assumption.
Qed.

Lemma required_visible_b_sound lk c : required_visible_b lk c = true -> required_visible lk c.
Proof.
  destruct c; simpl; intro H; try exact I; try (apply look_is_sound; exact H);
    unfold is_pair_with in H;
    match type of H with match ?x with _ => _ end = true => destruct x as [[| | | | | | |a b]|] end;
    try discriminate;
    apply val_eqb_eq in H; subst a; eexists; reflexivity.
Qed.

(* the enumeration of choice vectors is complete *)
Lemma all_choices_complete ch : In ch (all_choices (List.length ch)).
Proof.
  induction ch as [|x ch IH]; simpl; [auto|].
  apply in_flat_map. exists ch. split; [exact IH|]. destruct x; simpl; auto.
Qed.

Section Finite.
Variable orc : avop -> pstr -> pstr -> option bool.
Variable cont : pstr -> bool.

Lemma check_all c : check_class orc cont c = true.
Proof.
  destruct c; [apply check_SerialGw|apply check_AsyncSerialGw|apply check_TCPGw|apply check_AsyncTCPGw
              |apply check_MQTTGw|apply check_AsyncMQTTGw].
Qed.

Theorem documented_options_accepted (c : gwclass) (by_keyword : bool) (ch : list choice) :
  List.length ch = List.length (documented c) ->
  exists h, construct_case orc cont c by_keyword ch = Ok h
    /\ (forall o v, In (o, v) (selected c ch) -> honoured (look h) c (selected c ch) o v)
    /\ required_visible (look h) c.
Proof.
  intro Hlen. pose proof (check_all c) as H. unfold check_class in H.
  rewrite forallb_forall in H.
  assert (Hk : forallb (check_case orc cont c by_keyword) (all_choices (List.length (documented c))) = true).
  { apply H. destruct by_keyword; simpl; auto. }
  rewrite forallb_forall in Hk. specialize (Hk ch).
  rewrite <- Hlen in Hk. specialize (Hk (all_choices_complete ch)).
  unfold check_case in Hk. destruct (construct_case orc cont c by_keyword ch) as [h|e]; [|discriminate].
  apply andb_prop in Hk. destruct Hk as [Hsel Hreq].
  exists h. split; [reflexivity|]. split.
  - intros o v Hin. rewrite forallb_forall in Hsel. specialize (Hsel (o, v) Hin).
    apply honoured_b_sound. exact Hsel.
  - apply required_visible_b_sound. exact Hreq.
Qed.

End Finite.

(* event_callback and persistence take effect through Gateway.alert independently:
   the callback is invoked iff one is configured; with persistence on every alert
   marks the network as changed (so the next save writes it), with or without a
   callback; without persistence nothing is marked *)
Lemma alert_effect (has_callback dirty : bool) :
  alert_model has_callback true dirty = (has_callback, true)
  /\ alert_model has_callback false dirty = (has_callback, dirty).
Proof. destruct has_callback, dirty; vm_compute; split; reflexivity. Qed.

(* every keyword used by README.md / the example scripts is a documented option *)
Lemma examples_use_documented_options : examples_documented = true.
Proof. vm_compute. reflexivity. Qed.

(* non-vacuity: the README call with all seven serial options *)
Example readme_serial_call :
  exists h, construct_case (fun _ _ _ => None) (fun _ => false) SerialGw false [RepA; RepA; RepA; RepA; RepA; RepA; RepA] = Ok h
    /\ look h (p ["tasks"; "transport"; "timeout"]%string) = Some (VFloat (s2p "2.5"))
    /\ look h (p ["tasks"; "persistence"; "persistence_file"]%string) = Some (VStr (s2p "a.json"))
    /\ look h (p ["const"]%string) = Some (VObj (s2p "mysensors.const_22")).
Proof. eexists. split; [vm_compute; reflexivity|]. vm_compute. auto. Qed.

(* an undocumented keyword is refused, as Python does *)
Example undocumented_keyword_refused :
  construct (fun _ _ _ => None) (fun _ => false) classes (s2p "MQTTGateway") [VObj (s2p "pub"); VObj (s2p "sub")]
    [(s2p "timeout", VFloat (s2p "1.0"))] = Raise TypeError.
Proof. vm_compute. reflexivity. Qed.
