(* Every reachable state of the core machine has a well-formed persisted tree (C11). *)
From Coq Require Import List NArith ZArith Bool String Lia.
From PMS Require Import Base.PyStr Base.PyInt Base.Exn Model.Codec Model.Rules Model.TableTypes
  Gen.Tables Model.Validate Model.Hex Model.Ota Model.Oracles Model.Gateway Spec.SerialApi
  Proofs.CodecProofs Proofs.ValidateProofs Proofs.GwLemmas Proofs.GwInv Model.Persist Proofs.PersistProofs.
Import ListNotations.
Open Scope string_scope.
Open Scope list_scope.
Open Scope Z_scope.

(* ---------------------------------------------------------------- insertion-ordered dicts *)
Lemma zassoc_none_notin {A} k (l : list (Z * A)) : zassoc k l = None -> ~ In k (map fst l).
Proof.
  induction l as [|[k' a] l IH]; simpl; [tauto|]. destruct (Z.eqb_spec k k'); [discriminate|].
  intros H [E|I]; [congruence|exact (IH H I)].
Qed.

Lemma zset_keys_same {A} k (a b : A) l : zassoc k l = Some a -> map fst (zset k b l) = map fst l.
Proof.
  induction l as [|[k' a'] l IH]; simpl; [discriminate|]. destruct (Z.eqb_spec k k'); simpl; intro H.
  - subst. reflexivity.
  - rewrite IH by exact H. reflexivity.
Qed.

Lemma zset_new {A} k (b : A) l : zassoc k l = None -> zset k b l = l ++ [(k, b)].
Proof.
  induction l as [|[k' a'] l IH]; simpl; [reflexivity|]. destruct (Z.eqb_spec k k'); [discriminate|].
  intro H. rewrite IH by exact H. reflexivity.
Qed.

Lemma NoDup_snoc {A} (l : list A) x : NoDup l -> ~ In x l -> NoDup (l ++ [x]).
Proof.
  intros N I. induction N as [|y l Hy N IH]; simpl; [constructor; [tauto|constructor]|].
  constructor.
  - intro X. apply in_app_or in X as [X|[X|[]]]; [tauto|]. subst. apply I. left. reflexivity.
  - apply IH. intro X. apply I. right. exact X.
Qed.

Lemma NoDup_zset {A} k (b : A) l : NoDup (map fst l) -> NoDup (map fst (zset k b l)).
Proof.
  intro N. destruct (zassoc k l) as [a|] eqn:E.
  - rewrite (zset_keys_same k a b l E). exact N.
  - rewrite (zset_new k b l E), map_app. simpl. apply NoDup_snoc; [exact N|]. apply zassoc_none_notin. exact E.
Qed.

Lemma zhas_false {A} k (l : list (Z * A)) : zhas k l = false -> zassoc k l = None.
Proof. unfold zhas. destruct (zassoc k l); [discriminate|reflexivity]. Qed.

Section PInv.
  Variable orc : oracles.
  Variable clock : Z.

  Definition vok : pstr -> bool := orc_version orc.

  (* what every reachable child / node / sensors dict satisfies *)
  Definition child_okP (kc : Z * child) : Prop :=
    c_id (snd kc) = fst kc /\ 0 <= fst kc <= 255 /\
    NoDup (map fst (c_values (snd kc))) /\
    Forall (fun kv => 0 <= fst kv /\ exists s, snd kv = PS s) (c_values (snd kc)).
  Definition node_okP (kn : Z * node) : Prop :=
    n_id (snd kn) = fst kn /\ 0 <= fst kn <= 255 /\
    NoDup (map fst (n_children (snd kn))) /\ Forall child_okP (n_children (snd kn)) /\
    0 <= n_batt (snd kn) <= 100 /\
    (vok (n_pver (snd kn)) = true \/ n_pver (snd kn) = s2p "1.4").
  Definition sens_ok (s : list (Z * node)) : Prop := NoDup (map fst s) /\ Forall node_okP s.
  Definition PInv (g : gw) : Prop := sens_ok (g_sensors g).

  Lemma node_okP_intro k nd :
    n_id nd = k -> 0 <= k <= 255 -> NoDup (map fst (n_children nd)) -> Forall child_okP (n_children nd) ->
    0 <= n_batt nd <= 100 -> (vok (n_pver nd) = true \/ n_pver nd = s2p "1.4") -> node_okP (k, nd).
  Proof. unfold node_okP. simpl. tauto. Qed.
  Lemma child_okP_intro k c :
    c_id c = k -> 0 <= k <= 255 -> NoDup (map fst (c_values c)) ->
    Forall (fun kv => 0 <= fst kv /\ exists s, snd kv = PS s) (c_values c) -> child_okP (k, c).
  Proof. unfold child_okP. simpl. tauto. Qed.

  (* node_okP looks at the persisted attributes only *)
  Lemma node_okP_same k nd nd' :
    n_id nd' = n_id nd -> n_children nd' = n_children nd -> n_batt nd' = n_batt nd -> n_pver nd' = n_pver nd ->
    node_okP (k, nd) -> node_okP (k, nd').
  Proof. unfold node_okP. simpl. intros -> -> -> ->. tauto. Qed.

  Lemma PInv_ext g g' : g_sensors g' = g_sensors g -> PInv g -> PInv g'.
  Proof. unfold PInv. intros ->. tauto. Qed.

  Lemma P_send g l : PInv g -> PInv (send g l).
  Proof. apply PInv_ext. destruct (send_frame g l) as (H & _). exact H. Qed.
  Lemma P_add_job g l : PInv g -> PInv (add_job_send g l).
  Proof. apply PInv_ext. destruct (add_job_send_frame g l) as (H & _). exact H. Qed.
  Lemma P_fold_add_job ls g : PInv g -> PInv (fold_left add_job_send ls g).
  Proof. apply PInv_ext. destruct (fold_add_job_send_frame ls g) as (H & _). exact H. Qed.
  Lemma P_alert g m : PInv g -> PInv (alert g m).
  Proof. apply PInv_ext. destruct (alert_frame g m) as (H & _). exact H. Qed.

  Lemma get_node_P g k nd : PInv g -> get_node g k = Some nd -> node_okP (k, nd).
  Proof. intros [_ F] H. exact (zassoc_Forall _ _ _ _ F H). Qed.

  (* replacing an existing node *)
  Lemma P_put g k nd nd' : PInv g -> get_node g k = Some nd -> n_id nd' = k -> node_okP (k, nd') -> PInv (put_node g nd').
  Proof.
    intros [N F] G E O. unfold PInv, sens_ok, put_node. simpl. rewrite E. split.
    - apply NoDup_zset. exact N.
    - apply Forall_zset; assumption.
  Qed.

  Lemma P_put_same g k nd nd' :
    PInv g -> get_node g k = Some nd ->
    n_id nd' = n_id nd -> n_children nd' = n_children nd -> n_batt nd' = n_batt nd -> n_pver nd' = n_pver nd ->
    PInv (put_node g nd').
  Proof.
    intros I G E1 E2 E3 E4. pose proof (get_node_P g k nd I G) as O.
    apply (P_put g k nd nd' I G).
    - rewrite E1. destruct O as [O _]. exact O.
    - apply (node_okP_same k nd nd'); assumption.
  Qed.

  Lemma P_add_sensor g sid : 0 <= sid <= 255 -> PInv g -> PInv (add_sensor g sid).
  Proof.
    intros R [N F]. unfold add_sensor. destruct (zhas sid (g_sensors g)) eqn:H; [split; assumption|].
    apply zhas_false in H. unfold PInv, sens_ok. simpl. split.
    - rewrite map_app. simpl. apply NoDup_snoc; [exact N|]. apply zassoc_none_notin. exact H.
    - apply Forall_app. split; [exact F|]. constructor; [|constructor].
      unfold node_okP, new_node. simpl.
      split; [reflexivity|]. split; [lia|]. split; [constructor|]. split; [constructor|]. split; [lia|].
      right. reflexivity.
  Qed.

  (* ---- route / is_sensor ---- *)
  Lemma P_route g m : PInv g -> PInv (fst (route g m)).
  Proof.
    intro I. unfold route. destruct (m_type m =? vt_presentation (tab g)); [exact I|].
    destruct (get_node g (m_node m)) as [nd|] eqn:G; [|exact I].
    destruct ((m_type m =? vt_stream (tab g)) || negb (sleeping nd)); [exact I|]. simpl fst.
    apply (P_put_same g (m_node m) nd); try assumption; reflexivity.
  Qed.
  Lemma P_route_opt g r : PInv g -> PInv (fst (route_opt g r)).
  Proof. destruct r; simpl; [apply P_route|tauto]. Qed.

  Lemma is_sensor_P g sid cid g1 b : PInv g -> is_sensor g sid cid = Ok (g1, b) ->
    PInv g1 /\ (b = true -> g1 = g /\ exists nd, get_node g sid = Some nd /\
                                     forall c, cid = Some c -> zhas c (n_children nd) = true).
  Proof.
    intros I. unfold is_sensor.
    set (ret := match get_node g sid with
                | Some nd => match cid with Some c => zhas c (n_children nd) | None => true end
                | None => false end).
    destruct ret eqn:R; cbn [negb andb].
    - intro H. injection H as <- <-. split; [exact I|]. intros _. split; [reflexivity|].
      subst ret. destruct (get_node g sid) as [nd|]; [|discriminate R].
      exists nd. split; [reflexivity|]. intros c ->. exact R.
    - destruct (node_id_ok sid && cf_ge20 (g_cf g)).
      + destruct (sassoc _ _) as [ip|]; [|discriminate].
        pose proof (P_route g (mkMsg sid system_child_id (vt_internal (tab g)) 0 ip []) I) as I1.
        destruct (route g _) as [g1' r]. simpl in I1. intro H. injection H as <- <-.
        split; [|discriminate]. destruct r; [apply P_add_job; exact I1|exact I1].
      + intro H. injection H as <- <-. split; [exact I|discriminate].
  Qed.

  (* results of handlers *)
  Definition hP (r : res (gw * option msg)) : Prop :=
    match r with Ok (g', _) => PInv g' | Raise _ => True end.

  Lemma hP_bind {A} (r : res A) (k : A -> res (gw * option msg)) :
    (forall a, r = Ok a -> hP (k a)) -> hP (bind r k).
  Proof. destruct r; simpl; intro H; [apply H; reflexivity|exact Logic.I]. Qed.

  Lemma safe_version_ok p : vok (safe_version orc p) = true \/ safe_version orc p = s2p "1.4".
  Proof. unfold safe_version, vok. destruct (orc_version orc p) eqn:E; [left; exact E|right; reflexivity]. Qed.

  Lemma P_handle_presentation g m :
    0 <= m_node m <= 255 -> 0 <= m_child m <= 255 -> PInv g -> hP (handle_presentation orc g m).
  Proof.
    intros RN RC I. unfold handle_presentation. destruct (m_child m =? system_child_id).
    - pose proof (P_add_sensor g (m_node m) RN I) as I1.
      destruct (get_node (add_sensor g (m_node m)) (m_node m)) as [nd|] eqn:G; [|exact Logic.I].
      simpl. apply P_alert. pose proof (get_node_P _ _ _ I1 G) as (E & R & N & F & B & _).
      simpl in E, R, N, F, B.
      apply (P_put _ (m_node m) nd _ I1 G); [exact E|].
      apply node_okP_intro; simpl; try assumption. apply safe_version_ok.
    - apply hP_bind. intros [g1 known] E. destruct (is_sensor_P g _ _ _ _ I E) as [I1 K].
      destruct known; cbn [negb]; [|exact I1].
      destruct (K eq_refl) as [-> [nd [G _]]]. rewrite G.
      destruct (zhas (m_child m) (n_children nd)) eqn:Z; [exact I|]. simpl. apply P_alert.
      pose proof (get_node_P _ _ _ I G) as (E1 & R & N & F & B & V).
      simpl in E1, R, N, F, B, V.
      apply (P_put g (m_node m) nd _ I G); [exact E1|].
      apply node_okP_intro; simpl; try assumption.
      + rewrite map_app. simpl. apply NoDup_snoc; [exact N|]. apply zassoc_none_notin. apply zhas_false. exact Z.
      + apply Forall_app. split; [exact F|]. constructor; [|constructor].
        apply child_okP_intro; simpl; try lia; constructor.
  Qed.

  Lemma update_child_value_P k nd c vt v : 0 <= vt -> node_okP (k, nd) -> node_okP (k, update_child_value nd c vt v).
  Proof.
    intros RV (E & R & N & F & B & V). simpl in *. unfold update_child_value.
    destruct (zassoc c (n_children nd)) as [ch|] eqn:C; [|unfold node_okP; simpl; tauto].
    assert (O : node_okP (k, with_children nd (zset c (mkChild (c_id ch) (c_type ch) (c_desc ch) (zset vt (PS v) (c_values ch)))
                                                 (n_children nd)))).
    { apply node_okP_intro; simpl; try assumption.
      - apply NoDup_zset. exact N.
      - apply Forall_zset; [exact F|].
        pose proof (zassoc_Forall _ _ _ _ F C) as (E1 & R1 & N1 & F1). simpl in E1, R1, N1, F1.
        apply child_okP_intro; simpl; try assumption.
        + apply NoDup_zset. exact N1.
        + apply Forall_zset; [exact F1|]. simpl. split; [exact RV|]. exists v. reflexivity. }
    destruct (zassoc c (n_new nd)); [|exact O].
    revert O. apply node_okP_same; reflexivity.
  Qed.

  Lemma P_handle_set g m : 0 <= m_sub m -> PInv g -> hP (handle_set g m).
  Proof.
    intros RS I. unfold handle_set. apply hP_bind. intros [g1 known] E.
    destruct (is_sensor_P g _ _ _ _ I E) as [I1 K]. destruct known; cbn [negb]; [|exact I1].
    destruct (K eq_refl) as [-> [nd [G _]]]. rewrite G.
    set (nd' := update_child_value nd (m_child m) (m_sub m) (m_payload m)).
    assert (I2 : PInv (alert (put_node g nd') m)).
    { apply P_alert. pose proof (get_node_P _ _ _ I G) as O.
      pose proof (update_child_value_P _ nd (m_child m) (m_sub m) (m_payload m) RS O) as O'. fold nd' in O'.
      apply (P_put g (m_node m) nd nd' I G); [|exact O']. destruct O' as [X _]. exact X. }
    destruct (n_reboot nd'); [|exact I2].
    apply hP_bind. intros ireb _. apply hP_bind. intros r _. exact I2.
  Qed.

  Lemma P_handle_req g m : PInv g -> hP (handle_req g m).
  Proof.
    intros I. unfold handle_req. apply hP_bind. intros [g1 known] E.
    destruct (is_sensor_P g _ _ _ _ I E) as [I1 K]. destruct known; cbn [negb]; [|exact I1].
    destruct (K eq_refl) as [-> [nd [G _]]]. rewrite G.
    destruct (get_desired_value nd (m_child m) (m_sub m)); [|exact I].
    apply hP_bind. intros r _. exact I.
  Qed.

  Lemma fold_max_ge l a : a <= fold_left Z.max l a /\ Forall (fun x => x <= fold_left Z.max l a) l.
  Proof.
    revert a. induction l as [|x l IH]; intro a; simpl; [split; [lia|constructor]|].
    destruct (IH (Z.max a x)) as [A B]. split; [lia|]. constructor; [lia|exact B].
  Qed.

  Lemma next_id_range g nid : PInv g -> vt_max_node (tab g) <= 255 -> next_id g = Some nid -> 0 <= nid <= 255.
  Proof.
    intros [_ F] M. unfold next_id.
    set (n := match g_sensors g with [] => 1 | _ => _ end).
    destruct (Z.leb_spec n (vt_max_node (tab g))) as [LE|LE]; [|discriminate]. intro X. injection X as <-.
    split; [|lia]. subst n. clear LE. destruct (g_sensors g) as [|[k nd] s] eqn:S; [lia|].
    pose proof (fold_max_ge (map fst ((k, nd) :: s)) (fst (hd (0, new_node 0) ((k, nd) :: s)))) as [A _].
    apply Forall_inv in F. destruct F as (_ & R & _). simpl in R, A. simpl. lia.
  Qed.

  Lemma P_handle_id_request g m : vt_max_node (tab g) <= 255 -> PInv g -> hP (handle_id_request g m).
  Proof.
    intros M I. unfold handle_id_request. destruct (next_id g) as [nid|] eqn:E; [|exact I].
    pose proof (P_add_sensor g nid (next_id_range g nid I M E) I) as I1.
    destruct (negb (zhas nid (g_sensors (add_sensor g nid)))); [exact I1|].
    apply hP_bind. intros x _. apply hP_bind. intros r _. apply P_alert. exact I1.
  Qed.

  Lemma battery_of_range p : 0 <= battery_of p <= 100.
  Proof.
    unfold battery_of. destruct (parse p) as [z|]; [|lia].
    destruct (Z.leb_spec 0 z); destruct (Z.leb_spec z 100); simpl; lia.
  Qed.

  Lemma P_node_attr f g m :
    (forall k nd p, node_okP (k, nd) -> node_okP (k, f nd p) /\ n_id (f nd p) = n_id nd) ->
    PInv g -> hP (node_attr_handler f g m).
  Proof.
    intros Hf I. unfold node_attr_handler. apply hP_bind. intros [g1 known] E.
    destruct (is_sensor_P g _ _ _ _ I E) as [I1 K]. destruct known; cbn [negb]; [|exact I1].
    destruct (K eq_refl) as [-> [nd [G _]]]. rewrite G. simpl. apply P_alert.
    pose proof (get_node_P _ _ _ I G) as O. destruct (Hf _ _ (m_payload m) O) as [O' E'].
    apply (P_put g (m_node m) nd _ I G); [|exact O']. rewrite E'. destruct O as [X _]. exact X.
  Qed.

  Lemma set_batt_P k nd p : node_okP (k, nd) -> node_okP (k, set_batt nd p) /\ n_id (set_batt nd p) = n_id nd.
  Proof.
    intros (E & R & N & F & B & V). split; [|reflexivity]. simpl in *.
    apply node_okP_intro; simpl; try assumption. apply battery_of_range.
  Qed.
  Lemma set_skname_P k nd p : node_okP (k, nd) -> node_okP (k, set_skname nd p) /\ n_id (set_skname nd p) = n_id nd.
  Proof. intro O. split; [|reflexivity]. revert O. apply node_okP_same; reflexivity. Qed.
  Lemma set_skver_P k nd p : node_okP (k, nd) -> node_okP (k, set_skver nd p) /\ n_id (set_skver nd p) = n_id nd.
  Proof. intro O. split; [|reflexivity]. revert O. apply node_okP_same; reflexivity. Qed.
  Lemma set_hb_P k nd p : node_okP (k, nd) -> node_okP (k, set_hb nd p) /\ n_id (set_hb nd p) = n_id nd.
  Proof. intro O. split; [|reflexivity]. revert O. apply node_okP_same; reflexivity. Qed.

  Lemma P_handle_smartsleep g k nd g' : PInv g -> get_node g k = Some nd ->
    handle_smartsleep orc g nd = Ok g' -> PInv g' /\ exists nd', get_node g' k = Some nd'.
  Proof.
    intros I G. unfold handle_smartsleep.
    set (nd2 := with_queue (init_smart_sleep nd) []).
    set (g1 := put_node g nd2).
    assert (I1 : PInv g1) by (apply (P_put_same g k nd nd2 I G); reflexivity).
    set (g2 := fold_left add_job_send (n_queue (init_smart_sleep nd)) g1).
    assert (I2 : PInv g2) by (apply P_fold_add_job; exact I1).
    destruct (flush_children_pre orc g2 nd2 (n_children nd2)) as [sets e].
    destruct e; [discriminate|]. intro H. inversion H; subst g'. split; [apply P_fold_add_job; exact I2|].
    assert (S : g_sensors (fold_left add_job_send sets g2) = g_sensors g1).
    { destruct (fold_add_job_send_frame sets g2) as (A & _). rewrite A. unfold g2.
      destruct (fold_add_job_send_frame (n_queue (init_smart_sleep nd)) g1) as (B & _). exact B. }
    unfold get_node. rewrite S. unfold g1, put_node. simpl.
    pose proof (get_node_P _ _ _ I G) as [E _]. simpl in E. rewrite E.
    rewrite zassoc_zset_same. eexists. reflexivity.
  Qed.

  Lemma P_handle_heartbeat g m : PInv g -> hP (handle_heartbeat_response orc g m).
  Proof.
    intros I. unfold handle_heartbeat_response. apply hP_bind. intros [g1 known] E.
    destruct (is_sensor_P g _ _ _ _ I E) as [I1 K]. destruct known; cbn [negb]; [|exact I1].
    destruct (K eq_refl) as [-> [nd [G _]]]. rewrite G. apply hP_bind. intros g2 E2.
    destruct (P_handle_smartsleep g (m_node m) nd g2 I G E2) as [I2 [nd2 G2]]. rewrite G2. simpl.
    apply P_alert. pose proof (get_node_P _ _ _ I2 G2) as O. destruct (set_hb_P _ _ (m_payload m) O) as [O' E'].
    apply (P_put g2 (m_node m) nd2 _ I2 G2); [|exact O']. rewrite E'. destruct O as [X _]. exact X.
  Qed.

  Lemma P_handle_pre_sleep g m : PInv g -> hP (handle_pre_sleep orc g m).
  Proof.
    intros I. unfold handle_pre_sleep. apply hP_bind. intros [g1 known] E.
    destruct (is_sensor_P g _ _ _ _ I E) as [I1 K]. destruct known; cbn [negb]; [|exact I1].
    destruct (K eq_refl) as [-> [nd [G _]]]. rewrite G. apply hP_bind. intros g2 E2.
    destruct (P_handle_smartsleep g (m_node m) nd g2 I G E2) as [I2 _]. exact I2.
  Qed.

  Lemma P_handle_discover g m : PInv g -> hP (handle_discover_response g m).
  Proof.
    intros I. unfold handle_discover_response. apply hP_bind. intros [g1 known] E.
    destruct (is_sensor_P g _ _ _ _ I E) as [I1 _]. exact I1.
  Qed.

  Lemma P_set_ota g o : PInv g -> PInv (set_ota g o).
  Proof. apply PInv_ext. reflexivity. Qed.

  Lemma P_respond_fw_config g m : PInv g -> hP (respond_fw_config g m).
  Proof.
    intros I. unfold respond_fw_config. destruct (fw_hex_to_int (m_payload m) 5); [|exact I].
    destruct (ota_get_fw (g_ota g) (m_node m) true None) as [o' r].
    destruct r as [[[t v] f]|]; [|apply P_set_ota; exact I].
    apply hP_bind. intros sub _. apply hP_bind. intros m' _. apply hP_bind. intros p _. apply P_set_ota. exact I.
  Qed.

  Lemma P_respond_fw g m : PInv g -> hP (respond_fw g m).
  Proof.
    intros I. unfold respond_fw. destruct (fw_hex_to_int (m_payload m) 3) as [ws|]; [|exact I].
    destruct ws as [|rt [|rv [|rb [|x ws]]]]; try exact I.
    destruct (ota_get_fw (g_ota g) (m_node m) false (Some (rt, rv))) as [o' r].
    destruct r as [[[t v] f]|]; [|apply P_set_ota; exact I].
    apply hP_bind. intros sub _. apply hP_bind. intros m' _. apply hP_bind. intros p _. apply P_set_ota. exact I.
  Qed.

  Lemma P_run_leaf h g m : vt_max_node (tab g) <= 255 -> PInv g -> hP (run_leaf orc clock h g m).
  Proof.
    intros M I. destruct h; unfold run_leaf; try exact Logic.I.
    - apply P_respond_fw_config; exact I.
    - apply P_respond_fw; exact I.
    - apply P_handle_id_request; assumption.
    - unfold handle_config. apply hP_bind. intros r _. exact I.
    - unfold handle_time. apply hP_bind. intros r _. exact I.
    - apply P_node_attr; [apply set_batt_P|exact I].
    - apply P_node_attr; [apply set_skname_P|exact I].
    - apply P_node_attr; [apply set_skver_P|exact I].
    - exact I.
    - unfold handle_gateway_ready. simpl. apply P_alert. exact I.
    - unfold handle_gateway_ready_20. apply hP_bind. intros x _. apply hP_bind. intros r _. apply P_alert. exact I.
    - apply P_handle_heartbeat; exact I.
    - apply P_handle_discover; exact I.
    - apply P_node_attr; [apply set_hb_P|exact I].
    - apply P_handle_pre_sleep; exact I.
  Qed.

  Lemma P_handle_internal g m : vt_max_node (tab g) <= 255 -> PInv g -> hP (handle_internal orc clock g m).
  Proof.
    intros M I. unfold handle_internal. destruct (sub_handler (tab g) (m_type m) (m_sub m)); [|exact I].
    apply P_run_leaf; assumption.
  Qed.

  Lemma tab_is_sensor g sid cid g1 b : is_sensor g sid cid = Ok (g1, b) -> tab g1 = tab g.
  Proof.
    unfold is_sensor. destruct (negb _ && node_id_ok sid && cf_ge20 (g_cf g)); [|intro H; inversion H; reflexivity].
    destruct (sassoc _ _) as [ip|]; [|discriminate].
    destruct (route g _) as [g1' r] eqn:RT. intro H. inversion H; subst.
    assert (C : g_cf g1' = g_cf g).
    { revert RT. unfold route. destruct (m_type _ =? _); [intro X; inversion X; reflexivity|].
      destruct (get_node g _) as [nd|]; [|intro X; inversion X; reflexivity].
      destruct (_ || _); intro X; inversion X; reflexivity. }
    destruct r; unfold tab; [rewrite cf_add_job|]; rewrite C; reflexivity.
  Qed.

  Lemma P_handle_stream g m : vt_max_node (tab g) <= 255 -> PInv g -> hP (handle_stream orc clock g m).
  Proof.
    intros M I. unfold handle_stream. apply hP_bind. intros [g1 known] E.
    destruct (is_sensor_P g _ _ _ _ I E) as [I1 K]. destruct known; cbn [negb]; [|exact I1].
    destruct (sub_handler (tab g) (m_type m) (m_sub m)); [|exact I1].
    apply hP_bind. intros [g2 resp] E2.
    assert (M1 : vt_max_node (tab g1) <= 255) by (rewrite (tab_is_sensor _ _ _ _ _ E); exact M).
    pose proof (P_run_leaf h g1 m M1 I1) as H. rewrite E2 in H. simpl in H. simpl. apply P_alert. exact H.
  Qed.

  (* ---- the dispatcher ---- *)
  Lemma max_node_cfg g : cfg_ok (g_cf g) -> vt_max_node (tab g) <= 255.
  Proof. intros [v [T _]]. unfold tab. rewrite T. destruct v; vm_compute; discriminate. Qed.

  Lemma validated_ranges g m : cfg_ok (g_cf g) -> gvalidate orc g m = true ->
    0 <= m_node m <= 255 /\ 0 <= m_sub m /\ (m_type m = 0 -> 0 <= m_child m <= 255).
  Proof.
    intros [v [T _]] V. unfold gvalidate, tab in V. rewrite T in V.
    rewrite validate_conforms in V. unfold spec_accepts in V.
    repeat match type of V with _ && _ = true => apply andb_true_iff in V as [V ?] end.
    unfold between in *.
    repeat match goal with X : _ && _ = true |- _ => apply andb_true_iff in X as [? ?] end.
    split; [lia|]. split; [lia|]. intro T0.
    match goal with X : spec_child_ok _ _ _ = true |- _ => rename X into SC end.
    unfold spec_child_ok in SC. rewrite T0 in SC. cbn in SC. unfold between in SC. lia.
  Qed.

  Theorem P_logic g l g' r : cfg_ok (g_cf g) -> Inv orc g -> PInv g ->
    logic orc clock g l = Ok (g', r) -> PInv g'.
  Proof.
    intros C I0 I. pose proof (facts_of_cfg g C) as F. unfold logic.
    destruct (decode l) as [m|] eqn:D; [|intro H; inversion H; subst; exact I].
    destruct (gvalidate orc g m) eqn:V; cbn [negb]; [|intro H; inversion H; subst; exact I].
    pose proof (validated_type_range orc g m C V) as B.
    destruct (validated_ranges g m C V) as (RN & RS & RC).
    pose proof (max_node_cfg g C) as M.
    assert (H : exists h, type_handler (tab g) (m_type m) = Some h /\ hP (run_handler orc clock h g m)).
    { destruct (type_handler_cases g (m_type m) F B) as [[T0 E]|[[_ E]|[[_ E]|[[_ E]|[_ E]]]]];
        eexists; (split; [exact E|]); unfold run_handler.
      - apply P_handle_presentation; auto.
      - apply P_handle_set; assumption.
      - apply P_handle_req; assumption.
      - apply P_handle_internal; assumption.
      - apply P_handle_stream; assumption. }
    destruct H as (h & E & HP). rewrite E.
    destruct (run_handler orc clock h g m) as [[g1 reply]|e]; cbn [bind]; [|discriminate].
    simpl in HP. pose proof (P_route_opt g1 reply HP) as I2.
    destruct (route_opt g1 reply) as [g2 routed]. simpl in I2. intro X. inversion X; subst. exact I2.
  Qed.

  Lemma P_set_child_value g sid cid vt v mt a g' : PInv g ->
    set_child_value orc g sid cid vt v mt a = Ok g' -> PInv g'.
  Proof.
    intros I. unfold set_child_value.
    destruct (is_sensor g sid (Some cid)) as [[g1 known]|e] eqn:E; cbn [bind]; [|discriminate].
    destruct (is_sensor_P g _ _ _ _ I E) as [I1 K]. destruct known; cbn [negb]; [|intro H; inversion H; subst; exact I1].
    destruct (K eq_refl) as [-> [nd [G _]]]. rewrite G.
    destruct (sleeping nd).
    - destruct (create_set_message orc g (n_id nd) cid vt v None None); cbn [bind]; [|discriminate].
      destruct (zassoc cid (n_new nd)) as [dv|]; [|discriminate].
      destruct (validate_child_state orc nd cid vt v); cbn [bind]; [|discriminate].
      destruct (vt_int vt) as [vti|]; [|discriminate]. intro H. inversion H; subst.
      apply (P_put_same g sid nd); try assumption; reflexivity.
    - destruct (create_set_message orc g (n_id nd) cid vt v mt a); cbn [bind]; [|discriminate].
      intro H. inversion H; subst. apply P_add_job. exact I.
  Qed.

  Lemma P_update_fw g nids fwt fwv bin g' : PInv g -> update_fw g nids fwt fwv bin = Ok g' -> PInv g'.
  Proof.
    intros I. unfold update_fw.
    assert (Hfold : forall t v nids g0, PInv g0 ->
              PInv (fold_left (fun g nid =>
                                 match get_node g nid with
                                 | None => g
                                 | Some nd =>
                                     let o := g_ota g in
                                     put_node (set_ota g (mkOta (o_fw o) (zset nid (t, v) (o_requested o))
                                                                (zdel nid (o_unstarted o)) (zdel nid (o_started o))))
                                              (with_reboot nd true)
                                 end) nids g0)).
    { intros t v ns. induction ns as [|nid ns IH]; intros g0 I0; simpl; [exact I0|]. apply IH.
      destruct (get_node g0 nid) as [nd|] eqn:G; [|exact I0].
      apply (P_put_same (set_ota g0 _) nid nd); try reflexivity; [apply P_set_ota; exact I0|exact G]. }
    assert (body : forall g'',
      match vt_int fwt, vt_int fwv with
      | Some t, Some v =>
          if negb ((0 <=? t) && (t <=? 65535)) || negb ((0 <=? v) && (v <=? 65535)) then Ok g
          else
            let fwl := match bin with
                       | Some b => fw_store t v (prepare_fw b) (o_fw (g_ota g))
                       | None => o_fw (g_ota g)
                       end in
            let o0 := g_ota g in
            let g0 := set_ota g (mkOta fwl (o_requested o0) (o_unstarted o0) (o_started o0)) in
            match fw_lookup t v fwl with
            | None => Ok g0
            | Some _ =>
                Ok (fold_left (fun g nid =>
                                 match get_node g nid with
                                 | None => g
                                 | Some nd =>
                                     let o := g_ota g in
                                     put_node (set_ota g (mkOta (o_fw o) (zset nid (t, v) (o_requested o))
                                                                (zdel nid (o_unstarted o)) (zdel nid (o_started o))))
                                              (with_reboot nd true)
                                 end) nids g0)
            end
      | _, _ => Ok g
      end = Ok g'' -> PInv g'').
    { intro g''. destruct (vt_int fwt) as [t|]; [|intro H; inversion H; subst; exact I].
      destruct (vt_int fwv) as [v|]; [|intro H; inversion H; subst; exact I].
      destruct (negb _ || negb _); [intro H; inversion H; subst; exact I|]. cbv zeta.
      destruct (fw_lookup t v _); intro H; inversion H; subst; [apply Hfold|]; apply P_set_ota; exact I. }
    destruct bin as [[|b bs]|]; [intro H; inversion H; subst; exact I|apply body|apply body].
  Qed.

  (* ---- steps and reachable states ---- *)
  Lemma P_recv g l : cfg_ok (g_cf g) -> Inv orc g -> PInv g -> PInv (recv orc clock g l).
  Proof.
    intros C I0 I. unfold recv. destruct (cf_async (g_cf g)); [|exact I].
    destruct (logic orc clock g l) as [[g1 r]|e] eqn:E; [|exact I].
    pose proof (P_logic g l g1 r C I0 I E) as I1. destruct r; [apply P_send|]; exact I1.
  Qed.

  Lemma P_pump g : cfg_ok (g_cf g) -> Inv orc g -> PInv g -> PInv (pump orc clock g).
  Proof.
    intros C I0 I. unfold pump. destruct (g_jobs g) as [|[l|l] r]; [exact I| |].
    - destruct (logic orc clock (set_jobs g r) l) as [[g1 rep]|e] eqn:E; [|exact I].
      assert (I1 : PInv g1).
      { apply (P_logic (set_jobs g r) l g1 rep); [exact C|apply Inv_set_jobs; exact I0|exact I|exact E]. }
      destruct rep; [apply P_send|]; exact I1.
    - apply P_send. exact I.
  Qed.

  Lemma P_step g o : cfg_ok (g_cf g) -> Inv orc g -> PInv g -> PInv (step orc clock g o).
  Proof.
    intros C I0 I. destruct o as [l| |s c vt v mt a|ns t v b|b]; simpl.
    - apply P_recv; assumption.
    - apply P_pump; assumption.
    - destruct (set_child_value orc g s c vt v mt a) as [g'|e] eqn:E; [|exact I].
      exact (P_set_child_value _ _ _ _ _ _ _ _ I E).
    - destruct (update_fw g ns t v b) as [g'|e] eqn:E; [|exact I]. exact (P_update_fw _ _ _ _ _ _ I E).
    - exact I.
  Qed.

  Theorem P_run ops g : cfg_ok (g_cf g) -> Inv orc g -> PInv g -> Forall (op_ok) ops -> PInv (run orc clock g ops).
  Proof.
    revert g. induction ops as [|o ops IH]; intros g C I0 I F; [exact I|].
    inversion F; subst. destruct (step_ok orc clock g o C I0) as [I1 C1]; [assumption|].
    unfold run. simpl. apply IH; try assumption; [rewrite C1; exact C|apply P_step; assumption].
  Qed.

  (* ---- from the invariant to wf_tree ---- *)
  Lemma keys_ok_of {A} (l : list (Z * A)) :
    NoDup (map fst l) -> Forall (fun ka => 0 <= fst ka) l -> keys_ok l.
  Proof. intros N F. split; [exact N|]. rewrite Forall_map. exact F. Qed.

  Lemma sens_ok_wf s : sens_ok s -> wf_tree vok (proj s).
  Proof.
    intros [N F]. unfold wf_tree, proj. split.
    - split; rewrite map_map; simpl; [exact N|]. rewrite <- (map_map fst (fun k => k)), map_id.
      rewrite Forall_map. revert F. apply Forall_impl. intros kn (_ & R & _). lia.
    - rewrite Forall_map. revert F. apply Forall_impl. intros [k n] (_ & _ & NC & FC & B & V). simpl in *.
      unfold wf_pnode, proj_node. simpl. repeat split; try assumption; try lia.
      + rewrite map_map. simpl. exact NC.
      + rewrite map_map. simpl. rewrite Forall_map. revert FC. apply Forall_impl. intros kc (_ & R & _). lia.
      + rewrite Forall_map. revert FC. apply Forall_impl. intros [c ch] (_ & _ & NV & FV). simpl in *.
        apply keys_ok_of; [exact NV|]. revert FV. apply Forall_impl. intros kv [R _]. exact R.
  Qed.

  Theorem reachable_sens_ok_thm cf ops : cfg_ok cf -> Forall op_ok ops ->
    sens_ok (g_sensors (run orc clock (gw_init cf) ops)).
  Proof.
    intros C F. apply (P_run ops (gw_init cf) C (Inv_init orc cf)); [|exact F]. split; constructor.
  Qed.

  Theorem reachable_wf_thm cf ops : cfg_ok cf -> Forall op_ok ops ->
    wf_tree vok (proj (g_sensors (run orc clock (gw_init cf) ops))).
  Proof. intros C F. apply sens_ok_wf. apply reachable_sens_ok_thm; assumption. Qed.

  Theorem reachable_roundtrip_thm cf ops : cfg_ok cf -> Forall op_ok ops ->
    let s := g_sensors (run orc clock (gw_init cf) ops) in
    json_restore vok (json_save s) = Ok (Some (load_tree (proj s))) /\
    pickle_restore vok (pickle_save s) = Ok (Some (load_tree (proj s))) /\
    Forall transient_empty (load_tree (proj s)).
  Proof. intros C F s. apply formats_agree_thm. apply reachable_wf_thm; assumption. Qed.
End PInv.
