(* Lemmas for C12 / C13.
   A. naturality: every operation of the model commutes with a renaming g : T -> St of the saved
      states (no operation looks inside a state), so a statement checked for symbolic states
      (type [tag]) holds for every type of states and every old / new / stale state;
   B. the number of writes w, out-of-range event positions and the number of lost directory
      operations reduce to finitely many cases (induction);
   C. the finite core, by verified enumeration (vm_compute), lifted to the full statements. *)
From Coq Require Import List Bool Arith NArith Lia String.
From PMS Require Import Base.PyStr Spec.AbstractFs Model.FsSave Model.FsCode Gen.SaveTrace Gen.DamageClasses.
Import ListNotations.
Local Open Scope nat_scope.

(* ------------------------------------------------------------------ A. naturality *)
Section Nat.
Context {T St : Type} (g : T -> St).

Definition hmap (h : handle T) : handle St := mkH (h_ino h) (cmap g (h_buf h)) (h_dirty h).
Definition msmap (st : mstate T) : mstate St :=
  mkM (fsmap g (m_fs st)) (option_map hmap (m_h st)) (m_need_save st) (m_exists st).
Definition rmap {A B} (f : A -> B) (r : lres A) : lres B :=
  match r with LOk a => LOk (f a) | LRaise e => LRaise e end.
Definition lsmap (st : lstate T) : lstate St :=
  mkLS (fsmap g (l_fs st)) (l_path st) (l_exists st) (map g (l_applied st)).

Lemma upd_nth_map : forall {A B} (F : A -> B) (f : A -> A) (f' : B -> B) l i,
  (forall x, f' (F x) = F (f x)) -> upd_nth (map F l) i f' = map F (upd_nth l i f).
Proof.
  intros A B F f f' l. induction l as [|x r IH]; intros i H; destruct i; simpl; auto.
  - now rewrite H.
  - now rewrite IH.
Qed.

Lemma fs_isfile_map : forall fs n, fs_isfile (fsmap g fs) n = fs_isfile fs n.
Proof. reflexivity. Qed.

Lemma fs_read_map : forall fs n, fs_read (fsmap g fs) n = option_map (cmap g) (fs_read fs n).
Proof.
  intros fs n. unfold fs_read. simpl. destruct (dget (dir fs) n); auto.
  rewrite nth_error_map. destruct (nth_error (inodes fs) n0); reflexivity.
Qed.

Lemma fs_file_map : forall fs n, fs_file (fsmap g fs) n = option_map (fmap g) (fs_file fs n).
Proof.
  intros fs n. unfold fs_file. simpl. destruct (dget (dir fs) n); auto. apply nth_error_map.
Qed.

Lemma fs_set_vol_map : forall fs i c, fs_set_vol (fsmap g fs) i (cmap g c) = fsmap g (fs_set_vol fs i c).
Proof.
  intros. unfold fs_set_vol, fs_upd_ino, fsmap. simpl. f_equal.
  apply upd_nth_map. reflexivity.
Qed.

Lemma fs_fsync_map : forall fs i, fs_fsync (fsmap g fs) i = fsmap g (fs_fsync fs i).
Proof.
  intros. unfold fs_fsync, fs_upd_ino, fsmap. simpl. f_equal. apply upd_nth_map. reflexivity.
Qed.

Lemma fs_open_trunc_map : forall fs n,
  fs_open_trunc (fsmap g fs) n = (fsmap g (fst (fs_open_trunc fs n)), snd (fs_open_trunc fs n)).
Proof.
  intros. unfold fs_open_trunc. simpl. destruct (dget (dir fs) n); simpl.
  - unfold fs_upd_ino, fsmap. simpl. f_equal. f_equal. apply upd_nth_map. reflexivity.
  - unfold fs_dirop, fsmap. simpl. rewrite map_length, map_app. reflexivity.
Qed.

Lemma fs_rename_map : forall fs a b, fs_rename (fsmap g fs) a b = option_map (fsmap g) (fs_rename fs a b).
Proof. intros. unfold fs_rename. simpl. destruct (dget (dir fs) a); reflexivity. Qed.

Lemma fs_remove_map : forall fs a, fs_remove (fsmap g fs) a = option_map (fsmap g) (fs_remove fs a).
Proof. intros. unfold fs_remove. simpl. destruct (dget (dir fs) a); reflexivity. Qed.

Lemma flush_h_map : forall st h, flush_h (msmap st) (hmap h) = msmap (flush_h st h).
Proof.
  intros. unfold flush_h. simpl. destruct (h_dirty h); auto.
  unfold msmap. simpl. rewrite fs_set_vol_map. reflexivity.
Qed.

Lemma do_act_map : forall new a st,
  do_act (g new) a (msmap st) = option_map msmap (do_act new a st).
Proof.
  intros new a st. destruct a; simpl; auto.
  - rewrite fs_open_trunc_map. destruct (fs_open_trunc (m_fs st) n). reflexivity.
  - destruct (m_h st) as [h|]; simpl; auto. unfold msmap. simpl.
    change (@CPartial St) with (cmap g (@CPartial T)). rewrite fs_set_vol_map.
    destruct last; reflexivity.
  - destruct (m_h st) as [h|]; simpl; auto. now rewrite flush_h_map.
  - destruct (m_h st) as [h|]; simpl; auto. unfold msmap. simpl. now rewrite fs_fsync_map.
  - destruct (m_h st) as [h|]; simpl; auto. rewrite flush_h_map. reflexivity.
  - rewrite fs_rename_map. destruct (fs_rename (m_fs st) a b); reflexivity.
  - rewrite fs_remove_map. destruct (fs_remove (m_fs st) a); reflexivity.
Qed.

Lemma fault_effect_map : forall a st, fault_effect a (msmap st) = msmap (fault_effect a st).
Proof. intros. destruct a; reflexivity. Qed.

Lemma run_acts_map : forall new evj acts j st,
  run_acts (g new) evj j acts (msmap st) =
  (msmap (fst (run_acts new evj j acts st)), snd (run_acts new evj j acts st)).
Proof.
  intros new evj acts. induction acts as [|a r IH]; intros j st; simpl; auto.
  destruct (match evj with Some (k, e) => if Nat.eqb e j then Some k else None | None => None end) as [[|]|].
  - reflexivity.
  - simpl. now rewrite fault_effect_map.
  - rewrite do_act_map. destruct (do_act new a st); simpl; auto.
Qed.

Lemma acts_of_map : forall w st i, acts_of w (msmap st) i = acts_of w st i.
Proof. intros. destruct i; reflexivity. Qed.

Lemma unwind_map : forall new i st, unwind (g new) i (msmap st) = msmap (unwind new i st).
Proof.
  intros. unfold unwind. destruct (i_with i).
  - rewrite do_act_map. destruct (do_act new AClose st); simpl; destruct (i_try i); reflexivity.
  - destruct (i_try i); reflexivity.
Qed.

Local Arguments run_acts : simpl never.
Local Arguments acts_of : simpl never.

Lemma exec_map : forall w new prog ev st,
  exec w (g new) ev prog (msmap st) =
  (msmap (fst (exec w new ev prog st)), snd (exec w new ev prog st)).
Proof.
  intros w new prog. induction prog as [|i rest IH]; intros ev st; simpl; auto.
  destruct (i_guard i && negb (m_exists st)); [apply IH|].
  destruct (i_op i) eqn:Eop;
    try (rewrite acts_of_map; rewrite run_acts_map;
         destruct (run_acts new (ev_here ev) 0 (acts_of w st _) st) as [st' [| |]]; simpl;
         [apply IH | now rewrite unwind_map | reflexivity]).
  - destruct (m_need_save st); [apply IH | reflexivity].
  - apply (IH (ev_next ev) (set_need_save st _)).
Qed.

Lemma half_map : forall c : content T, half (cmap g c) = cmap g (half c).
Proof. destruct c; reflexivity. Qed.

Lemma lose_map : forall l f, lose l (fmap g f) = fmap g (lose l f).
Proof.
  intros l f. unfold lose. simpl. destruct (f_dirty f); [destruct l|]; unfold synced, fmap; simpl;
    rewrite ?half_map; reflexivity.
Qed.

Lemma crash_fs_map : forall keep l fs, crash_fs keep l (fsmap g fs) = fsmap g (crash_fs keep l fs).
Proof.
  intros. unfold crash_fs, fsmap. simpl. f_equal. rewrite !map_map.
  apply map_ext. intro f. apply lose_map.
Qed.

Lemma crash_lost_map : forall n l fs, crash_lost n l (fsmap g fs) = fsmap g (crash_lost n l fs).
Proof. intros. unfold crash_lost. rewrite crash_fs_map. reflexivity. Qed.

Lemma decode_map : forall ep ee c, decode ep ee (cmap g c) = rmap g (decode ep ee c).
Proof. destruct c; reflexivity. Qed.

Lemma load_sensors_map : forall ep ee prog isbak st,
  load_sensors ep ee prog isbak (lsmap st) =
  (lsmap (fst (load_sensors ep ee prog isbak st)), snd (load_sensors ep ee prog isbak st)).
Proof.
  intros ep ee prog isbak. induction prog as [|i rest IH]; intro st; simpl; auto.
  destruct ((l_guard i && negb (l_exists st)) || (l_bak i && negb isbak)); [apply IH|].
  destruct (l_op i).
  - apply (IH (mkLS (l_fs st) (l_path st) (fs_isfile (l_fs st) (l_path st)) (l_applied st))).
  - rewrite fs_rename_map. destruct (fs_rename (l_fs st) (l_path st) Main) as [fs'|]; simpl; auto.
    apply (IH (mkLS fs' (l_path st) (l_exists st) (l_applied st))).
  - apply (IH (mkLS (l_fs st) Main (l_exists st) (l_applied st))).
  - rewrite fs_read_map. destruct (fs_read (l_fs st) (l_path st)) as [c|]; simpl; auto.
    rewrite decode_map. destruct (decode ep ee c) as [s|e]; simpl; auto.
    specialize (IH (mkLS (l_fs st) (l_path st) (l_exists st) (l_applied st ++ [s]))).
    unfold lsmap in IH at 1. simpl in IH. rewrite map_app in IH. apply IH.
  - reflexivity.
Qed.

Lemma run_prims_map : forall ps fs, run_prims ps (fsmap g fs) = option_map (fsmap g) (run_prims ps fs).
Proof.
  induction ps as [|p r IH]; intro fs; simpl; auto.
  destruct p; auto.
  - rewrite fs_rename_map. destruct (fs_rename fs a b); simpl; auto.
  - rewrite fs_remove_map. destruct (fs_remove fs a); simpl; auto.
Qed.

Lemma safe_load_map : forall tab ep ee lp sl fs,
  safe_load tab ep ee lp sl (fsmap g fs) =
  (fsmap g (fst (safe_load tab ep ee lp sl fs)), rmap (map g) (snd (safe_load tab ep ee lp sl fs))).
Proof.
  intros. unfold safe_load.
  change (mkLS (fsmap g fs) Main false []) with (lsmap (mkLS fs Main false [])).
  rewrite load_sensors_map.
  destruct (load_sensors ep ee lp (name_eqb Main Bak) (mkLS fs Main false [])) as [st1 r1]. simpl.
  assert (H2 : forall (st1 : lstate T),
    (let '(st2, r2) := load_sensors ep ee lp (name_eqb (sl_fallback sl) Bak)
                         (mkLS (fsmap g (l_fs st1)) (sl_fallback sl) false (map g (l_applied st1))) in
     match r2 with
     | LOk _ => (l_fs st2, LOk (l_applied st2))
     | LRaise e =>
         if catches tab (sl_h2 sl) e then
           match run_prims (sl_h2_body sl) (l_fs st2) with
           | Some fs' => (fs', LOk (l_applied st2))
           | None => (l_fs st2, LRaise cls_OSError)
           end
         else (l_fs st2, LRaise e)
     end) =
    (fsmap g (fst (let '(st2, r2) := load_sensors ep ee lp (name_eqb (sl_fallback sl) Bak)
                         (mkLS (l_fs st1) (sl_fallback sl) false (l_applied st1)) in
     match r2 with
     | LOk _ => (l_fs st2, LOk (l_applied st2))
     | LRaise e =>
         if catches tab (sl_h2 sl) e then
           match run_prims (sl_h2_body sl) (l_fs st2) with
           | Some fs' => (fs', LOk (l_applied st2))
           | None => (l_fs st2, LRaise cls_OSError)
           end
         else (l_fs st2, LRaise e)
     end)),
     rmap (map g) (snd (let '(st2, r2) := load_sensors ep ee lp (name_eqb (sl_fallback sl) Bak)
                         (mkLS (l_fs st1) (sl_fallback sl) false (l_applied st1)) in
     match r2 with
     | LOk _ => (l_fs st2, LOk (l_applied st2))
     | LRaise e =>
         if catches tab (sl_h2 sl) e then
           match run_prims (sl_h2_body sl) (l_fs st2) with
           | Some fs' => (fs', LOk (l_applied st2))
           | None => (l_fs st2, LRaise cls_OSError)
           end
         else (l_fs st2, LRaise e)
     end)))).
  { intro s1.
    change (mkLS (fsmap g (l_fs s1)) (sl_fallback sl) false (map g (l_applied s1)))
      with (lsmap (mkLS (l_fs s1) (sl_fallback sl) false (l_applied s1))).
    rewrite load_sensors_map.
    destruct (load_sensors ep ee lp (name_eqb (sl_fallback sl) Bak)
                (mkLS (l_fs s1) (sl_fallback sl) false (l_applied s1))) as [st2 r2]. simpl.
    destruct r2 as [b|e]; simpl; auto.
    destruct (catches tab (sl_h2 sl) e); simpl; auto.
    rewrite run_prims_map. destruct (run_prims (sl_h2_body sl) (l_fs st2)); reflexivity. }
  destruct r1 as [[|]|e]; simpl; auto.
  destruct (catches tab (sl_h1 sl) e); simpl; auto.
Qed.

End Nat.

(* ---- naturality of the scenarios ---- *)
Section NatScn.
Context {T St : Type} (g : T -> St).

Definition amap (a : again T) : again St :=
  mkAgain (a_status a) (a_need_save a) (rmap (map g) (a_loaded a)).
Definition comap (o : crash_obs T) : crash_obs St :=
  mkCO (rmap (map g) (co_loaded o)) (co_cfg o) (amap (co_again o)).
Definition fomap (o : fault_obs T) : fault_obs St :=
  mkFO (fo_status o) (fo_need_save o) (option_map (fmap g) (fo_main o))
       (rmap (map g) (fo_loaded o)) (amap (fo_again o)).

Lemma add_file_map : forall fs n c, add_file (fsmap g fs) n (cmap g c) = fsmap g (add_file fs n c).
Proof. intros. unfold add_file, fsmap. simpl. rewrite map_length, map_app. reflexivity. Qed.

Lemma add_opt_map : forall fs n c,
  add_opt (fsmap g fs) n (option_map (cmap g) c) = fsmap g (add_opt fs n c).
Proof. intros. destruct c; simpl; [apply add_file_map | reflexivity]. Qed.

Lemma mk_prior_map : forall c old sb stt,
  mk_prior c (g old) (g sb) (g stt) = fsmap g (mk_prior c old sb stt).
Proof.
  intros [m b t] old sb stt. destruct m, b as [[| |]|], t as [[| |]|]; reflexivity.
Qed.

Lemma class_content_map : forall f : fclass T,
  class_content (match f with FMissing => FMissing | FGood s => FGood (g s) | FBad e => FBad e end)
  = option_map (cmap g) (class_content f).
Proof. destruct f; reflexivity. Qed.

Definition clmap (f : fclass T) : fclass St :=
  match f with FMissing => FMissing | FGood s => FGood (g s) | FBad e => FBad e end.

Lemma mk_disk_map : forall m b t, mk_disk (clmap m) (clmap b) (clmap t) = fsmap g (mk_disk m b t).
Proof.
  intros m b t. destruct m, b, t; reflexivity.
Qed.

Lemma kind_of_map : forall c : content T, kind_of (cmap g c) = kind_of c.
Proof. destruct c; reflexivity. Qed.

Lemma cfg_of_map : forall fs, cfg_of (fsmap g fs) = cfg_of fs.
Proof.
  intros. unfold cfg_of. rewrite !fs_read_map.
  destruct (fs_read fs Main) as [[| | |]|], (fs_read fs Bak) as [cb|], (fs_read fs Tmp) as [ct|]; simpl;
    rewrite ?kind_of_map; reflexivity.
Qed.

Lemma loadf_map : forall P ep ee fs,
  loadf P ep ee (fsmap g fs) = (fsmap g (fst (loadf P ep ee fs)), rmap (map g) (snd (loadf P ep ee fs))).
Proof. intros. unfold loadf. apply safe_load_map. Qed.

Lemma save_again_map : forall P ep ee w2 next st,
  save_again P ep ee w2 (g next) (msmap g st) = amap (save_again P ep ee w2 next st).
Proof.
  intros. unfold save_again, save.
  change (set_need_save (msmap g st) true) with (msmap g (set_need_save st true)).
  rewrite exec_map. destruct (exec w2 next None (p_save P) (set_need_save st true)) as [st3 s3]. simpl.
  rewrite loadf_map. reflexivity.
Qed.

Lemma crash_scn_gen_map : forall P c old new next sb stt w ev (mk : forall X, fsys X -> fsys X) ep ee w2,
  (forall fs, mk St (fsmap g fs) = fsmap g (mk T fs)) ->
  crash_scn_gen P c (g old) (g new) (g next) (g sb) (g stt) w ev (mk St) ep ee w2
  = comap (crash_scn_gen P c old new next sb stt w ev (mk T) ep ee w2).
Proof.
  intros. unfold crash_scn_gen, save. rewrite mk_prior_map.
  change (fresh (fsmap g ?x)) with (msmap g (fresh x)).
  rewrite exec_map. simpl. rewrite H, loadf_map.
  destruct (loadf P ep ee (mk T (m_fs (fst (exec w new ev (p_save P) (fresh (mk_prior c old sb stt)))))))
    as [fs2 r]. simpl.
  rewrite cfg_of_map.
  change (fresh (fsmap g fs2)) with (msmap g (fresh fs2)). rewrite save_again_map. reflexivity.
Qed.

Lemma crash_scn_map : forall P c old new next sb stt w i j nlost l ep ee w2,
  crash_scn P c (g old) (g new) (g next) (g sb) (g stt) w i j nlost l ep ee w2
  = comap (crash_scn P c old new next sb stt w i j nlost l ep ee w2).
Proof.
  intros. unfold crash_scn.
  apply (crash_scn_gen_map P c old new next sb stt w _ (fun X => @crash_lost X nlost l)).
  intro fs. apply crash_lost_map.
Qed.

Lemma fault_scn_gen_map : forall P c old new next sb stt w ev ep ee w2,
  fault_scn_gen P c (g old) (g new) (g next) (g sb) (g stt) w ev ep ee w2
  = fomap (fault_scn_gen P c old new next sb stt w ev ep ee w2).
Proof.
  intros. unfold fault_scn_gen, save. rewrite mk_prior_map.
  change (fresh (fsmap g ?x)) with (msmap g (fresh x)).
  rewrite exec_map.
  destruct (exec w new ev (p_save P) (fresh (mk_prior c old sb stt))) as [st1 s1]. simpl.
  rewrite fs_file_map, loadf_map, save_again_map. reflexivity.
Qed.

End NatScn.

(* ------------------------------------------------------------------ B. reductions *)
Section Collapse.
Context {St : Type}.
Implicit Types (st : mstate St).

Lemma upd_nth_idem : forall {A} (f : A -> A) l i,
  (forall x, f (f x) = f x) -> upd_nth (upd_nth l i f) i f = upd_nth l i f.
Proof.
  intros A f l. induction l as [|x r IH]; intros i H; destruct i; simpl; auto.
  - now rewrite H.
  - now rewrite IH.
Qed.

Lemma set_vol_idem : forall (fs : fsys St) i c, fs_set_vol (fs_set_vol fs i c) i c = fs_set_vol fs i c.
Proof.
  intros. unfold fs_set_vol, fs_upd_ino. simpl. f_equal. apply upd_nth_idem. reflexivity.
Qed.

(* a chunk write after a chunk write changes nothing; the last write forgets earlier chunk writes *)
Lemma chunk_idem : forall new st st1,
  do_act new (AWrite false) st = Some st1 -> do_act new (AWrite false) st1 = Some st1.
Proof.
  intros new st st1 H. simpl in *. destruct (m_h st) as [h|]; [|discriminate].
  injection H as <-. simpl. rewrite set_vol_idem. reflexivity.
Qed.

Lemma chunk_last : forall new st st1,
  do_act new (AWrite false) st = Some st1 -> do_act new (AWrite true) st1 = do_act new (AWrite true) st.
Proof.
  intros new st st1 H. simpl in *. destruct (m_h st) as [h|]; [|discriminate].
  injection H as <-. simpl. rewrite set_vol_idem. reflexivity.
Qed.

Definition ev_result (k : evkind) st : mstate St * status :=
  match k with EvCrash => (st, Crashed) | EvFault => (st, Raised) end.

Definition fire (evj : option (evkind * nat)) (j len : nat) : option evkind :=
  match evj with
  | Some (k, e) => if (j <=? e) && (e <? j + len) then Some k else None
  | None => None
  end.

Definition last_write new st : mstate St * status :=
  match do_act new (AWrite true) st with Some s => (s, Done) | None => (st, Raised) end.

(* induction on the number of writes: once one chunk has been written, all intermediate states are equal *)
Lemma run_chunks : forall new evj n j st,
  do_act new (AWrite false) st = Some st ->
  run_acts new evj j (repeat (AWrite false) n ++ [AWrite true]) st =
  match fire evj j (S n) with Some k => ev_result k st | None => last_write new st end.
Proof.
  intros new evj n. induction n as [|n IH]; intros j st Hc.
  - simpl repeat. simpl app. unfold run_acts, fire, last_write.
    destruct evj as [[k e]|]; [|destruct (do_act new (AWrite true) st); reflexivity].
    destruct (Nat.eqb_spec e j) as [->|Hne].
    + replace ((j <=? j) && (j <? j + 1)) with true
        by (symmetry; apply andb_true_intro; split; [apply Nat.leb_le | apply Nat.ltb_lt]; lia).
      destruct k; reflexivity.
    + replace ((j <=? e) && (e <? j + 1)) with false.
      * destruct (do_act new (AWrite true) st); reflexivity.
      * symmetry. apply andb_false_iff.
        destruct (Nat.leb_spec j e); [right; apply Nat.ltb_ge; lia | left; reflexivity].
  - change (repeat (AWrite false) (S n) ++ [AWrite true])
      with (AWrite false :: (repeat (AWrite false) n ++ [AWrite true])).
    cbn [run_acts]. rewrite Hc.
    destruct evj as [[k e]|].
    + destruct (Nat.eqb_spec e j) as [->|Hne].
      * unfold fire.
        replace ((j <=? j) && (j <? j + S (S n))) with true
          by (symmetry; apply andb_true_intro; split; [apply Nat.leb_le | apply Nat.ltb_lt]; lia).
        destruct k; reflexivity.
      * rewrite (IH (S j) st Hc). unfold fire.
        replace ((S j <=? e) && (e <? S j + S n)) with ((j <=? e) && (e <? j + S (S n))); [reflexivity|].
        apply Bool.eq_iff_eq_true. rewrite !andb_true_iff, !Nat.leb_le, !Nat.ltb_lt. lia.
    + rewrite (IH (S j) st Hc). reflexivity.
Qed.

Definition clipj (w e : nat) : nat := if e =? 0 then 0 else if e <? w then 1 else 2.
Definition clipj_ev (w : nat) (evj : option (evkind * nat)) : option (evkind * nat) :=
  match evj with Some (k, e) => Some (k, clipj w e) | None => None end.

Local Arguments do_act : simpl never.

Lemma write_fail : forall new st b b',
  do_act new (AWrite b) st = None -> do_act new (AWrite b') st = None.
Proof. intros new st b b'. unfold do_act. destruct (m_h st); [discriminate | reflexivity]. Qed.

Lemma dump_collapse : forall w new evj st, 1 <= w ->
  run_acts new evj 0 (dump_acts w) st = run_acts new (clipj_ev w evj) 0 (dump_acts 2) st.
Proof.
  intros w new evj st Hw. unfold dump_acts.
  change (repeat (AWrite false) (pred 2) ++ [AWrite true]) with ([AWrite false; AWrite true]).
  destruct w as [|[|n]]; [lia| |].
  - (* one write *)
    change (repeat (AWrite false) (pred 1) ++ [AWrite true]) with ([AWrite true]).
    destruct evj as [[k e]|]; cbn [clipj_ev].
    + unfold clipj. destruct (Nat.eqb_spec e 0) as [->|Hne].
      * cbn [run_acts Nat.eqb]. destruct k; reflexivity.
      * destruct (Nat.ltb_spec e 1) as [Hlt|_]; [lia|].
        cbn [run_acts]. rewrite (proj2 (Nat.eqb_neq e 0) Hne). cbn [Nat.eqb].
        destruct (do_act new (AWrite false) st) as [st1|] eqn:Hc.
        -- rewrite (chunk_last new st st1 Hc). destruct (do_act new (AWrite true) st) eqn:Ht;
           [reflexivity | rewrite (write_fail new st true false Ht) in Hc; discriminate].
        -- rewrite (write_fail new st false true Hc). reflexivity.
    + cbn [run_acts].
      destruct (do_act new (AWrite false) st) as [st1|] eqn:Hc.
      * rewrite (chunk_last new st st1 Hc). destruct (do_act new (AWrite true) st) eqn:Ht;
           [reflexivity | rewrite (write_fail new st true false Ht) in Hc; discriminate].
      * rewrite (write_fail new st false true Hc). reflexivity.
  - (* at least two writes *)
    change (repeat (AWrite false) (pred (S (S n))) ++ [AWrite true])
      with (AWrite false :: (repeat (AWrite false) n ++ [AWrite true])).
    destruct evj as [[k e]|]; cbn [clipj_ev].
    + unfold clipj. destruct (Nat.eqb_spec e 0) as [->|Hne].
      * cbn [run_acts Nat.eqb]. destruct k; reflexivity.
      * cbn [run_acts]. rewrite (proj2 (Nat.eqb_neq e 0) Hne).
        destruct (do_act new (AWrite false) st) as [st1|] eqn:Hc.
        -- pose proof (chunk_idem new st st1 Hc) as Hi.
           rewrite (run_chunks new (Some (k, e)) n 1 st1 Hi). unfold fire.
           replace (1 <=? e) with true by (symmetry; apply Nat.leb_le; lia).
           change (1 + S n) with (S (S n)). cbn [andb].
           destruct (Nat.ltb_spec e (S (S n))).
           ++ cbn [Nat.eqb]. destruct k; reflexivity.
           ++ cbn [Nat.eqb]. unfold last_write. destruct (do_act new (AWrite true) st1); reflexivity.
        -- destruct (e <? S (S n)); reflexivity.
    + cbn [run_acts].
      destruct (do_act new (AWrite false) st) as [st1|] eqn:Hc; [|reflexivity].
      pose proof (chunk_idem new st st1 Hc) as Hi.
      rewrite (run_chunks new None n 1 st1 Hi). unfold fire, last_write.
      destruct (do_act new (AWrite true) st1); reflexivity.
Qed.

Definition clip (w : nat) (prog : list sinstr) (ev : option event) : option event :=
  match ev with
  | Some (mkEv k i j) =>
      match nth_error prog i with
      | Some ins => match i_op ins with IDump => Some (mkEv k i (clipj w j)) | _ => ev end
      | None => ev
      end
  | None => None
  end.

Lemma clip_next : forall w ins rest ev, ev_next (clip w (ins :: rest) ev) = clip w rest (ev_next ev).
Proof.
  intros w ins rest [[k [|i] j]|]; simpl; auto.
  - destruct (i_op ins); reflexivity.
  - destruct (nth_error rest i) as [J|]; [destruct (i_op J)|]; reflexivity.
Qed.

Lemma clip_here : forall w ins rest ev,
  ev_here (clip w (ins :: rest) ev) =
  match i_op ins with IDump => clipj_ev w (ev_here ev) | _ => ev_here ev end.
Proof.
  intros w ins rest [[k [|i] j]|]; simpl.
  - destruct (i_op ins); reflexivity.
  - destruct (nth_error rest i) as [J|]; [destruct (i_op J)|]; destruct (i_op ins); reflexivity.
  - destruct (i_op ins); reflexivity.
Qed.

(* events that cannot fire *)
Lemma run_acts_nofire : forall new k e acts j st,
  j + List.length acts <= e -> run_acts new (Some (k, e)) j acts st = run_acts new None j acts st.
Proof.
  intros new k e acts. induction acts as [|a r IH]; intros j st H; [reflexivity|].
  cbn [run_acts]. simpl List.length in H.
  replace (e =? j) with false by (symmetry; apply Nat.eqb_neq; lia).
  destruct (do_act new a st); [apply IH; lia | reflexivity].
Qed.

Lemma acts_len2 : forall st op, List.length (acts_of 2 st op) <= 2.
Proof. intros st op. destruct op; unfold acts_of; try destruct (m_exists st); simpl; lia. Qed.

Local Arguments run_acts : simpl never.
Local Arguments acts_of : simpl never.

Lemma exec_collapse : forall w new prog ev st, 1 <= w ->
  exec w new ev prog st = exec 2 new (clip w prog ev) prog st.
Proof.
  intros w new prog. induction prog as [|ins rest IH]; intros ev st Hw; [reflexivity|].
  cbn [exec]. rewrite clip_next, clip_here.
  destruct (i_guard ins && negb (m_exists st)); [now apply IH|].
  destruct (i_op ins) eqn:Eop;
    try (match goal with |- context [acts_of w st ?op] => change (acts_of w st op) with (acts_of 2 st op) end;
         match goal with |- context [run_acts ?a ?b ?c ?d ?e] =>
           destruct (run_acts a b c d e) as [st' [| |]] end; [now apply IH | reflexivity | reflexivity]).
  - destruct (m_need_save st); [now apply IH | reflexivity].
  - now apply IH.
  - change (acts_of w st IDump) with (dump_acts w). change (acts_of 2 st IDump) with (dump_acts 2).
    rewrite (dump_collapse w new (ev_here ev) st Hw).
    destruct (run_acts new (clipj_ev w (ev_here ev)) 0 (dump_acts 2) st) as [st' [| |]];
      [now apply IH | reflexivity | reflexivity].
Qed.

Lemma exec_nofire_j : forall new k j prog i st, 2 <= j ->
  exec 2 new (Some (mkEv k i j)) prog st = exec 2 new None prog st.
Proof.
  intros new k j prog. induction prog as [|ins rest IH]; intros i st Hj; [reflexivity|].
  cbn [exec]. destruct i as [|i].
  - cbn [ev_here ev_next].
    destruct (i_guard ins && negb (m_exists st)); [reflexivity|].
    destruct (i_op ins) eqn:Eop; try reflexivity;
      rewrite run_acts_nofire by (pose proof (acts_len2 st (i_op ins)) as Hl; rewrite Eop in Hl; lia);
      reflexivity.
  - cbn [ev_here ev_next].
    destruct (i_guard ins && negb (m_exists st)); [now apply IH|].
    destruct (i_op ins) eqn:Eop;
      try (match goal with |- context [run_acts ?a ?b ?c ?d ?e] =>
             destruct (run_acts a b c d e) as [st' [| |]] end; [now apply IH | reflexivity | reflexivity]).
    + destruct (m_need_save st); [now apply IH | reflexivity].
    + now apply IH.
Qed.

Lemma exec_nofire_i : forall w new k j prog i st, List.length prog <= i ->
  exec w new (Some (mkEv k i j)) prog st = exec w new None prog st.
Proof.
  intros w new k j prog. induction prog as [|ins rest IH]; intros i st Hi; [reflexivity|].
  simpl List.length in Hi. destruct i as [|i]; [lia|].
  cbn [exec ev_here ev_next].
  destruct (i_guard ins && negb (m_exists st)); [apply IH; lia|].
  destruct (i_op ins) eqn:Eop;
    try (match goal with |- context [run_acts ?a ?b ?c ?d ?e] =>
           destruct (run_acts a b c d e) as [st' [| |]] end; [apply IH; lia | reflexivity | reflexivity]).
  - destruct (m_need_save st); [apply IH; lia | reflexivity].
  - apply IH; lia.
Qed.

Definition all_events (k : evkind) (n : nat) : list (option event) :=
  None :: flat_map (fun i => [Some (mkEv k i 0); Some (mkEv k i 1)]) (seq 0 n).

(* every number of writes and every event position behaves like one of finitely many events at w = 2 *)
Lemma event_reduce : forall w k i j prog, 1 <= w ->
  exists ev', In ev' (all_events k (List.length prog)) /\
    forall new st, exec w new (Some (mkEv k i j)) prog st = exec 2 new ev' prog st.
Proof.
  intros w k i j prog Hw.
  assert (Hc : exists j', clip w prog (Some (mkEv k i j)) = Some (mkEv k i j')).
  { simpl. destruct (nth_error prog i) as [ins|]; [destruct (i_op ins)|]; eauto. }
  destruct Hc as [j' Hc].
  destruct (Nat.ltb_spec i (List.length prog)) as [Hi|Hi];
    [destruct (Nat.ltb_spec j' 2) as [Hj|Hj]|].
  - exists (Some (mkEv k i j')). split.
    + right. apply in_flat_map. exists i. split; [apply in_seq; lia|].
      destruct j' as [|[|]]; simpl; auto; lia.
    + intros. rewrite (exec_collapse w new prog _ st Hw), Hc. reflexivity.
  - exists None. split; [left; reflexivity|].
    intros. rewrite (exec_collapse w new prog _ st Hw), Hc. now apply exec_nofire_j.
  - exists None. split; [left; reflexivity|].
    intros. rewrite (exec_collapse w new prog _ st Hw), Hc. now apply exec_nofire_i.
Qed.

Lemma exec_none_collapse : forall w new prog st, 1 <= w ->
  exec w new None prog st = exec 2 new None prog st.
Proof. intros. now rewrite (exec_collapse w new prog None st). Qed.

(* losing more directory operations than were issued = losing all of them *)
Lemma crash_lost_min : forall nlost l (fs : fsys St),
  crash_lost nlost l fs = crash_lost (Nat.min nlost (List.length (dlog fs))) l fs.
Proof.
  intros. unfold crash_lost. f_equal. f_equal. lia.
Qed.

End Collapse.

(* ------------------------------------------------------------------ C. the finite core *)
Inductive tag := TOld | TNew | TNext | TSb | TSt.

Definition tag_eqb (a b : tag) : bool :=
  match a, b with
  | TOld, TOld | TNew, TNew | TNext, TNext | TSb, TSb | TSt, TSt => true
  | _, _ => false
  end.
Lemma tag_eqb_eq : forall a b, tag_eqb a b = true -> a = b.
Proof. destruct a, b; simpl; congruence. Qed.

Fixpoint tags_eqb (a b : list tag) : bool :=
  match a, b with
  | [], [] => true
  | x :: r, y :: s => tag_eqb x y && tags_eqb r s
  | _, _ => false
  end.
Lemma tags_eqb_eq : forall a b, tags_eqb a b = true -> a = b.
Proof.
  induction a as [|x r IH]; destruct b as [|y s]; simpl; try congruence.
  intro H. apply andb_true_iff in H as [H1 H2]. f_equal; [now apply tag_eqb_eq | now apply IH].
Qed.

Definition loaded_is (r : lres (list tag)) (l : list tag) : bool :=
  match r with LOk x => tags_eqb x l | LRaise _ => false end.
Lemma loaded_is_eq : forall r l, loaded_is r l = true -> r = LOk l.
Proof. destruct r; simpl; [intros l H; f_equal; now apply tags_eqb_eq | discriminate]. Qed.

Definition again_ok (a : again tag) : bool :=
  match a_status a with Done => true | _ => false end && negb (a_need_save a) && loaded_is (a_loaded a) [TNext].

Lemma again_ok_spec : forall a, again_ok a = true -> again_spec TNext a.
Proof.
  intros a H. unfold again_ok in H. apply andb_true_iff in H as [H H3]. apply andb_true_iff in H as [H1 H2].
  repeat split.
  - destruct (a_status a); congruence.
  - now destruct (a_need_save a).
  - now apply loaded_is_eq.
Qed.

Definition old_or_nothing (c : cfg) : list tag := if c_main c then [TOld] else [].

Definition crash_ok (c : cfg) (o : crash_obs tag) : bool :=
  (loaded_is (co_loaded o) [TNew] || loaded_is (co_loaded o) (old_or_nothing c))
  && match co_cfg o with Some c' => cfg_valid c' | None => false end
  && again_ok (co_again o).

Lemma crash_ok_spec : forall c o, crash_ok c o = true -> crash_spec c TOld TNew TNext o.
Proof.
  intros c o H. unfold crash_ok in H. apply andb_true_iff in H as [H H3]. apply andb_true_iff in H as [H1 H2].
  split; [|split].
  - apply orb_true_iff in H1 as [H1|H1]; [left | right]; apply loaded_is_eq in H1; rewrite H1; auto; unfold old_or_nothing; destruct (c_main c); reflexivity.
  - destruct (co_cfg o) as [c'|]; [eauto | discriminate].
  - now apply again_ok_spec.
Qed.

Definition file_is_new (f : option (file tag)) : bool :=
  match f with Some (mkFile (CGood TNew) (CGood TNew) false) => true | _ => false end.
Lemma file_is_new_eq : forall f, file_is_new f = true -> f = Some (synced (CGood TNew)).
Proof.
  intros [[[[| | | |]| | |] [[| | | |]| | |] [|]]|]; simpl; try discriminate. reflexivity.
Qed.

Definition fault_ok (c : cfg) (o : fault_obs tag) : bool :=
  match fo_status o with Crashed => false | Raised => fo_need_save o | Done => true end
  && (fo_need_save o || file_is_new (fo_main o))
  && (loaded_is (fo_loaded o) [TNew] || loaded_is (fo_loaded o) (old_or_nothing c))
  && again_ok (fo_again o).

Lemma fault_ok_spec : forall c o, fault_ok c o = true -> fault_spec c TOld TNew TNext o.
Proof.
  intros c o H. unfold fault_ok in H.
  apply andb_true_iff in H as [H H4]. apply andb_true_iff in H as [H H3]. apply andb_true_iff in H as [H1 H2].
  split; [|split; [|split; [|split]]].
  - destruct (fo_status o); congruence.
  - intro E. now rewrite E in H1.
  - intro E. rewrite E in H2. simpl in H2. now apply file_is_new_eq.
  - apply orb_true_iff in H3 as [H3|H3]; [left | right]; apply loaded_is_eq in H3; rewrite H3; auto; unfold old_or_nothing; destruct (c_main c); reflexivity.
  - now apply again_ok_spec.
Qed.

(* transport of the specifications along a renaming of states *)
Section Transport.
Context {St : Type} (g : tag -> St).

Lemma again_spec_map : forall a, again_spec TNext a -> again_spec (g TNext) (amap g a).
Proof. intros a (H1 & H2 & H3). repeat split; simpl; auto. now rewrite H3. Qed.

Lemma crash_spec_map : forall c o,
  crash_spec c TOld TNew TNext o -> crash_spec c (g TOld) (g TNew) (g TNext) (comap g o).
Proof.
  intros c o (H1 & H2 & H3). split; [|split]; simpl; auto.
  - destruct H1 as [H1|H1]; rewrite H1; simpl; auto; right; destruct (c_main c); reflexivity.
  - now apply again_spec_map.
Qed.

Lemma fault_spec_map : forall c o,
  fault_spec c TOld TNew TNext o -> fault_spec c (g TOld) (g TNew) (g TNext) (fomap g o).
Proof.
  intros c o (H1 & H2 & H3 & H4 & H5). split; [|split; [|split; [|split]]]; simpl; auto.
  - intro E. rewrite (H3 E). reflexivity.
  - destruct H4 as [H4|H4]; rewrite H4; simpl; auto; right; destruct (c_main c); reflexivity.
  - now apply again_spec_map.
Qed.
End Transport.

Lemma all_cfgs_complete : forall c, cfg_valid c = true -> In c all_cfgs.
Proof.
  intros [m b t] H. destruct m, b as [[| |]|], t as [[| |]|]; try discriminate H;
    cbv [all_cfgs all_kinds map flat_map app]; simpl; repeat first [left; reflexivity | right].
Qed.

Definition all_loss : list loss := [LoseAll; LoseHalf; LoseNone].
Lemma all_loss_complete : forall l, In l all_loss.
Proof. destruct l; simpl; auto. Qed.

(* ---- crash ---- *)
Definition crash_check (P : progs) (dmg : list cls) : bool :=
  forallb (fun c => forallb (fun ev =>
    let st1 := fst (save 2 TNew ev (p_save P) (fresh (mk_prior c TOld TSb TSt))) in
    forallb (fun nl => forallb (fun l => forallb (fun ep => forallb (fun ee =>
      crash_ok c (crash_scn_gen P c TOld TNew TNext TSb TSt 2 ev (crash_lost nl l) ep ee 2))
      dmg) dmg) all_loss) (seq 0 (S (List.length (dlog (m_fs st1))))))
    (all_events EvCrash (List.length (p_save P)))) all_cfgs.

Definition gtag {St} (old new next sb stt : St) (t : tag) : St :=
  match t with TOld => old | TNew => new | TNext => next | TSb => sb | TSt => stt end.

Lemma save_again_w : forall {St} P ep ee w2 (next : St) st, 1 <= w2 ->
  save_again P ep ee w2 next st = save_again P ep ee 2 next st.
Proof. intros. unfold save_again, save. now rewrite exec_none_collapse. Qed.

Lemma crash_atomic_gen : forall P dmg, crash_check P dmg = true ->
  forall (St : Type) (old new next sb stt : St) c w i j nlost l ep ee w2,
    cfg_valid c = true -> 1 <= w -> 1 <= w2 -> In ep dmg -> In ee dmg ->
    crash_spec c old new next (crash_scn P c old new next sb stt w i j nlost l ep ee w2).
Proof.
  intros P dmg Hchk St old new next sb stt c w i j nlost l ep ee w2 Hc Hw Hw2 Hep Hee.
  set (g := gtag old new next sb stt).
  change old with (g TOld). change new with (g TNew). change next with (g TNext).
  change sb with (g TSb). change stt with (g TSt).
  rewrite crash_scn_map. apply crash_spec_map.
  destruct (@event_reduce tag w EvCrash i j (p_save P) Hw) as (ev' & Hin & Hev).
  unfold crash_scn, crash_scn_gen, save. rewrite Hev.
  set (st1 := fst (exec 2 TNew ev' (p_save P) (fresh (mk_prior c TOld TSb TSt)))).
  rewrite crash_lost_min.
  set (nl := Nat.min nlost (List.length (dlog (m_fs st1)))).
  unfold crash_check in Hchk.
  rewrite forallb_forall in Hchk. specialize (Hchk c (all_cfgs_complete c Hc)).
  rewrite forallb_forall in Hchk. specialize (Hchk ev' Hin). cbv zeta in Hchk.
  rewrite forallb_forall in Hchk.
  assert (Hnl : In nl (seq 0 (S (List.length (dlog (m_fs st1)))))) by (apply in_seq; unfold nl; lia).
  specialize (Hchk nl Hnl).
  rewrite forallb_forall in Hchk. specialize (Hchk l (all_loss_complete l)).
  rewrite forallb_forall in Hchk. specialize (Hchk ep Hep).
  rewrite forallb_forall in Hchk. specialize (Hchk ee Hee).
  apply crash_ok_spec in Hchk. unfold crash_scn_gen, save in Hchk. fold st1 in Hchk.
  destruct (loadf P ep ee (crash_lost nl l (m_fs st1))) as [fs2 r].
  rewrite (save_again_w P ep ee w2 TNext (fresh fs2) Hw2). exact Hchk.
Qed.

(* ---- fault ---- *)
Definition fault_check (P : progs) (dmg : list cls) : bool :=
  forallb (fun c => forallb (fun ev => forallb (fun ep => forallb (fun ee =>
      fault_ok c (fault_scn_gen P c TOld TNew TNext TSb TSt 2 ev ep ee 2))
      dmg) dmg)
    (all_events EvFault (List.length (p_save P)))) all_cfgs.

Lemma fault_atomic_gen : forall P dmg, fault_check P dmg = true ->
  forall (St : Type) (old new next sb stt : St) c w i j ep ee w2,
    cfg_valid c = true -> 1 <= w -> 1 <= w2 -> In ep dmg -> In ee dmg ->
    fault_spec c old new next (fault_scn P c old new next sb stt w i j ep ee w2).
Proof.
  intros P dmg Hchk St old new next sb stt c w i j ep ee w2 Hc Hw Hw2 Hep Hee.
  set (g := gtag old new next sb stt).
  change old with (g TOld). change new with (g TNew). change next with (g TNext).
  change sb with (g TSb). change stt with (g TSt).
  unfold fault_scn. rewrite fault_scn_gen_map. apply fault_spec_map.
  destruct (@event_reduce tag w EvFault i j (p_save P) Hw) as (ev' & Hin & Hev).
  unfold fault_check in Hchk.
  rewrite forallb_forall in Hchk. specialize (Hchk c (all_cfgs_complete c Hc)).
  rewrite forallb_forall in Hchk. specialize (Hchk ev' Hin).
  rewrite forallb_forall in Hchk. specialize (Hchk ep Hep).
  rewrite forallb_forall in Hchk. specialize (Hchk ee Hee).
  apply fault_ok_spec in Hchk.
  unfold fault_scn_gen, save in *. rewrite Hev.
  destruct (exec 2 TNew ev' (p_save P) (fresh (mk_prior c TOld TSb TSt))) as [st1 s1].
  rewrite (save_again_w P ep ee w2 TNext st1 Hw2). exact Hchk.
Qed.

(* the five configurations named by the property are among the valid ones *)
Lemma five_cfgs_valid : forall c, In c five_cfgs -> cfg_valid c = true.
Proof. intros c H. simpl in H. repeat destruct H as [<-|H]; try reflexivity. contradiction. Qed.

(* ---- the finite checks for the code as it is now (re-run whenever Gen/*.v changes) ---- *)
Lemma crash_check_json : crash_check (code Json) (damage_of Json) = true.
Proof. vm_compute. reflexivity. Qed.
Lemma crash_check_pickle : crash_check (code Pickle) (damage_of Pickle) = true.
Proof. vm_compute. reflexivity. Qed.
Lemma fault_check_json : fault_check (code Json) (damage_of Json) = true.
Proof. vm_compute. reflexivity. Qed.
Lemma fault_check_pickle : fault_check (code Pickle) (damage_of Pickle) = true.
Proof. vm_compute. reflexivity. Qed.

Lemma crash_atomic : forall (f : fmt) (St : Type) (old new next sb stt : St) c w i j nlost l ep ee w2,
  cfg_valid c = true -> 1 <= w -> 1 <= w2 -> In ep (damage_of f) -> In ee (damage_of f) ->
  crash_spec c old new next (crash_scn (code f) c old new next sb stt w i j nlost l ep ee w2).
Proof.
  intros [|]; [apply (crash_atomic_gen _ _ crash_check_json) | apply (crash_atomic_gen _ _ crash_check_pickle)].
Qed.

Lemma fault_atomic : forall (f : fmt) (St : Type) (old new next sb stt : St) c w i j ep ee w2,
  cfg_valid c = true -> 1 <= w -> 1 <= w2 -> In ep (damage_of f) -> In ee (damage_of f) ->
  fault_spec c old new next (fault_scn (code f) c old new next sb stt w i j ep ee w2).
Proof.
  intros [|]; [apply (fault_atomic_gen _ _ fault_check_json) | apply (fault_atomic_gen _ _ fault_check_pickle)].
Qed.

(* ---- sensitivity: the theorem depends on exactly the mechanism the property names ---- *)
Definition c_main_only : cfg := mkCfg true None None.
Definition e_json : cls := hd [] (damage_of Json).

(* without os.fsync: the save returns, the machine dies before the data reached the disk *)
Lemma fsync_needed :
  ~ crash_spec c_main_only TOld TNew TNext
      (crash_scn (with_save (code Json) (drop_fsync (save_prog_of Json)))
                 c_main_only TOld TNew TNext TSb TSt 1 99 0 0 LoseAll e_json e_json 1).
Proof. intros [H _]. vm_compute in H. destruct H as [H|H]; discriminate H. Qed.

Lemma fsync_needed_loads_nothing :
  co_loaded (crash_scn (with_save (code Json) (drop_fsync (save_prog_of Json)))
                       c_main_only TOld TNew TNext TSb TSt 1 99 0 0 LoseAll e_json e_json 1) = LOk [].
Proof. vm_compute. reflexivity. Qed.

(* renames swapped: `rename Tmp Main` destroys the old file, `rename Main Bak` then moves the NEW
   file aside and `remove Bak` deletes it: once the save has run, nothing is left to load *)
Lemma order_needed :
  exists i j nlost l,
  ~ crash_spec c_main_only TOld TNew TNext
      (crash_scn (with_save (code Json) (swap_renames (save_prog_of Json)))
                 c_main_only TOld TNew TNext TSb TSt 1 i j nlost l e_json e_json 1).
Proof.
  exists 99, 0, 0, LoseAll. intros [H _]. vm_compute in H. destruct H as [H|H]; discriminate H.
Qed.

(* metadata not ordered: the complete save, then a crash that loses ONLY the second rename *)
Lemma unordered_metadata_refuted :
  exists (keep : nat -> bool) (l : loss),
  ~ crash_spec c_main_only TOld TNew TNext
      (crash_scn_gen (code Json) c_main_only TOld TNew TNext TSb TSt 1 None
                     (crash_fs keep l) e_json e_json 1).
Proof.
  exists (fun i => negb (Nat.eqb i 2)), LoseAll. intros [H _]. vm_compute in H.
  destruct H as [H|H]; discriminate H.
Qed.

(* non-vacuity (statement positions are searched, not hard-coded: a harmless rewrite of save_sensors
   moves them): some crash leaves old with the complete new temp file beside it; some crash leaves new
   with the old state still in the backup; for some crash point the loss of the last directory
   operation turns new into old *)
Ltac find_pos n fuel :=
  match fuel with
  | O => fail
  | S ?f => first [ exists n; vm_compute; repeat split; reflexivity | find_pos (S n) f ]
  end.

Lemma crash_example_old : exists i,
  let o := crash_scn (code Json) c_main_only TOld TNew TNext TSb TSt 3 i 0 0 LoseAll e_json e_json 1 in
  co_loaded o = LOk [TOld] /\ co_cfg o = Some (mkCfg true None (Some KGood)).
Proof. find_pos 0 40. Qed.
Lemma crash_example_new : exists i,
  let o := crash_scn (code Json) c_main_only TOld TNew TNext TSb TSt 3 i 0 0 LoseAll e_json e_json 1 in
  co_loaded o = LOk [TNew] /\ co_cfg o = Some (mkCfg true (Some KGood) None).
Proof. find_pos 0 40. Qed.
Lemma crash_example_lost_rename : exists i,
  co_loaded (crash_scn (code Json) c_main_only TOld TNew TNext TSb TSt 3 i 0 0 LoseAll e_json e_json 1) = LOk [TNew] /\
  co_loaded (crash_scn (code Json) c_main_only TOld TNew TNext TSb TSt 3 i 0 1 LoseAll e_json e_json 1) = LOk [TOld].
Proof. find_pos 0 40. Qed.

(* ------------------------------------------------------------------ C13 *)
Definition tag_classes (dmg : list cls) (s : tag) : list (fclass tag) := FMissing :: FGood s :: map FBad dmg.

Definition load_ok (P : progs) (ep ee : cls) (m b t : fclass tag) : bool :=
  let '(fs2, r) := loadf P ep ee (mk_disk m b t) in
  loaded_is r (expected_load m b) && again_ok (save_again P ep ee 2 TNext (fresh fs2)).

Definition load_check (P : progs) (dmg : list cls) : bool :=
  forallb (fun m => forallb (fun b => forallb (fun t => forallb (fun ep => forallb (fun ee =>
    load_ok P ep ee m b t) dmg) dmg) (tag_classes dmg TSt)) (tag_classes dmg TSb)) (tag_classes dmg TOld).

Definition tagc {St} (s : tag) (f : fclass St) : fclass tag :=
  match f with FMissing => FMissing | FGood _ => FGood s | FBad e => FBad e end.
Definition state_or {St} (d : St) (f : fclass St) : St := match f with FGood s => s | _ => d end.

Lemma tagc_in : forall {St} dmg s (f : fclass St), class_ok dmg f -> In (tagc s f) (tag_classes dmg s).
Proof.
  intros St dmg s [|x|e] H; simpl; auto. right. right. now apply in_map.
Qed.

Lemma load_total_gen : forall P dmg, load_check P dmg = true ->
  forall (St : Type) (next : St) (m b t : fclass St) ep ee w,
    class_ok dmg m -> class_ok dmg b -> class_ok dmg t -> In ep dmg -> In ee dmg -> 1 <= w ->
    snd (loadf P ep ee (mk_disk m b t)) = LOk (expected_load m b) /\
    again_spec next (save_again P ep ee w next (fresh (fst (loadf P ep ee (mk_disk m b t))))).
Proof.
  intros P dmg Hchk St next m b t ep ee w Hm Hb Ht Hep Hee Hw.
  set (g := gtag (state_or next m) next next (state_or next b) (state_or next t)).
  set (m' := tagc TOld m). set (b' := tagc TSb b). set (t' := tagc TSt t).
  assert (Ed : mk_disk m b t = fsmap g (mk_disk m' b' t')).
  { rewrite <- mk_disk_map. f_equal; [destruct m | destruct b | destruct t]; reflexivity. }
  assert (Ex : expected_load m b = map g (expected_load m' b')) by (destruct m, b; reflexivity).
  rewrite Ed, Ex, loadf_map. simpl fst. simpl snd.
  unfold load_check in Hchk.
  rewrite forallb_forall in Hchk. specialize (Hchk _ (tagc_in dmg TOld m Hm)).
  rewrite forallb_forall in Hchk. specialize (Hchk _ (tagc_in dmg TSb b Hb)).
  rewrite forallb_forall in Hchk. specialize (Hchk _ (tagc_in dmg TSt t Ht)).
  rewrite forallb_forall in Hchk. specialize (Hchk ep Hep).
  rewrite forallb_forall in Hchk. specialize (Hchk ee Hee).
  unfold load_ok in Hchk.
  fold m' b' t' in Hchk.
  destruct (loadf P ep ee (mk_disk m' b' t')) as [fs2 r]. simpl.
  apply andb_true_iff in Hchk as [H1 H2]. split.
  - apply loaded_is_eq in H1. rewrite H1. reflexivity.
  - change (fresh (fsmap g fs2)) with (msmap g (fresh fs2)).
    change next with (g TNext). rewrite save_again_map. apply again_spec_map.
    rewrite save_again_w by exact Hw. now apply again_ok_spec.
Qed.

Lemma load_check_json : load_check (code Json) (damage_of Json) = true.
Proof. vm_compute. reflexivity. Qed.
Lemma load_check_pickle : load_check (code Pickle) (damage_of Pickle) = true.
Proof. vm_compute. reflexivity. Qed.

Lemma load_total : forall (f : fmt) (St : Type) (next : St) (m b t : fclass St) ep ee w,
  class_ok (damage_of f) m -> class_ok (damage_of f) b -> class_ok (damage_of f) t ->
  In ep (damage_of f) -> In ee (damage_of f) -> 1 <= w ->
  snd (loadf (code f) ep ee (mk_disk m b t)) = LOk (expected_load m b) /\
  again_spec next (save_again (code f) ep ee w next (fresh (fst (loadf (code f) ep ee (mk_disk m b t))))).
Proof.
  intros [|]; [apply (load_total_gen _ _ load_check_json) | apply (load_total_gen _ _ load_check_pickle)].
Qed.

(* the measured decoder failure classes are caught by both handlers of safe_load_sensors *)
Definition damage_caught_check (f : fmt) : bool :=
  forallb (fun e => catches mro_tab (sl_h1 safe_load_prog) e && catches mro_tab (sl_h2 safe_load_prog) e)
          (damage_of f).

Lemma damage_caught : forall f e, In e (damage_of f) ->
  catches mro_tab (sl_h1 safe_load_prog) e = true /\ catches mro_tab (sl_h2 safe_load_prog) e = true.
Proof.
  intros f e H.
  assert (Hc : damage_caught_check f = true) by (destruct f; vm_compute; reflexivity).
  unfold damage_caught_check in Hc. rewrite forallb_forall in Hc. specialize (Hc e H).
  now apply andb_true_iff in Hc.
Qed.

Lemma damage_detected : damage_undetected_json = 0%N /\ damage_undetected_pickle = 0%N.
Proof. split; vm_compute; reflexivity. Qed.

(* a class the handlers do NOT catch escapes start-up (shows the premise of load_total is needed) *)
Lemma uncaught_class_escapes :
  snd (loadf (code Pickle) e_json e_json (mk_disk (FBad (s2p "KeyError")) (FGood TSb) FMissing))
  = LRaise (s2p "KeyError").
Proof. vm_compute. reflexivity. Qed.

Lemma load_example_backup :
  snd (loadf (code Pickle) e_json e_json
         (mk_disk (FBad (s2p "_pickle.UnpicklingError")) (FGood TSb) FMissing)) = LOk [TSb].
Proof. vm_compute. reflexivity. Qed.

Lemma safe_load_total : forall (f : fmt) (St : Type) (next : St) (m b t : fclass St) (ep ee : cls),
  class_ok (damage_of f) m -> class_ok (damage_of f) b -> class_ok (damage_of f) t ->
  In ep (damage_of f) -> In ee (damage_of f) ->
  snd (loadf (code f) ep ee (mk_disk m b t)) = LOk (expected_load m b).
Proof. intros. now apply (load_total f St next m b t ep ee 1). Qed.

Lemma after_load_consistent : forall (f : fmt) (St : Type) (next : St) (m b t : fclass St) (ep ee : cls) (w : nat),
  class_ok (damage_of f) m -> class_ok (damage_of f) b -> class_ok (damage_of f) t ->
  In ep (damage_of f) -> In ee (damage_of f) -> 1 <= w ->
  again_spec next (save_again (code f) ep ee w next (fresh (fst (loadf (code f) ep ee (mk_disk m b t))))).
Proof. intros. now apply (load_total f St next m b t ep ee w). Qed.
