(* Lemmas for C09 about the request handlers of Model/OtaServe.v: requests
   never touch the firmware dict, answers are a function of the firmware dict
   and the request, scheduled nodes are answered. *)
From Coq Require Import List NArith ZArith Bool Lia ZifyBool.
From PMS Require Import Base.PyStr Base.PyInt Base.Exn Model.Hex Model.Ota Model.IntelHex Model.OtaServe
     Spec.OtaSpec Proofs.HexProofs Proofs.OtaProofs.
Import ListNotations.
Open Scope Z_scope.

(* ---------------------------------------------------------------- stores *)

Lemma ns_get_del_same : forall n s, ns_get n (ns_del n s) = None.
Proof.
  intros n s. induction s as [|[m k] r IH]; [reflexivity|].
  cbn [ns_del]. destruct (n =? m) eqn:E; [assumption|].
  cbn [ns_get]. rewrite E. assumption.
Qed.

Lemma ns_get_del_other : forall m n s, m <> n -> ns_get m (ns_del n s) = ns_get m s.
Proof.
  intros m n s H. induction s as [|[j k] r IH]; [reflexivity|].
  cbn [ns_del ns_get]. destruct (n =? j) eqn:E.
  - destruct (m =? j) eqn:F; [lia|assumption].
  - cbn [ns_get]. rewrite IH. reflexivity.
Qed.

Lemma ns_get_set_same : forall n k s, ns_get n (ns_set n k s) = Some k.
Proof. intros. unfold ns_set. cbn [ns_get]. rewrite Z.eqb_refl. reflexivity. Qed.

Lemma ns_get_set_other : forall m n k s, m <> n -> ns_get m (ns_set n k s) = ns_get m s.
Proof.
  intros m n k s H. unfold ns_set. cbn [ns_get].
  destruct (m =? n) eqn:E; [lia|]. apply ns_get_del_other. assumption.
Qed.

Lemma key_eqb_eq : forall a b, key_eqb a b = true <-> a = b.
Proof.
  intros [a1 a2] [b1 b2]. unfold key_eqb. cbn [fst snd]. split.
  - intros H. apply andb_true_iff in H. destruct H as [H1 H2].
    apply Z.eqb_eq in H1, H2. subst. reflexivity.
  - intros H. inversion H. subst. rewrite !Z.eqb_refl. reflexivity.
Qed.

Lemma fw_get_set_same : forall k f d, fw_get k (fw_set k f d) = Some f.
Proof.
  intros k f d. induction d as [|[k' f'] r IH].
  - cbn [fw_set fw_get]. rewrite (proj2 (key_eqb_eq k k) eq_refl). reflexivity.
  - cbn [fw_set]. destruct (key_eqb k k') eqn:E; cbn [fw_get]; rewrite E; [reflexivity|assumption].
Qed.

Lemma fw_get_set_other : forall k k' f d, k' <> k -> fw_get k' (fw_set k f d) = fw_get k' d.
Proof.
  intros k k' f d H. induction d as [|[j g] r IH].
  - cbn [fw_set fw_get]. destruct (key_eqb k' k) eqn:E; [apply key_eqb_eq in E; contradiction|reflexivity].
  - cbn [fw_set]. destruct (key_eqb k j) eqn:E; cbn [fw_get].
    + apply key_eqb_eq in E. subst j.
      destruct (key_eqb k' k) eqn:F; [apply key_eqb_eq in F; contradiction|reflexivity].
    + rewrite IH. reflexivity.
Qed.

(* _get_fw only moves the node between the two stores it is given *)
Lemma get_fw_stores_spec : forall n a b,
  let r := get_fw_stores n a b in
  (forall m, is_some (ns_get m (snd (fst r))) || is_some (ns_get m (snd r))
             = is_some (ns_get m a) || is_some (ns_get m b)) /\
  (fst (fst r) = None -> ns_get n a = None /\ ns_get n b = None) /\
  (forall k, fst (fst r) = Some k -> (ns_get n a = Some k \/ ns_get n b = Some k) /\ ns_get n (snd r) = Some k) /\
  (forall m, m <> n -> ns_get m (snd (fst r)) = ns_get m a /\ ns_get m (snd r) = ns_get m b).
Proof.
  intros n a b. unfold get_fw_stores.
  destruct (ns_get n a) as [k|] eqn:Ea; [|destruct (ns_get n b) as [k|] eqn:Eb]; cbn [fst snd].
  - split; [|split; [|split]].
    + intros m. destruct (Z.eq_dec m n) as [->|Hm].
      * rewrite ns_get_del_same, ns_get_set_same, Ea. reflexivity.
      * rewrite ns_get_del_other, ns_get_set_other by assumption. reflexivity.
    + discriminate.
    + intros k' H. assert (k' = k) by congruence. subst k'.
      split; [left; reflexivity|apply ns_get_set_same].
    + intros m Hm. split; [apply ns_get_del_other; assumption|apply ns_get_set_other; assumption].
  - split; [|split; [|split]].
    + intros m. destruct (Z.eq_dec m n) as [->|Hm].
      * rewrite ns_get_set_same, Ea, Eb. reflexivity.
      * rewrite ns_get_set_other by assumption. reflexivity.
    + discriminate.
    + intros k' H. assert (k' = k) by congruence. subst k'.
      split; [right; reflexivity|apply ns_get_set_same].
    + intros m Hm. split; [reflexivity|apply ns_get_set_other; assumption].
  - split; [|split; [|split]].
    + reflexivity.
    + auto.
    + discriminate.
    + auto.
Qed.

(* ---------------------------------------------------------------- request parsing *)

Lemma fw_hex_to_int_3 : forall p ws, fw_hex_to_int p 3 = Ok ws ->
  exists t v i, ws = [t; v; i] /\ word_ok t = true /\ word_ok v = true /\ word_ok i = true.
Proof.
  intros p ws H. destruct (fw_int_hex_roundtrip p 3 ws H) as (_ & L & W).
  destruct ws as [|t [|v [|i [|x r]]]]; cbn [List.length] in L; try lia.
  exists t, v, i. rewrite words_ok3 in W. split; [reflexivity|]. lia.
Qed.

Lemma fw_hex_to_int_5 : forall p ws, fw_hex_to_int p 5 = Ok ws ->
  exists a b c d e, ws = [a; b; c; d; e].
Proof.
  intros p ws H. destruct (fw_int_hex_roundtrip p 5 ws H) as (_ & L & _).
  destruct ws as [|a [|b [|c [|d [|e [|x r]]]]]]; cbn [List.length] in L; try lia.
  exists a, b, c, d, e. reflexivity.
Qed.

Lemma request_caught_all : forall p n e, fw_hex_to_int p n = Raise e -> request_caught e = true.
Proof.
  intros p n e H. destruct (fw_hex_to_int_errors p n e H) as [->|[->| ->]]; reflexivity.
Qed.

(* ---------------------------------------------------------------- respond_fw *)

Lemma respond_fw_unfold : forall st n p,
  (exists e, fw_hex_to_int p 3 = Raise e /\ respond_fw st n p = (st, Ok None)) \/
  (exists t v i, fw_hex_to_int p 3 = Ok [t; v; i] /\
     word_ok t = true /\ word_ok v = true /\ word_ok i = true /\
     respond_fw st n p =
       (mkOta (o_fw st) (o_req st)
              (snd (fst (get_fw_stores n (o_uns st) (o_sta st))))
              (snd (get_fw_stores n (o_uns st) (o_sta st))),
        match fst (fst (get_fw_stores n (o_uns st) (o_sta st))) with
        | None => Ok None
        | Some _ => match fw_get (t, v) (o_fw st) with
                    | None => Ok None
                    | Some fw => do r <- fw_response_payload t v i fw; Ok (Some r)
                    end
        end)).
Proof.
  intros st n p. unfold respond_fw.
  destruct (fw_hex_to_int p 3) as [ws|e] eqn:E.
  - right. destruct (fw_hex_to_int_3 p ws E) as (t & v & i & -> & Ht & Hv & Hi).
    exists t, v, i. split; [reflexivity|]. repeat (split; [assumption|]).
    destruct (get_fw_stores n (o_uns st) (o_sta st)) as [[k uns] sta]. cbn [fst snd].
    destruct k; [destruct (fw_get (t, v) (o_fw st))|]; reflexivity.
  - left. exists e. split; [reflexivity|]. rewrite (request_caught_all p 3 e E). reflexivity.
Qed.

Lemma respond_fw_keeps_fw : forall st n p, o_fw (fst (respond_fw st n p)) = o_fw st.
Proof.
  intros st n p. destruct (respond_fw_unfold st n p) as [(e & _ & ->)|(t & v & i & _ & _ & _ & _ & ->)]; reflexivity.
Qed.

Lemma block_answer_unfold : forall d p t v i, fw_hex_to_int p 3 = Ok [t; v; i] ->
  block_answer d p = match fw_get (t, v) d with
                     | Some fw => do r <- fw_response_payload t v i fw; Ok (Some r)
                     | None => Ok None
                     end.
Proof. intros d p t v i H. unfold block_answer. rewrite H. reflexivity. Qed.

(* an answer, when there is one, is block_answer: a function of the firmware
   dict and the request payload only *)
Lemma respond_fw_pure : forall st n p,
  snd (respond_fw st n p) = Ok None \/ snd (respond_fw st n p) = block_answer (o_fw st) p.
Proof.
  intros st n p. destruct (respond_fw_unfold st n p) as [(e & _ & ->)|(t & v & i & E & _ & _ & _ & ->)].
  - left. reflexivity.
  - cbn [snd]. rewrite (block_answer_unfold _ _ _ _ _ E).
    destruct (fst (fst (get_fw_stores n (o_uns st) (o_sta st)))); [right|left]; reflexivity.
Qed.

Lemma block_answer_no_raise : forall d p e, block_answer d p <> Raise e.
Proof.
  intros d p e. unfold block_answer.
  destruct (fw_hex_to_int p 3) as [ws|e'] eqn:E; [|discriminate].
  destruct (fw_hex_to_int_3 p ws E) as (t & v & i & -> & Ht & Hv & Hi).
  destruct (fw_get (t, v) d) as [fw|]; [|discriminate].
  rewrite (fw_response_payload_ok _ _ _ _ Ht Hv Hi). discriminate.
Qed.

Lemma respond_fw_no_raise : forall st n p e, snd (respond_fw st n p) <> Raise e.
Proof.
  intros st n p e. destruct (respond_fw_pure st n p) as [H|H]; rewrite H;
    [discriminate|apply block_answer_no_raise].
Qed.

Lemma respond_fw_active : forall st n p m, active (fst (respond_fw st n p)) m = active st m.
Proof.
  intros st n p m. destruct (respond_fw_unfold st n p) as [(e & _ & ->)|(t & v & i & _ & _ & _ & _ & ->)].
  - reflexivity.
  - unfold active. cbn [fst o_uns o_sta].
    apply (proj1 (get_fw_stores_spec n (o_uns st) (o_sta st))).
Qed.

(* a node that is past its config request gets block_answer, always *)
Lemma respond_fw_served : forall st n p, active st n = true ->
  snd (respond_fw st n p) = block_answer (o_fw st) p.
Proof.
  intros st n p A. destruct (respond_fw_unfold st n p) as [(e & E & ->)|(t & v & i & E & _ & _ & _ & ->)].
  - cbn [snd]. unfold block_answer. rewrite E. reflexivity.
  - cbn [snd]. rewrite (block_answer_unfold _ _ _ _ _ E).
    destruct (fst (fst (get_fw_stores n (o_uns st) (o_sta st)))) eqn:K; [reflexivity|].
    destruct (proj1 (proj2 (get_fw_stores_spec n (o_uns st) (o_sta st))) K) as [K1 K2].
    unfold active in A. rewrite K1, K2 in A. discriminate.
Qed.

(* the answer for a well-formed request of a firmware that is loaded *)
Lemma block_answer_loaded : forall d t v i fw p,
  fw_int_to_hex [t; v; i] = Ok p -> fw_get (t, v) d = Some fw ->
  block_answer d p =
    Ok (Some (hexlify (le16 t ++ le16 v ++ le16 i) ++ hexlify (fw_block (fw_data fw) i))).
Proof.
  intros d t v i fw p Hp Hg.
  pose proof (fw_hex_int_roundtrip [t; v; i] p Hp) as R. change (List.length [t; v; i]) with 3%nat in R.
  rewrite (block_answer_unfold _ _ _ _ _ R), Hg.
  destruct (fw_hex_to_int_3 p _ R) as (t' & v' & i' & Heq & Ht & Hv & Hi).
  inversion Heq; subst t' v' i'.
  rewrite (fw_response_payload_ok _ _ _ _ Ht Hv Hi). reflexivity.
Qed.

(* ---------------------------------------------------------------- respond_fw_config *)

Lemma respond_fw_config_unfold : forall st n p,
  (exists e, fw_hex_to_int p 5 = Raise e /\ respond_fw_config st n p = (st, Ok None)) \/
  ((exists ws, fw_hex_to_int p 5 = Ok ws) /\
     respond_fw_config st n p =
       (mkOta (o_fw st)
              (snd (fst (get_fw_stores n (o_req st) (o_uns st))))
              (snd (get_fw_stores n (o_req st) (o_uns st)))
              (o_sta st),
        match fst (fst (get_fw_stores n (o_req st) (o_uns st))) with
        | None => Ok None
        | Some (t, v) => match fw_get (t, v) (o_fw st) with
                         | None => Ok None
                         | Some fw => do r <- fw_config_payload t v fw; Ok (Some r)
                         end
        end)).
Proof.
  intros st n p. unfold respond_fw_config.
  destruct (fw_hex_to_int p 5) as [ws|e] eqn:E.
  - right. split; [exists ws; reflexivity|].
    destruct (fw_hex_to_int_5 p ws E) as (a & b & c & d & e & ->).
    destruct (get_fw_stores n (o_req st) (o_uns st)) as [[k req] uns]. cbn [fst snd].
    destruct k as [[t v]|]; [destruct (fw_get (t, v) (o_fw st))|]; reflexivity.
  - left. exists e. split; [reflexivity|]. rewrite (request_caught_all p 5 e E). reflexivity.
Qed.

Lemma respond_fw_config_keeps_fw : forall st n p, o_fw (fst (respond_fw_config st n p)) = o_fw st.
Proof.
  intros st n p. destruct (respond_fw_config_unfold st n p) as [(e & _ & ->)|(_ & ->)]; reflexivity.
Qed.

(* what a config response advertises: the firmware stored under the id the
   node was scheduled for *)
Lemma respond_fw_config_answer : forall st n p r,
  snd (respond_fw_config st n p) = Ok (Some r) ->
  exists t v fw,
    (ns_get n (o_req st) = Some (t, v) \/ ns_get n (o_uns st) = Some (t, v)) /\
    fw_get (t, v) (o_fw st) = Some fw /\ fw_config_payload t v fw = Ok r.
Proof.
  intros st n p r. destruct (respond_fw_config_unfold st n p) as [(e & _ & ->)|(_ & ->)]; [discriminate|].
  cbn [snd].
  destruct (fst (fst (get_fw_stores n (o_req st) (o_uns st)))) as [[t v]|] eqn:K; [|discriminate].
  destruct (fw_get (t, v) (o_fw st)) as [fw|] eqn:G; [|discriminate].
  destruct (fw_config_payload t v fw) as [r'|e] eqn:P; cbn [bind]; [|discriminate].
  intros H. assert (r' = r) by congruence. subst r'.
  exists t, v, fw. split; [|split; assumption].
  apply (proj1 (proj2 (proj2 (get_fw_stores_spec n (o_req st) (o_uns st)))) (t, v) K).
Qed.

Lemma respond_fw_config_no_raise : forall st n p e, ota_ok st -> snd (respond_fw_config st n p) <> Raise e.
Proof.
  intros st n p e (Hfw & Hreq & Huns & _).
  destruct (respond_fw_config_unfold st n p) as [(e' & _ & ->)|(_ & ->)]; [discriminate|].
  cbn [snd].
  destruct (fst (fst (get_fw_stores n (o_req st) (o_uns st)))) as [[t v]|] eqn:K; [|discriminate].
  destruct (fw_get (t, v) (o_fw st)) as [fw|] eqn:G; [|discriminate].
  destruct (proj1 (proj2 (proj2 (get_fw_stores_spec n (o_req st) (o_uns st)))) (t, v) K) as [[S|S] _].
  - destruct (Hreq n t v S) as [Ht Hv].
    rewrite (fw_config_payload_ok t v fw Ht Hv (Hfw _ _ G)). discriminate.
  - destruct (Huns n t v S) as [Ht Hv].
    rewrite (fw_config_payload_ok t v fw Ht Hv (Hfw _ _ G)). discriminate.
Qed.

(* a scheduled node sending a well-formed config request is answered with the
   advertised header and is active afterwards *)
Lemma respond_fw_config_scheduled : forall st n p t v fw ws,
  fw_hex_to_int p 5 = Ok ws ->
  ns_get n (o_req st) = Some (t, v) \/ (ns_get n (o_req st) = None /\ ns_get n (o_uns st) = Some (t, v)) ->
  fw_get (t, v) (o_fw st) = Some fw ->
  snd (respond_fw_config st n p) = (do r <- fw_config_payload t v fw; Ok (Some r)) /\
  active (fst (respond_fw_config st n p)) n = true.
Proof.
  intros st n p t v fw ws E S G.
  destruct (respond_fw_config_unfold st n p) as [(e & E' & _)|(_ & ->)]; [congruence|].
  cbn [fst snd]. unfold active. cbn [o_uns o_sta].
  unfold get_fw_stores.
  destruct S as [S|[S1 S2]].
  - rewrite S. cbn [fst snd]. rewrite G, ns_get_set_same. split; reflexivity.
  - rewrite S1, S2. cbn [fst snd]. rewrite G, ns_get_set_same. split; reflexivity.
Qed.

Lemma respond_fw_config_active : forall st n p m, active st m = true ->
  active (fst (respond_fw_config st n p)) m = true.
Proof.
  intros st n p m A. destruct (respond_fw_config_unfold st n p) as [(e & _ & ->)|(_ & ->)]; [assumption|].
  unfold active in *. cbn [fst o_uns o_sta].
  destruct (is_some (ns_get m (o_sta st))) eqn:S; [apply orb_true_r|].
  rewrite orb_false_r in A |- *.
  pose proof (get_fw_stores_spec n (o_req st) (o_uns st)) as (_ & _ & H3 & H4).
  destruct (Z.eq_dec m n) as [->|Hm].
  - unfold get_fw_stores.
    destruct (ns_get n (o_req st)) as [k|]; cbn [snd]; [rewrite ns_get_set_same; reflexivity|].
    destruct (ns_get n (o_uns st)) as [k|]; cbn [snd]; [rewrite ns_get_set_same; reflexivity|].
    discriminate.
  - rewrite (proj2 (H4 m Hm)). assumption.
Qed.

(* ---------------------------------------------------------------- histories *)

Lemma serve_keeps_fw : forall st r, o_fw (fst (serve st r)) = o_fw st.
Proof.
  intros st [n p|n p]; [apply respond_fw_config_keeps_fw|apply respond_fw_keeps_fw].
Qed.

Lemma serve_all_keeps_fw : forall rs st, o_fw (fst (serve_all st rs)) = o_fw st.
Proof.
  induction rs as [|r rs IH]; intros st; [reflexivity|].
  cbn [serve_all]. pose proof (serve_keeps_fw st r) as H1.
  destruct (serve st r) as [st1 a]. pose proof (IH st1) as H2.
  destruct (serve_all st1 rs) as [st2 l]. cbn [fst] in *. congruence.
Qed.

Lemma serve_keeps_active : forall st r m, active st m = true -> active (fst (serve st r)) m = true.
Proof.
  intros st [n p|n p] m A; cbn [serve].
  - apply respond_fw_config_active. assumption.
  - rewrite respond_fw_active. assumption.
Qed.

Lemma serve_all_keeps_active : forall rs st m, active st m = true -> active (fst (serve_all st rs)) m = true.
Proof.
  induction rs as [|r rs IH]; intros st m A; [assumption|].
  cbn [serve_all]. pose proof (serve_keeps_active st r m A) as H1.
  destruct (serve st r) as [st1 a]. pose proof (IH st1 m H1) as H2.
  destruct (serve_all st1 rs) as [st2 l]. assumption.
Qed.

(* after ANY history of stream requests (any nodes, any payloads, any order)
   a block request is either not answered or answered by block_answer of the
   firmware dict as it was before the history *)
Lemma block_answer_history_independent : forall st hist n p,
  let st' := fst (serve_all st hist) in
  snd (respond_fw st' n p) = Ok None \/ snd (respond_fw st' n p) = block_answer (o_fw st) p.
Proof.
  intros st hist n p st'. unfold st'.
  rewrite <- (serve_all_keeps_fw hist st). apply respond_fw_pure.
Qed.

(* ... and it IS answered when the node is past its config request *)
Lemma block_answer_after_history : forall st hist n p,
  active st n = true ->
  snd (respond_fw (fst (serve_all st hist)) n p) = block_answer (o_fw st) p.
Proof.
  intros st hist n p A.
  rewrite <- (serve_all_keeps_fw hist st).
  apply respond_fw_served. apply serve_all_keeps_active. assumption.
Qed.

(* ---------------------------------------------------------------- make_update *)

Lemma schedule_fw : forall known k st n, o_fw (schedule known k st n) = o_fw st.
Proof. intros. unfold schedule. destruct (existsb (Z.eqb n) known); reflexivity. Qed.

Lemma fold_schedule_fw : forall known k nids st, o_fw (fold_left (schedule known k) nids st) = o_fw st.
Proof.
  intros known k nids. induction nids as [|n r IH]; intros st; [reflexivity|].
  cbn [fold_left]. rewrite IH. apply schedule_fw.
Qed.

Lemma existsb_eqb_in : forall n l, In n l -> existsb (Z.eqb n) l = true.
Proof.
  intros n l H. apply existsb_exists. exists n. split; [assumption|apply Z.eqb_refl].
Qed.

Lemma fold_schedule_req : forall known k n nids st,
  In n known ->
  In n nids \/ ns_get n (o_req st) = Some k ->
  ns_get n (o_req (fold_left (schedule known k) nids st)) = Some k.
Proof.
  intros known k n nids. induction nids as [|m r IH]; intros st Hk H.
  - destruct H as [[]|H]. assumption.
  - cbn [fold_left]. apply IH; [assumption|].
    destruct (Z.eq_dec m n) as [->|Hm].
    + right. unfold schedule. rewrite (existsb_eqb_in n known Hk). cbn [o_req]. apply ns_get_set_same.
    + destruct H as [[H|H]|H]; [contradiction|left; assumption|right].
      unfold schedule. destruct (existsb (Z.eqb m) known); [|assumption].
      cbn [o_req]. rewrite ns_get_set_other by auto. assumption.
Qed.

(* make_update with an image: the prepared image is stored under (t, v) and
   every known node of nids is scheduled for (t, v) *)
Lemma make_update_spec : forall known st nids t v img,
  word_ok t = true -> word_ok v = true ->
  let st' := make_update known st nids (AInt t) (AInt v) (Some img) in
  fw_get (t, v) (o_fw st') = Some (prepare_fw img) /\
  (forall k, k <> (t, v) -> fw_get k (o_fw st') = fw_get k (o_fw st)) /\
  (forall n, In n known -> In n nids -> ns_get n (o_req st') = Some (t, v)).
Proof.
  intros known st nids t v img Ht Hv. unfold make_update. cbn [arg_int].
  rewrite Ht, Hv. cbn [negb orb].
  rewrite fw_get_set_same.
  repeat split.
  - rewrite fold_schedule_fw. cbn [o_fw]. apply fw_get_set_same.
  - intros k Hk. rewrite fold_schedule_fw. cbn [o_fw]. apply fw_get_set_other. assumption.
  - intros n Hn Hin. apply fold_schedule_req; auto.
Qed.

(* out-of-range or non-integer type/version: nothing happens (fix d059060) *)
Lemma make_update_rejects : forall known st nids ta va bin,
  match arg_int ta, arg_int va with
  | Some t, Some v => word_ok t && word_ok v = false
  | _, _ => True
  end ->
  make_update known st nids ta va bin = st.
Proof.
  intros known st nids ta va bin. unfold make_update.
  destruct (arg_int ta) as [t|]; [|reflexivity].
  destruct (arg_int va) as [v|]; [|reflexivity].
  intros H. destruct (word_ok t); destruct (word_ok v); try discriminate; reflexivity.
Qed.

(* ---------------------------------------------------------------- the invariant *)

Lemma store_ok_del : forall n s, store_ok s -> store_ok (ns_del n s).
Proof.
  intros n s H m t v G. destruct (Z.eq_dec m n) as [->|Hm].
  - rewrite ns_get_del_same in G. discriminate.
  - rewrite ns_get_del_other in G by assumption. apply (H m t v G).
Qed.

Lemma store_ok_set : forall n t v s, word_ok t = true -> word_ok v = true -> store_ok s -> store_ok (ns_set n (t, v) s).
Proof.
  intros n t v s Ht Hv H m t' v' G. destruct (Z.eq_dec m n) as [->|Hm].
  - rewrite ns_get_set_same in G. inversion G; subst. auto.
  - rewrite ns_get_set_other in G by assumption. apply (H m t' v' G).
Qed.

Lemma get_fw_stores_ok : forall n a b, store_ok a -> store_ok b ->
  store_ok (snd (fst (get_fw_stores n a b))) /\ store_ok (snd (get_fw_stores n a b)).
Proof.
  intros n a b Ha Hb. unfold get_fw_stores.
  destruct (ns_get n a) as [[t v]|] eqn:Ea; [|destruct (ns_get n b) as [[t v]|] eqn:Eb]; cbn [fst snd].
  - destruct (Ha n t v Ea) as [Ht Hv]. split; [apply store_ok_del; assumption|apply store_ok_set; assumption].
  - destruct (Hb n t v Eb) as [Ht Hv]. split; [assumption|apply store_ok_set; assumption].
  - split; assumption.
Qed.

Lemma serve_ok : forall st r, ota_ok st -> ota_ok (fst (serve st r)).
Proof.
  intros st [n p|n p] (Hfw & Hreq & Huns & Hsta); cbn [serve].
  - destruct (respond_fw_config_unfold st n p) as [(e & _ & ->)|(_ & ->)];
      cbn [fst]; unfold ota_ok; cbn [o_fw o_req o_uns o_sta]; [tauto|].
    destruct (get_fw_stores_ok n _ _ Hreq Huns) as [H1 H2]. tauto.
  - destruct (respond_fw_unfold st n p) as [(e & _ & ->)|(t & v & i & _ & _ & _ & _ & ->)];
      cbn [fst]; unfold ota_ok; cbn [o_fw o_req o_uns o_sta]; [tauto|].
    destruct (get_fw_stores_ok n _ _ Huns Hsta) as [H1 H2]. tauto.
Qed.

Lemma ota_init_ok : ota_ok ota_init.
Proof. repeat split; intros; discriminate. Qed.

Lemma fold_schedule_ok : forall known t v nids st,
  word_ok t = true -> word_ok v = true ->
  store_ok (o_req st) /\ store_ok (o_uns st) /\ store_ok (o_sta st) ->
  let st' := fold_left (schedule known (t, v)) nids st in
  store_ok (o_req st') /\ store_ok (o_uns st') /\ store_ok (o_sta st').
Proof.
  intros known t v nids. induction nids as [|n r IH]; intros st Ht Hv H; [exact H|].
  cbn [fold_left]. apply IH; try assumption.
  destruct H as (H1 & H2 & H3). unfold schedule.
  destruct (existsb (Z.eqb n) known); [|auto]. cbn [o_req o_uns o_sta].
  split; [apply store_ok_set; assumption|split; apply store_ok_del; assumption].
Qed.

(* make_update keeps the invariant for every byte-string image whose block
   count fits the 16-bit header word (or no image at all) *)
Lemma make_update_ok : forall known st nids ta va bin,
  ota_ok st ->
  match bin with
  | Some img => bytes_ok img = true /\ fw_blocks (prepare_fw img) <= 65535
  | None => True
  end ->
  ota_ok (make_update known st nids ta va bin).
Proof.
  intros known st nids ta va bin Hok Hbin. unfold make_update.
  destruct (arg_int ta) as [t|]; [|assumption].
  destruct (arg_int va) as [v|]; [|assumption].
  destruct (word_ok t) eqn:Ht; [|assumption].
  destruct (word_ok v) eqn:Hv; [|assumption].
  cbn [negb orb].
  destruct Hok as (Hfw & Hstores).
  set (fwd := match bin with Some b => fw_set (t, v) (prepare_fw b) (o_fw st) | None => o_fw st end).
  assert (Hfwd : forall k f, fw_get k fwd = Some f -> fware_ok f).
  { intros k f G. unfold fwd in G. destruct bin as [img|]; [|apply (Hfw k f G)].
    destruct (key_eqb k (t, v)) eqn:E.
    - apply key_eqb_eq in E. subst k. rewrite fw_get_set_same in G. inversion G; subst f.
      exists img. tauto.
    - rewrite fw_get_set_other in G; [apply (Hfw k f G)|].
      intros ->. rewrite (proj2 (key_eqb_eq (t, v) (t, v)) eq_refl) in E. discriminate. }
  destruct (fw_get (t, v) fwd) as [f|].
  - pose proof (fold_schedule_ok known t v nids (mkOta fwd (o_req st) (o_uns st) (o_sta st)) Ht Hv Hstores) as H.
    split; [|exact H]. rewrite fold_schedule_fw. exact Hfwd.
  - split; [exact Hfwd|exact Hstores].
Qed.

(* ---------------------------------------------------------------- end to end *)

Lemma req_payload_ok : forall t v i,
  word_ok t = true -> word_ok v = true -> word_ok i = true ->
  fw_int_to_hex [t; v; i] = Ok (req_payload t v i).
Proof.
  intros t v i Ht Hv Hi. unfold req_payload.
  rewrite fw_int_to_hex_ok by (rewrite words_ok3, Ht, Hv, Hi; reflexivity). reflexivity.
Qed.

(* any sequence of block requests (node, index) - any order, any repetition,
   any mix of nodes that are past their config request - is answered, one by
   one, with exactly the echo header and the requested block *)
Lemma serve_blocks : forall t v fw reqs st,
  word_ok t = true -> word_ok v = true ->
  fw_get (t, v) (o_fw st) = Some fw ->
  (forall ni, In ni reqs -> active st (fst ni) = true /\ word_ok (snd ni) = true) ->
  snd (serve_all st (map (blk_request t v) reqs)) =
  map (fun ni => Ok (Some (hexlify (le16 t ++ le16 v ++ le16 (snd ni))
                           ++ hexlify (fw_block (fw_data fw) (snd ni))))) reqs.
Proof.
  intros t v fw reqs. induction reqs as [|[n i] reqs IH]; intros st Ht Hv G H; [reflexivity|].
  cbn [map serve_all]. unfold blk_request at 1. cbn [fst snd serve].
  destruct (H (n, i) (or_introl eq_refl)) as [A Hi]. cbn [fst snd] in A, Hi.
  pose proof (respond_fw_served st n (req_payload t v i) A) as R.
  rewrite (block_answer_loaded _ t v i fw _ (req_payload_ok t v i Ht Hv Hi) G) in R.
  pose proof (respond_fw_keeps_fw st n (req_payload t v i)) as K.
  pose proof (respond_fw_active st n (req_payload t v i)) as Act.
  destruct (respond_fw st n (req_payload t v i)) as [st1 a]. cbn [fst snd] in *.
  assert (IH1 := IH st1 Ht Hv). rewrite K in IH1. specialize (IH1 G).
  destruct (serve_all st1 (map (blk_request t v) reqs)) as [st2 l]. cbn [snd] in *.
  rewrite R. f_equal. apply IH1.
  intros ni Hin. rewrite Act. apply H. right. assumption.
Qed.

(* update_fw/make_update with an image, then the node's config request, then
   ANY history of stream requests: the config response advertises blocks and
   CRC of the prepared image, and every block request of that node is answered
   with the echo header and that block of the prepared image *)
Lemma ota_end_to_end : forall known st nids t v img n pc ws,
  word_ok t = true -> word_ok v = true ->
  bytes_ok img = true -> fw_blocks (prepare_fw img) <= 65535 ->
  In n known -> In n nids ->
  fw_hex_to_int pc 5 = Ok ws ->
  let fw := prepare_fw img in
  let st1 := make_update known st nids (AInt t) (AInt v) (Some img) in
  let st2 := fst (respond_fw_config st1 n pc) in
  snd (respond_fw_config st1 n pc) =
    Ok (Some (hexlify (le16 t ++ le16 v ++ le16 (fw_blocks fw) ++ le16 (fw_crc fw)))) /\
  forall (hist : list request) i, word_ok i = true ->
    snd (respond_fw (fst (serve_all st2 hist)) n (req_payload t v i)) =
      Ok (Some (hexlify (le16 t ++ le16 v ++ le16 i) ++ hexlify (fw_block (fw_data fw) i))).
Proof.
  intros known st nids t v img n pc ws Ht Hv Hb Hblk Hk Hn Hpc fw st1 st2.
  destruct (make_update_spec known st nids t v img Ht Hv) as (G & _ & Hreq).
  fold st1 in G, Hreq. fold fw in G.
  destruct (respond_fw_config_scheduled st1 n pc t v fw ws Hpc (or_introl (Hreq n Hk Hn)) G) as [C A].
  assert (Fok : fware_ok fw) by (exists img; auto).
  split.
  - rewrite C, (fw_config_payload_ok t v fw Ht Hv Fok). reflexivity.
  - intros hist i Hi. fold st2 in A.
    rewrite (block_answer_after_history st2 hist n _ A).
    unfold st2. rewrite respond_fw_config_keeps_fw.
    apply (block_answer_loaded _ t v i fw _ (req_payload_ok t v i Ht Hv Hi) G).
Qed.

(* re-publishing: whatever the state held before (another image under the same
   (t, v), nodes in the middle of a download, any earlier history), after
   make_update stored img under (t, v) every later answer to a block request
   for (t, v) - after any further history of requests, from any node - is a
   block of the NEW prepared image, or no answer at all *)
Lemma republish_serves_new : forall known st nids t v img hist n i,
  word_ok t = true -> word_ok v = true -> word_ok i = true ->
  let st1 := make_update known st nids (AInt t) (AInt v) (Some img) in
  let a := snd (respond_fw (fst (serve_all st1 hist)) n (req_payload t v i)) in
  a = Ok None \/
  a = Ok (Some (hexlify (le16 t ++ le16 v ++ le16 i)
                ++ hexlify (fw_block (fw_data (prepare_fw img)) i))).
Proof.
  intros known st nids t v img hist n i Ht Hv Hi st1 a.
  destruct (make_update_spec known st nids t v img Ht Hv) as (G & _ & _). fold st1 in G.
  destruct (block_answer_history_independent st1 hist n (req_payload t v i)) as [H|H].
  - left. exact H.
  - right. unfold a. rewrite H.
    apply (block_answer_loaded _ t v i _ _ (req_payload_ok t v i Ht Hv Hi) G).
Qed.
