(* C19 part 1: the framing layer delivers the decoded complete lines of the
   concatenated stream, whatever the segmentation. *)
From Coq Require Import List NArith ZArith Bool Lia.
From PMS Require Import Base.PyStr Base.PyInt Base.Exn Model.Codec Model.Framing
                        Proofs.PyStrFacts Proofs.CodecProofs.
Import ListNotations.
Open Scope N_scope.

(* ---------------------------------------------------------------- lists *)
Lemma last_app_ne {A} (x y : list A) d : y <> [] -> last (x ++ y) d = last y d.
Proof.
  intro H. induction x as [|a x IH]; [reflexivity|].
  simpl app. simpl last. destruct (x ++ y) eqn:E.
  - apply app_eq_nil in E as [_ E]. contradiction.
  - exact IH.
Qed.

Lemma last_in_Forall {A} (P : A -> Prop) (l : list A) d : l <> [] -> Forall P l -> P (last l d).
Proof.
  intros NE F. induction F as [|x l Hx F IH]; [contradiction|].
  destruct l as [|y l]; [exact Hx|]. apply IH. discriminate.
Qed.

Lemma Forall_removelast {A} (P : A -> Prop) (l : list A) : Forall P l -> Forall P (removelast l).
Proof.
  intro F. induction F as [|x l Hx F IH]; [constructor|].
  simpl. destruct l; [constructor|]. constructor; assumption.
Qed.

(* ---------------------------------------------------------------- split *)
Lemma split_app_general d a b :
  split d (a ++ b) =
  removelast (split d a) ++ (last (split d a) [] ++ hd [] (split d b)) :: tl (split d b).
Proof.
  induction a as [|c a IH].
  - simpl. pose proof (split_nonempty d b) as NE. destruct (split d b); [contradiction|reflexivity].
  - pose proof (split_nonempty d a) as NEa.
    change ((c :: a) ++ b) with (c :: (a ++ b)). simpl split.
    destruct (N.eqb c d).
    + rewrite IH. destruct (split d a) as [|h tl0] eqn:S; [contradiction|]. reflexivity.
    + rewrite IH. destruct (split d a) as [|h tl0] eqn:S; [contradiction|].
      destruct tl0 as [|x tl2]; reflexivity.
Qed.

Lemma tail_no_term t s : mem_N t (tail_of t s) = false.
Proof.
  unfold tail_of. apply (last_in_Forall (fun f => mem_N t f = false)).
  - apply split_nonempty.
  - apply split_fields_no_delim.
Qed.

Lemma complete_lines_no_terminator t s : Forall (fun l => mem_N t l = false) (complete_lines t s).
Proof. unfold complete_lines. apply Forall_removelast, split_fields_no_delim. Qed.

Lemma split_app_tail t a b : split t (a ++ b) = complete_lines t a ++ split t (tail_of t a ++ b).
Proof.
  rewrite (split_app_general t a b).
  rewrite (split_app_general t (tail_of t a) b).
  rewrite (split_no_delim t (tail_of t a) (tail_no_term t a)). reflexivity.
Qed.

Lemma complete_lines_app t a b :
  complete_lines t (a ++ b) = complete_lines t a ++ complete_lines t (tail_of t a ++ b).
Proof.
  unfold complete_lines at 1. rewrite split_app_tail.
  rewrite removelast_app by apply split_nonempty. reflexivity.
Qed.

Lemma tail_of_app t a b : tail_of t (a ++ b) = tail_of t (tail_of t a ++ b).
Proof.
  unfold tail_of at 1. rewrite split_app_tail.
  rewrite last_app_ne by apply split_nonempty. reflexivity.
Qed.

Lemma complete_lines_none t s : mem_N t s = false -> complete_lines t s = [].
Proof. intro H. unfold complete_lines. rewrite (split_no_delim _ _ H). reflexivity. Qed.

Lemma tail_of_none t s : mem_N t s = false -> tail_of t s = s.
Proof. intro H. unfold tail_of. rewrite (split_no_delim _ _ H). reflexivity. Qed.

Lemma complete_lines_cons t p rest :
  mem_N t p = false -> complete_lines t (p ++ t :: rest) = p :: complete_lines t rest.
Proof.
  intro H. unfold complete_lines. rewrite (split_app_delim _ _ _ H).
  pose proof (split_nonempty t rest). simpl. destruct (split t rest); [contradiction|reflexivity].
Qed.

Lemma tail_of_cons t p rest : mem_N t p = false -> tail_of t (p ++ t :: rest) = tail_of t rest.
Proof.
  intro H. unfold tail_of. rewrite (split_app_delim _ _ _ H).
  pose proof (split_nonempty t rest). simpl. destruct (split t rest); [contradiction|reflexivity].
Qed.

(* the stream is exactly its complete lines, each followed by the terminator, then the tail *)
Lemma stream_reassembled t s :
  s = flat_map (fun l => l ++ [t]) (complete_lines t s) ++ tail_of t s.
Proof.
  unfold complete_lines, tail_of.
  rewrite <- (join_split t s) at 1.
  pose proof (split_nonempty t s) as NE.
  induction (split t s) as [|x l IH]; [contradiction|].
  destruct l as [|y l]; [reflexivity|].
  change (join [t] (x :: y :: l)) with (x ++ [t] ++ join [t] (y :: l)).
  rewrite IH by discriminate. simpl. rewrite <- !app_assoc. reflexivity.
Qed.

(* ---------------------------------------------------------------- split1 *)
Lemma split1_some t buf p rest :
  split1 t buf = Some (p, rest) -> buf = p ++ t :: rest /\ mem_N t p = false.
Proof.
  revert p rest. induction buf as [|c r IH]; intros p rest H; simpl in H; [discriminate|].
  destruct (N.eqb c t) eqn:E.
  - inversion H; subst. apply N.eqb_eq in E. subst c. split; reflexivity.
  - destruct (split1 t r) as [[p0 rest0]|] eqn:S; [|discriminate].
    inversion H; subst. destruct (IH _ _ eq_refl) as [H1 H2]. subst r.
    split; [reflexivity|]. simpl. rewrite N.eqb_sym, E. exact H2.
Qed.

Lemma split1_none t buf : split1 t buf = None -> mem_N t buf = false.
Proof.
  induction buf as [|c r IH]; intro H; simpl in *; [reflexivity|].
  destruct (N.eqb c t) eqn:E; [discriminate|].
  destruct (split1 t r) as [[p0 rest0]|]; [discriminate|].
  rewrite N.eqb_sym, E. apply IH. reflexivity.
Qed.

(* ---------------------------------------------------------------- the loop *)
Section Proofs.
  Variable t : N.
  Variable dec : bytes -> pstr.

  Lemma recv_loop_spec fuel : forall buf out,
    (length buf < fuel)%nat ->
    recv_loop t dec fuel buf out = (tail_of t buf, out ++ map dec (complete_lines t buf)).
  Proof.
    induction fuel as [|f IH]; intros buf out L; [lia|].
    simpl. destruct (mem_N t buf) eqn:M.
    - destruct (split1 t buf) as [[p rest]|] eqn:S.
      + apply split1_some in S as [E NP]. subst buf.
        rewrite IH.
        * rewrite (complete_lines_cons _ _ _ NP), (tail_of_cons _ _ _ NP).
          simpl. rewrite <- app_assoc. reflexivity.
        * rewrite app_length in L. simpl in L. lia.
      + apply split1_none in S. congruence.
    - rewrite (complete_lines_none _ _ M), (tail_of_none _ _ M). simpl. rewrite app_nil_r. reflexivity.
  Qed.

  Lemma data_received_spec p data :
    data_received t dec p data =
    (mkProto (tail_of t (p_buffer p ++ data)), map dec (complete_lines t (p_buffer p ++ data))).
  Proof.
    unfold data_received. rewrite recv_loop_spec by lia. reflexivity.
  Qed.

  (* invariant: the buffer between calls holds no terminator *)
  Lemma feed_spec cs : forall p,
    mem_N t (p_buffer p) = false ->
    feed t dec p cs =
    (mkProto (tail_of t (p_buffer p ++ concat cs)), map dec (complete_lines t (p_buffer p ++ concat cs))).
  Proof.
    induction cs as [|c r IH]; intros p NB.
    - simpl. rewrite app_nil_r, (tail_of_none _ _ NB), (complete_lines_none _ _ NB).
      destruct p; reflexivity.
    - simpl feed. rewrite data_received_spec.
      rewrite IH by apply tail_no_term.
      cbn [p_buffer concat]. rewrite app_assoc.
      rewrite (complete_lines_app t (p_buffer p ++ c) (concat r)).
      rewrite (tail_of_app t (p_buffer p ++ c) (concat r)).
      rewrite map_app. reflexivity.
  Qed.

  Theorem framing_segmentation_independent (cs : list bytes) :
    feed t dec (proto_init) cs =
    (mkProto (tail_of t (concat cs)), map dec (complete_lines t (concat cs))).
  Proof. rewrite feed_spec by reflexivity. reflexivity. Qed.

  Corollary framing_same_stream_same_lines (cs1 cs2 : list bytes) :
    concat cs1 = concat cs2 -> feed t dec proto_init cs1 = feed t dec proto_init cs2.
  Proof. intro H. rewrite !framing_segmentation_independent, H. reflexivity. Qed.

  (* feeding may be resumed: a later stream continues from the residual buffer *)
  Corollary framing_resume (cs1 cs2 : list bytes) :
    snd (feed t dec proto_init (cs1 ++ cs2)) =
    snd (feed t dec proto_init cs1) ++ snd (feed t dec (fst (feed t dec proto_init cs1)) cs2).
  Proof.
    rewrite !framing_segmentation_independent. cbn [fst snd].
    rewrite feed_spec by (cbn [p_buffer]; apply tail_no_term).
    cbn [snd p_buffer]. rewrite concat_app, complete_lines_app, map_app. reflexivity.
  Qed.
End Proofs.

(* the decoder is applied per packet: any decoder factors through the raw packets *)
Lemma framing_dec_natural t dec cs :
  feed t dec (proto_init) cs =
  (fst (feed t (fun b => b) proto_init cs), map dec (snd (feed t (fun b => b) proto_init cs))).
Proof. rewrite !framing_segmentation_independent. cbn [fst snd]. rewrite map_id. reflexivity. Qed.

(* ---------------------------------------------------------------- recv(n) chunking *)
Lemma chunks_fuel_concat n : (n <> 0)%nat -> forall fuel s, (length s <= fuel)%nat ->
  concat (chunks_fuel fuel n s) = s.
Proof.
  intros Hn fuel. induction fuel as [|f IH]; intros s L.
  - destruct s; [reflexivity|simpl in L; lia].
  - destruct s as [|c s]; [reflexivity|].
    cbn [chunks_fuel concat]. rewrite IH.
    + apply firstn_skipn.
    + rewrite skipn_length. simpl in L. simpl length. lia.
Qed.

Lemma chunks_of_concat n s : (n <> 0)%nat -> concat (chunks_of n s) = s.
Proof. intro Hn. apply chunks_fuel_concat; [exact Hn|lia]. Qed.

Lemma chunks_fuel_bounded n fuel : forall s, Forall (fun c => (length c <= n)%nat /\ c <> []) (chunks_fuel fuel n s) \/ n = 0%nat.
Proof.
  destruct n as [|n]; [right; reflexivity|left].
  revert s. induction fuel as [|f IH]; intro s; [constructor|].
  destruct s as [|c s]; [constructor|]. cbn [chunks_fuel]. constructor; [|apply IH].
  split; [apply firstn_le_length|discriminate].
Qed.

Theorem recv_chunking_is_a_segmentation t dec n s : (n <> 0)%nat ->
  feed t dec proto_init (chunks_of n s) = (mkProto (tail_of t s), map dec (complete_lines t s)).
Proof. intro Hn. rewrite framing_segmentation_independent, chunks_of_concat by exact Hn. reflexivity. Qed.

(* ---------------------------------------------------------------- link to the codec *)
Lemma isspace_cr : isspace cr = true.
Proof. vm_compute. reflexivity. Qed.

Theorem decode_ignores_trailing_cr (l : pstr) : decode (l ++ [cr]) = decode l.
Proof. unfold decode. rewrite (rstrip_snoc_space isspace l cr isspace_cr). reflexivity. Qed.

(* a CRLF terminated frame is handled like the LF terminated one, for every
   decoder that maps a trailing CR byte to a trailing CR character *)
Theorem crlf_line_decodes_like_lf (dec : bytes -> pstr) :
  (forall b, dec (b ++ [cr]) = dec b ++ [cr]) ->
  forall b, decode (dec (b ++ [cr])) = decode (dec b).
Proof. intros H b. rewrite H. apply decode_ignores_trailing_cr. Qed.

(* the terminator itself is white space for the codec: "line\n" given to logic()
   directly (MQTT, tests) decodes like the delivered "line" *)
Lemma decode_ignores_trailing_nl (l : pstr) : decode (l ++ [nl]) = decode l.
Proof. unfold decode. rewrite (rstrip_snoc_space isspace l nl isspace_nl). reflexivity. Qed.

(* ---------------------------------------------------------------- generated constants *)
From PMS Require Gen.FramingConsts.

Lemma generated_facts :
  FramingConsts.terminator = nl /\ (N.to_nat FramingConsts.recv_size <> 0)%nat /\
  (FramingConsts.encoding_is_utf8 && FramingConsts.unicode_handling_is_replace &&
   FramingConsts.packetizer_body_as_modelled && FramingConsts.handle_line_adds_logic_job &&
   FramingConsts.sync_add_job_appends && FramingConsts.async_add_job_runs_then_sends &&
   FramingConsts.poll_queue_sends_run_job && FramingConsts.run_job_pops_left_and_calls &&
   FramingConsts.send_drops_empty_message && FramingConsts.nested_jobs_only_produce_strings) = true.
Proof. vm_compute. repeat split; discriminate. Qed.

Theorem tcp_recv_chunking dec s :
  feed FramingConsts.terminator dec proto_init (chunks_of (N.to_nat FramingConsts.recv_size) s) =
  (mkProto (tail_of FramingConsts.terminator s), map dec (complete_lines FramingConsts.terminator s)).
Proof. apply recv_chunking_is_a_segmentation. apply generated_facts. Qed.
