(* C11 - persistence file formats: proofs about Model/Persist.v.
   Parts: association lists and decimal keys; the decoder on encoded trees (json_load_enc);
   reading Python values back as machine states; the pickle hooks; both formats on machine
   states; which heuristic of dict_to_object fires on which object; the source shape
   (generated facts = what the model transcribes); examples, witnesses outside wf_tree and
   the corners of the heuristics. *)
From Coq Require Import List NArith ZArith Bool String Lia Decimal DecimalZ.
From PMS Require Import Base.PyStr Base.PyInt Base.Exn Model.TableTypes Model.Gateway Gen.PersistAst Model.Persist
  Proofs.PyStrFacts Proofs.PyIntFacts.
Import ListNotations.
Open Scope string_scope.
Open Scope list_scope.
Open Scope Z_scope.

(* ================================================================ association lists, decimal keys *)
(* ---------------------------------------------------------------- association lists *)
Lemma aset_fresh {A} k (a : A) l : ~ In k (map fst l) -> aset k a l = l ++ [(k, a)].
Proof.
  induction l as [|[k' a'] l IH]; simpl; intro H; [reflexivity|].
  destruct (pstr_eqb k k') eqn:E.
  - apply pstr_eqb_eq in E. subst. tauto.
  - rewrite IH; [reflexivity|tauto].
Qed.

Lemma fold_aset_nodup {A} (l acc : list (pstr * A)) :
  NoDup (map fst (acc ++ l)) ->
  fold_left (fun d kv => aset (fst kv) (snd kv) d) l acc = acc ++ l.
Proof.
  revert acc. induction l as [|[k a] l IH]; intros acc H; simpl; [rewrite app_nil_r; reflexivity|].
  rewrite aset_fresh.
  - rewrite IH; rewrite <- app_assoc; [reflexivity|exact H].
  - rewrite map_app in H. simpl in H. apply NoDup_remove_2 in H. intro X. apply H. apply in_or_app. left. exact X.
Qed.

Lemma mkdict_nodup {A} (l : list (pstr * A)) : NoDup (map fst l) -> mkdict l = l.
Proof. intro H. unfold mkdict. apply (fold_aset_nodup l []). exact H. Qed.

Lemma key_eqb_eq a b : key_eqb a b = true <-> a = b.
Proof.
  destruct a, b; simpl; split; intro H; try discriminate; try congruence.
  - apply Z.eqb_eq in H. congruence.
  - inversion H. apply Z.eqb_refl.
  - apply pstr_eqb_eq in H. congruence.
  - inversion H. apply pstr_eqb_refl.
Qed.

Lemma kset_fresh k v l : ~ In k (map fst l) -> kset k v l = l ++ [(k, v)].
Proof.
  induction l as [|[k' a'] l IH]; simpl; intro H; [reflexivity|].
  destruct (key_eqb k k') eqn:E.
  - apply key_eqb_eq in E. subst. tauto.
  - rewrite IH; [reflexivity|tauto].
Qed.

Lemma fold_kset_nodup (l acc : list (key * pv)) :
  NoDup (map fst (acc ++ l)) ->
  fold_left (fun d kv => kset (fst kv) (snd kv) d) l acc = acc ++ l.
Proof.
  revert acc. induction l as [|[k a] l IH]; intros acc H; simpl; [rewrite app_nil_r; reflexivity|].
  rewrite kset_fresh.
  - rewrite IH; rewrite <- app_assoc; [reflexivity|exact H].
  - rewrite map_app in H. simpl in H. apply NoDup_remove_2 in H. intro X. apply H. apply in_or_app. left. exact X.
Qed.

(* ---------------------------------------------------------------- decimal keys *)
Lemma print_inj a b : print a = print b -> a = b.
Proof. intro H. pose proof (parse_print a) as A. rewrite H, parse_print in A. congruence. Qed.

Lemma isdigit_ascii_table : forallb isdigit_char [48; 49; 50; 51; 52; 53; 54; 55; 56; 57]%N = true.
Proof. vm_compute. reflexivity. Qed.

Lemma isdigit_minus : isdigit_char 45%N = false.
Proof. vm_compute. reflexivity. Qed.

Lemma uint_chars_isdigit u : forallb isdigit_char (uint_chars u) = true.
Proof.
  pose proof isdigit_ascii_table as T. cbn [forallb] in T.
  repeat (apply andb_true_iff in T as [? T]).
  induction u; cbn [uint_chars forallb]; try reflexivity; rewrite IHu, andb_true_r; assumption.
Qed.

Lemma print_isdigit z : 0 <= z -> py_isdigit (print z) = true.
Proof.
  intro H. unfold py_isdigit. pose proof (print_nonempty z) as NE.
  destruct (print z) as [|c r] eqn:E; [congruence|]. rewrite <- E.
  unfold print. destruct z as [|p|p]; simpl Z.to_int; try apply uint_chars_isdigit. lia.
Qed.

Lemma print_neg_not_isdigit z : z < 0 -> py_isdigit (print z) = false.
Proof.
  intro H. destruct z as [|p|p]; try lia. unfold print. simpl Z.to_int.
  unfold py_isdigit. cbn [forallb]. rewrite isdigit_minus. reflexivity.
Qed.

(* ================================================================ the JSON decoder on encoded trees *)
Definition keys_ok {A} (l : list (Z * A)) : Prop :=
  NoDup (map fst l) /\ Forall (fun k => 0 <= k) (map fst l).

Section RoundTrip.
  Variable ver_ok : pstr -> bool.

  Definition wf_pnode (n : pnode) : Prop :=
    keys_ok (pn_children n) /\
    Forall (fun kc => keys_ok (pc_values (snd kc))) (pn_children n) /\
    0 <= pn_batt n <= 100 /\
    (ver_ok (pn_pver n) = true \/ pn_pver n = s2p "1.4").
  Definition wf_tree (t : tree) : Prop := keys_ok t /\ Forall (fun kn => wf_pnode (snd kn)) t.

  (* the member loop of dec_json, named *)
  Definition members : list (pstr * json) -> res attrs :=
    fix members (l : list (pstr * json)) : res attrs :=
      match l with
      | [] => Ok []
      | (k, v) :: r => do v' <- dec_json ver_ok v; do r' <- members r; Ok ((k, v') :: r')
      end.

  Lemma dec_obj l : dec_json ver_ok (JObj l) = do l' <- members l; hook ver_ok (mkdict l').
  Proof. reflexivity. Qed.

  Lemma members_map {A} (h : A -> pstr) (f : A -> json) (g : A -> pv) (l : list A) :
    Forall (fun a => dec_json ver_ok (f a) = Ok (g a)) l ->
    members (map (fun a => (h a, f a)) l) = Ok (map (fun a => (h a, g a)) l).
  Proof.
    induction 1 as [|a l Ha _ IH]; [reflexivity|].
    cbn [map members]. rewrite Ha. cbn [bind]. rewrite IH. reflexivity.
  Qed.

  (* ---- the int-key heuristic on decimal keys ---- *)
  Lemma not_digit_not_in k keys :
    py_isdigit k = false -> Forall (fun x => py_isdigit x = true) keys -> mem_pstr k keys = false.
  Proof.
    intros K F. induction F as [|x keys Hx _ IH]; [reflexivity|]. simpl.
    destruct (pstr_eqb k x) eqn:E; [apply pstr_eqb_eq in E; congruence|exact IH].
  Qed.

  Lemma branch_digits keys : Forall (fun x => py_isdigit x = true) keys -> branch_of keys = BIntKeys.
  Proof.
    intro F. unfold branch_of.
    rewrite (not_digit_not_in k_sensor_id keys); [|vm_compute; reflexivity|exact F].
    cbn [forallb]. rewrite (not_digit_not_in k_id keys); [|vm_compute; reflexivity|exact F].
    cbn [andb]. apply forallb_forall in F || idtac.
    replace (forallb py_isdigit keys) with true; [reflexivity|].
    symmetry. apply forallb_forall. intros x Hx. rewrite Forall_forall in F. exact (F x Hx).
  Qed.

  Lemma keys_digits {A} (l : list (Z * A)) :
    Forall (fun k => 0 <= k) (map fst l) ->
    Forall (fun x => py_isdigit x = true) (map (fun ka => enc_key (fst ka)) l).
  Proof.
    induction l as [|[k a] l IH]; simpl; intro F; constructor; inversion F; subst.
    - apply print_isdigit. assumption.
    - apply IH. assumption.
  Qed.

  Lemma keys_nodup {A} (l : list (Z * A)) :
    NoDup (map fst l) -> NoDup (map (fun ka => enc_key (fst ka)) l).
  Proof.
    induction l as [|[k a] l IH]; simpl; intro N; [constructor|].
    inversion N; subst. constructor; [|apply IH; assumption].
    intro X. apply in_map_iff in X as [[k' a'] [E I]]. simpl in E. apply print_inj in E. subst.
    apply H1. apply in_map_iff. exists (k, a'). split; [reflexivity|exact I].
  Qed.

  Lemma int_keys_map {A} (g : A -> pv) (l : list (Z * A)) acc :
    NoDup (map fst acc ++ map (fun ka => KInt (fst ka)) l) ->
    int_keys (map (fun ka => (enc_key (fst ka), g (snd ka))) l) acc
    = Ok (acc ++ map (fun ka => (KInt (fst ka), g (snd ka))) l).
  Proof.
    revert acc. induction l as [|[k a] l IH]; intros acc N; simpl; [rewrite app_nil_r; reflexivity|].
    unfold enc_key. rewrite parse_print. rewrite kset_fresh.
    - rewrite IH; [rewrite <- app_assoc; reflexivity|].
      rewrite map_app. simpl. rewrite <- app_assoc. exact N.
    - simpl in N. apply NoDup_remove_2 in N. intro X. apply N. apply in_or_app. left. exact X.
  Qed.

  Lemma nodup_kint {A} (l : list (Z * A)) : NoDup (map fst l) -> NoDup (map (fun ka => KInt (fst ka)) l).
  Proof.
    induction l as [|[k a] l IH]; simpl; intro N; [constructor|]. inversion N; subst.
    constructor; [|apply IH; assumption]. intro X. apply in_map_iff in X as [[k' a'] [E I]].
    simpl in E. inversion E; subst. apply H1. apply in_map_iff. exists (k, a'). split; [reflexivity|exact I].
  Qed.

  (* an int-keyed dict whose values decode comes back int-keyed, in order *)
  Lemma dec_intdict {A} (f : A -> json) (g : A -> pv) (l : list (Z * A)) :
    keys_ok l ->
    Forall (fun ka => dec_json ver_ok (f (snd ka)) = Ok (g (snd ka))) l ->
    dec_json ver_ok (JObj (map (fun ka => (enc_key (fst ka), f (snd ka))) l))
    = Ok (VDict (map (fun ka => (KInt (fst ka), g (snd ka))) l)).
  Proof.
    intros [N P] F. rewrite dec_obj.
    rewrite (members_map (fun ka => enc_key (fst ka)) (fun ka => f (snd ka)) (fun ka => g (snd ka))); [|exact F].
    cbn [bind]. rewrite mkdict_nodup; [|rewrite map_map; simpl; apply keys_nodup; exact N].
    unfold hook. rewrite map_map. cbn [fst]. rewrite branch_digits; [|apply keys_digits; exact P].
    rewrite (int_keys_map g l []); [reflexivity|]. simpl. apply nodup_kint. exact N.
  Qed.

  (* ---- values, children, nodes ---- *)
  Lemma dec_val v : dec_json ver_ok (enc_val v) = Ok (v_val v).
  Proof. destruct v; reflexivity. Qed.

  Lemma dec_values vals : keys_ok vals -> dec_json ver_ok (enc_values vals) = Ok (v_values vals).
  Proof.
    intro K. unfold enc_values, v_values. apply (dec_intdict enc_val v_val vals K).
    apply Forall_forall. intros x _. apply dec_val.
  Qed.

  Lemma dec_child c : keys_ok (pc_values c) ->
    dec_json ver_ok (enc_child c) = Ok (VChild (child_attrs (load_child c))).
  Proof.
    intro K. unfold enc_child. rewrite dec_obj. cbn [members]. rewrite (dec_values _ K).
    cbn [dec_json bind]. reflexivity.
  Qed.

  Lemma load_children_map chs :
    map (fun kc => (KInt (fst kc), VChild (child_attrs (load_child (snd kc))))) chs
    = map (fun kc => (KInt (fst kc), VChild (child_attrs (snd kc)))) (map (fun kc => (fst kc, load_child (snd kc))) chs).
  Proof. rewrite map_map. reflexivity. Qed.

  Lemma dec_children chs :
    keys_ok chs -> Forall (fun kc => keys_ok (pc_values (snd kc))) chs ->
    dec_json ver_ok (enc_children chs) = Ok (v_children (map (fun kc => (fst kc, load_child (snd kc))) chs)).
  Proof.
    intros K F. unfold enc_children, v_children. rewrite <- load_children_map.
    apply (dec_intdict enc_child (fun c => VChild (child_attrs (load_child c))) chs K).
    revert F. apply Forall_impl. intros kc H. apply dec_child. exact H.
  Qed.

  Lemma dec_optZ o : dec_json ver_ok (enc_optZ o) = Ok (v_optZ o).
  Proof. destruct o; reflexivity. Qed.
  Lemma dec_optstr o : dec_json ver_ok (enc_optstr o) = Ok (v_optstr o).
  Proof. destruct o; reflexivity. Qed.

  Lemma safe_version_id p : (ver_ok p = true \/ p = s2p "1.4") -> safe_is_version ver_ok (VStr p) = Ok p.
  Proof.
    intros [H| ->]; unfold safe_is_version; cbn [py_strv]; [rewrite H; reflexivity|].
    destruct (ver_ok (s2p "1.4")); reflexivity.
  Qed.

  Lemma battery_id b : 0 <= b <= 100 -> is_battery_level (VInt b) = b.
  Proof.
    intro H. unfold is_battery_level. cbn [py_int].
    destruct (Z.leb_spec 0 b); [|lia]. destruct (Z.leb_spec b 100); [|lia]. reflexivity.
  Qed.

  Definition plain_key (k : pstr) : bool :=
    negb (pstr_eqb k k_battery_level) && negb (pstr_eqb k k_heartbeat) && negb (pstr_eqb k k_protocol_version)
    && negb (pstr_eqb k k_is_smart_sleep_node) && negb (is_prefix (s2p "__") k).

  Lemma setattr_plain a k v : plain_key k = true -> sensor_setattr ver_ok a k v = Ok (aset k v a).
  Proof.
    unfold plain_key, sensor_setattr. intro H.
    repeat (apply andb_true_iff in H as [H ?]).
    repeat match goal with X : negb ?b = true |- _ => apply negb_true_iff in X; rewrite X; clear X end.
    reflexivity.
  Qed.

  Lemma setattr_battery a v :
    sensor_setattr ver_ok a k_battery_level v = Ok (aset k__battery_level (VInt (is_battery_level v)) a).
  Proof. reflexivity. Qed.
  Lemma setattr_heartbeat a v :
    sensor_setattr ver_ok a k_heartbeat v = Ok (aset k__heartbeat (VInt (is_heartbeat v)) a).
  Proof. reflexivity. Qed.
  Lemma setattr_pver a v :
    sensor_setattr ver_ok a k_protocol_version v
    = do s <- safe_is_version ver_ok v; Ok (aset k__protocol_version (VStr s) a).
  Proof. reflexivity. Qed.

  (* what the Sensor branch of the hook builds from the eight members the encoder writes *)
  Lemma setattr_all_node sid ch t sn sv b p h :
    0 <= b <= 100 -> (ver_ok p = true \/ p = s2p "1.4") ->
    setattr_all ver_ok (new_sensor sid)
      [(k_sensor_id, sid); (k_children, ch); (k_type, t); (k_sketch_name, sn); (k_sketch_version, sv);
       (k_battery_level, VInt b); (k_protocol_version, VStr p); (k_heartbeat, VInt h)]
    = Ok [(k_sensor_id, sid); (k_children, ch); (k_type, t); (k_sketch_name, sn); (k_sketch_version, sv);
          (k__battery_level, VInt b); (k__protocol_version, VStr p); (k__heartbeat, VInt h);
          (k_new_state, VDict []); (k_queue, VDeque []); (k_reboot, VBool false)].
  Proof.
    intros B V. cbn [setattr_all].
    do 5 (rewrite setattr_plain by reflexivity; cbn [bind]).
    rewrite setattr_battery. cbn [bind]. rewrite (battery_id b B).
    rewrite setattr_pver, (safe_version_id p V). cbn [bind].
    rewrite setattr_heartbeat. cbn [bind]. reflexivity.
  Qed.

  Lemma dec_node n : wf_pnode n ->
    dec_json ver_ok (enc_node n) = Ok (VSensor (node_attrs (load_node n))).
  Proof.
    intros (K & F & B & V). unfold enc_node. rewrite dec_obj. cbn [members].
    rewrite (dec_children _ K F), dec_optZ, dec_optstr, dec_optstr.
    cbn [dec_json bind].
    set (ch := v_children _).
    unfold hook.
    change (mkdict _) with
      [(k_sensor_id, VInt (pn_id n)); (k_children, ch); (k_type, v_optZ (pn_type n));
       (k_sketch_name, v_optstr (pn_sk_name n)); (k_sketch_version, v_optstr (pn_sk_ver n));
       (k_battery_level, VInt (pn_batt n)); (k_protocol_version, VStr (pn_pver n)); (k_heartbeat, VInt (pn_hb n))].
    change (branch_of _) with BSensor. cbv iota.
    change (aget k_sensor_id _) with (Some (VInt (pn_id n))). cbv iota.
    rewrite (setattr_all_node _ _ _ _ _ _ _ _ B V). cbn [bind]. reflexivity.
  Qed.

  Lemma load_tree_map (t : tree) :
    map (fun kn => (KInt (fst kn), VSensor (node_attrs (load_node (snd kn))))) t = state_dict (load_tree t).
  Proof. unfold state_dict, load_tree. rewrite map_map. reflexivity. Qed.

  Theorem dec_enc_tree t : wf_tree t ->
    dec_json ver_ok (enc_json t) = Ok (VDict (state_dict (load_tree t))).
  Proof.
    intros [K F]. unfold enc_json. rewrite <- load_tree_map.
    apply (dec_intdict enc_node (fun n => VSensor (node_attrs (load_node n))) t K).
    revert F. apply Forall_impl. intros kn H. apply dec_node. exact H.
  Qed.

  Lemma state_dict_keys s : map fst (state_dict s) = map (fun kn => KInt (fst kn)) s.
  Proof. unfold state_dict. rewrite map_map. reflexivity. Qed.

  Theorem json_load_enc t : wf_tree t ->
    json_load ver_ok (enc_json t) = Ok (state_dict (load_tree t)).
  Proof.
    intro W. unfold json_load. rewrite (dec_enc_tree t W). cbn [bind dict_update].
    rewrite (fold_kset_nodup _ []); [reflexivity|]. simpl. rewrite state_dict_keys.
    apply nodup_kint. unfold load_tree. rewrite map_map. simpl. destruct W as [[N _] _]. exact N.
  Qed.
End RoundTrip.

(* ================================================================ reading back; pickle *)
(* ---------------------------------------------------------------- reading back *)
Lemma r_items_map {A B} (f : pv -> option A) (g : B -> pv) (h : B -> A) (l : list (Z * B)) :
  (forall b, f (g b) = Some (h b)) ->
  r_items f (map (fun kb => (KInt (fst kb), g (snd kb))) l) = Some (map (fun kb => (fst kb, h (snd kb))) l).
Proof.
  intro H. induction l as [|[k b] l IH]; [reflexivity|]. cbn [map r_items fst snd]. rewrite H, IH. reflexivity.
Qed.

Lemma map_pair_id {A} (l : list (Z * A)) : map (fun kb => (fst kb, snd kb)) l = l.
Proof. induction l as [|[k b] l IH]; simpl; congruence. Qed.

Lemma r_values vals : r_intdict r_val (v_values vals) = Some vals.
Proof.
  unfold v_values, r_intdict. rewrite (r_items_map r_val v_val (fun v => v)); [rewrite map_pair_id; reflexivity|].
  intros []; reflexivity.
Qed.

Lemma r_child_attrs c : r_child (VChild (child_attrs c)) = Some c.
Proof.
  unfold r_child, child_attrs.
  change (exact_keys child_keys _) with true. cbv iota.
  change (aget k_id _) with (Some (VInt (c_id c))).
  change (aget k_type _) with (Some (VInt (c_type c))).
  change (aget k_description _) with (Some (VStr (c_desc c))).
  change (aget k_values _) with (Some (v_values (c_values c))).
  cbv iota. cbn [r_int r_str]. rewrite r_values. destruct c; reflexivity.
Qed.

Lemma r_children chs : r_intdict r_child (v_children chs) = Some chs.
Proof.
  unfold v_children, r_intdict.
  rewrite (r_items_map r_child (fun c => VChild (child_attrs c)) (fun c => c)); [rewrite map_pair_id; reflexivity|].
  apply r_child_attrs.
Qed.

Lemma r_desired_values dv : r_intdict r_optval (v_desired_values dv) = Some dv.
Proof.
  unfold v_desired_values, r_intdict.
  rewrite (r_items_map r_optval (fun o => match o with Some v => v_val v | None => VNone end) (fun o => o));
    [rewrite map_pair_id; reflexivity|].
  intros [[]|]; reflexivity.
Qed.

Lemma r_new_state chs nw : r_intdict r_desired (v_new_state chs nw) = Some nw.
Proof.
  unfold v_new_state, r_intdict.
  induction nw as [|[k dv] nw IH]; [reflexivity|]. cbn [map r_items fst snd]. rewrite IH.
  unfold r_desired at 1. change (exact_keys child_keys _) with true. cbv iota.
  change (aget k_values _) with (Some (v_desired_values dv)). cbv iota. rewrite r_desired_values. reflexivity.
Qed.

Lemma r_optZ o : r_optint (v_optZ o) = Some o. Proof. destruct o; reflexivity. Qed.
Lemma r_optS o : r_optstr (v_optstr o) = Some o. Proof. destruct o; reflexivity. Qed.

(* the value of each instance attribute of a Sensor whose __dict__ is a permutation of the
   eleven expected entries: stated for the two orders that occur (Sensor.__init__ order after
   a JSON load, __setstate__ order after a pickle load) *)
Lemma r_node_attrs n : r_node (VSensor (node_attrs n)) = Some n.
Proof.
  unfold r_node, node_attrs.
  change (exact_keys node_keys _) with true. cbv iota.
  change (aget k_sensor_id _) with (Some (VInt (n_id n))).
  change (aget k_children _) with (Some (v_children (n_children n))).
  change (aget k_type _) with (Some (v_optZ (n_type n))).
  change (aget k_sketch_name _) with (Some (v_optstr (n_sk_name n))).
  change (aget k_sketch_version _) with (Some (v_optstr (n_sk_ver n))).
  change (aget k__battery_level _) with (Some (VInt (n_batt n))).
  change (aget k__protocol_version _) with (Some (VStr (n_pver n))).
  change (aget k__heartbeat _) with (Some (VInt (n_hb n))).
  change (aget k_new_state _) with (Some (v_new_state (n_children n) (n_new n))).
  change (aget k_queue _) with (Some (VDeque (n_queue n))).
  change (aget k_reboot _) with (Some (VBool (n_reboot n))).
  cbv iota. cbn [r_int r_str r_queue r_bool].
  rewrite r_children, r_optZ, r_optS, r_optS, r_new_state. destruct n; reflexivity.
Qed.

Theorem read_state_dict s : read_state (state_dict s) = Some s.
Proof.
  unfold read_state, state_dict.
  rewrite (r_items_map r_node (fun n => VSensor (node_attrs n)) (fun n => n)); [rewrite map_pair_id; reflexivity|].
  apply r_node_attrs.
Qed.

(* the __dict__ order a pickle load leaves behind *)
Definition node_attrs_pickled (n : node) : attrs :=
  [(k_sensor_id, VInt (n_id n));
   (k_children, v_children (n_children n));
   (k_type, v_optZ (n_type n));
   (k_sketch_name, v_optstr (n_sk_name n));
   (k_sketch_version, v_optstr (n_sk_ver n));
   (k_new_state, v_new_state (n_children n) (n_new n));
   (k_queue, VDeque (n_queue n));
   (k_reboot, VBool (n_reboot n));
   (k__battery_level, VInt (n_batt n));
   (k__heartbeat, VInt (n_hb n));
   (k__protocol_version, VStr (n_pver n))].

Lemma r_node_attrs_pickled n : r_node (VSensor (node_attrs_pickled n)) = Some n.
Proof. rewrite <- (r_node_attrs n). reflexivity. Qed.

(* ---------------------------------------------------------------- pickle *)
Section Pickle.
  Variable ver_ok : pstr -> bool.

  Definition pitems : attrs -> res attrs :=
    fix items (l : attrs) : res attrs :=
      match l with
      | [] => Ok []
      | (k, x) :: r => do x' <- pickle_load ver_ok x; do r' <- items r; Ok ((k, x') :: r')
      end.
  Definition kitems : list (key * pv) -> res (list (key * pv)) :=
    fix items (l : list (key * pv)) : res (list (key * pv)) :=
      match l with
      | [] => Ok []
      | (k, x) :: r => do x' <- pickle_load ver_ok x; do r' <- items r; Ok ((k, x') :: r')
      end.

  Lemma pload_dict l : pickle_load ver_ok (VDict l) = do l' <- kitems l; Ok (VDict l').
  Proof. reflexivity. Qed.
  Lemma pload_sensor st :
    pickle_load ver_ok (VSensor st) = do st' <- pitems st; do a <- setstate ver_ok st'; Ok (VSensor a).
  Proof. reflexivity. Qed.
  Lemma pload_child st :
    pickle_load ver_ok (VChild st) = do st' <- pitems st; Ok (VChild (child_setstate st')).
  Proof. reflexivity. Qed.

  Lemma kitems_map {A} (g : A -> pv) (g' : A -> pv) (l : list (Z * A)) :
    (forall a, pickle_load ver_ok (g a) = Ok (g' a)) ->
    kitems (map (fun ka => (KInt (fst ka), g (snd ka))) l) = Ok (map (fun ka => (KInt (fst ka), g' (snd ka))) l).
  Proof.
    intro H. induction l as [|[k a] l IH]; [reflexivity|]. cbn [map kitems fst snd]. rewrite H. cbn [bind].
    rewrite IH. reflexivity.
  Qed.

  (* values without instances are stored and rebuilt unchanged *)
  Lemma pdump_values vals : pickle_dump (v_values vals) = v_values vals.
  Proof.
    unfold v_values. cbn [pickle_dump]. rewrite map_map. f_equal. apply map_ext. intros [k []]; reflexivity.
  Qed.
  Lemma pload_values vals : pickle_load ver_ok (v_values vals) = Ok (v_values vals).
  Proof.
    unfold v_values. rewrite pload_dict. rewrite (kitems_map v_val v_val); [reflexivity|]. intros []; reflexivity.
  Qed.
  Lemma pdump_dvalues dv : pickle_dump (v_desired_values dv) = v_desired_values dv.
  Proof.
    unfold v_desired_values. cbn [pickle_dump]. rewrite map_map. f_equal. apply map_ext. intros [k [[]|]]; reflexivity.
  Qed.
  Lemma pload_dvalues dv : pickle_load ver_ok (v_desired_values dv) = Ok (v_desired_values dv).
  Proof.
    unfold v_desired_values. rewrite pload_dict.
    rewrite (kitems_map (fun o => match o with Some v => v_val v | None => VNone end)
                        (fun o => match o with Some v => v_val v | None => VNone end)); [reflexivity|].
    intros [[]|]; reflexivity.
  Qed.

  Lemma pdump_child c : pickle_dump (VChild (child_attrs c)) = VChild (child_attrs c).
  Proof. unfold child_attrs. cbn [pickle_dump map fst snd]. rewrite pdump_values. reflexivity. Qed.
  Lemma pload_child_attrs c : pickle_load ver_ok (VChild (child_attrs c)) = Ok (VChild (child_attrs c)).
  Proof.
    rewrite pload_child. unfold child_attrs. cbn [pitems]. rewrite pload_values. cbn [pickle_load bind]. reflexivity.
  Qed.

  Lemma pdump_children chs : pickle_dump (v_children chs) = v_children chs.
  Proof.
    unfold v_children. cbn [pickle_dump]. rewrite map_map. f_equal. apply map_ext. intros [k c].
    cbn [fst snd]. rewrite pdump_child. reflexivity.
  Qed.
  Lemma pload_children chs : pickle_load ver_ok (v_children chs) = Ok (v_children chs).
  Proof.
    unfold v_children. rewrite pload_dict.
    rewrite (kitems_map (fun c => VChild (child_attrs c)) (fun c => VChild (child_attrs c))); [reflexivity|].
    apply pload_child_attrs.
  Qed.

  Lemma pdump_new_state chs nw : pickle_dump (v_new_state chs nw) = v_new_state chs nw.
  Proof.
    unfold v_new_state. cbn [pickle_dump]. rewrite map_map. f_equal. apply map_ext. intros [k dv].
    cbn [fst snd pickle_dump map]. rewrite pdump_dvalues. reflexivity.
  Qed.
  Lemma pload_new_state chs nw : pickle_load ver_ok (v_new_state chs nw) = Ok (v_new_state chs nw).
  Proof.
    unfold v_new_state. rewrite pload_dict. induction nw as [|[k dv] nw IH]; [reflexivity|].
    cbn [map kitems fst snd]. rewrite pload_child. cbn [pitems]. rewrite pload_dvalues.
    cbn [pickle_load bind]. cbn [bind] in IH.
    destruct (kitems _) as [l'|e] eqn:E in IH; [|discriminate IH]. rewrite E. cbn [bind].
    inversion IH; subst. reflexivity.
  Qed.

  Lemma v_optZ_dump o : pickle_dump (v_optZ o) = v_optZ o. Proof. destruct o; reflexivity. Qed.
  Lemma v_optstr_dump o : pickle_dump (v_optstr o) = v_optstr o. Proof. destruct o; reflexivity. Qed.
  Lemma v_optZ_load o : pickle_load ver_ok (v_optZ o) = Ok (v_optZ o). Proof. destruct o; reflexivity. Qed.
  Lemma v_optstr_load o : pickle_load ver_ok (v_optstr o) = Ok (v_optstr o). Proof. destruct o; reflexivity. Qed.

  (* Sensor.__getstate__ of a machine node: the three underscored attributes move to the end
     under their property names; new_state, queue and reboot ARE part of the pickled state *)
  Definition node_state (n : node) : attrs :=
    [(k_sensor_id, VInt (n_id n));
     (k_children, v_children (n_children n));
     (k_type, v_optZ (n_type n));
     (k_sketch_name, v_optstr (n_sk_name n));
     (k_sketch_version, v_optstr (n_sk_ver n));
     (k_new_state, v_new_state (n_children n) (n_new n));
     (k_queue, VDeque (n_queue n));
     (k_reboot, VBool (n_reboot n));
     (k_battery_level, VInt (n_batt n));
     (k_heartbeat, VInt (n_hb n));
     (k_protocol_version, VStr (n_pver n))].

  Lemma getstate_node n : getstate (node_attrs n) = node_state n.
  Proof. reflexivity. Qed.

  Lemma pdump_node n : pickle_dump (VSensor (node_attrs n)) = VSensor (node_state n).
  Proof.
    unfold node_attrs. cbn [pickle_dump map fst snd].
    rewrite pdump_children, v_optZ_dump, !v_optstr_dump, pdump_new_state. reflexivity.
  Qed.

  (* transient state is reset whatever it was; the persisted attributes pass the setters *)
  Definition persisted (n : node) : node :=
    mkNode (n_id n) (n_children n) (n_type n) (n_sk_name n) (n_sk_ver n) (n_batt n) (n_pver n) (n_hb n) [] [] false.

  Definition attr_ok (n : node) : Prop :=
    0 <= n_batt n <= 100 /\ (ver_ok (n_pver n) = true \/ n_pver n = s2p "1.4").

  Lemma setstate_node n : attr_ok n ->
    setstate ver_ok (node_state n) = Ok (node_attrs_pickled (persisted n)).
  Proof.
    intros [B V]. unfold setstate, node_state. cbn [setattr_all].
    do 8 (rewrite setattr_plain by reflexivity; cbn [bind]).
    rewrite setattr_battery. cbn [bind]. rewrite (battery_id _ B).
    rewrite setattr_heartbeat. cbn [bind].
    rewrite setattr_pver, (safe_version_id ver_ok _ V). cbn [bind].
    reflexivity.
  Qed.

  Lemma pload_node n : attr_ok n ->
    pickle_load ver_ok (VSensor (node_state n)) = Ok (VSensor (node_attrs_pickled (persisted n))).
  Proof.
    intro A. rewrite pload_sensor. unfold node_state at 1. cbn [pitems].
    rewrite pload_children, v_optZ_load, !v_optstr_load, pload_new_state. cbn [pickle_load bind].
    change (setstate ver_ok _) with (setstate ver_ok (node_state n)). rewrite (setstate_node n A). reflexivity.
  Qed.

  Definition pickled_dict (s : list (Z * node)) : list (key * pv) :=
    map (fun kn => (KInt (fst kn), VSensor (node_attrs_pickled (persisted (snd kn))))) s.

  Theorem pickle_load_save s :
    NoDup (map fst s) -> Forall (fun kn => attr_ok (snd kn)) s ->
    pickle_load_file ver_ok (pickle_save s) = Ok (pickled_dict s).
  Proof.
    intros N F. unfold pickle_load_file, pickle_save, state_dict. cbn [pickle_dump]. rewrite map_map.
    cbn [fst snd].
    rewrite (map_ext _ (fun kn => (KInt (fst kn), VSensor (node_state (snd kn)))));
      [|intros [k n]; cbn [fst snd]; rewrite pdump_node; reflexivity].
    rewrite pload_dict.
    assert (E : kitems (map (fun kn : Z * node => (KInt (fst kn), VSensor (node_state (snd kn)))) s) = Ok (pickled_dict s)).
    { unfold pickled_dict. induction F as [|[k n] s A _ IH]; [reflexivity|].
      cbn [map kitems fst snd]. cbn [snd] in A. rewrite (pload_node n A). cbn [bind].
      inversion N; subst. rewrite IH by assumption. reflexivity. }
    rewrite E. cbn [bind dict_update]. rewrite (fold_kset_nodup _ []); [reflexivity|].
    simpl. unfold pickled_dict. rewrite map_map. cbn [fst]. apply nodup_kint. exact N.
  Qed.

  Lemma read_pickled_dict s : read_state (pickled_dict s) = Some (map (fun kn => (fst kn, persisted (snd kn))) s).
  Proof.
    unfold read_state, pickled_dict.
    apply (r_items_map r_node (fun n => VSensor (node_attrs_pickled (persisted n))) persisted).
    intro n. apply r_node_attrs_pickled.
  Qed.

  Lemma persisted_load s : map (fun kn => (fst kn, persisted (snd kn))) s = load_tree (proj s).
  Proof.
    unfold load_tree, proj. rewrite map_map. apply map_ext. intros [k n]. cbn [fst snd].
    unfold persisted, load_node, proj_node. cbn. rewrite map_map. f_equal. f_equal.
    rewrite <- (map_pair_id (n_children n)) at 1. apply map_ext. intros [c ch]. destruct ch; reflexivity.
  Qed.
End Pickle.

(* ================================================================ both formats; heuristics *)
Lemma proj_load_tree t : proj (load_tree t) = t.
Proof.
  unfold proj, load_tree. rewrite map_map. rewrite <- (map_pair_id t) at 2. apply map_ext. intros [k n].
  cbn [fst snd]. f_equal. unfold proj_node, load_node. cbn. rewrite map_map. destruct n; cbn. f_equal.
  rewrite <- (map_pair_id pn_children) at 2. apply map_ext. intros [c ch]. destruct ch; reflexivity.
Qed.

Section Formats.
  Variable ver_ok : pstr -> bool.

  Lemma wf_attr_ok s : wf_tree ver_ok (proj s) -> NoDup (map fst s) /\ Forall (fun kn => attr_ok ver_ok (snd kn)) s.
  Proof.
    intros [[N _] F]. split.
    - unfold proj in N. rewrite map_map in N. exact N.
    - unfold proj in F. rewrite Forall_map in F. revert F. apply Forall_impl. intros [k n] (_ & _ & B & V).
      split; assumption.
  Qed.

  Theorem json_restore_save s : wf_tree ver_ok (proj s) ->
    json_restore ver_ok (json_save s) = Ok (Some (load_tree (proj s))).
  Proof.
    intro W. unfold json_restore, json_save. rewrite (json_load_enc ver_ok _ W). cbn [bind].
    rewrite read_state_dict. reflexivity.
  Qed.

  Theorem pickle_restore_save s : wf_tree ver_ok (proj s) ->
    pickle_restore ver_ok (pickle_save s) = Ok (Some (load_tree (proj s))).
  Proof.
    intro W. destruct (wf_attr_ok s W) as [N F]. unfold pickle_restore.
    rewrite (pickle_load_save ver_ok s N F). cbn [bind]. rewrite read_pickled_dict, persisted_load. reflexivity.
  Qed.

  (* ---- which heuristic fires on which object of an encoded tree ---- *)
  Lemma all_objs_values vals : all_objs (enc_values vals) = [map (fun kv => enc_key (fst kv)) vals].
  Proof.
    unfold enc_values. cbn [all_objs]. rewrite map_map. cbn [fst]. f_equal.
    induction vals as [|[k v] vals IH]; [reflexivity|]. cbn [map flat_map snd]. rewrite IH. destruct v; reflexivity.
  Qed.

  Lemma all_objs_child c : all_objs (enc_child c) = map snd (objs_child c).
  Proof.
    unfold enc_child, objs_child. cbn [all_objs map fst snd flat_map]. rewrite all_objs_values. reflexivity.
  Qed.

  Lemma all_objs_children chs :
    all_objs (enc_children chs)
    = map (fun kc => enc_key (fst kc)) chs :: map snd (flat_map (fun kc => objs_child (snd kc)) chs).
  Proof.
    unfold enc_children. cbn [all_objs]. rewrite map_map. cbn [fst]. f_equal.
    induction chs as [|[k c] chs IH]; [reflexivity|]. cbn [map flat_map snd]. rewrite IH, all_objs_child, map_app.
    reflexivity.
  Qed.

  Lemma all_objs_optZ o : all_objs (enc_optZ o) = []. Proof. destruct o; reflexivity. Qed.
  Lemma all_objs_optstr o : all_objs (enc_optstr o) = []. Proof. destruct o; reflexivity. Qed.

  Lemma all_objs_node n : all_objs (enc_node n) = map snd (objs_node n).
  Proof.
    unfold enc_node, objs_node. cbn [all_objs map fst snd flat_map].
    rewrite all_objs_children, all_objs_optZ, !all_objs_optstr. cbn [app]. rewrite app_nil_r. reflexivity.
  Qed.

  (* objs_tree enumerates exactly the objects of the document *)
  Theorem all_objs_tree t : all_objs (enc_json t) = map snd (objs_tree t).
  Proof.
    unfold enc_json, objs_tree. cbn [all_objs map snd]. rewrite map_map. cbn [fst]. f_equal.
    induction t as [|[k n] t IH]; [reflexivity|]. cbn [map flat_map snd]. rewrite IH, all_objs_node, map_app.
    reflexivity.
  Qed.

  Definition fires_as_expected (ro : role * list pstr) : Prop := branch_of (snd ro) = expected_branch (fst ro).

  Lemma fires_child c : keys_ok (pc_values c) -> Forall fires_as_expected (objs_child c).
  Proof.
    intros [_ P]. unfold objs_child. constructor; [reflexivity|]. constructor; [|constructor].
    unfold fires_as_expected. cbn [fst snd expected_branch]. apply branch_digits. apply keys_digits. exact P.
  Qed.

  Lemma fires_node n : wf_pnode ver_ok n -> Forall fires_as_expected (objs_node n).
  Proof.
    intros ([_ P] & F & _). unfold objs_node. constructor; [reflexivity|]. constructor.
    - unfold fires_as_expected. cbn [fst snd expected_branch]. apply branch_digits. apply keys_digits. exact P.
    - clear P. induction F as [|[k c] chs H _ IH]; [constructor|]. cbn [flat_map snd].
      apply Forall_app. split; [apply fires_child; exact H|exact IH].
  Qed.

  Theorem fires_tree t : wf_tree ver_ok t -> Forall fires_as_expected (objs_tree t).
  Proof.
    intros [[_ P] F]. unfold objs_tree. constructor.
    - unfold fires_as_expected. cbn [fst snd expected_branch]. apply branch_digits. apply keys_digits. exact P.
    - clear P. induction F as [|[k n] t H _ IH]; [constructor|]. cbn [flat_map snd].
      apply Forall_app. split; [apply fires_node; exact H|exact IH].
  Qed.
End Formats.

(* ================================================================ shape, statements, examples *)
(* ---------------------------------------------------------------- the source shape *)
Lemma src_encoder_sensor : gen_enc_sensor = enc_sensor_shape. Proof. reflexivity. Qed.
Lemma src_encoder_child : gen_enc_child = enc_child_shape. Proof. reflexivity. Qed.
Lemma src_encoder_shape : gen_enc_shape = enc_shape. Proof. reflexivity. Qed.
Lemma src_hook_branches : gen_hook = hook_shape. Proof. reflexivity. Qed.
Lemma src_io : gen_io = io_shape. Proof. reflexivity. Qed.
Lemma src_sensor_init : gen_sensor_init = sensor_init_shape. Proof. reflexivity. Qed.
Lemma src_setters : gen_setters = setters_shape. Proof. reflexivity. Qed.
Lemma src_readonly : gen_readonly_props = readonly_shape. Proof. reflexivity. Qed.
Lemma src_getstate_attrs : gen_getstate_attrs = getstate_attrs. Proof. reflexivity. Qed.
Lemma src_setstate_resets : gen_setstate_resets = setstate_resets_shape. Proof. reflexivity. Qed.
Lemma src_setstate_default : gen_setstate_default = setstate_default_shape. Proof. reflexivity. Qed.
Lemma src_child_init : gen_child_init = child_init_shape. Proof. reflexivity. Qed.
Lemma src_child_sig : gen_child_sig = child_sig_shape. Proof. reflexivity. Qed.
Lemma src_child_setstate_default : gen_child_setstate_default = child_setstate_default_shape. Proof. reflexivity. Qed.
Lemma src_validators : gen_validators = validators_shape. Proof. reflexivity. Qed.

Definition source_shape_ok : Prop :=
  gen_enc_sensor = enc_sensor_shape /\ gen_enc_child = enc_child_shape /\ gen_enc_shape = enc_shape /\
  gen_hook = hook_shape /\ gen_io = io_shape /\ gen_sensor_init = sensor_init_shape /\
  gen_setters = setters_shape /\ gen_readonly_props = readonly_shape /\ gen_getstate_attrs = getstate_attrs /\
  gen_setstate_resets = setstate_resets_shape /\ gen_setstate_default = setstate_default_shape /\
  gen_child_init = child_init_shape /\ gen_child_sig = child_sig_shape /\
  gen_child_setstate_default = child_setstate_default_shape /\ gen_validators = validators_shape.

Lemma source_shape_holds : source_shape_ok.
Proof.
  exact (conj src_encoder_sensor (conj src_encoder_child (conj src_encoder_shape (conj src_hook_branches
         (conj src_io (conj src_sensor_init (conj src_setters (conj src_readonly (conj src_getstate_attrs
         (conj src_setstate_resets (conj src_setstate_default (conj src_child_init (conj src_child_sig
         (conj src_child_setstate_default src_validators)))))))))))))).
Qed.

(* ---------------------------------------------------------------- transient state *)
Definition transient_empty (kn : Z * node) : Prop :=
  n_new (snd kn) = [] /\ n_queue (snd kn) = [] /\ n_reboot (snd kn) = false.

Lemma load_tree_transient t : Forall transient_empty (load_tree t).
Proof. unfold load_tree. rewrite Forall_map. apply Forall_forall. intros [k n] _. repeat split. Qed.

Lemma persisted_eq n : persisted n = load_node (proj_node n).
Proof.
  unfold persisted, load_node, proj_node. cbn. rewrite map_map. f_equal.
  rewrite <- (map_pair_id (n_children n)) at 1. apply map_ext. intros [c ch]. destruct ch; reflexivity.
Qed.

Section Statements.
  Variable ver_ok : pstr -> bool.

  (* Sensor.__getstate__ then __new__ + __setstate__ on one node, read back *)
  Definition pickle_node (n : node) : res (option node) :=
    do a <- setstate ver_ok (getstate (node_attrs n)); Ok (r_node (VSensor a)).

  Theorem pickle_node_roundtrip n : attr_ok ver_ok n -> pickle_node n = Ok (Some (load_node (proj_node n))).
  Proof.
    intro A. unfold pickle_node. rewrite getstate_node, (setstate_node ver_ok n A). cbn [bind].
    rewrite r_node_attrs_pickled, persisted_eq. reflexivity.
  Qed.

  Theorem pickle_node_exact n : attr_ok ver_ok n ->
    setstate ver_ok (getstate (node_attrs n)) = Ok (node_attrs_pickled (persisted n)).
  Proof. intro A. rewrite getstate_node. apply setstate_node. exact A. Qed.

  Theorem pickle_roundtrip_thm n : attr_ok ver_ok n ->
    setstate ver_ok (getstate (node_attrs n)) = Ok (node_attrs_pickled (persisted n)) /\
    pickle_node n = Ok (Some (load_node (proj_node n))).
  Proof. intro A. exact (conj (pickle_node_exact n A) (pickle_node_roundtrip n A)). Qed.

  Theorem formats_agree_thm s : wf_tree ver_ok (proj s) ->
    json_restore ver_ok (json_save s) = Ok (Some (load_tree (proj s))) /\
    pickle_restore ver_ok (pickle_save s) = Ok (Some (load_tree (proj s))) /\
    Forall transient_empty (load_tree (proj s)).
  Proof.
    intro W. split; [apply json_restore_save; exact W|]. split; [apply pickle_restore_save; exact W|].
    apply load_tree_transient.
  Qed.

  Lemma wf_restart t : wf_tree ver_ok t -> wf_tree ver_ok (proj (load_tree t)).
  Proof. rewrite proj_load_tree. tauto. Qed.
End Statements.

(* ---------------------------------------------------------------- examples and witnesses *)
Definition ok_all : pstr -> bool := fun _ => true.
Definition ok_none : pstr -> bool := fun _ => false.
Definition ok_22 : pstr -> bool := fun s => pstr_eqb s (s2p "2.2").

(* node 0: no type, no children; node 255: a child without values and with the empty
   description, a child with astral / NUL code points in the description, an empty value and a
   value that looks like an encoded Sensor *)
Definition ex_tree : tree :=
  [(0, mkPNode 0 [] None None None 0 (s2p "1.4") 0);
   (255, mkPNode 255
           [(0, mkPChild 0 6 [] []);
            (254, mkPChild 254 38 [128512; 1114111; 0]%N
                    [(0, PS []); (47, PS (s2p "{""sensor_id"": 1}")); (2, PI 7)])]
           (Some 17) (Some (s2p "sensor_id")) (Some []) 100 (s2p "2.2") (-5))].

Ltac nodup := repeat (constructor; [simpl; intuition discriminate|]); constructor.
Ltac allpos := repeat (constructor; [lia|]); constructor.

Example ex_tree_wf : wf_tree ok_22 ex_tree.
Proof.
  unfold wf_tree, keys_ok, ex_tree. simpl. split; [split; [nodup|allpos]|].
  constructor; [|constructor; [|constructor]]; unfold wf_pnode, keys_ok; simpl.
  - split; [split; constructor|]. split; [constructor|]. split; [lia|]. right. reflexivity.
  - split; [split; [nodup|allpos]|]. split.
    + constructor; [split; constructor|]. constructor; [|constructor]. simpl. split; [nodup|allpos].
    + split; [lia|]. left. reflexivity.
Qed.

Example ex_tree_json : json_load ok_22 (enc_json ex_tree) = Ok (state_dict (load_tree ex_tree)).
Proof. vm_compute. reflexivity. Qed.

Definition ex_state : list (Z * node) :=
  [(7, mkNode 7 [(1, mkChild 1 3 (s2p "lamp") [(2, PS (s2p "1"))])] (Some 17) None None 50 (s2p "2.2") 12
         [(1, [(2, Some (PS (s2p "0"))); (3, None)])] [s2p "7;1;1;0;2;0"; s2p "7;255;3;0;13;"] true)].

Example ex_state_transient_not_empty : ~ Forall transient_empty ex_state.
Proof. intro H. apply Forall_inv in H. destruct H as [H _]. discriminate H. Qed.

Example ex_state_formats :
  json_restore ok_22 (json_save ex_state) = Ok (Some (load_tree (proj ex_state))) /\
  pickle_restore ok_22 (pickle_save ex_state) = Ok (Some (load_tree (proj ex_state))).
Proof. split; vm_compute; reflexivity. Qed.

(* the pickled state really contains the transient attributes *)
Example ex_pickle_contains_transient :
  match ex_state with
  | (_, n) :: _ => aget k_reboot (getstate (node_attrs n)) = Some (VBool true)
                   /\ aget k_queue (getstate (node_attrs n)) = Some (VDeque (n_queue n))
  | [] => False
  end.
Proof. split; reflexivity. Qed.

(* ---- outside wf_tree ---- *)
Definition plain_node (id : Z) : pnode := mkPNode id [] None None None 0 (s2p "1.4") 0.

(* a negative node id: "-1" is not isdigit, the top-level dict comes back keyed by STRINGS *)
Definition t_neg_node : tree := [(-1, plain_node (-1))].
Lemma neg_node_result :
  json_load ok_all (enc_json t_neg_node) = Ok [(KStr (s2p "-1"), VSensor (node_attrs (new_node (-1))))].
Proof. vm_compute. reflexivity. Qed.

Lemma json_roundtrip_unconditioned_false :
  exists ver_ok t, json_load ver_ok (enc_json t) <> Ok (state_dict (load_tree t)).
Proof. exists ok_all. exists t_neg_node. rewrite neg_node_result. vm_compute. discriminate. Qed.

Lemma neg_node_unreadable : json_restore ok_all (enc_json t_neg_node) = Ok None.
Proof. vm_compute. reflexivity. Qed.

(* one negative value type poisons the whole values dict: even key 3 comes back as "3" *)
Definition t_neg_vt : tree :=
  [(1, mkPNode 1 [(2, mkPChild 2 0 [] [(-1, PS (s2p "x")); (3, PS (s2p "y"))])] None None None 0 (s2p "1.4") 0)].
Lemma neg_value_type_result :
  exists a, json_load ok_all (enc_json t_neg_vt) = Ok [(KInt 1, VSensor a)] /\
    aget k_children a =
      Some (VDict [(KInt 2, VChild [(k_id, VInt 2); (k_type, VInt 0); (k_description, VStr []);
                                    (k_values, VDict [(KStr (s2p "-1"), VStr (s2p "x")); (KStr (s2p "3"), VStr (s2p "y"))])])]).
Proof. eexists. split; vm_compute; reflexivity. Qed.

Lemma hook_misfire_outside_wf : exists t, ~ Forall fires_as_expected (objs_tree t).
Proof.
  exists t_neg_vt. intro H. rewrite Forall_forall in H.
  specialize (H (RValues, [s2p "-1"; s2p "3"])).
  assert (I : In (RValues, [s2p "-1"; s2p "3"]) (objs_tree t_neg_vt)) by (vm_compute; tauto).
  specialize (H I). vm_compute in H. discriminate H.
Qed.

(* attributes outside the ranges the setters keep *)
Definition t_batt : tree := [(1, mkPNode 1 [] None None None 500 (s2p "1.4") 0)].
Lemma battery_out_of_range_result :
  json_restore ok_all (enc_json t_batt) = Ok (Some [(1, new_node 1)]) /\
  pickle_node ok_all (mkNode 1 [] None None None 500 (s2p "1.4") 0 [] [] false) = Ok (Some (new_node 1)).
Proof. split; vm_compute; reflexivity. Qed.

Definition t_pver : tree := [(1, mkPNode 1 [] None None None 0 (s2p "1.3") 0)].
Lemma rejected_version_result : json_restore ok_none (enc_json t_pver) = Ok (Some [(1, new_node 1)]).
Proof. vm_compute. reflexivity. Qed.

Lemma pickle_roundtrip_unconditioned_false :
  exists ver_ok n, pickle_node ver_ok n <> Ok (Some (load_node (proj_node n))).
Proof.
  exists ok_all. exists (mkNode 1 [] None None None 500 (s2p "1.4") 0 [] [] false).
  destruct battery_out_of_range_result as [_ E]. rewrite E. vm_compute. discriminate.
Qed.

(* ---- the heuristics on documents the encoder does not write ---- *)
Definition J (s : string) : pstr := s2p s.

(* all(k.isdigit() for k in {}) is vacuously true: the empty dict takes the int-key branch *)
Lemma corner_empty_dict : branch_of [] = BIntKeys /\ dec_json ok_all (JObj []) = Ok (VDict []).
Proof. split; reflexivity. Qed.
(* a str-keyed dict whose keys are digit strings comes back int-keyed *)
Lemma corner_digit_string_keys :
  dec_json ok_all (JObj [(J "7", JStr (J "x"))]) = Ok (VDict [(KInt 7, VStr (J "x"))]).
Proof. vm_compute. reflexivity. Qed.
(* any dict with a member "sensor_id" becomes a Sensor, every other member an attribute *)
Lemma corner_sensor_id_member :
  exists a, dec_json ok_all (JObj [(J "note", JStr (J "x")); (J "sensor_id", JInt 1)]) = Ok (VSensor a)
            /\ aget (J "note") a = Some (VStr (J "x")).
Proof. eexists. split; vm_compute; reflexivity. Qed.
(* any dict with members id, type, values becomes a ChildSensor; further members are dropped *)
Lemma corner_child_members :
  dec_json ok_all (JObj [(J "values", JInt 3); (J "type", JInt 2); (J "id", JInt 1); (J "extra", JInt 4)])
  = Ok (VChild [(k_id, VInt 1); (k_type, VInt 2); (k_description, VStr []); (k_values, VInt 3)]).
Proof. vm_compute. reflexivity. Qed.
(* isdigit() is wider than what int() accepts: SUPERSCRIPT TWO *)
Lemma corner_isdigit_not_decimal : dec_json ok_all (JObj [([178%N], JInt 1)]) = Raise ValueError.
Proof. vm_compute. reflexivity. Qed.
(* ARABIC-INDIC DIGIT ONE and "1" collide after int() *)
Lemma corner_digit_keys_collide :
  dec_json ok_all (JObj [([1633%N], JInt 1); (J "1", JInt 2)]) = Ok (VDict [(KInt 1, VInt 2)]).
Proof. vm_compute. reflexivity. Qed.
(* the decoder itself does not reset transient attributes: only the encoder never writes them *)
Lemma corner_transient_in_document :
  exists a, dec_json ok_all (JObj [(J "sensor_id", JInt 1); (J "reboot", JInt 1)]) = Ok (VSensor a)
            /\ aget k_reboot a = Some (VInt 1).
Proof. eexists. split; vm_compute; reflexivity. Qed.
Lemma corner_readonly_property :
  dec_json ok_all (JObj [(J "sensor_id", JInt 1); (J "is_smart_sleep_node", JInt 1)]) = Raise AttributeError.
Proof. vm_compute. reflexivity. Qed.
(* the underscored attribute bypasses the setter *)
Lemma corner_underscore_bypasses_setter :
  exists a, dec_json ok_all (JObj [(J "sensor_id", JInt 1); (J "_battery_level", JInt 500)]) = Ok (VSensor a)
            /\ aget k__battery_level a = Some (VInt 500).
Proof. eexists. split; vm_compute; reflexivity. Qed.
(* a pickle written before heartbeats existed: the default is installed *)
Lemma corner_old_pickle_without_heartbeat :
  exists a, setstate ok_all [(k_sensor_id, VInt 1); (k_children, VDict []); (k_type, VNone);
                             (k_sketch_name, VNone); (k_sketch_version, VNone); (k_battery_level, VInt 7);
                             (k_protocol_version, VStr (J "2.0"))] = Ok a
            /\ r_node (VSensor a) = Some (mkNode 1 [] None None None 7 (J "2.0") 0 [] [] false).
Proof. eexists. split; vm_compute; reflexivity. Qed.
