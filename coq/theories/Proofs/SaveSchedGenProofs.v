(* C15 - the generic theorems of SaveSchedProofs.v instantiated with the shape that
   harness/translate/sched_ast.py read from the working tree (Gen/SchedAst.v).
   [gen_good] is the one obligation that depends on the code: it is re-checked by
   computation on every run. *)
From Coq Require Import List ZArith Bool Arith.
From PMS Require Import Model.SaveSched Gen.SchedAst Proofs.SaveSchedProofs.
Import ListNotations.

Lemma gen_good : good gen_cfg = true.
Proof. vm_compute. reflexivity. Qed.

(* the live MRO facts the catch rows rest on *)
Lemma gen_mro :
  sub_OSError_Exception = true /\ sub_RuntimeError_Exception = true /\ sub_CancelledError_Exception = false.
Proof. vm_compute. repeat split; reflexivity. Qed.

Definition c15_no_lost_update fl pol := no_lost_update_gen gen_cfg fl pol gen_good.
Definition c15_schedule_survives fl pol := schedule_survives_gen gen_cfg fl pol gen_good.
Definition c15_every_fire_rearms fl pol := every_fire_rearms_gen gen_cfg fl pol gen_good.
Definition c15_failed_save fl pol := failed_save_gen gen_cfg fl pol gen_good.
Definition c15_ok_save fl pol := ok_save_gen gen_cfg fl pol gen_good.
Definition c15_load0_at_begin fl pol := load0_at_begin_gen gen_cfg fl pol gen_good.
Definition c15_load0_kept fl pol := load0_kept_gen gen_cfg fl pol gen_good.
Definition c15_next_success fl pol := next_success_gen gen_cfg fl pol gen_good.
Definition c15_stop_persists fl pol := stop_persists_gen gen_cfg fl pol gen_good.
