(* C04 / C14 / C06 core: the EFFECT of every handler and of the dispatcher on the persisted tree,
   the callback log, the dirty flag and the job queue, as one relation `eff`. *)
From Coq Require Import List NArith ZArith Bool String Lia.
From PMS Require Import Base.PyStr Base.PyInt Base.Exn Model.Codec Model.Rules Model.TableTypes
  Gen.Tables Model.Validate Model.Hex Model.Ota Model.Oracles Model.Gateway Spec.SerialApi
  Proofs.PyStrFacts Proofs.PyIntFacts Proofs.CodecProofs Proofs.ValidateProofs Proofs.GwLemmas Proofs.GwInv
  Spec.TreeMeaning.
Import ListNotations.
Open Scope string_scope.
Open Scope list_scope.
Open Scope Z_scope.

(* ------------------------------------------------------------ keyed lists under a value map *)
Definition zmap {A B} (f : A -> B) (l : list (Z * A)) : list (Z * B) :=
  map (fun kx => (fst kx, f (snd kx))) l.

Lemma proj_zmap s : proj s = zmap proj_node s.
Proof. reflexivity. Qed.

Lemma zassoc_zmap {A B} (f : A -> B) k l : zassoc k (zmap f l) = option_map f (zassoc k l).
Proof.
  induction l as [|[k' a] l IH]; simpl; [reflexivity|].
  destruct (Z.eqb k k'); [reflexivity|exact IH].
Qed.

Lemma zhas_zmap {A B} (f : A -> B) k l : zhas k (zmap f l) = zhas k l.
Proof. unfold zhas. rewrite zassoc_zmap. destruct (zassoc k l); reflexivity. Qed.

Lemma zset_zmap {A B} (f : A -> B) k a l : zmap f (zset k a l) = zset k (f a) (zmap f l).
Proof.
  induction l as [|[k' a'] l IH]; simpl; [reflexivity|].
  destruct (Z.eqb k k'); simpl; [reflexivity|]. rewrite IH. reflexivity.
Qed.

Lemma zmap_app {A B} (f : A -> B) l1 l2 : zmap f (l1 ++ l2) = zmap f l1 ++ zmap f l2.
Proof. apply map_app. Qed.

Lemma keys_zmap {A B} (f : A -> B) l : map fst (zmap f l) = map fst l.
Proof. unfold zmap. rewrite map_map. reflexivity. Qed.

Lemma zset_same_id {A} k (a : A) l : zassoc k l = Some a -> zset k a l = l.
Proof.
  induction l as [|[k' a'] l IH]; simpl; [discriminate|].
  destruct (Z.eqb_spec k k').
  - intro H. inversion H. subst. reflexivity.
  - intro H. rewrite (IH H). reflexivity.
Qed.

Lemma zhas_assoc {A} k (l : list (Z * A)) : zhas k l = match zassoc k l with Some _ => true | None => false end.
Proof. reflexivity. Qed.

Lemma zhas_false {A} k (l : list (Z * A)) : zhas k l = false -> zassoc k l = None.
Proof. unfold zhas. destruct (zassoc k l); [discriminate|reflexivity]. Qed.

Lemma zhas_In {A} k (l : list (Z * A)) : zhas k l = true <-> In k (map fst l).
Proof.
  induction l as [|[k' a] l IH]; simpl.
  - unfold zhas. simpl. split; [discriminate|tauto].
  - unfold zhas in *. simpl. destruct (Z.eqb_spec k k').
    + subst. split; auto.
    + rewrite IH. split; [auto|]. intros [E|I]; [congruence|exact I].
Qed.

Lemma keys_zset {A} k (a : A) l : forall x, In x (map fst (zset k a l)) <-> x = k \/ In x (map fst l).
Proof.
  induction l as [|[k' a'] l IH]; intro x; simpl.
  - split; [intros [E|[]]; left; congruence|intros [E|[]]; left; congruence].
  - destruct (Z.eqb_spec k k'); simpl.
    + subst. split; [intros [E|I]; auto|intros [E|[E|I]]; auto].
    + rewrite IH. split; [intros [E|[E|I]]; auto|intros [E|[E|I]]; auto].
Qed.

Lemma zhas_zset {A} k (a : A) l x : zhas x (zset k a l) = (x =? k) || zhas x l.
Proof.
  destruct (zhas x (zset k a l)) eqn:E1; symmetry.
  - apply zhas_In in E1. apply keys_zset in E1 as [->|I]; [rewrite Z.eqb_refl; reflexivity|].
    apply zhas_In in I. rewrite I. apply orb_true_r.
  - apply orb_false_iff. split.
    + destruct (Z.eqb_spec x k); [|reflexivity]. subst.
      assert (zhas k (zset k a l) = true) by (apply zhas_In, keys_zset; auto). congruence.
    + destruct (zhas x l) eqn:E2; [|reflexivity]. apply zhas_In in E2.
      assert (zhas x (zset k a l) = true) by (apply zhas_In, keys_zset; auto). congruence.
Qed.

Lemma zhas_app {A} k (l1 l2 : list (Z * A)) : zhas k (l1 ++ l2) = zhas k l1 || zhas k l2.
Proof. unfold zhas. rewrite zassoc_app. destruct (zassoc k l1); reflexivity. Qed.

(* ------------------------------------------------------------ the spec's tree operations *)
Lemma tupd_none k f t : zassoc k t = None -> tupd k f t = t.
Proof. unfold tupd. intros ->. reflexivity. Qed.

Lemma tupd_id k f t n : zassoc k t = Some n -> f n = n -> tupd k f t = t.
Proof. unfold tupd. intros E F. rewrite E, F. apply zset_same_id. exact E. Qed.

Lemma fold_max_ge l : forall a, a <= fold_left Z.max l a /\ forall x, In x l -> x <= fold_left Z.max l a.
Proof.
  induction l as [|y l IH]; intro a; simpl; [split; [lia|tauto]|].
  destruct (IH (Z.max a y)) as [A B]. split; [lia|].
  intros x [->|I]; [lia|auto].
Qed.

Lemma tnext_gt t k : zhas k t = true -> k < tnext t.
Proof.
  intro H. apply zhas_In in H. unfold tnext. destruct t as [|[k0 n0] r]; [destruct H|].
  simpl in H. destruct (fold_max_ge (map fst r) k0) as [A B].
  destruct H as [->|I]; [lia|]. specialize (B _ I). lia.
Qed.

Lemma tnext_fresh t : zhas (tnext t) t = false.
Proof. destruct (zhas (tnext t) t) eqn:E; [|reflexivity]. apply tnext_gt in E. lia. Qed.

Lemma tnext_proj s :
  tnext (proj s) =
  match s with
  | [] => 1
  | _ => fold_left Z.max (map fst s) (fst (hd (0, new_node 0) s)) + 1
  end.
Proof.
  destruct s as [|[k n] r]; [reflexivity|]. unfold tnext, proj. cbn [map fst snd hd fold_left].
  rewrite Z.max_id. change (map (fun kn => (fst kn, proj_node (snd kn))) r) with (zmap proj_node r).
  rewrite keys_zmap. reflexivity.
Qed.

(* ------------------------------------------------------------ effects *)
Definition is_cb (e : event) : bool := match e with ECallback _ _ => true | _ => false end.
Definition cbs (l : list event) : list event := filter is_cb l.
Definition is_jsend (j : job) : bool := match j with JSend _ => true | JLogic _ => false end.

Lemma cbs_app a b : cbs (a ++ b) = cbs a ++ cbs b.
Proof. apply filter_app. Qed.

(* the log grows by ext, the job queue by js *)
Definition grows (g g' : gw) (ext : list event) (js : list job) : Prop :=
  g_log g' = g_log g ++ ext /\ g_jobs g' = g_jobs g ++ js /\ forallb is_jsend js = true /\
  (cf_async (g_cf g) = true -> js = []).

(* a step that calls no callback and leaves the flag: configuration and flag kept, only sends logged,
   only send jobs queued (none in the asyncio flavour) *)
Definition quiet (g g' : gw) : Prop :=
  g_cf g' = g_cf g /\ g_dirty g' = g_dirty g /\ exists ext js, grows g g' ext js /\ cbs ext = [].

(* the effect of processing one message: the tree afterwards is t'; al = Some m when alert(m) ran:
   then exactly one callback event (if a callback is configured), whose snapshot is the tree
   AFTER the update, and the flag is set (if persistence is enabled); otherwise none / kept *)
Definition eff (g g' : gw) (t' : tree) (al : option msg) : Prop :=
  g_cf g' = g_cf g /\ proj (g_sensors g') = t' /\
  g_dirty g' = match al with
               | Some _ => if cf_persist (g_cf g) then true else g_dirty g
               | None => g_dirty g
               end /\
  exists ext js, grows g g' ext js /\
    cbs ext = match al with
              | Some m => if cf_callback (g_cf g) then [ECallback m t'] else []
              | None => []
              end.

Lemma grows_nil g g' : g_log g' = g_log g -> g_jobs g' = g_jobs g -> grows g g' [] [].
Proof.
  intros L J. unfold grows. rewrite !app_nil_r. split; [exact L|]. split; [exact J|].
  split; [reflexivity|]. intros _. reflexivity.
Qed.

Lemma quiet_refl g : quiet g g.
Proof.
  split; [reflexivity|]. split; [reflexivity|]. exists [], []. split; [|reflexivity].
  apply grows_nil; reflexivity.
Qed.

Lemma grows_trans g1 g2 g3 e1 j1 e2 j2 : g_cf g2 = g_cf g1 ->
  grows g1 g2 e1 j1 -> grows g2 g3 e2 j2 -> grows g1 g3 (e1 ++ e2) (j1 ++ j2).
Proof.
  intros C (L1 & J1 & F1 & A1) (L2 & J2 & F2 & A2). rewrite C in A2.
  repeat split.
  - rewrite L2, L1, app_assoc. reflexivity.
  - rewrite J2, J1, app_assoc. reflexivity.
  - rewrite forallb_app, F1, F2. reflexivity.
  - intro A. rewrite (A1 A), (A2 A). reflexivity.
Qed.

Lemma quiet_trans g1 g2 g3 : quiet g1 g2 -> quiet g2 g3 -> quiet g1 g3.
Proof.
  intros (C1 & D1 & e1 & j1 & G1 & B1) (C2 & D2 & e2 & j2 & G2 & B2).
  split; [congruence|]. split; [congruence|]. exists (e1 ++ e2), (j1 ++ j2).
  split; [eapply grows_trans; eassumption|]. rewrite cbs_app, B1, B2. reflexivity.
Qed.

(* everything but the listed fields equal: quiet *)
Lemma quiet_fields g g' : g_cf g' = g_cf g -> g_dirty g' = g_dirty g -> g_log g' = g_log g ->
  g_jobs g' = g_jobs g -> quiet g g'.
Proof.
  intros C D L J. split; [exact C|]. split; [exact D|]. exists [], []. split; [|reflexivity].
  apply grows_nil; assumption.
Qed.

Lemma quiet_set_sensors g s : quiet g (set_sensors g s).
Proof. apply quiet_fields; reflexivity. Qed.
Lemma quiet_put_node g nd : quiet g (put_node g nd).
Proof. apply quiet_fields; reflexivity. Qed.
Lemma quiet_set_ota g o : quiet g (set_ota g o).
Proof. apply quiet_fields; reflexivity. Qed.
Lemma quiet_set_metric g b : quiet g (set_metric g b).
Proof. apply quiet_fields; reflexivity. Qed.
Lemma quiet_add_sensor g k : quiet g (add_sensor g k).
Proof. unfold add_sensor. destruct (zhas k (g_sensors g)); [apply quiet_refl|apply quiet_set_sensors]. Qed.

Lemma quiet_emit g e : is_cb e = false -> quiet g (emit g e).
Proof.
  intro E. split; [reflexivity|]. split; [reflexivity|]. exists [e], []. split.
  - unfold grows. rewrite app_nil_r. split; [reflexivity|]. split; [reflexivity|].
    split; [reflexivity|]. intros _. reflexivity.
  - unfold cbs. simpl. rewrite E. reflexivity.
Qed.

Lemma quiet_send g l : quiet g (send g l).
Proof. unfold send. destruct l; [apply quiet_refl|apply quiet_emit; reflexivity]. Qed.

Lemma quiet_add_job_send g l : quiet g (add_job_send g l).
Proof.
  unfold add_job_send. destruct (cf_async (g_cf g)) eqn:A; [apply quiet_send|].
  split; [reflexivity|]. split; [reflexivity|]. exists [], [JSend l]. split; [|reflexivity].
  unfold grows. rewrite app_nil_r, A. split; [reflexivity|]. split; [reflexivity|].
  split; [reflexivity|]. discriminate.
Qed.

Lemma quiet_fold_add_job_send ls g : quiet g (fold_left add_job_send ls g).
Proof.
  revert g. induction ls as [|l ls IH]; intro g; simpl; [apply quiet_refl|].
  eapply quiet_trans; [apply quiet_add_job_send|apply IH].
Qed.

Lemma sensors_send g l : g_sensors (send g l) = g_sensors g.
Proof. destruct (send_frame g l) as (H & _). exact H. Qed.
Lemma sensors_add_job g l : g_sensors (add_job_send g l) = g_sensors g.
Proof. destruct (add_job_send_frame g l) as (H & _). exact H. Qed.
Lemma sensors_fold_add_job ls g : g_sensors (fold_left add_job_send ls g) = g_sensors g.
Proof. destruct (fold_add_job_send_frame ls g) as (H & _). exact H. Qed.
Lemma sensors_alert g m : g_sensors (alert g m) = g_sensors g.
Proof. destruct (alert_frame g m) as (H & _). exact H. Qed.

Lemma eff_of_quiet g g' : quiet g g' -> eff g g' (proj (g_sensors g')) None.
Proof.
  intros (C & D & ext & js & G & B). split; [exact C|]. split; [reflexivity|]. split; [exact D|].
  exists ext, js. split; assumption.
Qed.

Lemma eff_quiet_before g g1 g' t al : quiet g g1 -> eff g1 g' t al -> eff g g' t al.
Proof.
  intros (C1 & D1 & e1 & j1 & G1 & B1) (C2 & T & D2 & e2 & j2 & G2 & B2).
  split; [congruence|]. split; [exact T|]. split; [rewrite D2, C1, D1; reflexivity|].
  exists (e1 ++ e2), (j1 ++ j2). split; [eapply grows_trans; eassumption|].
  rewrite cbs_app, B1, B2, C1. reflexivity.
Qed.

Lemma eff_quiet_after g g1 g' t al : eff g g1 t al -> quiet g1 g' ->
  proj (g_sensors g') = proj (g_sensors g1) -> eff g g' t al.
Proof.
  intros (C1 & T & D1 & e1 & j1 & G1 & B1) (C2 & D2 & e2 & j2 & G2 & B2) P.
  split; [congruence|]. split; [congruence|]. split; [congruence|].
  exists (e1 ++ e2), (j1 ++ j2). split; [eapply grows_trans; eassumption|].
  rewrite cbs_app, B1, B2, app_nil_r. reflexivity.
Qed.

(* Gateway.alert: the one place where the callback is invoked and the flag is set *)
Lemma eff_alert g m : eff g (alert g m) (proj (g_sensors g)) (Some m).
Proof.
  unfold eff, alert. destruct (cf_callback (g_cf g)) eqn:CB, (cf_persist (g_cf g)) eqn:PE;
    (split; [reflexivity|]); (split; [reflexivity|]); (split; [reflexivity|]).
  - exists [ECallback m (proj (g_sensors g))], []. split; [|reflexivity].
    unfold grows. cbn. rewrite app_nil_r. repeat split; reflexivity.
  - exists [ECallback m (proj (g_sensors g))], []. split; [|reflexivity].
    unfold grows. cbn. rewrite app_nil_r. repeat split; reflexivity.
  - exists [], []. split; [|reflexivity]. apply grows_nil; reflexivity.
  - exists [], []. split; [|reflexivity]. apply grows_nil; reflexivity.
Qed.

Lemma eff_alert_after g g1 m : quiet g g1 -> eff g (alert g1 m) (proj (g_sensors g1)) (Some m).
Proof. intro Q. eapply eff_quiet_before; [exact Q|apply eff_alert]. Qed.

Lemma eff_cast g g' t t' al al' : eff g g' t al -> t = t' -> al = al' -> eff g g' t' al'.
Proof. intros E -> ->. exact E. Qed.

(* ------------------------------------------------------------ finite facts about the registry *)
Definition ikind (h : hfun) : kind :=
  match h with
  | HBattery => KBattery | HSketchName => KSketchName | HSketchVersion => KSketchVersion
  | HHeartbeat | HHeartbeat22 => KHeartbeat
  | HIdRequest => KIdRequest
  | HGatewayReady | HGatewayReady20 => KGatewayReady
  | _ => KOther
  end.
Definition okind (o : option hfun) : kind := match o with Some h => ikind h | None => KOther end.

Definition kind_eqb (a b : kind) : bool :=
  match a, b with
  | KNodePres, KNodePres | KChildPres, KChildPres | KSet, KSet | KBattery, KBattery
  | KSketchName, KSketchName | KSketchVersion, KSketchVersion | KHeartbeat, KHeartbeat
  | KIdRequest, KIdRequest | KGatewayReady, KGatewayReady | KStreamReq, KStreamReq | KOther, KOther => true
  | _, _ => false
  end.
Lemma kind_eqb_eq a b : kind_eqb a b = true -> a = b.
Proof. destruct a, b; simpl; intro H; try discriminate H; reflexivity. Qed.

(* stream sub-types resolve to the two OTA request handlers (0, 2) or to nothing *)
Definition stream_ok (o : option hfun) (s : Z) : bool :=
  match o with
  | Some HFwConfigReq | Some HFwReq => (s =? 0) || (s =? 2)
  | None => negb ((s =? 0) || (s =? 2))
  | _ => false
  end.

Definition registry_facts (v : ver) (t : vtab) : bool :=
  (vt_max_node t =? 254) &&
  forallb (fun s => kind_eqb (okind (sub_handler t 3 s)) (internal_kind v s)) (zrange (max_sub v 3)) &&
  forallb (fun s => stream_ok (sub_handler t 4 s) s) (zrange (max_sub v 4)).

Lemma registry_facts_all v : registry_facts v (tab_of v) = true.
Proof. destruct v; vm_compute; reflexivity. Qed.

Lemma registry_max_node v : vt_max_node (tab_of v) = 254.
Proof.
  pose proof (registry_facts_all v) as H. unfold registry_facts in H.
  apply andb_true_iff in H as [H _]. apply andb_true_iff in H as [H _]. apply Z.eqb_eq. exact H.
Qed.

Lemma registry_internal v s : between 0 (max_sub v 3) s = true ->
  okind (sub_handler (tab_of v) 3 s) = internal_kind v s.
Proof.
  intro B. pose proof (registry_facts_all v) as H. unfold registry_facts in H.
  apply andb_true_iff in H as [H _]. apply andb_true_iff in H as [_ H].
  rewrite forallb_forall in H. apply kind_eqb_eq. apply H. apply In_zrange. unfold between in B. lia.
Qed.

Lemma registry_stream v s : between 0 (max_sub v 4) s = true ->
  stream_ok (sub_handler (tab_of v) 4 s) s = true.
Proof.
  intro B. pose proof (registry_facts_all v) as H. unfold registry_facts in H.
  apply andb_true_iff in H as [_ H].
  rewrite forallb_forall in H. apply H. apply In_zrange. unfold between in B. lia.
Qed.

(* ------------------------------------------------------------ handlers *)
Section Effects.
  Variable orc : oracles.
  Variable clock : Z.

  Notation P g := (proj (g_sensors g)).

  Lemma known_proj g k : known (P g) k = zhas k (g_sensors g).
  Proof. unfold known. rewrite proj_zmap. apply zhas_zmap. Qed.

  Lemma assoc_proj g k : zassoc k (P g) = option_map proj_node (get_node g k).
  Proof. rewrite proj_zmap. apply zassoc_zmap. Qed.

  Lemma children_proj nd : pn_children (proj_node nd) = zmap proj_child (n_children nd).
  Proof. reflexivity. Qed.

  Lemma known_child_proj g k c :
    known_child (P g) k c = match get_node g k with Some nd => zhas c (n_children nd) | None => false end.
  Proof.
    unfold known_child. rewrite assoc_proj. destruct (get_node g k) as [nd|]; [|reflexivity].
    cbn [option_map]. rewrite children_proj. apply zhas_zmap.
  Qed.

  Lemma zhas_get g k : zhas k (g_sensors g) = match get_node g k with Some _ => true | None => false end.
  Proof. reflexivity. Qed.

  Lemma node_key g k nd : Inv orc g -> get_node g k = Some nd -> n_id nd = k.
  Proof. intros I G. pose proof (get_node_ok orc g k nd I G) as [K _]. exact K. Qed.

  Lemma proj_put_node g k nd nd' f : Inv orc g -> get_node g k = Some nd -> n_id nd' = n_id nd ->
    proj_node nd' = f (proj_node nd) -> P (put_node g nd') = tupd k f (P g).
  Proof.
    intros I G E F. pose proof (node_key g k nd I G) as K.
    unfold put_node. cbn [g_sensors set_sensors]. rewrite E, K.
    rewrite proj_zmap, zset_zmap, F. unfold tupd. rewrite assoc_proj, G. reflexivity.
  Qed.

  Lemma proj_put_same g k nd nd' : Inv orc g -> get_node g k = Some nd -> n_id nd' = n_id nd ->
    proj_node nd' = proj_node nd -> P (put_node g nd') = P g.
  Proof.
    intros I G E F. rewrite (proj_put_node g k nd nd' (fun n => n) I G E F).
    apply (tupd_id _ _ _ (proj_node nd)); [|reflexivity]. rewrite assoc_proj, G. reflexivity.
  Qed.

  Lemma proj_add_sensor g k : P (add_sensor g k) = tadd k (P g).
  Proof.
    unfold add_sensor, tadd. change (zhas k (P g)) with (known (P g) k). rewrite known_proj.
    destruct (zhas k (g_sensors g)); [reflexivity|].
    cbn [g_sensors set_sensors]. rewrite proj_zmap, zmap_app. reflexivity.
  Qed.

  (* ---- route ---- *)
  Lemma route_q g m : Inv orc g -> quiet g (fst (route g m)) /\ P (fst (route g m)) = P g.
  Proof.
    intro I. unfold route.
    destruct (m_type m =? vt_presentation (tab g)); [split; [apply quiet_refl|reflexivity]|].
    destruct (get_node g (m_node m)) as [nd|] eqn:G; [|split; [apply quiet_refl|reflexivity]].
    destruct ((m_type m =? vt_stream (tab g)) || negb (sleeping nd)); [split; [apply quiet_refl|reflexivity]|].
    cbn [fst]. split; [apply quiet_put_node|].
    eapply proj_put_same; [exact I|exact G|reflexivity|reflexivity].
  Qed.

  Lemma route_opt_q g r : Inv orc g -> quiet g (fst (route_opt g r)) /\ P (fst (route_opt g r)) = P g.
  Proof. destruct r; simpl; [apply route_q|intros _; split; [apply quiet_refl|reflexivity]]. Qed.

  (* ---- is_sensor ---- *)
  Definition is_known (g : gw) (sid : Z) (cid : option Z) : bool :=
    match get_node g sid with
    | None => false
    | Some nd => match cid with None => true | Some c => zhas c (n_children nd) end
    end.

  Lemma is_sensor_q g sid cid g1 b : Inv orc g -> is_sensor g sid cid = Ok (g1, b) ->
    quiet g g1 /\ P g1 = P g /\ b = is_known g sid cid /\ (b = true -> g1 = g).
  Proof.
    intros I. unfold is_sensor. fold (is_known g sid cid).
    destruct (is_known g sid cid) eqn:K; cbn [negb andb].
    - intro H. inversion H. subst. split; [apply quiet_refl|]. split; [reflexivity|].
      split; [reflexivity|]. intros _. reflexivity.
    - destruct (node_id_ok sid && cf_ge20 (g_cf g)).
      + destruct (sassoc (s2p "I_PRESENTATION") (vt_internal_members (tab g))) as [ip|]; [|discriminate].
        pose proof (route_q g (mkMsg sid system_child_id (vt_internal (tab g)) 0 ip []) I) as [Q E].
        destruct (route g (mkMsg sid system_child_id (vt_internal (tab g)) 0 ip [])) as [g0 r].
        cbn [fst] in Q, E. intro H. inversion H. subst. clear H.
        destruct r as [m'|].
        * split; [eapply quiet_trans; [exact Q|apply quiet_add_job_send]|].
          split; [rewrite sensors_add_job; exact E|]. split; [reflexivity|discriminate].
        * split; [exact Q|]. split; [exact E|]. split; [reflexivity|discriminate].
      + intro H. inversion H. subst. split; [apply quiet_refl|]. split; [reflexivity|].
        split; [reflexivity|discriminate].
  Qed.

  (* ---- wake-up flush ---- *)
  Lemma handle_smartsleep_q g k nd g2 : Inv orc g -> get_node g k = Some nd ->
    handle_smartsleep orc g nd = Ok g2 -> quiet g g2 /\ P g2 = P g.
  Proof.
    intros I G. unfold handle_smartsleep.
    set (nd2 := with_queue (init_smart_sleep nd) []).
    set (g1 := put_node g nd2).
    set (ga := fold_left add_job_send (n_queue (init_smart_sleep nd)) g1).
    destruct (flush_children_pre orc ga nd2 (n_children nd2)) as [sets e].
    destruct e; [discriminate|]. intro H. inversion H. subst g2. clear H.
    split.
    - eapply quiet_trans; [apply quiet_put_node|].
      eapply quiet_trans; [apply quiet_fold_add_job_send|]. apply quiet_fold_add_job_send.
    - rewrite sensors_fold_add_job. unfold ga. rewrite sensors_fold_add_job. unfold g1.
      eapply proj_put_same; [exact I|exact G|reflexivity|reflexivity].
  Qed.

  (* ---- the shape of handler results ---- *)
  Definition alk (k : kind) (t : tree) (m : msg) : option msg := if alerting_k k t m then Some m else None.

  Definition hres_eff (g : gw) (r : res (gw * option msg)) (k : kind) (m : msg) : Prop :=
    forall g' rep, r = Ok (g', rep) ->
      eff g g' (meaning (safe_version orc) k (P g) m) (alk k (P g) m).

  Lemma eff_neutral g g' t al : quiet g g' -> P g' = P g -> t = P g -> al = None -> eff g g' t al.
  Proof. intros Q E -> ->. rewrite <- E. apply eff_of_quiet. exact Q. Qed.

  Lemma eff_alerted g g1 m t al : quiet g g1 -> P g1 = t -> al = Some m -> eff g (alert g1 m) t al.
  Proof. intros Q <- ->. apply eff_alert_after. exact Q. Qed.

  Ltac dobind H :=
    repeat match type of H with
           | bind ?x _ = Ok _ => let e := fresh "EB" in destruct x eqn:e; cbn [bind] in H; [|discriminate H]
           end.

  Lemma get_none_assoc g k : get_node g k = None -> zassoc k (P g) = None.
  Proof. intro G. rewrite assoc_proj, G. reflexivity. Qed.

  Lemma known_false g k : get_node g k = None -> known (P g) k = false.
  Proof. intro G. rewrite known_proj, zhas_get, G. reflexivity. Qed.
  Lemma known_true g k nd : get_node g k = Some nd -> known (P g) k = true.
  Proof. intro G. rewrite known_proj, zhas_get, G. reflexivity. Qed.

  Lemma handle_presentation_eff g m : Inv orc g ->
    hres_eff g (handle_presentation orc g m) (if m_child m =? 255 then KNodePres else KChildPres) m.
  Proof.
    intros I g' rep. unfold handle_presentation. change system_child_id with 255.
    destruct (m_child m =? 255).
    - destruct (get_node (add_sensor g (m_node m)) (m_node m)) as [nd|] eqn:G; [|discriminate].
      intro H. inversion H. subst. clear H.
      eapply eff_alerted; [eapply quiet_trans; [apply quiet_add_sensor|apply quiet_put_node]| |reflexivity].
      unfold meaning. rewrite <- proj_add_sensor.
      eapply proj_put_node; [apply Inv_add_sensor; exact I|exact G|reflexivity|reflexivity].
    - destruct (is_sensor g (m_node m) None) as [[g1 b]|e] eqn:E; cbn [bind]; [|discriminate].
      destruct (is_sensor_q _ _ _ _ _ I E) as (Q & PE & B & K).
      destruct b; cbn [negb].
      + pose proof (K eq_refl) as EG; subst g1. unfold is_known in B.
        destruct (get_node g (m_node m)) as [nd|] eqn:G; [|discriminate B].
        destruct (zhas (m_child m) (n_children nd)) eqn:ZC.
        * intro H. inversion H. subst. apply eff_neutral; [apply quiet_refl|reflexivity| |].
          -- unfold meaning. eapply tupd_id; [rewrite assoc_proj, G; reflexivity|]. cbn beta.
             rewrite children_proj, zhas_zmap, ZC. reflexivity.
          -- unfold alk, alerting_k. rewrite known_child_proj, G, ZC, andb_false_r. reflexivity.
        * intro H. inversion H. subst. eapply eff_alerted; [apply quiet_put_node| |].
          -- unfold meaning. eapply proj_put_node; [exact I|exact G|reflexivity|]. cbn beta.
             rewrite children_proj, zhas_zmap, ZC. unfold with_pchildren, proj_node. cbn.
             rewrite map_app. reflexivity.
          -- unfold alk, alerting_k. rewrite known_child_proj, G, ZC, (known_true _ _ _ G). reflexivity.
      + unfold is_known in B. destruct (get_node g (m_node m)) as [nd|] eqn:G; [discriminate B|].
        intro H. inversion H. subst. apply eff_neutral; [exact Q|exact PE| |].
        * unfold meaning. apply tupd_none. apply get_none_assoc. exact G.
        * unfold alk, alerting_k. rewrite (known_false _ _ G). reflexivity.
  Qed.

  Lemma proj_update_child nd c vt v ch : zassoc c (n_children nd) = Some ch ->
    n_id (update_child_value nd c vt v) = n_id nd /\ proj_node (update_child_value nd c vt v) =
    with_pchildren (proj_node nd)
      (zset c (mkPChild (c_id ch) (c_type ch) (c_desc ch) (zset vt (PS v) (c_values ch)))
            (zmap proj_child (n_children nd))).
  Proof.
    intro E. unfold update_child_value. rewrite E.
    destruct (zassoc c (n_new nd)); (split; [reflexivity|]); unfold with_pchildren, proj_node; cbn;
      change (map (fun kc => (fst kc, proj_child (snd kc)))) with (zmap proj_child);
      rewrite zset_zmap; reflexivity.
  Qed.

  Lemma handle_set_eff g m : Inv orc g -> hres_eff g (handle_set g m) KSet m.
  Proof.
    intros I g' rep. unfold handle_set.
    destruct (is_sensor g (m_node m) (Some (m_child m))) as [[g1 b]|e] eqn:E; cbn [bind]; [|discriminate].
    destruct (is_sensor_q _ _ _ _ _ I E) as (Q & PE & B & K).
    destruct b; cbn [negb].
    - pose proof (K eq_refl) as EG; subst g1. unfold is_known in B.
      destruct (get_node g (m_node m)) as [nd|] eqn:G; [|discriminate B]. symmetry in B.
      apply zhas_true in B as [ch CH].
      destruct (proj_update_child nd (m_child m) (m_sub m) (m_payload m) ch CH) as [ID PN].
      set (nd' := update_child_value nd (m_child m) (m_sub m) (m_payload m)) in *.
      intro H.
      assert (G' : g' = alert (put_node g nd') m).
      { destruct (n_reboot nd'); [|inversion H; reflexivity]. dobind H. inversion H. reflexivity. }
      subst g'. eapply eff_alerted; [apply quiet_put_node| |].
      + unfold meaning. eapply proj_put_node; [exact I|exact G|exact ID|]. cbn beta.
        rewrite children_proj, zassoc_zmap, CH. cbn [option_map]. exact PN.
      + unfold alk, alerting_k. rewrite known_child_proj, G. unfold zhas. rewrite CH. reflexivity.
    - intro H. inversion H. subst. apply eff_neutral; [exact Q|exact PE| |].
      + unfold meaning. unfold is_known in B.
        destruct (get_node g (m_node m)) as [nd|] eqn:G; [|apply tupd_none, get_none_assoc; exact G].
        eapply tupd_id; [rewrite assoc_proj, G; reflexivity|]. cbn beta.
        rewrite children_proj, zassoc_zmap. symmetry in B. apply zhas_false in B. rewrite B. reflexivity.
      + unfold alk, alerting_k. rewrite known_child_proj. unfold is_known in B. rewrite <- B. reflexivity.
  Qed.

  Lemma handle_req_eff g m : Inv orc g -> hres_eff g (handle_req g m) KOther m.
  Proof.
    intros I g' rep. unfold handle_req.
    destruct (is_sensor g (m_node m) (Some (m_child m))) as [[g1 b]|e] eqn:E; cbn [bind]; [|discriminate].
    destruct (is_sensor_q _ _ _ _ _ I E) as (Q & PE & B & K).
    intro H. assert (G' : g' = g1).
    { destruct b; cbn [negb] in H; [|inversion H; reflexivity].
      destruct (get_node g1 (m_node m)); [|discriminate H].
      destruct (get_desired_value n (m_child m) (m_sub m)); [|inversion H; reflexivity].
      dobind H. inversion H. reflexivity. }
    subst g'. apply eff_neutral; [exact Q|exact PE|reflexivity|reflexivity].
  Qed.

  Lemma next_id_spec g : vt_max_node (tab g) = 254 ->
    next_id g = if tnext (P g) <=? 254 then Some (tnext (P g)) else None.
  Proof. intro M. unfold next_id. rewrite M, tnext_proj. reflexivity. Qed.

  Lemma zhas_add_sensor g k : zhas k (g_sensors (add_sensor g k)) = true.
  Proof. destruct (get_node_add_sensor g k) as [nd G]. rewrite zhas_get, G. reflexivity. Qed.

  Lemma handle_id_request_eff g m : vt_max_node (tab g) = 254 -> hres_eff g (handle_id_request g m) KIdRequest m.
  Proof.
    intros M g' rep. unfold handle_id_request. rewrite (next_id_spec g M).
    destruct (tnext (P g) <=? 254) eqn:L.
    - rewrite zhas_add_sensor. cbn [negb]. intro H. dobind H. inversion H. subst. clear H.
      eapply eff_alerted; [apply quiet_add_sensor| |].
      + rewrite proj_add_sensor. unfold meaning, tadd. rewrite L, tnext_fresh. reflexivity.
      + unfold alk, alerting_k. rewrite L. reflexivity.
    - intro H. inversion H. subst. apply eff_neutral; [apply quiet_refl|reflexivity| |].
      + unfold meaning. rewrite L. reflexivity.
      + unfold alk, alerting_k. rewrite L. reflexivity.
  Qed.

  Lemma node_attr_eff f pf k g m : Inv orc g ->
    (forall nd p, n_id (f nd p) = n_id nd /\ proj_node (f nd p) = pf p (proj_node nd)) ->
    (forall t, meaning (safe_version orc) k t m = tupd (m_node m) (pf (m_payload m)) t) ->
    (forall t, alerting_k k t m = known t (m_node m)) ->
    hres_eff g (node_attr_handler f g m) k m.
  Proof.
    intros I Hf Hm Ha g' rep. unfold node_attr_handler.
    destruct (is_sensor g (m_node m) None) as [[g1 b]|e] eqn:E; cbn [bind]; [|discriminate].
    destruct (is_sensor_q _ _ _ _ _ I E) as (Q & PE & B & K).
    unfold is_known in B. unfold alk. rewrite Hm, Ha.
    destruct b; cbn [negb].
    - pose proof (K eq_refl) as EG; subst g1. destruct (get_node g (m_node m)) as [nd|] eqn:G; [|discriminate B].
      destruct (Hf nd (m_payload m)) as [ID PN].
      intro H. inversion H. subst. eapply eff_alerted; [apply quiet_put_node| |].
      + eapply proj_put_node; [exact I|exact G|exact ID|exact PN].
      + rewrite (known_true _ _ _ G). reflexivity.
    - destruct (get_node g (m_node m)) as [nd|] eqn:G; [discriminate B|].
      intro H. inversion H. subst. apply eff_neutral; [exact Q|exact PE| |].
      + apply tupd_none, get_none_assoc. exact G.
      + rewrite (known_false _ _ G). reflexivity.
  Qed.

  Lemma handle_heartbeat_eff g m : Inv orc g -> hres_eff g (handle_heartbeat_response orc g m) KHeartbeat m.
  Proof.
    intros I g' rep. unfold handle_heartbeat_response.
    destruct (is_sensor g (m_node m) None) as [[g1 b]|e] eqn:E; cbn [bind]; [|discriminate].
    destruct (is_sensor_q _ _ _ _ _ I E) as (Q & PE & B & K).
    unfold is_known in B.
    destruct b; cbn [negb].
    - pose proof (K eq_refl) as EG; subst g1. destruct (get_node g (m_node m)) as [nd|] eqn:G; [|discriminate B].
      destruct (handle_smartsleep_ok orc g (m_node m) nd I G) as (g2 & E2 & I2 & C2 & nd2 & G2).
      rewrite E2. cbn [bind]. rewrite G2.
      destruct (handle_smartsleep_q g (m_node m) nd g2 I G E2) as [Q2 P2].
      intro H. inversion H. subst.
      eapply eff_alerted; [eapply quiet_trans; [exact Q2|apply quiet_put_node]| |].
      + unfold meaning. rewrite <- P2. eapply proj_put_node; [exact I2|exact G2|reflexivity|reflexivity].
      + unfold alk, alerting_k. rewrite (known_true _ _ _ G). reflexivity.
    - destruct (get_node g (m_node m)) as [nd|] eqn:G; [discriminate B|].
      intro H. inversion H. subst. apply eff_neutral; [exact Q|exact PE| |].
      + unfold meaning. apply tupd_none, get_none_assoc. exact G.
      + unfold alk, alerting_k. rewrite (known_false _ _ G). reflexivity.
  Qed.

  Lemma handle_pre_sleep_q g m g' rep : Inv orc g -> handle_pre_sleep orc g m = Ok (g', rep) ->
    quiet g g' /\ P g' = P g.
  Proof.
    intros I. unfold handle_pre_sleep.
    destruct (is_sensor g (m_node m) None) as [[g1 b]|e] eqn:E; cbn [bind]; [|discriminate].
    destruct (is_sensor_q _ _ _ _ _ I E) as (Q & PE & B & K).
    destruct b; cbn [negb]; [|intro H; inversion H; subst; split; assumption].
    pose proof (K eq_refl) as EG; subst g1. destruct (get_node g (m_node m)) as [nd|] eqn:G; [|discriminate].
    destruct (handle_smartsleep orc g nd) as [g2|] eqn:E2; cbn [bind]; [|discriminate].
    intro H. inversion H. subst. apply (handle_smartsleep_q g (m_node m) nd g' I G E2).
  Qed.

  Lemma respond_fw_config_q g m g' rep : respond_fw_config g m = Ok (g', rep) -> quiet g g' /\ P g' = P g.
  Proof.
    unfold respond_fw_config.
    destruct (fw_hex_to_int (m_payload m) 5); [|intro H; inversion H; split; [apply quiet_refl|reflexivity]].
    destruct (ota_get_fw (g_ota g) (m_node m) true None) as [o' r].
    destruct r as [[[t v] f]|]; intro H.
    - dobind H. inversion H. split; [apply quiet_set_ota|reflexivity].
    - inversion H. split; [apply quiet_set_ota|reflexivity].
  Qed.

  Lemma respond_fw_q g m g' rep : respond_fw g m = Ok (g', rep) -> quiet g g' /\ P g' = P g.
  Proof.
    unfold respond_fw.
    destruct (fw_hex_to_int (m_payload m) 3) as [ws|]; [|intro H; inversion H; split; [apply quiet_refl|reflexivity]].
    destruct ws as [|rt [|rv [|rb [|x y]]]]; try (intro H; inversion H; split; [apply quiet_refl|reflexivity]).
    destruct (ota_get_fw (g_ota g) (m_node m) false (Some (rt, rv))) as [o' r].
    destruct r as [[[t v] f]|]; intro H.
    - dobind H. inversion H. split; [apply quiet_set_ota|reflexivity].
    - inversion H. split; [apply quiet_set_ota|reflexivity].
  Qed.

  Lemma run_leaf_eff h g m : Inv orc g -> vt_max_node (tab g) = 254 ->
    hres_eff g (run_leaf orc clock h g m) (ikind h) m.
  Proof.
    intros I M. destruct h; unfold run_leaf, ikind; try (intros g' rep H; discriminate H).
    - intros g' rep H. destruct (respond_fw_config_q _ _ _ _ H) as [Q E].
      apply eff_neutral; [exact Q|exact E|reflexivity|reflexivity].
    - intros g' rep H. destruct (respond_fw_q _ _ _ _ H) as [Q E].
      apply eff_neutral; [exact Q|exact E|reflexivity|reflexivity].
    - apply handle_id_request_eff. exact M.
    - intros g' rep H. unfold handle_config in H. dobind H. inversion H. subst.
      apply eff_neutral; [apply quiet_refl|reflexivity|reflexivity|reflexivity].
    - intros g' rep H. unfold handle_time in H. dobind H. inversion H. subst.
      apply eff_neutral; [apply quiet_refl|reflexivity|reflexivity|reflexivity].
    - apply (node_attr_eff set_batt
               (fun p n => mkPNode (pn_id n) (pn_children n) (pn_type n) (pn_sk_name n) (pn_sk_ver n)
                                   (battery_of p) (pn_pver n) (pn_hb n))); try exact I;
        [intros; split; reflexivity|reflexivity|reflexivity].
    - apply (node_attr_eff set_skname
               (fun p n => mkPNode (pn_id n) (pn_children n) (pn_type n) (Some p) (pn_sk_ver n)
                                   (pn_batt n) (pn_pver n) (pn_hb n))); try exact I;
        [intros; split; reflexivity|reflexivity|reflexivity].
    - apply (node_attr_eff set_skver
               (fun p n => mkPNode (pn_id n) (pn_children n) (pn_type n) (pn_sk_name n) (Some p)
                                   (pn_batt n) (pn_pver n) (pn_hb n))); try exact I;
        [intros; split; reflexivity|reflexivity|reflexivity].
    - intros g' rep H. inversion H. subst.
      apply eff_neutral; [apply quiet_refl|reflexivity|reflexivity|reflexivity].
    - intros g' rep H. unfold handle_gateway_ready in H. inversion H. subst.
      eapply eff_alerted; [apply quiet_refl|reflexivity|reflexivity].
    - intros g' rep H. unfold handle_gateway_ready_20 in H. dobind H. inversion H. subst.
      eapply eff_alerted; [apply quiet_refl|reflexivity|reflexivity].
    - apply handle_heartbeat_eff. exact I.
    - intros g' rep H. unfold handle_discover_response in H. dobind H. inversion H. subst.
      destruct p as [g1 b]. destruct (is_sensor_q _ _ _ _ _ I EB) as (Q & PE & _).
      apply eff_neutral; [exact Q|exact PE|reflexivity|reflexivity].
    - apply (node_attr_eff set_hb
               (fun p n => mkPNode (pn_id n) (pn_children n) (pn_type n) (pn_sk_name n) (pn_sk_ver n)
                                   (pn_batt n) (pn_pver n) (heartbeat_of p))); try exact I;
        [intros; split; reflexivity|reflexivity|reflexivity].
    - intros g' rep H. destruct (handle_pre_sleep_q _ _ _ _ I H) as [Q E].
      apply eff_neutral; [exact Q|exact E|reflexivity|reflexivity].
  Qed.

  Lemma handle_internal_eff g m : Inv orc g -> vt_max_node (tab g) = 254 ->
    hres_eff g (handle_internal orc clock g m) (okind (sub_handler (tab g) (m_type m) (m_sub m))) m.
  Proof.
    intros I M. unfold handle_internal.
    destruct (sub_handler (tab g) (m_type m) (m_sub m)) as [h|]; [apply run_leaf_eff; assumption|].
    intros g' rep H. inversion H. subst.
    apply eff_neutral; [apply quiet_refl|reflexivity|reflexivity|reflexivity].
  Qed.

  Lemma handle_stream_eff g m : Inv orc g ->
    stream_ok (sub_handler (tab g) (m_type m) (m_sub m)) (m_sub m) = true ->
    hres_eff g (handle_stream orc clock g m) (if (m_sub m =? 0) || (m_sub m =? 2) then KStreamReq else KOther) m.
  Proof.
    intros I SO g' rep. unfold handle_stream.
    destruct (is_sensor g (m_node m) None) as [[g1 b]|e] eqn:E; cbn [bind]; [|discriminate].
    destruct (is_sensor_q _ _ _ _ _ I E) as (Q & PE & B & K).
    unfold is_known in B.
    destruct b; cbn [negb].
    - pose proof (K eq_refl) as EG; subst g1. destruct (get_node g (m_node m)) as [nd|] eqn:G; [|discriminate B].
      destruct (sub_handler (tab g) (m_type m) (m_sub m)) as [h|].
      + assert (HK : ((m_sub m =? 0) || (m_sub m =? 2) = true) /\ forall g2 rp, run_leaf orc clock h g m = Ok (g2, rp) -> quiet g g2 /\ P g2 = P g).
        { destruct h; try discriminate SO; (split; [exact SO|]); unfold run_leaf; intros g2 rp H.
          - apply (respond_fw_config_q _ _ _ _ H).
          - apply (respond_fw_q _ _ _ _ H). }
        destruct HK as [S0 HQ]. rewrite S0.
        destruct (run_leaf orc clock h g m) as [[g2 resp]|]; cbn [bind]; [|discriminate].
        destruct (HQ g2 resp eq_refl) as [Q2 P2].
        intro H. inversion H. subst. eapply eff_alerted; [exact Q2|exact P2|].
        unfold alk, alerting_k. rewrite (known_true _ _ _ G). reflexivity.
      + simpl in SO. apply negb_true_iff in SO. rewrite SO.
        intro H. inversion H. subst.
        apply eff_neutral; [apply quiet_refl|reflexivity|reflexivity|reflexivity].
    - destruct (get_node g (m_node m)) as [nd|] eqn:G; [discriminate B|].
      intro H. inversion H. subst. apply eff_neutral; [exact Q|exact PE| |].
      + destruct ((m_sub m =? 0) || (m_sub m =? 2)); reflexivity.
      + unfold alk. destruct ((m_sub m =? 0) || (m_sub m =? 2)); [|reflexivity].
        unfold alerting_k. rewrite (known_false _ _ G). reflexivity.
  Qed.
End Effects.

(* ------------------------------------------------------------ the dispatcher *)
Lemma kind_of_0 v m : m_type m = 0 -> kind_of v m = if m_child m =? 255 then KNodePres else KChildPres.
Proof. unfold kind_of. intros ->. reflexivity. Qed.
Lemma kind_of_1 v m : m_type m = 1 -> kind_of v m = KSet.
Proof. unfold kind_of. intros ->. reflexivity. Qed.
Lemma kind_of_2 v m : m_type m = 2 -> kind_of v m = KOther.
Proof. unfold kind_of. intros ->. reflexivity. Qed.
Lemma kind_of_3 v m : m_type m = 3 -> kind_of v m = internal_kind v (m_sub m).
Proof. unfold kind_of. intros ->. reflexivity. Qed.
Lemma kind_of_4 v m : m_type m = 4 ->
  kind_of v m = if (m_sub m =? 0) || (m_sub m =? 2) then KStreamReq else KOther.
Proof. unfold kind_of. intros ->. reflexivity. Qed.

Section Logic.
  Variable orc : oracles.
  Variable clock : Z.

  Notation P g := (proj (g_sensors g)).

  (* the configuration is version v *)
  Definition cfg_is (v : ver) (cf : config) : Prop := cf_tab cf = tab_of v /\ cf_ge20 cf = ge20 v.

  Lemma cfg_is_ok v cf : cfg_is v cf -> cfg_ok cf.
  Proof. intros [T G]. exists v. split; assumption. Qed.

  Lemma validated_ranges v g m : cfg_is v (g_cf g) -> gvalidate orc g m = true ->
    between 0 255 (m_node m) = true /\ between 0 4 (m_type m) = true /\
    between 0 (max_sub v (m_type m)) (m_sub m) = true.
  Proof.
    intros [T _] V. unfold gvalidate, tab in V. rewrite T, validate_conforms in V. unfold spec_accepts in V.
    repeat match type of V with _ && _ = true => apply andb_true_iff in V as [V ?] end.
    repeat split; assumption.
  Qed.

  Lemma max_node_cfg v g : cfg_is v (g_cf g) -> vt_max_node (tab g) = 254.
  Proof. intros [T _]. unfold tab. rewrite T. apply registry_max_node. Qed.

  Definition ml (v : ver) (g : gw) : tree -> pstr -> tree :=
    meaning_line (safe_version orc) (gvalidate orc g) v.
  Definition al (v : ver) (g : gw) : tree -> pstr -> option msg := alerted_line (gvalidate orc g) v.

  Theorem logic_eff v g l g' r : cfg_is v (g_cf g) -> Inv orc g ->
    logic orc clock g l = Ok (g', r) -> eff g g' (ml v g (P g) l) (al v g (P g) l).
  Proof.
    intros CI I. pose proof (cfg_is_ok _ _ CI) as C. pose proof (facts_of_cfg g C) as F.
    unfold logic, ml, al, meaning_line, alerted_line.
    destruct (decode l) as [m|] eqn:D;
      [|intro H; inversion H; subst; apply eff_neutral; [apply quiet_refl|reflexivity|reflexivity|reflexivity]].
    pose proof (decoded_payload_wire_ok _ _ D) as W.
    destruct (gvalidate orc g m) eqn:V; cbn [negb andb];
      [|intro H; inversion H; subst; apply eff_neutral; [apply quiet_refl|reflexivity|reflexivity|reflexivity]].
    destruct (validated_ranges v g m CI V) as (BN & BT & BS).
    pose proof (max_node_cfg v g CI) as M.
    change (if alerting v (P g) m then Some m else None) with (alk (kind_of v m) (P g) m).
    assert (HH : exists h, type_handler (tab g) (m_type m) = Some h /\
                           hres_eff orc g (run_handler orc clock h g m) (kind_of v m) m /\
                           hres_ok orc g (run_handler orc clock h g m)).
    { destruct CI as [T GE].
      destruct (type_handler_cases g (m_type m) F BT) as [[Ty E]|[[Ty E]|[[Ty E]|[[Ty E]|[Ty E]]]]];
        eexists; (split; [exact E|]); unfold run_handler; split.
      - rewrite (kind_of_0 v m Ty). apply handle_presentation_eff. exact I.
      - apply handle_presentation_ok; assumption.
      - rewrite (kind_of_1 v m Ty). apply handle_set_eff. exact I.
      - apply handle_set_ok; assumption.
      - rewrite (kind_of_2 v m Ty). apply handle_req_eff. exact I.
      - apply handle_req_ok; assumption.
      - rewrite (kind_of_3 v m Ty). rewrite Ty in BS. rewrite <- (registry_internal v (m_sub m) BS).
        pose proof (handle_internal_eff orc clock g m I M) as HE. unfold tab in HE. rewrite T, Ty in HE. exact HE.
      - apply handle_internal_ok; assumption.
      - rewrite (kind_of_4 v m Ty). rewrite Ty in BS. pose proof (registry_stream v (m_sub m) BS) as SO.
        apply handle_stream_eff; [exact I|]. unfold tab. rewrite T, Ty. exact SO.
      - apply handle_stream_ok; assumption. }
    destruct HH as (h & E & HE & (g1 & rep & E1 & I1 & C1)). rewrite E, E1. cbn [bind].
    pose proof (route_opt_q orc g1 rep I1) as [Q2 P2].
    destruct (route_opt g1 rep) as [g2 routed]. cbn [fst] in Q2, P2.
    intro H. inversion H. subst. eapply eff_quiet_after; [apply (HE _ _ E1)|exact Q2|exact P2].
  Qed.

  (* ---- controller calls: tree, flag and callbacks untouched ---- *)
  Lemma set_child_value_q g sid cid vt v mt a g' : Inv orc g ->
    set_child_value orc g sid cid vt v mt a = Ok g' -> quiet g g' /\ P g' = P g.
  Proof.
    intros I. unfold set_child_value.
    destruct (is_sensor g sid (Some cid)) as [[g1 b]|e] eqn:E; cbn [bind]; [|discriminate].
    destruct (is_sensor_q _ _ _ _ _ _ I E) as (Q & PE & B & K).
    destruct b; cbn [negb]; [|intro H; inversion H; subst; split; assumption].
    pose proof (K eq_refl) as EG; subst g1.
    destruct (get_node g sid) as [nd|] eqn:G; [|discriminate].
    destruct (sleeping nd).
    - destruct (create_set_message orc g (n_id nd) cid vt v None None); cbn [bind]; [|discriminate].
      destruct (zassoc cid (n_new nd)) as [dv|]; [|discriminate].
      destruct (validate_child_state orc nd cid vt v); cbn [bind]; [|discriminate].
      destruct (vt_int vt) as [vti|]; [|discriminate].
      intro H. inversion H. subst. split; [apply quiet_put_node|].
      eapply proj_put_same; [exact I|exact G|reflexivity|reflexivity].
    - destruct (create_set_message orc g (n_id nd) cid vt v mt a); cbn [bind]; [|discriminate].
      intro H. inversion H. subst. split; [apply quiet_add_job_send|]. rewrite sensors_add_job. reflexivity.
  Qed.

  Definition keys_ok (s : list (Z * node)) : Prop := Forall (fun kn => n_id (snd kn) = fst kn) s.

  Lemma Inv_keys_ok g : Inv orc g -> keys_ok (g_sensors g).
  Proof.
    intros [S _]. unfold keys_ok. eapply Forall_impl; [|exact S]. intros kn [K _]. exact K.
  Qed.

  Lemma update_one_q t v g nid : keys_ok (g_sensors g) ->
    quiet g (update_one t v g nid) /\ P (update_one t v g nid) = P g /\
    keys_ok (g_sensors (update_one t v g nid)).
  Proof.
    intro KO. unfold update_one. destruct (get_node g nid) as [nd|] eqn:G;
      [|split; [apply quiet_refl|split; [reflexivity|exact KO]]].
    assert (K : n_id nd = nid) by (exact (zassoc_Forall _ _ _ _ KO G)).
    split; [eapply quiet_trans; [apply quiet_set_ota|apply quiet_put_node]|].
    unfold put_node. cbn [g_sensors set_sensors set_ota with_reboot n_id]. rewrite K. split.
    - rewrite proj_zmap, zset_zmap.
      change (proj_node (with_reboot nd true)) with (proj_node nd).
      rewrite <- proj_zmap. apply zset_same_id. rewrite assoc_proj, G. reflexivity.
    - apply Forall_zset; [exact KO|exact K].
  Qed.

  Lemma update_fold_q t v nids g : keys_ok (g_sensors g) ->
    quiet g (fold_left (update_one t v) nids g) /\ P (fold_left (update_one t v) nids g) = P g.
  Proof.
    revert g. induction nids as [|nid r IH]; intros g KO; simpl; [split; [apply quiet_refl|reflexivity]|].
    destruct (update_one_q t v g nid KO) as (Q1 & P1 & K1).
    destruct (IH _ K1) as [Q2 P2]. split; [eapply quiet_trans; eassumption|congruence].
  Qed.

  Lemma update_fw_q g nids fwt fwv bin g' : Inv orc g ->
    update_fw g nids fwt fwv bin = Ok g' -> quiet g g' /\ P g' = P g.
  Proof.
    intros I. pose proof (Inv_keys_ok g I) as KO. unfold update_fw.
    assert (Z0 : forall g0, Ok g = Ok g0 -> quiet g g0 /\ P g0 = P g)
      by (intros g0 H; inversion H; subst; split; [apply quiet_refl|reflexivity]).
    destruct bin as [[|b0 br]|]; [apply Z0| |].
    all: destruct (vt_int fwt) as [t|]; [|apply Z0]; destruct (vt_int fwv) as [v|]; [|apply Z0];
         destruct (negb ((0 <=? t) && (t <=? 65535)) || negb ((0 <=? v) && (v <=? 65535))); [apply Z0|].
    all: match goal with |- context [fw_lookup _ _ ?fwl] => set (FWL := fwl) end.
    all: set (g0 := set_ota g (mkOta FWL (o_requested (g_ota g)) (o_unstarted (g_ota g)) (o_started (g_ota g))));
         destruct (fw_lookup t v FWL);
         [|intro H; inversion H; subst; split; [apply quiet_set_ota|reflexivity]].
    all: change (Ok (fold_left (update_one t v) nids g0) = Ok g' -> quiet g g' /\ P g' = P g);
         intro H; inversion H; subst;
         destruct (update_fold_q t v nids g0 KO) as [Q2 P2];
         split; [eapply quiet_trans; [apply quiet_set_ota|exact Q2]|exact P2].
  Qed.

  (* ---- operations ---- *)
  Definition pending (g : gw) : list pstr :=
    flat_map (fun j => match j with JLogic l => [l] | JSend _ => [] end) (g_jobs g).

  Lemma flat_map_jsend js : forallb is_jsend js = true ->
    flat_map (fun j => match j with JLogic l => [l] | JSend _ => [] end) js = [].
  Proof.
    induction js as [|[l|l] js IH]; simpl; [reflexivity|discriminate|exact IH].
  Qed.

  Lemma pending_grows g g' ext js : grows g g' ext js -> pending g' = pending g.
  Proof.
    intros (_ & J & F & _). unfold pending. rewrite J, flat_map_app, (flat_map_jsend js F), app_nil_r.
    reflexivity.
  Qed.

  Lemma pending_quiet g g' : quiet g g' -> pending g' = pending g.
  Proof. intros (_ & _ & ext & js & G & _). eapply pending_grows. exact G. Qed.

  Lemma pending_eff g g' t a : eff g g' t a -> pending g' = pending g.
  Proof. intros (_ & _ & _ & ext & js & G & _). eapply pending_grows. exact G. Qed.

  (* asyncio flavour: a received line is processed at once *)
  Lemma recv_async_eff v g l : cfg_is v (g_cf g) -> Inv orc g -> cf_async (g_cf g) = true ->
    eff g (recv orc clock g l) (ml v g (P g) l) (al v g (P g) l).
  Proof.
    intros CI I A. unfold recv. rewrite A.
    destruct (logic_total orc clock g l (cfg_is_ok _ _ CI) I) as (g1 & r & E & I1 & C1). rewrite E.
    pose proof (logic_eff v g l g1 r CI I E) as HE.
    destruct r as [rp|]; [|exact HE].
    eapply eff_quiet_after; [exact HE|apply quiet_send|rewrite sensors_send; reflexivity].
  Qed.

  (* threaded flavour: the line is queued *)
  Lemma recv_threaded g l : cf_async (g_cf g) = false ->
    recv orc clock g l = set_jobs g (g_jobs g ++ [JLogic l]).
  Proof. intro A. unfold recv. rewrite A. reflexivity. Qed.

  (* one pump iteration on a queued line *)
  Lemma pump_logic_eff v g l rest : cfg_is v (g_cf g) -> Inv orc g -> g_jobs g = JLogic l :: rest ->
    eff (set_jobs g rest) (pump orc clock g) (ml v g (P g) l) (al v g (P g) l).
  Proof.
    intros CI I J. unfold pump. rewrite J.
    assert (I0 : Inv orc (set_jobs g rest)) by (apply Inv_set_jobs; exact I).
    destruct (logic_total orc clock (set_jobs g rest) l (cfg_is_ok _ _ CI) I0) as (g1 & r & E & I1 & C1).
    rewrite E. pose proof (logic_eff v (set_jobs g rest) l g1 r CI I0 E) as HE.
    destruct r as [rp|]; [|exact HE].
    eapply eff_quiet_after; [exact HE|apply quiet_send|rewrite sensors_send; reflexivity].
  Qed.

  Lemma pump_send g l rest : g_jobs g = JSend l :: rest -> pump orc clock g = send (set_jobs g rest) l.
  Proof. intro J. unfold pump. rewrite J. reflexivity. Qed.

  Lemma pump_empty g : g_jobs g = [] -> pump orc clock g = g.
  Proof. intro J. unfold pump. rewrite J. reflexivity. Qed.

  (* controller calls *)
  Lemma step_set_child_q g s c vt v mt a : Inv orc g ->
    quiet g (step orc clock g (SetChild s c vt v mt a)) /\ P (step orc clock g (SetChild s c vt v mt a)) = P g.
  Proof.
    intro I. cbn [step]. destruct (set_child_value orc g s c vt v mt a) as [g'|e] eqn:E.
    - eapply set_child_value_q; eassumption.
    - split; [apply quiet_emit; reflexivity|reflexivity].
  Qed.

  Lemma step_update_fw_q g ns t v b : Inv orc g ->
    quiet g (step orc clock g (UpdateFw ns t v b)) /\ P (step orc clock g (UpdateFw ns t v b)) = P g.
  Proof.
    intro I. cbn [step]. destruct (update_fw g ns t v b) as [g'|e] eqn:E.
    - eapply update_fw_q; eassumption.
    - split; [apply quiet_emit; reflexivity|reflexivity].
  Qed.
End Logic.
