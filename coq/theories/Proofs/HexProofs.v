(* Facts about Model/Hex.v: hexlify/unhexlify and pack/unpack round trips for
   all inputs, error classes of pack. *)
From Coq Require Import List NArith ZArith Bool Lia ZifyBool.
From PMS Require Import Base.PyStr Base.Exn Model.Hex.
Import ListNotations.
Open Scope N_scope.

(* ---------------------------------------------------------------- digits *)

Lemma N_lt16_cases : forall d, d < 16 ->
  d = 0 \/ d = 1 \/ d = 2 \/ d = 3 \/ d = 4 \/ d = 5 \/ d = 6 \/ d = 7 \/
  d = 8 \/ d = 9 \/ d = 10 \/ d = 11 \/ d = 12 \/ d = 13 \/ d = 14 \/ d = 15.
Proof. intros d H. lia. Qed.

Lemma hexval_hexdigit : forall u d, d < 16 -> hexval (hexdigit u d) = Some d.
Proof.
  intros u d H.
  destruct (N_lt16_cases d H) as [E|[E|[E|[E|[E|[E|[E|[E|[E|[E|[E|[E|[E|[E|[E|E]]]]]]]]]]]]]]];
    subst d; destruct u; reflexivity.
Qed.

Lemma hexdigit_ascii : forall u d, d < 16 -> hexdigit u d < 128.
Proof.
  intros u d H. unfold hexdigit.
  destruct (d <? 10) eqn:E; destruct u; lia.
Qed.

Lemma hexval_lt16 : forall c d, hexval c = Some d -> d < 16.
Proof.
  intros c d. unfold hexval.
  destruct ((48 <=? c) && (c <=? 57)) eqn:E1; [intros H; inversion H; lia|].
  destruct ((65 <=? c) && (c <=? 70)) eqn:E2; [intros H; inversion H; lia|].
  destruct ((97 <=? c) && (c <=? 102)) eqn:E3; [intros H; inversion H; lia|].
  discriminate.
Qed.

(* hexlify writes the lower-case spelling of what unhexlify read *)
Lemma hexdigit_hexval : forall c d, hexval c = Some d -> hexdigit false d = lower_ascii c.
Proof.
  intros c d. unfold hexval, hexdigit, lower_ascii.
  destruct ((48 <=? c) && (c <=? 57)) eqn:E1.
  { intros H; inversion H; subst d.
    destruct (c - 48 <? 10) eqn:A; destruct ((65 <=? c) && (c <=? 90)) eqn:B; lia. }
  destruct ((65 <=? c) && (c <=? 70)) eqn:E2.
  { intros H; inversion H; subst d.
    destruct (c - 55 <? 10) eqn:A; destruct ((65 <=? c) && (c <=? 90)) eqn:B; lia. }
  destruct ((97 <=? c) && (c <=? 102)) eqn:E3.
  { intros H; inversion H; subst d.
    destruct (c - 87 <? 10) eqn:A; destruct ((65 <=? c) && (c <=? 90)) eqn:B; lia. }
  discriminate.
Qed.

Lemma byte_split : forall x, x < 256 -> x / 16 < 16 /\ x mod 16 < 16 /\ 16 * (x / 16) + x mod 16 = x.
Proof.
  intros x H. repeat split.
  - apply N.div_lt_upper_bound; lia.
  - apply N.mod_lt; lia.
  - symmetry. apply N.div_mod. lia.
Qed.

(* ---------------------------------------------------------------- hexlify *)

Lemma bytes_ok_cons : forall x b, bytes_ok (x :: b) = true <-> x < 256 /\ bytes_ok b = true.
Proof.
  intros x b. unfold bytes_ok. cbn [forallb]. unfold byte_ok at 1.
  rewrite andb_true_iff, N.ltb_lt. tauto.
Qed.

Lemma bytes_ok_app : forall a b, bytes_ok (a ++ b) = bytes_ok a && bytes_ok b.
Proof. intros a b. unfold bytes_ok. apply forallb_app. Qed.

Lemma hexlify_gen_cons : forall u x r,
  hexlify_gen u (x :: r) = hexdigit u (x / 16) :: hexdigit u (x mod 16) :: hexlify_gen u r.
Proof. reflexivity. Qed.

Lemma hexlify_gen_app : forall u a b, hexlify_gen u (a ++ b) = hexlify_gen u a ++ hexlify_gen u b.
Proof.
  intros u a b. induction a as [|x a IH]; [reflexivity|].
  cbn [hexlify_gen app]. rewrite IH. reflexivity.
Qed.

Lemma hexlify_app : forall a b, hexlify (a ++ b) = hexlify a ++ hexlify b.
Proof. intros. apply hexlify_gen_app. Qed.

Lemma hexlify_gen_length : forall u b, List.length (hexlify_gen u b) = (2 * List.length b)%nat.
Proof.
  intros u b. induction b as [|x b IH]; [reflexivity|].
  cbn [hexlify_gen List.length]. rewrite IH. lia.
Qed.

Lemma hexlify_length : forall b, List.length (hexlify b) = (2 * List.length b)%nat.
Proof. intros. apply hexlify_gen_length. Qed.

Lemma hexlify_gen_ascii : forall u b, bytes_ok b = true -> is_ascii (hexlify_gen u b) = true.
Proof.
  intros u b. induction b as [|x b IH]; [reflexivity|].
  intros H. apply bytes_ok_cons in H. destruct H as [Hx Hb].
  destruct (byte_split x Hx) as (H1 & H2 & _).
  cbn [hexlify_gen]. unfold is_ascii in *. cbn [forallb].
  pose proof (hexdigit_ascii u _ H1). pose proof (hexdigit_ascii u _ H2).
  rewrite (IH Hb). lia.
Qed.

Lemma unhex_pairs_hexlify : forall u b, bytes_ok b = true -> unhex_pairs (hexlify_gen u b) = Some b.
Proof.
  intros u b. induction b as [|x b IH]; [reflexivity|].
  intros H. apply bytes_ok_cons in H. destruct H as [Hx Hb].
  destruct (byte_split x Hx) as (H1 & H2 & H3).
  cbn [hexlify_gen unhex_pairs].
  rewrite (hexval_hexdigit u _ H1), (hexval_hexdigit u _ H2), (IH Hb).
  cbn [option_map]. rewrite H3. reflexivity.
Qed.

Lemma odd_double : forall n, Nat.odd (2 * n) = false.
Proof.
  intros n. rewrite <- Nat.negb_even. rewrite Nat.even_mul. reflexivity.
Qed.

(* unhexlify (hexlify b) = b, in either letter case, for every byte string *)
Lemma unhexlify_hexlify_gen : forall u b, bytes_ok b = true -> unhexlify (hexlify_gen u b) = Ok b.
Proof.
  intros u b H. unfold unhexlify.
  rewrite (hexlify_gen_ascii u b H). cbn [negb].
  rewrite hexlify_gen_length, odd_double.
  rewrite (unhex_pairs_hexlify u b H). reflexivity.
Qed.

Lemma unhexlify_hexlify : forall b, bytes_ok b = true -> unhexlify (hexlify b) = Ok b.
Proof. intros. apply unhexlify_hexlify_gen. assumption. Qed.

(* the other direction: whatever unhexlify accepts is a byte string whose
   hexlify is the input in lower case *)
Lemma unhex_pairs_cons2 : forall a c r,
  unhex_pairs (a :: c :: r) =
  match hexval a, hexval c with
  | Some x, Some y => option_map (cons (16 * x + y)) (unhex_pairs r)
  | _, _ => None
  end.
Proof. reflexivity. Qed.

Lemma unhex_pairs_sound : forall s b, unhex_pairs s = Some b ->
  bytes_ok b = true /\ hexlify b = map lower_ascii s.
Proof.
  fix IH 1. intros s b.
  destruct s as [|a [|c r]].
  - intros H; inversion H. split; reflexivity.
  - discriminate.
  - rewrite unhex_pairs_cons2.
    destruct (hexval a) as [x|] eqn:Ea; [|discriminate].
    destruct (hexval c) as [y|] eqn:Ec; [|discriminate].
    destruct (unhex_pairs r) as [b'|] eqn:Er; [|discriminate].
    unfold option_map. intros H.
    assert (Hb0 : b = (16 * x + y) :: b') by congruence. subst b. clear H.
    destruct (IH r b' Er) as [Hb Hh].
    pose proof (hexval_lt16 _ _ Ea) as Hx. pose proof (hexval_lt16 _ _ Ec) as Hy.
    assert (Hxy : 16 * x + y < 256) by lia.
    split.
    + apply bytes_ok_cons. split; [exact Hxy|assumption].
    + unfold hexlify in *. rewrite hexlify_gen_cons, !map_cons.
      replace ((16 * x + y) / 16) with x.
      2:{ apply (N.div_unique _ 16 x y); [lia|reflexivity]. }
      replace ((16 * x + y) mod 16) with y.
      2:{ apply (N.mod_unique _ 16 x y); [lia|reflexivity]. }
      rewrite (hexdigit_hexval _ _ Ea), (hexdigit_hexval _ _ Ec), Hh. reflexivity.
Qed.

Lemma unhexlify_sound : forall s b, unhexlify s = Ok b ->
  bytes_ok b = true /\ hexlify b = map lower_ascii s.
Proof.
  intros s b. unfold unhexlify.
  destruct (negb (is_ascii s)); [discriminate|].
  destruct (Nat.odd (List.length s)); [discriminate|].
  destruct (unhex_pairs s) as [b'|] eqn:E; cbn [of_option]; [|discriminate].
  intros H; inversion H; subst b'. apply unhex_pairs_sound. assumption.
Qed.

(* the only exceptions of unhexlify *)
Lemma unhexlify_errors : forall s e, unhexlify s = Raise e -> e = ValueError \/ e = BinasciiError.
Proof.
  intros s e. unfold unhexlify.
  destruct (negb (is_ascii s)); [intros H; inversion H; auto|].
  destruct (Nat.odd (List.length s)); [intros H; inversion H; auto|].
  destruct (unhex_pairs s); cbn [of_option]; [discriminate|intros H; inversion H; auto].
Qed.

(* ---------------------------------------------------------------- pack / unpack *)

Definition words_ok (ws : list Z) : bool := forallb word_ok ws.

Lemma word_ok_iff : forall w, word_ok w = true <-> (0 <= w <= 65535)%Z.
Proof. intros w. unfold word_ok. lia. Qed.

Lemma le16_bytes : forall w, word_ok w = true -> bytes_ok (le16 w) = true.
Proof.
  intros w H. apply word_ok_iff in H. unfold le16, bytes_ok, byte_ok. cbn [forallb].
  assert (0 <= w mod 256 < 256)%Z by (apply Z.mod_pos_bound; lia).
  assert (0 <= w / 256 < 256)%Z.
  { split; [apply Z.div_pos; lia|apply Z.div_lt_upper_bound; lia]. }
  lia.
Qed.

Lemma pack_le16_ok : forall ws, words_ok ws = true -> pack_le16 ws = Ok (concat (map le16 ws)).
Proof.
  induction ws as [|w r IH]; [reflexivity|].
  unfold words_ok. cbn [forallb]. intros H. apply andb_true_iff in H. destruct H as [Hw Hr].
  cbn [pack_le16 map concat]. rewrite Hw, (IH Hr). reflexivity.
Qed.

Lemma pack_le16_err : forall ws, words_ok ws = false -> pack_le16 ws = Raise StructError.
Proof.
  induction ws as [|w r IH]; [discriminate|].
  unfold words_ok. cbn [forallb pack_le16]. intros H.
  destruct (word_ok w); [|reflexivity].
  cbn [andb] in H. rewrite (IH H). reflexivity.
Qed.

Lemma pack_le16_bytes : forall ws b, pack_le16 ws = Ok b ->
  bytes_ok b = true /\ List.length b = (2 * List.length ws)%nat.
Proof.
  intros ws b H. destruct (words_ok ws) eqn:E.
  - rewrite (pack_le16_ok ws E) in H. inversion H; subst b. clear H.
    induction ws as [|w r IH]; [split; reflexivity|].
    unfold words_ok in E. cbn [forallb] in E. apply andb_true_iff in E. destruct E as [Hw Hr].
    destruct (IH Hr) as [I1 I2].
    cbn [map concat]. rewrite bytes_ok_app, (le16_bytes w Hw), I1.
    split; [reflexivity|]. rewrite app_length, I2. cbn [le16 List.length]. lia.
  - rewrite (pack_le16_err ws E) in H. discriminate.
Qed.

Lemma words_of_le16 : forall w r, word_ok w = true -> words_of (le16 w ++ r) = w :: words_of r.
Proof.
  intros w r H. apply word_ok_iff in H. unfold le16. cbn [app words_of].
  f_equal.
  assert (0 <= w mod 256 < 256)%Z by (apply Z.mod_pos_bound; lia).
  assert (0 <= w / 256)%Z by (apply Z.div_pos; lia).
  rewrite !Z2N.id by lia.
  pose proof (Z.div_mod w 256). lia.
Qed.

Lemma words_of_pack : forall ws, words_ok ws = true -> words_of (concat (map le16 ws)) = ws.
Proof.
  induction ws as [|w r IH]; [reflexivity|].
  unfold words_ok. cbn [forallb]. intros H. apply andb_true_iff in H. destruct H as [Hw Hr].
  cbn [map concat]. rewrite (words_of_le16 w _ Hw), (IH Hr). reflexivity.
Qed.

Lemma concat_le16_length : forall ws, List.length (concat (map le16 ws)) = (2 * List.length ws)%nat.
Proof.
  induction ws as [|w r IH]; [reflexivity|].
  cbn [map concat]. rewrite app_length, IH. cbn [le16 List.length]. lia.
Qed.

(* struct.unpack("<nH", struct.pack("<nH", *ws)) = ws for all words in range *)
Lemma unpack_pack : forall ws b, pack_le16 ws = Ok b -> unpack_le16 (List.length ws) b = Ok ws.
Proof.
  intros ws b H. destruct (words_ok ws) eqn:E.
  - rewrite (pack_le16_ok ws E) in H. inversion H; subst b.
    unfold unpack_le16. rewrite concat_le16_length, Nat.eqb_refl, (words_of_pack ws E). reflexivity.
  - rewrite (pack_le16_err ws E) in H. discriminate.
Qed.

(* struct.pack("<nH", *struct.unpack("<nH", b)) = b for every byte string of the right length *)
Lemma words_of_sound : forall b, bytes_ok b = true -> Nat.even (List.length b) = true ->
  words_ok (words_of b) = true /\ concat (map le16 (words_of b)) = b.
Proof.
  fix IH 1. intros b.
  destruct b as [|lo [|hi r]].
  - intros _ _. split; reflexivity.
  - intros _ H. discriminate.
  - intros Hb He.
    apply bytes_ok_cons in Hb. destruct Hb as [Hlo Hb].
    apply bytes_ok_cons in Hb. destruct Hb as [Hhi Hb].
    change (Nat.even (List.length r) = true) in He.
    destruct (IH r Hb He) as [I1 I2].
    cbn [words_of map concat]. unfold words_ok in *. cbn [forallb]. rewrite I1, I2.
    split.
    + unfold word_ok. lia.
    + unfold le16. cbn [app]. f_equal; [|f_equal].
      * rewrite <- (Z.mod_unique_pos _ 256 (Z.of_N hi) (Z.of_N lo)) by lia. lia.
      * rewrite <- (Z.div_unique_pos _ 256 (Z.of_N hi) (Z.of_N lo)) by lia. lia.
Qed.

Lemma pack_unpack : forall n b ws, bytes_ok b = true -> unpack_le16 n b = Ok ws ->
  pack_le16 ws = Ok b /\ List.length ws = n /\ words_ok ws = true.
Proof.
  intros n b ws Hb. unfold unpack_le16.
  destruct (Nat.eqb (List.length b) (2 * n)) eqn:E; [|discriminate].
  apply Nat.eqb_eq in E. intros H; inversion H; subst ws. clear H.
  assert (He : Nat.even (List.length b) = true).
  { rewrite E, Nat.even_mul. reflexivity. }
  destruct (words_of_sound b Hb He) as [I1 I2].
  split; [rewrite (pack_le16_ok _ I1), I2; reflexivity|].
  split; [|assumption].
  pose proof (concat_le16_length (words_of b)) as L. rewrite I2 in L. lia.
Qed.

Lemma unpack_le16_err : forall n b e, unpack_le16 n b = Raise e -> e = StructError /\ List.length b <> (2 * n)%nat.
Proof.
  intros n b e. unfold unpack_le16.
  destruct (Nat.eqb (List.length b) (2 * n)) eqn:E; [discriminate|].
  apply Nat.eqb_neq in E. intros H; inversion H. auto.
Qed.

(* ---------------------------------------------------------------- ota helpers *)

Lemma fw_int_to_hex_ok : forall ws, words_ok ws = true ->
  fw_int_to_hex ws = Ok (hexlify (concat (map le16 ws))).
Proof. intros ws H. unfold fw_int_to_hex. rewrite (pack_le16_ok ws H). reflexivity. Qed.

Lemma fw_int_to_hex_err : forall ws, words_ok ws = false -> fw_int_to_hex ws = Raise StructError.
Proof. intros ws H. unfold fw_int_to_hex. rewrite (pack_le16_err ws H). reflexivity. Qed.

Lemma fw_hex_int_roundtrip : forall ws s, fw_int_to_hex ws = Ok s -> fw_hex_to_int s (List.length ws) = Ok ws.
Proof.
  intros ws s. unfold fw_int_to_hex, fw_hex_to_int.
  destruct (pack_le16 ws) as [b|e] eqn:E; cbn [bind]; [|discriminate].
  intros H; inversion H; subst s.
  destruct (pack_le16_bytes ws b E) as [Hb _].
  rewrite (unhexlify_hexlify b Hb). cbn [bind]. apply unpack_pack. assumption.
Qed.

Lemma fw_int_hex_roundtrip : forall s n ws, fw_hex_to_int s n = Ok ws ->
  fw_int_to_hex ws = Ok (map lower_ascii s) /\ List.length ws = n /\ words_ok ws = true.
Proof.
  intros s n ws. unfold fw_hex_to_int, fw_int_to_hex.
  destruct (unhexlify s) as [b|e] eqn:E; cbn [bind]; [|discriminate].
  destruct (unhexlify_sound s b E) as [Hb Hh].
  intros H. destruct (pack_unpack n b ws Hb H) as (P & L & W).
  rewrite P. cbn [bind]. rewrite Hh. auto.
Qed.

Lemma fw_hex_to_int_errors : forall s n e, fw_hex_to_int s n = Raise e ->
  e = ValueError \/ e = BinasciiError \/ e = StructError.
Proof.
  intros s n e. unfold fw_hex_to_int.
  destruct (unhexlify s) as [b|e'] eqn:E; cbn [bind].
  - intros H. apply unpack_le16_err in H. tauto.
  - intros H; inversion H; subst e'. apply unhexlify_errors in E. tauto.
Qed.
