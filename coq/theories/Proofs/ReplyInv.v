(* C05, theorem 3: the invariant on stored data, withheld commands, queued jobs and the
   transport log (Inv5), kept by every step; hence every command the gateway ever emits or
   withholds is canonical and validates for the configured version. *)
From Coq Require Import List NArith ZArith Bool String Lia.
From PMS Require Import Base.PyStr Base.PyInt Base.Exn Model.Codec Model.Rules Model.TableTypes
  Gen.Tables Model.Validate Model.Hex Model.Ota Model.Oracles Model.Gateway Spec.SerialApi Spec.ReplyTable
  Proofs.PyStrFacts Proofs.PyIntFacts Proofs.CodecProofs Proofs.ValidateProofs Proofs.GwLemmas Proofs.GwInv
  Proofs.HexProofs Proofs.OtaProofs Proofs.ReplyBase Proofs.ReplyProofs.
Import ListNotations.
Open Scope string_scope.
Open Scope list_scope.
Open Scope Z_scope.

(* ---------------------------------------------------------------- carriable text *)
Lemma wire_ok_chars p : Forall (fun c => isspace c = false /\ c <> semi) p -> wire_ok p = true.
Proof.
  intro F. apply wire_ok_spec. split.
  - induction F as [|c r [_ H] _ IH]; [reflexivity|]. cbn [mem_N].
    destruct (N.eqb_spec semi c) as [E|_]; [symmetry in E; contradiction|exact IH].
  - unfold no_trailing. apply Forall_rev in F. destruct (rev p) as [|c r]; [reflexivity|].
    inversion F as [|? ? [H _] _]; subst. rewrite H. reflexivity.
Qed.

Lemma wire_ok_print z : wire_ok (print z) = true.
Proof.
  apply wire_ok_chars. pose proof (print_numchars z) as F.
  eapply Forall_impl; [|exact F]. intros c H. destruct (numchar_facts c H) as (_ & S & N & _).
  split; assumption.
Qed.

Lemma hexdigit_plain d : (d < 16)%N -> isspace (hexdigit false d) = false /\ hexdigit false d <> semi.
Proof.
  intro H. destruct (N_lt16_cases d H) as [->|[->|[->|[->|[->|[->|[->|[->|[->|[->|[->|[->|[->|[->|[->| ->]]]]]]]]]]]]]]];
    split; try (vm_compute; reflexivity); discriminate.
Qed.

Lemma wire_ok_hexlify b : bytes_ok b = true -> wire_ok (hexlify b) = true.
Proof.
  intro B. apply wire_ok_chars. unfold hexlify. induction b as [|x b IH]; [constructor|].
  apply bytes_ok_cons in B as [Hx Hb]. destruct (byte_split x Hx) as (H1 & H2 & _).
  cbn [hexlify_gen]. constructor; [apply hexdigit_plain; exact H1|].
  constructor; [apply hexdigit_plain; exact H2|apply IH; exact Hb].
Qed.

Lemma fw_int_to_hex_wire ws p : fw_int_to_hex ws = Ok p -> exists b, p = hexlify b /\ bytes_ok b = true.
Proof.
  unfold fw_int_to_hex. destruct (pack_le16 ws) as [b|e] eqn:E; cbn [bind]; [|discriminate].
  intro H. inversion H; subst. exists b. split; [reflexivity|]. apply (pack_le16_bytes ws b E).
Qed.

Lemma fold_max_ge l a : a <= fold_left Z.max l a.
Proof.
  revert a. induction l as [|x l IH]; intro a; simpl; [lia|]. specialize (IH (Z.max a x)). lia.
Qed.

Section Inv5.
  Variable orc : oracles.
  Variable clock : Z.
  Variable v : ver.

  Definition vld (m : msg) : bool := validate (orc_version orc) (orc_float orc) (tab_of v) m.
  Notation in_cls := (in_class (orc_version orc) (orc_float orc)).

  Lemma vld_spec n c ty a s p :
    vld (mkMsg n c ty a s p) = true <->
    (0 <= n <= 255 /\ spec_child_ok ty s c = true /\ between 0 4 ty = true /\ (a = 0 \/ a = 1) /\
     between 0 (max_sub v ty) s = true /\ in_cls (spec_class v ty s) p = true).
  Proof.
    unfold vld. rewrite validate_conforms. unfold spec_accepts. cbn [m_node m_child m_type m_ack m_sub m_payload].
    rewrite !andb_true_iff. unfold one_of. cbn [existsb]. unfold between at 1.
    split.
    - intros (((((A & B) & C) & D) & E) & F). repeat split; try assumption; lia.
    - intros (A & B & C & D & E & F). repeat split; try assumption; lia.
  Qed.

  Lemma vld_eta m : vld m = vld (mkMsg (m_node m) (m_child m) (m_type m) (m_ack m) (m_sub m) (m_payload m)).
  Proof. destruct m; reflexivity. Qed.

  Lemma gvalidate_vld g m : cfgv v g -> gvalidate orc g m = vld m.
  Proof. intro C. unfold gvalidate, vld. rewrite (cfgv_tab v g C). reflexivity. Qed.

  (* ---- the commands the gateway builds validate ---- *)
  Definition goodmsg (x : msg) : Prop := wire_ok (m_payload x) = true /\ vld x = true.
  Definition good (l : pstr) : Prop := exists x, l = encode x /\ goodmsg x.
  Definition good_to (k : Z) (l : pstr) : Prop := exists x, l = encode x /\ goodmsg x /\ m_node x = k.

  Lemma good_to_good k l : good_to k l -> good l.
  Proof. intros (x & E & G & _). exists x. split; assumption. Qed.

  Lemma good_presentation_request n : v_ge20 v = true -> 0 <= n <= 255 -> goodmsg (presentation_request n).
  Proof.
    intros G R. split; [reflexivity|]. apply vld_spec. split; [exact R|].
    destruct v; try discriminate G; vm_compute; auto 10.
  Qed.

  Lemma good_reboot n : 0 <= n <= 255 -> goodmsg (reboot_order n).
  Proof.
    intros R. split; [reflexivity|]. apply vld_spec. split; [exact R|]. destruct v; vm_compute; auto 10.
  Qed.

  Lemma good_discover : v_ge20 v = true -> goodmsg (discover_request 255).
  Proof.
    intros G. split; [reflexivity|]. apply vld_spec. split; [lia|].
    destruct v; try discriminate G; vm_compute; auto 10.
  Qed.

  Lemma good_config n (b : bool) : 0 <= n <= 255 -> goodmsg (mkMsg n 255 3 0 6 (s2p (if b then "M" else "I"))).
  Proof.
    intros R. split; [destruct b; reflexivity|]. apply vld_spec. split; [exact R|].
    destruct v, b; vm_compute; auto 10.
  Qed.

  Lemma good_time n z : 0 <= n <= 255 -> goodmsg (mkMsg n 255 3 0 1 (print z)).
  Proof.
    intros R. split; [apply wire_ok_print|]. apply vld_spec. split; [exact R|].
    assert (K : spec_class v 3 1 = IntOrEmpty) by (destruct v; reflexivity). rewrite K.
    cbn [in_class]. rewrite parse_print, orb_true_r.
    destruct v; vm_compute; auto 10.
  Qed.

  (* the id response copies the request's child id, which validation leaves unconstrained for
     id request / id response *)
  Lemma good_id_response n c i : 0 <= n <= 255 -> 1 <= i <= 254 -> goodmsg (mkMsg n c 3 0 4 (print i)).
  Proof.
    intros R Ri. split; [apply wire_ok_print|]. apply vld_spec. split; [exact R|].
    assert (K : spec_class v 3 4 = IntRange 1 254) by (destruct v; reflexivity). rewrite K.
    cbn [in_class]. unfold int_in. rewrite parse_print. unfold range_ok_Z.
    assert (X : (1 <=? i) && (i <=? 254) = true) by lia. rewrite X.
    destruct v; vm_compute; auto 10.
  Qed.

  (* a value accepted as a set message of (n, c, sub-type) with some ack is accepted with any ack *)
  Lemma vld_ack n c ty a a' s p : vld (mkMsg n c ty a s p) = true -> (a' = 0 \/ a' = 1) ->
    vld (mkMsg n c ty a' s p) = true.
  Proof. rewrite !vld_spec. intros (A & B & C & D & E & F) H. repeat split; try assumption; lia. Qed.
  Lemma vld_set_ack n c a a' s p : vld (mkMsg n c 1 a s p) = true -> (a' = 0 \/ a' = 1) ->
    vld (mkMsg n c 1 a' s p) = true.
  Proof. apply vld_ack. Qed.

  (* OTA responses: same header as the validated stream request, sub-type 1 / 3, any text *)
  Lemma vld_stream_response n c a s s' p p' : vld (mkMsg n c 4 a s p) = true -> (s' = 1 \/ s' = 3) ->
    vld (mkMsg n c 4 a s' p') = true.
  Proof.
    rewrite !vld_spec. intros (A & B & C & D & E & F) H. split; [exact A|]. repeat split; try assumption.
    destruct H as [-> | ->]; destruct v; reflexivity.
  Qed.

  (* validated internal messages other than id request / response carry child 255 *)
  Lemma internal_child n c a s p : vld (mkMsg n c 3 a s p) = true -> s <> 3 -> s <> 4 -> c = 255.
  Proof.
    rewrite vld_spec. intros (_ & B & _) N3 N4. unfold spec_child_ok, one_of in B.
    change (3 =? c_internal) with true in B. cbn [andb orb existsb] in B.
    destruct (Z.eqb_spec s 3); [contradiction|]. destruct (Z.eqb_spec s 4); [contradiction|].
    cbn [orb] in B. change (3 =? c_stream) with false in B. cbn [orb] in B. lia.
  Qed.

  (* ---- the invariant ---- *)
  Definition rv_ok (k c : Z) (e : Z * pyval) : Prop :=
    wire_ok (py_str (snd e)) = true /\ vld (mkMsg k c 1 0 (fst e) (py_str (snd e))) = true.
  Definition dv_wire (dv : list (Z * option pyval)) : Prop :=
    Forall (fun e => match snd e with Some x => wire_ok (py_str x) = true | None => True end) dv.

  Definition node5 (kn : Z * node) : Prop :=
    0 <= fst kn <= 255 /\
    Forall (fun cc => Forall (rv_ok (fst kn) (fst cc)) (c_values (snd cc))) (n_children (snd kn)) /\
    Forall (fun cd => dv_wire (snd cd)) (n_new (snd kn)) /\
    Forall (good_to (fst kn)) (n_queue (snd kn)).

  Definition job5 (j : job) : Prop := match j with JSend l => good l | JLogic _ => True end.
  Definition ev5 (e : event) : Prop := match e with ESend l => good l | _ => True end.
  Definition fw5 (o : ota) : Prop := Forall (fun e => bytes_ok (fw_data (snd e)) = true) (o_fw o).

  Definition Inv5 (g : gw) : Prop :=
    Forall node5 (g_sensors g) /\ Forall job5 (g_jobs g) /\ Forall ev5 (g_log g) /\ fw5 (g_ota g).

  Lemma Inv5_init cf : Inv5 (gw_init cf).
  Proof. repeat split; constructor. Qed.

  Lemma Inv5_emit g e : Inv5 g -> ev5 e -> Inv5 (emit g e).
  Proof.
    intros (A & B & C & D) E. repeat split; try assumption. simpl. apply Forall_app. split; [exact C|].
    constructor; [exact E|constructor].
  Qed.

  Lemma Inv5_send g l : Inv5 g -> good l -> Inv5 (send g l).
  Proof. intros I G. unfold send. destruct l; [exact I|]. apply Inv5_emit; assumption. Qed.

  Lemma Inv5_add_job g l : Inv5 g -> good l -> Inv5 (add_job_send g l).
  Proof.
    intros I G. unfold add_job_send. destruct (cf_async (g_cf g)); [apply Inv5_send; assumption|].
    destruct I as (A & B & C & D). repeat split; try assumption. simpl. apply Forall_app. split; [exact B|].
    constructor; [exact G|constructor].
  Qed.

  Lemma Inv5_fold_add_job ls g : Inv5 g -> Forall good ls -> Inv5 (fold_left add_job_send ls g).
  Proof.
    revert g. induction ls as [|l ls IH]; intros g I F; simpl; [exact I|].
    inversion F; subst. apply IH; [apply Inv5_add_job; assumption|assumption].
  Qed.

  Lemma Inv5_alert g m : Inv5 g -> Inv5 (alert g m).
  Proof.
    intros I. unfold alert.
    assert (I1 : Inv5 (if cf_callback (g_cf g) then emit g (ECallback m (proj (g_sensors g))) else g)).
    { destruct (cf_callback (g_cf g)); [apply Inv5_emit; [exact I|exact Logic.I]|exact I]. }
    destruct (cf_persist (g_cf g)); [|exact I1].
    destruct I1 as (A & B & C & D). repeat split; assumption.
  Qed.

  Lemma Inv5_put_node g nd : Inv5 g -> node5 (n_id nd, nd) -> Inv5 (put_node g nd).
  Proof.
    intros (A & B & C & D) N. repeat split; try assumption. simpl. apply Forall_zset; assumption.
  Qed.

  Lemma get_node5 g k nd : Inv5 g -> get_node g k = Some nd -> node5 (k, nd).
  Proof. intros (A & _) G. exact (zassoc_Forall _ _ _ _ A G). Qed.

  Lemma Inv5_add_sensor g sid : Inv5 g -> 0 <= sid <= 255 -> Inv5 (add_sensor g sid).
  Proof.
    intros I R. unfold add_sensor. destruct (zhas sid (g_sensors g)); [exact I|].
    destruct I as (A & B & C & D). repeat split; try assumption. simpl. apply Forall_app. split; [exact A|].
    constructor; [|constructor]. split; [exact R|]. repeat split; constructor.
  Qed.

  Lemma Inv5_set_ota g o : Inv5 g -> fw5 o -> Inv5 (set_ota g o).
  Proof. intros (A & B & C & _) D. repeat split; assumption. Qed.

  Lemma Inv5_set_jobs g j : Inv5 g -> Forall job5 j -> Inv5 (set_jobs g j).
  Proof. intros (A & _ & C & D) B. repeat split; assumption. Qed.

  (* a node update that keeps children values, desired state and queue *)
  Lemma node5_same k nd nd' : n_children nd' = n_children nd -> n_new nd' = n_new nd -> n_queue nd' = n_queue nd ->
    node5 (k, nd) -> node5 (k, nd').
  Proof. unfold node5. simpl. intros -> -> ->. tauto. Qed.

  Lemma Inv5_put_same g k nd nd' : Inv orc g -> Inv5 g -> get_node g k = Some nd ->
    n_id nd' = n_id nd -> n_children nd' = n_children nd -> n_new nd' = n_new nd -> n_queue nd' = n_queue nd ->
    Inv5 (put_node g nd').
  Proof.
    intros I I5 G E1 E2 E3 E4. apply Inv5_put_node; [exact I5|].
    pose proof (get_node_ok orc g _ _ I G) as [K _]. simpl in K. rewrite E1, K.
    apply (node5_same k nd); try assumption. apply (get_node5 g); assumption.
  Qed.

  (* ---- routing ---- *)
  Lemma route5 g x : cfgv v g -> Inv orc g -> Inv5 g -> goodmsg x ->
    Inv5 (fst (route g x)) /\ forall x', snd (route g x) = Some x' -> x' = x.
  Proof.
    intros C I I5 G. rewrite (route_closed v g x C).
    destruct (m_type x =? 0); [split; [exact I5|discriminate]|].
    destruct (withheld (vsleep g) x) eqn:W; [|split; [exact I5|intros x' H; inversion H; reflexivity]].
    split; [|discriminate]. cbn [fst]. unfold enqueue.
    destruct (get_node g (m_node x)) as [nd|] eqn:GN; [|exact I5].
    pose proof (get_node_ok orc g _ _ I GN) as [K _]. simpl in K.
    apply Inv5_put_node; [exact I5|]. simpl. rewrite K.
    destruct (get_node5 g _ _ I5 GN) as (R & CH & NW & Q). simpl in *.
    split; [exact R|]. split; [exact CH|]. split; [exact NW|]. simpl.
    apply Forall_app. split; [exact Q|]. constructor; [|constructor].
    exists x. split; [reflexivity|]. split; [exact G|reflexivity].
  Qed.

  Lemma deliver5 g x : cfgv v g -> Inv orc g -> Inv5 g -> goodmsg x -> Inv5 (deliver g x).
  Proof.
    intros C I I5 G. unfold deliver. destruct (route5 g x C I I5 G) as [A B].
    destruct (route g x) as [g1 [x'|]]; simpl in *; [|exact A].
    rewrite (B x' eq_refl). apply Inv5_add_job; [exact A|]. exists x. split; [reflexivity|exact G].
  Qed.

  (* ---- is_sensor: the presentation request is addressed to sid, and is only made when sid is a
     node id (`sensorid in range(BROADCAST_ID + 1)`), for ANY sid ---- *)
  Lemma is_sensor5 g sid cid g1 b : cfgv v g -> Inv orc g -> Inv5 g ->
    is_sensor g sid cid = Ok (g1, b) -> Inv5 g1.
  Proof.
    intros C I I5 H. rewrite (is_sensor_closed clock v g sid cid C) in H.
    destruct (guard_ok clock g sid cid); [inversion H; subst; exact I5|].
    destruct (node_id_ok sid) eqn:NK; cbn [andb] in H; [|inversion H; subst; exact I5].
    destruct (v_ge20 v) eqn:GE; inversion H; subst; [|exact I5].
    apply deliver5; try assumption. apply good_presentation_request; [exact GE|].
    apply node_id_ok_iff. exact NK.
  Qed.
  (* ---- handlers ---- *)
  Definition h5 (r : res (gw * option msg)) : Prop :=
    forall g1 rep, r = Ok (g1, rep) -> Inv5 g1 /\ forall x, rep = Some x -> goodmsg x.

  Lemma vld_node_range m : vld m = true -> 0 <= m_node m <= 255.
  Proof. rewrite vld_eta, vld_spec. tauto. Qed.

  Lemma ucv_node5 k nd c s p : node5 (k, nd) -> rv_ok k c (s, PS p) -> node5 (k, update_child_value nd c s p).
  Proof.
    intros (R & CH & NW & Q) RV. simpl in R, CH, NW, Q. unfold update_child_value.
    destruct (zassoc c (n_children nd)) as [ch|] eqn:E; [|split; [exact R|]; split; [exact CH|]; split; assumption].
    assert (CH' : Forall (fun cc => Forall (rv_ok k (fst cc)) (c_values (snd cc)))
                         (zset c (mkChild (c_id ch) (c_type ch) (c_desc ch) (zset s (PS p) (c_values ch))) (n_children nd))).
    { apply Forall_zset; [exact CH|]. simpl. apply Forall_zset; [|exact RV].
      pose proof (zassoc_Forall _ _ _ _ CH E) as X. simpl in X. exact X. }
    destruct (zassoc c (n_new nd)) as [dv|] eqn:D.
    - split; [exact R|]. split; [exact CH'|]. split; [|exact Q]. simpl. apply Forall_zset; [exact NW|]. simpl.
      apply Forall_zset; [|exact Logic.I]. pose proof (zassoc_Forall _ _ _ _ NW D) as X. simpl in X. exact X.
    - split; [exact R|]. split; [exact CH'|]. split; assumption.
  Qed.

  Lemma handle_set5 g m : cfgv v g -> Inv orc g -> Inv5 g -> wire_ok (m_payload m) = true -> vld m = true ->
    m_type m = 1 -> h5 (handle_set g m).
  Proof.
    intros C I I5 W V Ty g1 rep. unfold handle_set.
    destruct (is_sensor g (m_node m) (Some (m_child m))) as [[g0 b]|e] eqn:IS; cbn [bind]; [|discriminate].
    pose proof (vld_node_range m V) as RN.
    assert (I0 : Inv5 g0) by (apply (is_sensor5 g _ _ _ _ C I I5 IS)).
    destruct (is_sensor_eff orc clock v _ _ _ _ _ C I RN IS) as (B & _ & GG).
    destruct b; cbn [negb].
    - specialize (GG eq_refl). subst g0. symmetry in B. destruct (guard_get clock _ _ _ B) as (nd & G & _). rewrite G.
      pose proof (get_node_ok orc g _ _ I G) as [K _]. simpl in K.
      assert (I2 : Inv5 (alert (put_node g (update_child_value nd (m_child m) (m_sub m) (m_payload m))) m)).
      { apply Inv5_alert. apply Inv5_put_node; [exact I5|]. rewrite ucv_id, K.
        apply ucv_node5; [apply (get_node5 g); assumption|]. split; [exact W|]. simpl.
        rewrite vld_eta, Ty in V. apply (vld_set_ack _ _ (m_ack m)); [exact V|left; reflexivity]. }
      destruct (n_reboot (update_child_value nd (m_child m) (m_sub m) (m_payload m))).
      + unfold internal_member. rewrite (cfgv_tab v g C), k_reboot, k_internal. cbn [of_option bind].
        rewrite copy_spec by exact W. cbn [bind]. intro H. inversion H; subst g1 rep. split; [exact I2|].
        intros x E. inversion E; subst x. apply (good_reboot (m_node m) RN).
      + intro H. inversion H; subst g1 rep. split; [exact I2|discriminate].
    - intro H. inversion H; subst g1 rep. split; [exact I0|discriminate].
  Qed.

  Lemma desired5 g n nd c s x : cfgv v g -> Inv orc g -> Inv5 g -> get_node g n = Some nd ->
    get_desired_value nd c s = Some x ->
    wire_ok (py_str x) = true /\ vld (mkMsg n c 1 0 s (py_str x)) = true.
  Proof.
    intros C I I5 G. pose proof (get_node_ok orc g _ _ I G) as [K N]. simpl in K, N.
    destruct (get_node5 g _ _ I5 G) as (_ & CH & NW & _). simpl in CH, NW.
    unfold get_desired_value. destruct (zassoc c (n_children nd)) as [ch|] eqn:E; [|discriminate].
    assert (REP : zassoc s (c_values ch) = Some x ->
                  wire_ok (py_str x) = true /\ vld (mkMsg n c 1 0 s (py_str x)) = true).
    { intro S. pose proof (zassoc_Forall _ _ _ _ CH E) as X. simpl in X.
      pose proof (zassoc_Forall _ _ _ _ X S) as Y. exact Y. }
    destruct (sleeping nd); [|exact REP].
    destruct (zassoc c (n_new nd)) as [dv|] eqn:D; [|exact REP].
    destruct (zassoc s dv) as [[y|]|] eqn:S; try exact REP.
    intro H. inversion H; subst y. split.
    - pose proof (zassoc_Forall _ _ _ _ NW D) as X. simpl in X.
      pose proof (zassoc_Forall _ _ _ _ X S) as Y. exact Y.
    - pose proof (zassoc_Forall _ _ _ _ N D) as X. simpl in X.
      pose proof (zassoc_Forall _ _ _ _ X S) as Y. simpl in Y. unfold dvalid in Y.
      rewrite (cfgv_tab v g C), k_set, K in Y. exact Y.
  Qed.

  Lemma handle_req5 g m : cfgv v g -> Inv orc g -> Inv5 g -> wire_ok (m_payload m) = true -> vld m = true ->
    m_type m = 2 -> h5 (handle_req g m).
  Proof.
    intros C I I5 W V Ty g1 rep. unfold handle_req.
    destruct (is_sensor g (m_node m) (Some (m_child m))) as [[g0 b]|e] eqn:IS; cbn [bind]; [|discriminate].
    pose proof (vld_node_range m V) as RN.
    assert (I0 : Inv5 g0) by (apply (is_sensor5 g _ _ _ _ C I I5 IS)).
    destruct (is_sensor_eff orc clock v _ _ _ _ _ C I RN IS) as (B & _ & GG).
    destruct b; cbn [negb].
    - specialize (GG eq_refl). subst g0. symmetry in B. destruct (guard_get clock _ _ _ B) as (nd & G & _). rewrite G.
      destruct (get_desired_value nd (m_child m) (m_sub m)) as [x|] eqn:DV.
      + rewrite copy_spec by exact W. cbn [bind]. intro H. inversion H; subst g1 rep. split; [exact I5|].
        intros y E. inversion E; subst y.
        destruct (desired5 g _ _ _ _ _ C I I5 G DV) as [WX VX].
        split; [exact WX|]. rewrite override_eta. cbn [ov r_node r_child r_type r_ack r_sub r_payload repl_type_payload].
        rewrite (cfgv_tab v g C), k_set. apply (vld_set_ack _ _ 0); [exact VX|].
        rewrite vld_eta, vld_spec in V. tauto.
      + intro H. inversion H; subst g1 rep. split; [exact I5|discriminate].
    - intro H. inversion H; subst g1 rep. split; [exact I0|discriminate].
  Qed.

  Lemma handle_presentation5 g m : cfgv v g -> Inv orc g -> Inv5 g -> wire_ok (m_payload m) = true -> vld m = true ->
    h5 (handle_presentation orc g m).
  Proof.
    intros C I I5 W V g1 rep. unfold handle_presentation. pose proof (vld_node_range m V) as RN.
    destruct (m_child m =? system_child_id).
    - destruct (get_node (add_sensor g (m_node m)) (m_node m)) as [nd|] eqn:G; [|discriminate].
      intro H. inversion H; subst g1 rep. split; [|intros x E; inversion E; subst x; split; assumption].
      apply Inv5_alert.
      apply (Inv5_put_same (add_sensor g (m_node m)) (m_node m) nd); try reflexivity;
        [apply Inv_add_sensor; exact I|apply Inv5_add_sensor; assumption|exact G].
    - destruct (is_sensor g (m_node m) None) as [[g0 b]|e] eqn:IS; cbn [bind]; [|discriminate].
      assert (I0 : Inv5 g0) by (apply (is_sensor5 g _ _ _ _ C I I5 IS)).
      destruct (is_sensor_eff orc clock v _ _ _ _ _ C I RN IS) as (B & _ & GG).
      destruct b; cbn [negb].
      + specialize (GG eq_refl). subst g0. symmetry in B. destruct (guard_get clock _ _ _ B) as (nd & G & _). rewrite G.
        destruct (zhas (m_child m) (n_children nd)).
        * intro H. inversion H; subst g1 rep. split; [exact I5|discriminate].
        * intro H. inversion H; subst g1 rep. split; [|intros x E; inversion E; subst x; split; assumption].
          apply Inv5_alert. apply Inv5_put_node; [exact I5|].
          pose proof (get_node_ok orc g _ _ I G) as [K _]. simpl in K.
          destruct (get_node5 g _ _ I5 G) as (R & CH & NW & Q). simpl in R, CH, NW, Q.
          change (n_id (with_children nd (n_children nd ++ [(m_child m, mkChild (m_child m) (m_sub m) (m_payload m) [])])))
            with (n_id nd). rewrite K.
          split; [exact R|]. split; [|split; assumption]. simpl.
          apply Forall_app. split; [exact CH|]. constructor; [constructor|constructor].
      + intro H. inversion H; subst g1 rep. split; [exact I0|discriminate].
  Qed.

  Lemma node_attr5 f g m : cfgv v g -> Inv orc g -> Inv5 g -> vld m = true ->
    (forall nd p, n_id (f nd p) = n_id nd /\ n_children (f nd p) = n_children nd /\
                  n_new (f nd p) = n_new nd /\ n_queue (f nd p) = n_queue nd) ->
    h5 (node_attr_handler f g m).
  Proof.
    intros C I I5 V Hf g1 rep. unfold node_attr_handler. pose proof (vld_node_range m V) as RN.
    destruct (is_sensor g (m_node m) None) as [[g0 b]|e] eqn:IS; cbn [bind]; [|discriminate].
    assert (I0 : Inv5 g0) by (apply (is_sensor5 g _ _ _ _ C I I5 IS)).
    destruct (is_sensor_eff orc clock v _ _ _ _ _ C I RN IS) as (B & _ & GG).
    destruct b; cbn [negb].
    - specialize (GG eq_refl). subst g0. symmetry in B. destruct (guard_get clock _ _ _ B) as (nd & G & _). rewrite G.
      intro H. inversion H; subst g1 rep. split; [|discriminate].
      destruct (Hf nd (m_payload m)) as (E1 & E2 & E3 & E4).
      apply Inv5_alert. apply (Inv5_put_same g (m_node m) nd); assumption.
    - intro H. inversion H; subst g1 rep. split; [exact I0|discriminate].
  Qed.

  Lemma next_id_range g nid : cfgv v g -> Inv5 g -> next_id g = Some nid -> 1 <= nid <= 254.
  Proof.
    intros C (A & _). unfold next_id. rewrite (cfgv_tab v g C), k_max_node.
    destruct (g_sensors g) as [|[k a] l].
    - intro H. cbn in H. inversion H. lia.
    - set (mx := fold_left Z.max (map fst ((k, a) :: l)) (fst (hd (0, new_node 0) ((k, a) :: l)))).
      assert (L : k <= mx) by (subst mx; cbn [hd fst]; apply fold_max_ge).
      inversion A as [|? ? N5 _]; subst. destruct N5 as (R & _). simpl in R.
      destruct (mx + 1 <=? 254) eqn:LE; intro H; inversion H; lia.
  Qed.

  Lemma handle_id_request5 g m : cfgv v g -> Inv orc g -> Inv5 g -> wire_ok (m_payload m) = true -> vld m = true ->
    m_type m = 3 -> h5 (handle_id_request g m).
  Proof.
    intros C I I5 W V Ty g1 rep. unfold handle_id_request. pose proof (vld_node_range m V) as RN.
    destruct (next_id g) as [nid|] eqn:NX; [|intro H; inversion H; subst g1 rep; split; [exact I5|discriminate]].
    pose proof (next_id_range g nid C I5 NX) as RI.
    assert (IA : Inv5 (add_sensor g nid)) by (apply Inv5_add_sensor; [exact I5|lia]).
    destruct (zhas nid (g_sensors (add_sensor g nid))); cbn [negb];
      [|intro H; inversion H; subst g1 rep; split; [exact IA|discriminate]].
    unfold internal_member. rewrite (cfgv_tab v g C), k_id_response. cbn [of_option bind].
    rewrite copy_spec by exact W. cbn [bind]. intro H. inversion H; subst g1 rep.
    split; [apply Inv5_alert; exact IA|]. intros x E. inversion E; subst x.
    rewrite override_eta. cbn [ov r_node r_child r_type r_ack r_sub r_payload]. rewrite Ty.
    apply good_id_response; assumption.
  Qed.

  (* ---- wake-up flush ---- *)
  Lemma init_smart_sleep5 k nd : node5 (k, nd) -> node5 (k, init_smart_sleep nd).
  Proof.
    intros (R & CH & NW & Q). simpl in R, CH, NW, Q. split; [exact R|]. split; [exact CH|]. split; [|exact Q].
    simpl. generalize (n_children nd). intro chs. revert NW. generalize (n_new nd).
    induction chs as [|[c ch] r IH]; intros nw NW; simpl; [exact NW|].
    apply IH. destruct (zhas c nw); [exact NW|].
    apply Forall_app. split; [exact NW|]. constructor; [|constructor]. simpl. constructor.
  Qed.

  Lemma flush_values_pre5 g nid cid dv vals : cfgv v g -> dv_wire dv ->
    Forall good (fst (flush_values_pre orc g nid cid dv vals)).
  Proof.
    intros C DW. induction vals as [|[vt x] r IH]; simpl; [constructor|].
    destruct (zassoc vt dv) as [[y|]|] eqn:E; try exact IH.
    destruct (create_set_message orc g nid cid (VtInt vt) y None None) as [m0|e0] eqn:CM; [|constructor].
    destruct (flush_values_pre orc g nid cid dv r) as [rest e']. simpl in *. constructor; [|exact IH].
    unfold create_set_message in CM. cbn [vt_int] in CM.
    destruct (gvalidate orc g (mkMsg nid cid (vt_set (tab g)) 0 vt (py_str y))) eqn:GV; inversion CM; subst m0.
    eexists. split; [reflexivity|]. split.
    - pose proof (zassoc_Forall _ _ _ _ DW E) as X. exact X.
    - rewrite <- (gvalidate_vld g _ C). exact GV.
  Qed.

  Lemma flush_children_pre5 g nd chs : cfgv v g -> Forall (fun cd => dv_wire (snd cd)) (n_new nd) ->
    Forall good (fst (flush_children_pre orc g nd chs)).
  Proof.
    intros C NW. induction chs as [|[kk ch] r IH]; simpl; [constructor|].
    destruct (zassoc (c_id ch) (n_new nd)) as [dv|] eqn:E; [|exact IH].
    pose proof (zassoc_Forall _ _ _ _ NW E) as DW. simpl in DW.
    pose proof (flush_values_pre5 g (n_id nd) (c_id ch) dv (c_values ch) C DW) as P.
    destruct (flush_values_pre orc g (n_id nd) (c_id ch) dv (c_values ch)) as [a [e|]]; simpl in *; [exact P|].
    destruct (flush_children_pre orc g nd r) as [b e']. simpl in *. apply Forall_app. split; assumption.
  Qed.

  Lemma handle_smartsleep5 g k nd g2 : cfgv v g -> Inv orc g -> Inv5 g -> get_node g k = Some nd ->
    handle_smartsleep orc g nd = Ok g2 -> Inv5 g2.
  Proof.
    intros C I I5 G. unfold handle_smartsleep.
    pose proof (get_node_ok orc g _ _ I G) as [K _]. simpl in K.
    pose proof (init_smart_sleep5 k nd (get_node5 g _ _ I5 G)) as N1.
    set (nd1 := init_smart_sleep nd) in *.
    set (nd2 := with_queue nd1 []).
    assert (N2 : node5 (n_id nd2, nd2)).
    { change (n_id nd2) with (n_id nd). rewrite K. destruct N1 as (R & CH & NW & Q).
      split; [exact R|]. split; [exact CH|]. split; [exact NW|constructor]. }
    set (g1 := put_node g nd2).
    assert (I1 : Inv5 g1) by (apply Inv5_put_node; assumption).
    set (g2' := fold_left add_job_send (n_queue nd1) g1).
    assert (I2 : Inv5 g2').
    { apply Inv5_fold_add_job; [exact I1|]. destruct N1 as (_ & _ & _ & Q). simpl in Q.
      eapply Forall_impl; [|exact Q]. intros l. apply good_to_good. }
    assert (C2 : cfgv v g2').
    { apply (cfgv_ext v g); [|exact C]. destruct (fold_add_job_send_frame (n_queue nd1) g1) as (_&_&CC&_). exact CC. }
    pose proof (flush_children_pre5 g2' nd2 (n_children nd2) C2) as FP.
    destruct (flush_children_pre orc g2' nd2 (n_children nd2)) as [sets e]. simpl in FP.
    destruct e; [discriminate|]. intro H. inversion H; subst g2.
    apply Inv5_fold_add_job; [exact I2|]. apply FP. destruct N1 as (_ & _ & NW & _). exact NW.
  Qed.

  Lemma handle_heartbeat5 g m : cfgv v g -> Inv orc g -> Inv5 g -> vld m = true ->
    h5 (handle_heartbeat_response orc g m).
  Proof.
    intros C I I5 V g1 rep. unfold handle_heartbeat_response. pose proof (vld_node_range m V) as RN.
    destruct (is_sensor g (m_node m) None) as [[g0 b]|e] eqn:IS; cbn [bind]; [|discriminate].
    assert (I0 : Inv5 g0) by (apply (is_sensor5 g _ _ _ _ C I I5 IS)).
    destruct (is_sensor_eff orc clock v _ _ _ _ _ C I RN IS) as (B & _ & GG).
    destruct b; cbn [negb].
    - specialize (GG eq_refl). subst g0. symmetry in B. destruct (guard_get clock _ _ _ B) as (nd & G & _). rewrite G.
      destruct (handle_smartsleep_ok orc g (m_node m) nd I G) as (g2 & E2 & IG2 & C2 & nd2 & G2).
      rewrite E2. cbn [bind]. rewrite G2. intro H. inversion H; subst g1 rep. split; [|discriminate].
      apply Inv5_alert. apply (Inv5_put_same g2 (m_node m) nd2); try reflexivity; try assumption.
      apply (handle_smartsleep5 g (m_node m) nd); assumption.
    - intro H. inversion H; subst g1 rep. split; [exact I0|discriminate].
  Qed.

  Lemma handle_pre_sleep5 g m : cfgv v g -> Inv orc g -> Inv5 g -> vld m = true ->
    h5 (handle_pre_sleep orc g m).
  Proof.
    intros C I I5 V g1 rep. unfold handle_pre_sleep. pose proof (vld_node_range m V) as RN.
    destruct (is_sensor g (m_node m) None) as [[g0 b]|e] eqn:IS; cbn [bind]; [|discriminate].
    assert (I0 : Inv5 g0) by (apply (is_sensor5 g _ _ _ _ C I I5 IS)).
    destruct (is_sensor_eff orc clock v _ _ _ _ _ C I RN IS) as (B & _ & GG).
    destruct b; cbn [negb].
    - specialize (GG eq_refl). subst g0. symmetry in B. destruct (guard_get clock _ _ _ B) as (nd & G & _). rewrite G.
      destruct (handle_smartsleep orc g nd) as [g2|e] eqn:E2; cbn [bind]; [|discriminate].
      intro H. inversion H; subst g1 rep. split; [|discriminate].
      apply (handle_smartsleep5 g (m_node m) nd); assumption.
    - intro H. inversion H; subst g1 rep. split; [exact I0|discriminate].
  Qed.
  (* ---- OTA responses ---- *)
  Lemma fw_lookup5 t x l f : Forall (fun e : (Z * Z) * fware => bytes_ok (fw_data (snd e)) = true) l ->
    fw_lookup t x l = Some f -> bytes_ok (fw_data f) = true.
  Proof.
    intros F. induction l as [|[[t' x'] f'] l IH]; simpl; [discriminate|].
    inversion F; subst. destruct (Z.eqb t t' && Z.eqb x x'); [intro H; inversion H; subst; assumption|auto].
  Qed.

  Lemma ota_get_fw5 o nid first req : fw5 o ->
    fw5 (fst (ota_get_fw o nid first req)) /\
    forall t x f, snd (ota_get_fw o nid first req) = Some (t, x, f) -> bytes_ok (fw_data f) = true.
  Proof.
    intro F. unfold ota_get_fw.
    set (s1 := if first then o_requested o else o_unstarted o).
    set (s2 := if first then o_unstarted o else o_started o).
    replace (if first then (o_requested o, o_unstarted o) else (o_unstarted o, o_started o)) with (s1, s2)
      by (subst s1 s2; destruct first; reflexivity).
    cbv beta iota.
    assert (CASE : forall id s1' s2',
      let o' := if first then mkOta (o_fw o) s1' s2' (o_started o) else mkOta (o_fw o) (o_requested o) s1' s2' in
      let r := (let '(t, x) := match req with Some r => r | None => id end in
                match fw_lookup t x (o_fw o) with Some f => (o', Some (t, x, f)) | None => (o', None) end) in
      fw5 (fst r) /\ forall t x f, snd r = Some (t, x, f) -> bytes_ok (fw_data f) = true).
    { intros id s1' s2' o' r.
      assert (F' : fw5 o') by (subst o'; destruct first; exact F).
      subst r. destruct (match req with Some r => r | None => id end) as [t0 x0].
      destruct (fw_lookup t0 x0 (o_fw o)) as [f|] eqn:L; simpl; (split; [exact F'|]); intros t x f' H;
        [inversion H; subst; apply (fw_lookup5 _ _ _ _ F L)|discriminate]. }
    destruct (zassoc nid s1) as [id|].
    - apply CASE.
    - destruct (zassoc nid s2) as [id|]; [apply CASE|]. simpl. split; [exact F|discriminate].
  Qed.

  Lemma respond_fw_config5 g m : cfgv v g -> Inv5 g -> wire_ok (m_payload m) = true -> vld m = true ->
    m_type m = 4 -> h5 (respond_fw_config g m).
  Proof.
    intros C I5 W V Ty g1 rep. unfold respond_fw_config.
    destruct (fw_hex_to_int (m_payload m) 5); [|intro H; inversion H; subst g1 rep; split; [exact I5|discriminate]].
    assert (F : fw5 (g_ota g)) by (destruct I5 as (_&_&_&F); exact F).
    destruct (ota_get_fw5 (g_ota g) (m_node m) true None F) as [F' R].
    destruct (ota_get_fw (g_ota g) (m_node m) true None) as [o' r]. simpl in F', R.
    assert (I' : Inv5 (set_ota g o')) by (apply Inv5_set_ota; assumption).
    destruct r as [[[t x] f]|]; [|intro H; inversion H; subst g1 rep; split; [exact I'|discriminate]].
    unfold stream_member. rewrite (cfgv_tab v g C), k_fw_config_response. cbn [of_option bind].
    rewrite copy_spec by exact W. cbn [bind].
    destruct (fw_config_payload t x f) as [p|e] eqn:P; cbn [bind]; [|discriminate].
    intro H. inversion H; subst g1 rep. split; [exact I'|]. intros y E. inversion E; subst y.
    unfold fw_config_payload in P. destruct (fw_int_to_hex_wire _ _ P) as (b & -> & B).
    split; [apply wire_ok_hexlify; exact B|].
    unfold set_payload. rewrite override_eta. cbn [ov r_node r_child r_type r_ack r_sub r_payload m_node m_child m_type m_ack m_sub].
    rewrite Ty. rewrite vld_eta, Ty in V. apply (vld_stream_response _ _ _ _ _ _ _ V). left. reflexivity.
  Qed.

  Lemma respond_fw5 g m : cfgv v g -> Inv5 g -> wire_ok (m_payload m) = true -> vld m = true ->
    m_type m = 4 -> h5 (respond_fw g m).
  Proof.
    intros C I5 W V Ty g1 rep. unfold respond_fw.
    destruct (fw_hex_to_int (m_payload m) 3) as [ws|e];
      [|intro H; inversion H; subst g1 rep; split; [exact I5|discriminate]].
    destruct ws as [|rt [|rv [|rb [|x0 y0]]]];
      try (intro H; inversion H; subst g1 rep; split; [exact I5|discriminate]).
    assert (F : fw5 (g_ota g)) by (destruct I5 as (_&_&_&F); exact F).
    destruct (ota_get_fw5 (g_ota g) (m_node m) false (Some (rt, rv)) F) as [F' R].
    destruct (ota_get_fw (g_ota g) (m_node m) false (Some (rt, rv))) as [o' r]. simpl in F', R.
    assert (I' : Inv5 (set_ota g o')) by (apply Inv5_set_ota; assumption).
    destruct r as [[[t x] f]|]; [|intro H; inversion H; subst g1 rep; split; [exact I'|discriminate]].
    unfold stream_member. rewrite (cfgv_tab v g C), k_fw_response. cbn [of_option bind].
    rewrite copy_spec by exact W. cbn [bind].
    destruct (fw_response_payload t x rb f) as [p|e] eqn:P; cbn [bind]; [|discriminate].
    intro H. inversion H; subst g1 rep. split; [exact I'|]. intros y E. inversion E; subst y.
    unfold fw_response_payload in P. destruct (fw_int_to_hex [t; x; rb]) as [h|e] eqn:HX; cbn [bind] in P; [|discriminate].
    inversion P; subst p. destruct (fw_int_to_hex_wire _ _ HX) as (b & -> & B).
    split.
    - cbn [set_payload m_payload]. rewrite <- hexlify_app. apply wire_ok_hexlify. rewrite bytes_ok_app, B.
      apply fw_block_bytes. apply (R t x f eq_refl).
    - unfold set_payload. rewrite override_eta. cbn [ov r_node r_child r_type r_ack r_sub r_payload m_node m_child m_type m_ack m_sub].
      rewrite Ty. rewrite vld_eta, Ty in V. apply (vld_stream_response _ _ _ _ _ _ _ V). right. reflexivity.
  Qed.

  Lemma handle_stream5 g m : cfgv v g -> Inv orc g -> Inv5 g -> wire_ok (m_payload m) = true -> vld m = true ->
    m_type m = 4 -> h5 (handle_stream orc clock g m).
  Proof.
    intros C I I5 W V Ty g1 rep. unfold handle_stream. pose proof (vld_node_range m V) as RN.
    destruct (is_sensor g (m_node m) None) as [[g0 b]|e] eqn:IS; cbn [bind]; [|discriminate].
    assert (I0 : Inv5 g0) by (apply (is_sensor5 g _ _ _ _ C I I5 IS)).
    destruct (is_sensor_eff orc clock v _ _ _ _ _ C I RN IS) as (B & _ & GG).
    destruct b; cbn [negb]; [|intro H; inversion H; subst g1 rep; split; [exact I0|discriminate]].
    specialize (GG eq_refl). subst g0.
    assert (RS : between 0 (max_sub v 4) (m_sub m) = true).
    { rewrite vld_eta, vld_spec, Ty in V. tauto. }
    rewrite (cfgv_tab v g C), Ty, (stream_resolution v _ RS). unfold stream_expected.
    destruct (m_sub m =? 0).
    - unfold run_leaf. destruct (respond_fw_config g m) as [[g2 resp]|e] eqn:R; cbn [bind]; [|discriminate].
      destruct (respond_fw_config5 g m C I5 W V Ty g2 resp R) as [I2 G2].
      intro H. inversion H; subst g1 rep. split; [apply Inv5_alert; exact I2|exact G2].
    - destruct (m_sub m =? 2).
      + unfold run_leaf. destruct (respond_fw g m) as [[g2 resp]|e] eqn:R; cbn [bind]; [|discriminate].
        destruct (respond_fw5 g m C I5 W V Ty g2 resp R) as [I2 G2].
        intro H. inversion H; subst g1 rep. split; [apply Inv5_alert; exact I2|exact G2].
      + intro H. inversion H; subst g1 rep. split; [exact I5|discriminate].
  Qed.

  (* ---- internal ---- *)
  Lemma handle_internal5 g m : cfgv v g -> Inv orc g -> Inv5 g -> wire_ok (m_payload m) = true -> vld m = true ->
    m_type m = 3 -> h5 (handle_internal orc clock g m).
  Proof.
    intros C I I5 W V Ty. unfold handle_internal. rewrite (cfgv_tab v g C), Ty.
    pose proof (vld_node_range m V) as RN.
    assert (V3 : vld (mkMsg (m_node m) (m_child m) 3 (m_ack m) (m_sub m) (m_payload m)) = true)
      by (rewrite <- Ty, <- vld_eta; exact V).
    assert (B : between 0 (max_sub v 3) (m_sub m) = true) by (apply vld_spec in V3; tauto).
    pose proof (internal_resolution v _ B) as A.
    pose proof (action_sub v (m_sub m) _ eq_refl) as AS.
    destruct (sub_handler (tab_of v) 3 (m_sub m)) as [h|]; [destruct h|]; cbn [act_of] in A; try discriminate A;
      injection A as A; rewrite <- A in AS; unfold run_leaf.
    - apply handle_id_request5; assumption.
    - (* config *) intros g1 rep. unfold handle_config. rewrite copy_spec by exact W. cbn [bind].
      intro H. inversion H; subst g1 rep. split; [exact I5|]. intros x E. inversion E; subst x.
      rewrite override_eta. cbn [ov r_node r_child r_type r_ack r_sub r_payload]. rewrite Ty, AS.
      rewrite (internal_child _ _ _ _ _ V3) by lia. apply good_config. exact RN.
    - (* time *) intros g1 rep. unfold handle_time. rewrite copy_spec by exact W. cbn [bind].
      intro H. inversion H; subst g1 rep. split; [exact I5|]. intros x E. inversion E; subst x.
      rewrite override_eta. cbn [ov r_node r_child r_type r_ack r_sub r_payload]. rewrite Ty, AS.
      rewrite (internal_child _ _ _ _ _ V3) by lia. apply good_time. exact RN.
    - apply node_attr5; try assumption. intros; repeat split; reflexivity.
    - apply node_attr5; try assumption. intros; repeat split; reflexivity.
    - apply node_attr5; try assumption. intros; repeat split; reflexivity.
    - intros g1 rep H. inversion H; subst g1 rep. split; [exact I5|discriminate].
    - intros g1 rep. unfold handle_gateway_ready. intro H. inversion H; subst g1 rep.
      split; [apply Inv5_alert; exact I5|discriminate].
    - (* gateway ready >= 2.0 *) destruct AS as [AS GE]. intros g1 rep. unfold handle_gateway_ready_20, internal_member.
      rewrite (cfgv_tab v g C), k_discover by (rewrite ge20_eq; exact GE). cbn [of_option bind].
      rewrite copy_spec by exact W. cbn [bind]. intro H. inversion H; subst g1 rep.
      split; [apply Inv5_alert; exact I5|]. intros x E. inversion E; subst x.
      rewrite override_eta. cbn [ov r_node r_child r_type r_ack r_sub r_payload]. rewrite Ty.
      rewrite (internal_child _ _ _ _ _ V3) by lia. apply (good_discover GE).
    - apply handle_heartbeat5; assumption.
    - (* discover response *) intros g1 rep. unfold handle_discover_response.
      destruct (is_sensor g (m_node m) None) as [[g0 b]|e] eqn:IS; cbn [bind]; [|discriminate].
      intro H. inversion H; subst g1 rep. split; [|discriminate]. cbn [fst].
      apply (is_sensor5 g _ _ _ _ C I I5 IS).
    - apply node_attr5; try assumption. intros; repeat split; reflexivity.
    - apply handle_pre_sleep5; assumption.
    - intros g1 rep H. inversion H; subst g1 rep. split; [exact I5|discriminate].
  Qed.

  (* ---- the dispatcher ---- *)
  Theorem logic5 g l g' r : cfgv v g -> Inv orc g -> Inv5 g -> logic orc clock g l = Ok (g', r) ->
    Inv5 g' /\ forall s, r = Some s -> good s.
  Proof.
    intros C I I5. unfold logic.
    destruct (decode l) as [m|] eqn:D; [|intro H; inversion H; subst; split; [exact I5|discriminate]].
    pose proof (decoded_payload_wire_ok _ _ D) as W.
    rewrite (gvalidate_vld g m C).
    destruct (vld m) eqn:V; cbn [negb]; [|intro H; inversion H; subst; split; [exact I5|discriminate]].
    destruct (validated_ranges orc v m V) as (RN & RT & _).
    destruct (k_type_handlers v) as (T0 & T1 & T2 & T3 & T4).
    rewrite (cfgv_tab v g C).
    destruct (type_handler (tab_of v) (m_type m)) as [h|] eqn:TH; [|discriminate].
    destruct (run_handler orc clock h g m) as [[g1 rep]|e] eqn:RH; cbn [bind]; [|discriminate].
    destruct (dispatch_inv orc clock v g m h g1 rep C I W RT TH RH) as [I1 C1].
    assert (H5 : h5 (run_handler orc clock h g m)).
    { assert (E : m_type m = 0 \/ m_type m = 1 \/ m_type m = 2 \/ m_type m = 3 \/ m_type m = 4) by lia.
      destruct E as [E|[E|[E|[E|E]]]]; rewrite E in TH; rewrite ?T0, ?T1, ?T2, ?T3, ?T4 in TH;
        inversion TH; subst h; unfold run_handler.
      - apply handle_presentation5; assumption.
      - apply handle_set5; assumption.
      - apply handle_req5; assumption.
      - apply handle_internal5; assumption.
      - apply handle_stream5; assumption. }
    destruct (H5 g1 rep RH) as [I51 GR].
    destruct rep as [x|]; cbn [route_opt].
    - destruct (route5 g1 x (cfgv_ext v g g1 C1 C) I1 I51 (GR x eq_refl)) as [A Bx].
      destruct (route g1 x) as [g2 routed]. simpl in A, Bx.
      intro H. inversion H; subst g' r. split; [exact A|].
      intros s E. destruct routed as [x'|]; [|discriminate]. inversion E; subst s.
      rewrite (Bx x' eq_refl). exists x. split; [reflexivity|apply GR; reflexivity].
    - intro H. inversion H; subst g' r. split; [exact I51|discriminate].
  Qed.

  Lemma recv5 g l : cfgv v g -> Inv orc g -> Inv5 g -> Inv5 (recv orc clock g l).
  Proof.
    intros C I I5. unfold recv. destruct (cf_async (g_cf g)).
    - destruct (logic orc clock g l) as [[g1 [r|]]|e] eqn:L.
      + destruct (logic5 g l g1 (Some r) C I I5 L) as [A B]. apply Inv5_send; [exact A|apply B; reflexivity].
      + destruct (logic5 g l g1 None C I I5 L) as [A _]. exact A.
      + apply Inv5_emit; [exact I5|exact Logic.I].
    - apply Inv5_set_jobs; [exact I5|]. destruct I5 as (_ & J & _). apply Forall_app. split; [exact J|].
      constructor; [exact Logic.I|constructor].
  Qed.

  Lemma pump5 g : cfgv v g -> Inv orc g -> Inv5 g -> Inv5 (pump orc clock g).
  Proof.
    intros C I I5. unfold pump. destruct (g_jobs g) as [|[l|l] r] eqn:J; [exact I5| |].
    - assert (J5 : Forall job5 r) by (destruct I5 as (_ & JJ & _); rewrite J in JJ; inversion JJ; assumption).
      assert (I0 : Inv5 (set_jobs g r)) by (apply Inv5_set_jobs; assumption).
      assert (IG : Inv orc (set_jobs g r)) by (apply Inv_set_jobs; exact I).
      assert (CG : cfgv v (set_jobs g r)) by exact C.
      destruct (logic orc clock (set_jobs g r) l) as [[g1 [rp|]]|e] eqn:L.
      + destruct (logic5 _ l g1 (Some rp) CG IG I0 L) as [A B]. apply Inv5_send; [exact A|apply B; reflexivity].
      + destruct (logic5 _ l g1 None CG IG I0 L) as [A _]. exact A.
      + apply Inv5_emit; [exact I0|exact Logic.I].
    - assert (JJ : Forall job5 (g_jobs g)) by (destruct I5 as (_ & JJ & _); exact JJ).
      rewrite J in JJ. inversion JJ as [|? ? GL JR]; subst.
      apply Inv5_send; [|exact GL]. apply Inv5_set_jobs; [exact I5|exact JR].
  Qed.

  (* ---- controller calls ---- *)
  Definition carriable (x : pyval) : Prop := wire_ok (py_str x) = true.

  Lemma set_child_value5 g sid cid vt x mt a : cfgv v g -> Inv orc g -> Inv5 g -> carriable x ->
    forall g', set_child_value orc g sid cid vt x mt a = Ok g' -> Inv5 g'.
  Proof.
    intros C I I5 CX g'. unfold set_child_value.
    destruct (is_sensor g sid (Some cid)) as [[g0 b]|e] eqn:IS; cbn [bind]; [|discriminate].
    assert (I0 : Inv5 g0) by (apply (is_sensor5 g _ _ _ _ C I I5 IS)).
    destruct (is_sensor_eff_any orc clock v _ _ _ _ _ C I IS) as (B & _ & GG).
    destruct b; cbn [negb]; [|intro H; inversion H; subst g'; exact I0].
    specialize (GG eq_refl). subst g0. symmetry in B. destruct (guard_get clock _ _ _ B) as (nd & G & _). rewrite G.
    pose proof (get_node_ok orc g _ _ I G) as [K _]. simpl in K.
    destruct (sleeping nd).
    - destruct (create_set_message orc g (n_id nd) cid vt x None None) as [m0|e]; cbn [bind]; [|discriminate].
      destruct (zassoc cid (n_new nd)) as [dv|] eqn:D; [|discriminate].
      destruct (validate_child_state orc nd cid vt x); cbn [bind]; [|discriminate].
      destruct (vt_int vt) as [vti|]; [|discriminate].
      intro H. inversion H; subst g'. apply Inv5_put_node; [exact I5|].
      change (n_id (with_new nd (zset cid (zset vti (Some x) dv) (n_new nd)))) with (n_id nd). rewrite K.
      destruct (get_node5 g _ _ I5 G) as (RR & CH & NW & Q). simpl in RR, CH, NW, Q.
      split; [exact RR|]. split; [exact CH|]. split; [|exact Q]. simpl.
      apply Forall_zset; [exact NW|]. simpl. apply Forall_zset; [|exact CX].
      pose proof (zassoc_Forall _ _ _ _ NW D) as X. exact X.
    - destruct (create_set_message orc g (n_id nd) cid vt x mt a) as [m0|e] eqn:CM; cbn [bind]; [|discriminate].
      intro H. inversion H; subst g'. apply Inv5_add_job; [exact I5|].
      unfold create_set_message in CM. destruct (vt_int vt) as [vti|]; [|discriminate].
      match type of CM with (if gvalidate orc g ?mm then _ else _) = _ =>
        destruct (gvalidate orc g mm) eqn:GV; inversion CM; subst m0 end.
      eexists. split; [reflexivity|]. split; [exact CX|]. rewrite <- (gvalidate_vld g _ C). exact GV.
  Qed.

  Lemma fw_store5 t x f l : Forall (fun e : (Z * Z) * fware => bytes_ok (fw_data (snd e)) = true) l ->
    bytes_ok (fw_data f) = true ->
    Forall (fun e : (Z * Z) * fware => bytes_ok (fw_data (snd e)) = true) (fw_store t x f l).
  Proof.
    intros F B. induction l as [|[[t' x'] f'] l IH]; simpl; [constructor; [exact B|constructor]|].
    inversion F; subst. destruct (Z.eqb t t' && Z.eqb x x'); constructor; try assumption. apply IH. assumption.
  Qed.

  Definition Keys (g : gw) : Prop := Forall (fun kn : Z * node => n_id (snd kn) = fst kn) (g_sensors g).

  Lemma Inv_Keys g : Inv orc g -> Keys g.
  Proof. intros [S _]. unfold Keys. eapply Forall_impl; [|exact S]. intros kn [K _]. exact K. Qed.

  Lemma update_one5 t x g nid : Keys g -> Inv5 g -> Keys (update_one t x g nid) /\ Inv5 (update_one t x g nid).
  Proof.
    intros KS I5. unfold update_one. destruct (get_node g nid) as [nd|] eqn:G; [|split; assumption].
    pose proof (zassoc_Forall _ _ _ _ KS G) as K. simpl in K.
    split.
    - unfold Keys. simpl. apply Forall_zset; [exact KS|reflexivity].
    - apply Inv5_put_node.
      + destruct I5 as (A & B & C & D). repeat split; assumption.
      + change (n_id (with_reboot nd true)) with (n_id nd). rewrite K.
        apply (node5_same nid nd); try reflexivity. apply (get_node5 g); assumption.
  Qed.

  Lemma update_fold5 t x nids g : Keys g -> Inv5 g -> Inv5 (fold_left (update_one t x) nids g).
  Proof.
    revert g. induction nids as [|nid r IH]; intros g KS I5; simpl; [exact I5|].
    destruct (update_one5 t x g nid KS I5) as [K1 I1]. apply IH; assumption.
  Qed.

  Lemma update_fw5 g nids fwt fwv bin : Inv orc g -> Inv5 g -> image_ok bin ->
    forall g', update_fw g nids fwt fwv bin = Ok g' -> Inv5 g'.
  Proof.
    intros I I5 IM g'. unfold update_fw.
    destruct bin as [[|b0 br]|] eqn:EB; [intro H; inversion H; subst g'; exact I5| |].
    all: destruct (vt_int fwt) as [t|]; [|intro H; inversion H; subst g'; exact I5];
         destruct (vt_int fwv) as [x|]; [|intro H; inversion H; subst g'; exact I5];
         destruct (negb ((0 <=? t) && (t <=? 65535)) || negb ((0 <=? x) && (x <=? 65535)));
         [intro H; inversion H; subst g'; exact I5|].
    all: match goal with |- context [fw_lookup _ _ ?fwl] => set (FWL := fwl) end.
    all: assert (FO : Forall (fun e : (Z * Z) * fware => bytes_ok (fw_data (snd e)) = true) FWL).
    1: { subst FWL. apply fw_store5; [destruct I5 as (_&_&_&F); exact F|]. destruct IM as [BO _].
         apply prepare_fw_bytes. exact BO. }
    2: { subst FWL. destruct I5 as (_&_&_&F); exact F. }
    all: set (g0 := set_ota g (mkOta FWL (o_requested (g_ota g)) (o_unstarted (g_ota g)) (o_started (g_ota g))));
         assert (I0 : Inv5 g0) by (apply Inv5_set_ota; [exact I5|exact FO]);
         assert (K0 : Keys g0) by (apply (Inv_Keys g I));
         destruct (fw_lookup t x FWL); [|intro H; inversion H; subst g'; exact I0].
    all: intro H; inversion H; subst g';
         change (Inv5 (fold_left (update_one t x) nids g0)); apply update_fold5; assumption.
  Qed.

  (* ---- steps and reachable states ---- *)
  Definition op_ok5 (o : op) : Prop :=
    match o with
    | SetChild _ _ _ x _ _ => carriable x
    | UpdateFw _ _ _ bin => image_ok bin
    | _ => True
    end.

  Lemma op_ok5_op_ok o : op_ok5 o -> op_ok o.
  Proof. destruct o; simpl; tauto. Qed.

  Lemma step5 g o : cfgv v g -> Inv orc g -> Inv5 g -> op_ok5 o -> Inv5 (step orc clock g o).
  Proof.
    intros C I I5 O. destruct o as [l| |s c vt x mt a|ns t x b|b]; simpl.
    - apply recv5; assumption.
    - apply pump5; assumption.
    - destruct (set_child_value orc g s c vt x mt a) as [g'|e] eqn:E; [|apply Inv5_emit; [exact I5|exact Logic.I]].
      apply (set_child_value5 g s c vt x mt a C I I5 O g' E).
    - destruct (update_fw g ns t x b) as [g'|e] eqn:E; [|apply Inv5_emit; [exact I5|exact Logic.I]].
      apply (update_fw5 g ns t x b I I5 O g' E).
    - destruct I5 as (A & B & C5 & D). repeat split; assumption.
  Qed.

  Lemma run5 ops g : cfgv v g -> Inv orc g -> Inv5 g -> Forall op_ok5 ops ->
    Inv5 (run orc clock g ops) /\ Inv orc (run orc clock g ops) /\ cfgv v (run orc clock g ops).
  Proof.
    revert g. induction ops as [|o ops IH]; intros g C I I5 F; [split; [exact I5|split; [exact I|exact C]]|].
    inversion F; subst. unfold run. simpl.
    destruct (step_ok orc clock g o (cfgv_cfg v g C) I (op_ok5_op_ok o H1)) as [I1 C1].
    apply IH; [apply (cfgv_ext v g); assumption|exact I1|apply step5; assumption|assumption].
  Qed.
End Inv5.

(* ---------------------------------------------------------------- theorem 3 *)
(* what the property promises of a command string *)
Definition line_ok (orc : oracles) (g : gw) (l : pstr) : Prop :=
  canonical l /\
  exists m, decode l = Some m /\ encode m = l /\ gvalidate orc g m = true /\ 0 <= m_node m <= 255.

Lemma good_line_ok orc v g l : cfgv v g -> good orc v l -> line_ok orc g l.
Proof.
  intros C (x & -> & W & V). split; [exists x; split; [exact W|reflexivity]|].
  exists x. split; [apply decode_encode; exact W|]. split; [reflexivity|].
  split; [rewrite (gvalidate_vld orc v g x C); exact V|]. apply (vld_node_range orc v x V).
Qed.

(* controller calls of a history: values the wire format can carry; firmware images as in C01.
   The node id given to set_child_value is ARBITRARY: is_sensor asks only a node id in 0..255 to
   present itself. *)
Definition op_wire (o : op) : Prop :=
  match o with
  | SetChild _ _ _ x _ _ => carriable x
  | UpdateFw _ _ _ bin => image_ok bin
  | _ => True
  end.

Lemma op_wire_reading o :
  op_wire o <-> match o with
                | SetChild _ _ _ x _ _ => carriable x
                | UpdateFw _ _ _ b => image_ok b
                | _ => True
                end.
Proof. destruct o; simpl; tauto. Qed.

Theorem reachable_Inv5 orc clock v cf ops :
  cf_tab cf = tab_of v -> cf_ge20 cf = ge20 v -> Forall op_wire ops ->
  let g := run orc clock (gw_init cf) ops in Inv5 orc v g /\ Inv orc g /\ cfgv v g.
Proof.
  intros T G F. apply (run5 orc clock v ops (gw_init cf)).
  - split; assumption.
  - apply Inv_init.
  - apply Inv5_init.
  - exact F.
Qed.

Theorem emitted_canonical_valid orc clock cf ops :
  cfg_ok cf -> Forall op_wire ops ->
  let g := run orc clock (gw_init cf) ops in
  (forall l, In (ESend l) (g_log g) -> line_ok orc g l) /\
  (forall l, In (JSend l) (g_jobs g) -> line_ok orc g l) /\
  (forall k nd l, get_node g k = Some nd -> In l (n_queue nd) ->
     line_ok orc g l /\ exists m, decode l = Some m /\ m_node m = k).
Proof.
  intros [v [T G]] F g.
  destruct (reachable_Inv5 orc clock v cf ops T G F) as ((A & B & C & _) & _ & CV). fold g in A, B, C, CV.
  split; [|split].
  - intros l H. rewrite Forall_forall in C. specialize (C _ H). simpl in C. apply (good_line_ok orc v); assumption.
  - intros l H. rewrite Forall_forall in B. specialize (B _ H). simpl in B. apply (good_line_ok orc v); assumption.
  - intros k nd l GN H. pose proof (zassoc_Forall _ _ _ _ A GN) as (_ & _ & _ & Q). simpl in Q.
    rewrite Forall_forall in Q. specialize (Q _ H).
    split; [apply (good_line_ok orc v); [exact CV|apply (good_to_good orc v k); exact Q]|].
    destruct Q as (x & -> & [W _] & K). exists x. split; [apply decode_encode; exact W|exact K].
Qed.
