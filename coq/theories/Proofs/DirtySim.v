(* C14: nothing in the machine READS the dirty flag except save_tick: two gateways that differ
   only in the flag stay so under every operation (a simulation over all handlers), hence the
   placement of periodic saves is irrelevant for everything but the flag and the file. *)
From Coq Require Import List NArith ZArith Bool String Lia.
From PMS Require Import Base.PyStr Base.PyInt Base.Exn Model.Codec Model.Rules Model.TableTypes
  Gen.Tables Model.Validate Model.Hex Model.Ota Model.Oracles Model.Gateway Spec.SerialApi
  Proofs.GwLemmas Proofs.GwInv Spec.TreeMeaning Proofs.TreeProofs Proofs.TreeHistory Proofs.DirtyProofs.
Import ListNotations.
Open Scope string_scope.
Open Scope list_scope.
Open Scope Z_scope.

(* equal but for the dirty flag *)
Definition deq (a b : gw) : Prop := set_dirty a false = set_dirty b false.

Lemma deq_refl a : deq a a. Proof. reflexivity. Qed.
Lemma deq_sym a b : deq a b -> deq b a. Proof. unfold deq. congruence. Qed.
Lemma deq_trans a b c : deq a b -> deq b c -> deq a c. Proof. unfold deq. congruence. Qed.
Lemma deq_set_dirty a d : deq (set_dirty a d) a. Proof. reflexivity. Qed.

Ltac deq_destruct a b H :=
  destruct a as [?cf ?s ?o ?me ?j ?d ?lg], b as [?cf ?s ?o ?me ?j ?d ?lg];
  unfold deq in H; cbn in H; inversion H; subst; clear H.

Ltac gwcbn := cbn [g_cf g_sensors g_ota g_metric g_jobs g_dirty g_log set_sensors set_ota set_jobs
                   set_dirty set_metric emit set_log tab get_node put_node fst snd].

Definition rgx {A} (p q : gw * A) : Prop := deq (fst p) (fst q) /\ snd p = snd q.
Definition rres {X} (R : X -> X -> Prop) (a b : res X) : Prop :=
  match a, b with
  | Ok x, Ok y => R x y
  | Raise e, Raise e' => e = e'
  | _, _ => False
  end.

Lemma rres_bind {X Y} (R : X -> X -> Prop) (S : Y -> Y -> Prop) a b k k' :
  rres R a b -> (forall x y, R x y -> rres S (k x) (k' y)) -> rres S (bind a k) (bind b k').
Proof.
  destruct a as [x|e], b as [y|e']; simpl; intros H K; try contradiction; [apply K; exact H|exact H].
Qed.

Lemma rres_eq {X} (R : X -> X -> Prop) (a : res X) : (forall x, R x x) -> rres R a a.
Proof. intro H. destruct a; simpl; [apply H|reflexivity]. Qed.

Lemma rgx_intro {A} a b (x : A) : deq a b -> rgx (a, x) (b, x).
Proof. intro H. split; [exact H|reflexivity]. Qed.

Section Sim.
  Variable orc : oracles.
  Variable clock : Z.

  (* ---- writers ---- *)
  Lemma deq_send a b l : deq a b -> deq (send a l) (send b l).
  Proof. intro H. deq_destruct a b H. unfold send, deq. destruct l; reflexivity. Qed.

  Lemma deq_add_job a b l : deq a b -> deq (add_job_send a l) (add_job_send b l).
  Proof.
    intro H. deq_destruct a b H. unfold add_job_send, send, deq. gwcbn.
    destruct (cf_async cf0); [destruct l|]; reflexivity.
  Qed.

  Lemma deq_fold_add_job ls : forall a b, deq a b -> deq (fold_left add_job_send ls a) (fold_left add_job_send ls b).
  Proof. induction ls as [|l ls IH]; intros a b H; simpl; [exact H|]. apply IH, deq_add_job, H. Qed.

  Lemma deq_alert a b m : deq a b -> deq (alert a m) (alert b m).
  Proof.
    intro H. deq_destruct a b H. unfold alert, deq. gwcbn.
    destruct (cf_callback cf0), (cf_persist cf0); reflexivity.
  Qed.

  Lemma deq_put_node a b nd : deq a b -> deq (put_node a nd) (put_node b nd).
  Proof. intro H. deq_destruct a b H. reflexivity. Qed.
  Lemma deq_set_ota a b o : deq a b -> deq (set_ota a o) (set_ota b o).
  Proof. intro H. deq_destruct a b H. reflexivity. Qed.
  Lemma deq_set_jobs a b j : deq a b -> deq (set_jobs a j) (set_jobs b j).
  Proof. intro H. deq_destruct a b H. reflexivity. Qed.
  Lemma deq_emit a b e : deq a b -> deq (emit a e) (emit b e).
  Proof. intro H. deq_destruct a b H. reflexivity. Qed.
  Lemma deq_set_metric a b x : deq a b -> deq (set_metric a x) (set_metric b x).
  Proof. intro H. deq_destruct a b H. reflexivity. Qed.
  Lemma deq_add_sensor a b k : deq a b -> deq (add_sensor a k) (add_sensor b k).
  Proof.
    intro H. deq_destruct a b H. unfold add_sensor, deq. gwcbn. destruct (zhas k s0); reflexivity.
  Qed.

  (* ---- readers ---- *)
  Lemma rd_cf a b : deq a b -> g_cf a = g_cf b.
  Proof. intro H. deq_destruct a b H. reflexivity. Qed.
  Lemma rd_sensors a b : deq a b -> g_sensors a = g_sensors b.
  Proof. intro H. deq_destruct a b H. reflexivity. Qed.
  Lemma rd_ota a b : deq a b -> g_ota a = g_ota b.
  Proof. intro H. deq_destruct a b H. reflexivity. Qed.
  Lemma rd_metric a b : deq a b -> g_metric a = g_metric b.
  Proof. intro H. deq_destruct a b H. reflexivity. Qed.
  Lemma rd_jobs a b : deq a b -> g_jobs a = g_jobs b.
  Proof. intro H. deq_destruct a b H. reflexivity. Qed.
  Lemma rd_tab a b : deq a b -> tab a = tab b.
  Proof. intro H. unfold tab. rewrite (rd_cf a b H). reflexivity. Qed.
  Lemma rd_get_node a b k : deq a b -> get_node a k = get_node b k.
  Proof. intro H. unfold get_node. rewrite (rd_sensors a b H). reflexivity. Qed.
  Lemma rd_next_id a b : deq a b -> next_id a = next_id b.
  Proof. intro H. unfold next_id. rewrite (rd_sensors a b H), (rd_tab a b H). reflexivity. Qed.
  Lemma rd_gvalidate a b m : deq a b -> gvalidate orc a m = gvalidate orc b m.
  Proof. intro H. unfold gvalidate. rewrite (rd_tab a b H). reflexivity. Qed.
  Lemma rd_internal_member a b n : deq a b -> internal_member a n = internal_member b n.
  Proof. intro H. unfold internal_member. rewrite (rd_tab a b H). reflexivity. Qed.
  Lemma rd_stream_member a b n : deq a b -> stream_member a n = stream_member b n.
  Proof. intro H. unfold stream_member. rewrite (rd_tab a b H). reflexivity. Qed.
  Lemma rd_csm a b nid cid vt v mt ack : deq a b ->
    create_set_message orc a nid cid vt v mt ack = create_set_message orc b nid cid vt v mt ack.
  Proof.
    intro H. unfold create_set_message. rewrite (rd_tab a b H).
    destruct (vt_int vt); [|reflexivity]. rewrite (rd_gvalidate a b _ H). reflexivity.
  Qed.
  Lemma rd_flush_values a b nid cid dv vals : deq a b ->
    flush_values_pre orc a nid cid dv vals = flush_values_pre orc b nid cid dv vals.
  Proof.
    intro H. induction vals as [|[vt x] r IH]; simpl; [reflexivity|].
    destruct (zassoc vt dv) as [[v|]|]; try exact IH.
    rewrite (rd_csm a b _ _ _ _ _ _ H), IH. reflexivity.
  Qed.
  Lemma rd_flush_children a b nd chs : deq a b ->
    flush_children_pre orc a nd chs = flush_children_pre orc b nd chs.
  Proof.
    intro H. induction chs as [|[k ch] r IH]; simpl; [reflexivity|].
    destruct (zassoc (c_id ch) (n_new nd)); [|exact IH].
    rewrite (rd_flush_values a b _ _ _ _ H), IH. reflexivity.
  Qed.

  (* ---- routing, is_sensor, wake-up flush ---- *)
  Lemma r_route a b m : deq a b -> rgx (route a m) (route b m).
  Proof.
    intro H. unfold route. rewrite (rd_tab a b H), (rd_get_node a b _ H).
    destruct (m_type m =? vt_presentation (tab b)); [apply rgx_intro; exact H|].
    destruct (get_node b (m_node m)) as [nd|]; [|apply rgx_intro; exact H].
    destruct ((m_type m =? vt_stream (tab b)) || negb (sleeping nd)); apply rgx_intro; [exact H|].
    apply deq_put_node. exact H.
  Qed.

  Lemma r_route_opt a b r : deq a b -> rgx (route_opt a r) (route_opt b r).
  Proof. intro H. destruct r; simpl; [apply r_route; exact H|apply rgx_intro; exact H]. Qed.

  Lemma r_is_sensor a b sid cid : deq a b -> rres rgx (is_sensor a sid cid) (is_sensor b sid cid).
  Proof.
    intro H. unfold is_sensor. rewrite (rd_get_node a b _ H), (rd_cf a b H), (rd_tab a b H).
    match goal with |- context [negb ?r && _ && _] => destruct (negb r && node_id_ok sid && cf_ge20 (g_cf b)) end;
      [|simpl; apply rgx_intro; exact H].
    destruct (sassoc (s2p "I_PRESENTATION") (vt_internal_members (tab b))) as [ip|]; [|reflexivity].
    pose proof (r_route a b (mkMsg sid system_child_id (vt_internal (tab b)) 0 ip []) H) as [R1 R2].
    destruct (route a _) as [ga ra], (route b _) as [gb rb]. cbn [fst snd] in R1, R2. subst rb.
    simpl. apply rgx_intro. destruct ra; [apply deq_add_job|]; exact R1.
  Qed.

  Lemma r_smartsleep a b nd : deq a b -> rres deq (handle_smartsleep orc a nd) (handle_smartsleep orc b nd).
  Proof.
    intro H. unfold handle_smartsleep.
    set (nd2 := with_queue (init_smart_sleep nd) []).
    assert (H2 : deq (fold_left add_job_send (n_queue (init_smart_sleep nd)) (put_node a nd2))
                     (fold_left add_job_send (n_queue (init_smart_sleep nd)) (put_node b nd2)))
      by (apply deq_fold_add_job, deq_put_node, H).
    rewrite (rd_flush_children _ _ nd2 (n_children nd2) H2).
    destruct (flush_children_pre orc _ nd2 (n_children nd2)) as [sets e].
    destruct e; simpl; [reflexivity|]. apply deq_fold_add_job. exact H2.
  Qed.

  (* ---- handlers ---- *)
  Ltac after_is_sensor H ga ba gb Hg :=
    eapply rres_bind; [apply r_is_sensor; exact H|];
    let bb := fresh "bb" in let Hb := fresh "Hb" in
    intros [ga ba] [gb bb] [Hg Hb]; cbn [fst snd] in Hg, Hb; subst bb.

  Lemma r_presentation a b m : deq a b -> rres rgx (handle_presentation orc a m) (handle_presentation orc b m).
  Proof.
    intro H. unfold handle_presentation. destruct (m_child m =? system_child_id).
    - pose proof (deq_add_sensor a b (m_node m) H) as H1.
      rewrite (rd_get_node _ _ (m_node m) H1).
      destruct (get_node (add_sensor b (m_node m)) (m_node m)) as [nd|]; [|reflexivity].
      cbn [rres]. apply rgx_intro. apply deq_alert, deq_put_node, H1.
    - after_is_sensor H ga ba gb Hg.
      destruct ba; cbn [negb]; [|cbn [rres]; apply rgx_intro; exact Hg].
      rewrite (rd_get_node _ _ (m_node m) Hg). destruct (get_node gb (m_node m)) as [nd|]; [|reflexivity].
      destruct (zhas (m_child m) (n_children nd)); cbn [rres]; apply rgx_intro; [exact Hg|].
      apply deq_alert, deq_put_node, Hg.
  Qed.

  Lemma r_set a b m : deq a b -> rres rgx (handle_set a m) (handle_set b m).
  Proof.
    intro H. unfold handle_set. after_is_sensor H ga ba gb Hg.
    destruct ba; cbn [negb]; [|cbn [rres]; apply rgx_intro; exact Hg].
    rewrite (rd_get_node _ _ (m_node m) Hg). destruct (get_node gb (m_node m)) as [nd|]; [|reflexivity].
    set (nd' := update_child_value nd (m_child m) (m_sub m) (m_payload m)).
    assert (H2 : deq (alert (put_node ga nd') m) (alert (put_node gb nd') m)) by (apply deq_alert, deq_put_node, Hg).
    rewrite (rd_internal_member a b _ H), (rd_tab a b H).
    destruct (n_reboot nd'); [|cbn [rres]; apply rgx_intro; exact H2].
    destruct (internal_member b "I_REBOOT") as [z|]; cbn [bind]; [|reflexivity].
    destruct (copy m _) as [r|]; cbn [bind]; [|reflexivity].
    cbn [rres]. apply rgx_intro. exact H2.
  Qed.

  Lemma r_req a b m : deq a b -> rres rgx (handle_req a m) (handle_req b m).
  Proof.
    intro H. unfold handle_req. after_is_sensor H ga ba gb Hg.
    destruct ba; cbn [negb]; [|cbn [rres]; apply rgx_intro; exact Hg].
    rewrite (rd_get_node _ _ (m_node m) Hg). destruct (get_node gb (m_node m)) as [nd|]; [|reflexivity].
    rewrite (rd_tab a b H).
    destruct (get_desired_value nd (m_child m) (m_sub m)); [|cbn [rres]; apply rgx_intro; exact Hg].
    destruct (copy m _) as [r|]; cbn [bind]; [|reflexivity].
    cbn [rres]. apply rgx_intro. exact Hg.
  Qed.

  Lemma r_id_request a b m : deq a b -> rres rgx (handle_id_request a m) (handle_id_request b m).
  Proof.
    intro H. unfold handle_id_request. rewrite (rd_next_id a b H).
    destruct (next_id b) as [nid|]; [|cbn [rres]; apply rgx_intro; exact H].
    pose proof (deq_add_sensor a b nid H) as H1. rewrite (rd_sensors _ _ H1).
    destruct (negb (zhas nid (g_sensors (add_sensor b nid)))); [cbn [rres]; apply rgx_intro; exact H1|].
    rewrite (rd_internal_member a b _ H).
    destruct (internal_member b "I_ID_RESPONSE") as [z|]; cbn [bind]; [|reflexivity].
    destruct (copy m _) as [r|]; cbn [bind]; [|reflexivity].
    cbn [rres]. apply rgx_intro. apply deq_alert, H1.
  Qed.

  Lemma r_node_attr f a b m : deq a b -> rres rgx (node_attr_handler f a m) (node_attr_handler f b m).
  Proof.
    intro H. unfold node_attr_handler. after_is_sensor H ga ba gb Hg.
    destruct ba; cbn [negb]; [|cbn [rres]; apply rgx_intro; exact Hg].
    rewrite (rd_get_node _ _ (m_node m) Hg). destruct (get_node gb (m_node m)) as [nd|]; [|reflexivity].
    cbn [rres]. apply rgx_intro. apply deq_alert, deq_put_node, Hg.
  Qed.

  Lemma r_heartbeat a b m : deq a b ->
    rres rgx (handle_heartbeat_response orc a m) (handle_heartbeat_response orc b m).
  Proof.
    intro H. unfold handle_heartbeat_response. after_is_sensor H ga ba gb Hg.
    destruct ba; cbn [negb]; [|cbn [rres]; apply rgx_intro; exact Hg].
    rewrite (rd_get_node _ _ (m_node m) Hg). destruct (get_node gb (m_node m)) as [nd|]; [|reflexivity].
    eapply rres_bind; [apply r_smartsleep; exact Hg|]. intros g2a g2b H2.
    rewrite (rd_get_node _ _ (m_node m) H2). destruct (get_node g2b (m_node m)) as [nd2|]; [|reflexivity].
    cbn [rres]. apply rgx_intro. apply deq_alert, deq_put_node, H2.
  Qed.

  Lemma r_pre_sleep a b m : deq a b -> rres rgx (handle_pre_sleep orc a m) (handle_pre_sleep orc b m).
  Proof.
    intro H. unfold handle_pre_sleep. after_is_sensor H ga ba gb Hg.
    destruct ba; cbn [negb]; [|cbn [rres]; apply rgx_intro; exact Hg].
    rewrite (rd_get_node _ _ (m_node m) Hg). destruct (get_node gb (m_node m)) as [nd|]; [|reflexivity].
    eapply rres_bind; [apply r_smartsleep; exact Hg|]. intros g2a g2b H2.
    cbn [rres]. apply rgx_intro. exact H2.
  Qed.

  Lemma r_discover a b m : deq a b -> rres rgx (handle_discover_response a m) (handle_discover_response b m).
  Proof.
    intro H. unfold handle_discover_response. after_is_sensor H ga ba gb Hg.
    cbn [rres fst]. apply rgx_intro. exact Hg.
  Qed.

  Lemma r_fw_config a b m : deq a b -> rres rgx (respond_fw_config a m) (respond_fw_config b m).
  Proof.
    intro H. unfold respond_fw_config. rewrite (rd_ota a b H).
    destruct (fw_hex_to_int (m_payload m) 5); [|cbn [rres]; apply rgx_intro; exact H].
    destruct (ota_get_fw (g_ota b) (m_node m) true None) as [o' r].
    pose proof (deq_set_ota a b o' H) as H1.
    destruct r as [[[t v] f]|]; [|cbn [rres]; apply rgx_intro; exact H1].
    rewrite (rd_stream_member a b _ H).
    destruct (stream_member b "ST_FIRMWARE_CONFIG_RESPONSE") as [z|]; cbn [bind]; [|reflexivity].
    destruct (copy m _) as [m'|]; cbn [bind]; [|reflexivity].
    destruct (fw_config_payload t v f) as [pl|]; cbn [bind]; [|reflexivity].
    cbn [rres]. apply rgx_intro. exact H1.
  Qed.

  Lemma r_fw a b m : deq a b -> rres rgx (respond_fw a m) (respond_fw b m).
  Proof.
    intro H. unfold respond_fw. rewrite (rd_ota a b H).
    destruct (fw_hex_to_int (m_payload m) 3) as [ws|]; [|cbn [rres]; apply rgx_intro; exact H].
    destruct ws as [|rt [|rv [|rb [|x y]]]]; try (cbn [rres]; apply rgx_intro; exact H).
    destruct (ota_get_fw (g_ota b) (m_node m) false (Some (rt, rv))) as [o' r].
    pose proof (deq_set_ota a b o' H) as H1.
    destruct r as [[[t v] f]|]; [|cbn [rres]; apply rgx_intro; exact H1].
    rewrite (rd_stream_member a b _ H).
    destruct (stream_member b "ST_FIRMWARE_RESPONSE") as [z|]; cbn [bind]; [|reflexivity].
    destruct (copy m _) as [m'|]; cbn [bind]; [|reflexivity].
    destruct (fw_response_payload t v rb f) as [pl|]; cbn [bind]; [|reflexivity].
    cbn [rres]. apply rgx_intro. exact H1.
  Qed.

  Lemma r_run_leaf h a b m : deq a b -> rres rgx (run_leaf orc clock h a m) (run_leaf orc clock h b m).
  Proof.
    intro H. destruct h; unfold run_leaf; try reflexivity.
    - apply r_fw_config; exact H.
    - apply r_fw; exact H.
    - apply r_id_request; exact H.
    - unfold handle_config. rewrite (rd_metric a b H).
      destruct (copy m _) as [r|]; cbn [bind]; [|reflexivity]. cbn [rres]. apply rgx_intro. exact H.
    - unfold handle_time. destruct (copy m _) as [r|]; cbn [bind]; [|reflexivity].
      cbn [rres]. apply rgx_intro. exact H.
    - apply r_node_attr; exact H.
    - apply r_node_attr; exact H.
    - apply r_node_attr; exact H.
    - cbn [rres]. apply rgx_intro. exact H.
    - unfold handle_gateway_ready. cbn [rres]. apply rgx_intro. apply deq_alert, H.
    - unfold handle_gateway_ready_20. rewrite (rd_internal_member a b _ H).
      destruct (internal_member b "I_DISCOVER") as [z|]; cbn [bind]; [|reflexivity].
      destruct (copy m _) as [r|]; cbn [bind]; [|reflexivity].
      cbn [rres]. apply rgx_intro. apply deq_alert, H.
    - apply r_heartbeat; exact H.
    - apply r_discover; exact H.
    - apply r_node_attr; exact H.
    - apply r_pre_sleep; exact H.
  Qed.

  Lemma r_internal a b m : deq a b -> rres rgx (handle_internal orc clock a m) (handle_internal orc clock b m).
  Proof.
    intro H. unfold handle_internal. rewrite (rd_tab a b H).
    destruct (sub_handler (tab b) (m_type m) (m_sub m)); [apply r_run_leaf; exact H|].
    cbn [rres]. apply rgx_intro. exact H.
  Qed.

  Lemma r_stream a b m : deq a b -> rres rgx (handle_stream orc clock a m) (handle_stream orc clock b m).
  Proof.
    intro H. unfold handle_stream. after_is_sensor H ga ba gb Hg.
    destruct ba; cbn [negb]; [|cbn [rres]; apply rgx_intro; exact Hg].
    rewrite (rd_tab a b H).
    destruct (sub_handler (tab b) (m_type m) (m_sub m)) as [h|]; [|cbn [rres]; apply rgx_intro; exact Hg].
    eapply rres_bind; [apply r_run_leaf; exact Hg|]. intros [g2a ra] [g2b rb] [H2 E]. cbn [fst snd] in H2, E. subst rb.
    cbn [rres]. apply rgx_intro. apply deq_alert, H2.
  Qed.

  Lemma r_run_handler h a b m : deq a b -> rres rgx (run_handler orc clock h a m) (run_handler orc clock h b m).
  Proof.
    intro H. destruct h; unfold run_handler; try reflexivity.
    - apply r_presentation; exact H.
    - apply r_set; exact H.
    - apply r_req; exact H.
    - apply r_internal; exact H.
    - apply r_stream; exact H.
  Qed.

  Lemma r_logic a b l : deq a b -> rres rgx (logic orc clock a l) (logic orc clock b l).
  Proof.
    intro H. unfold logic. destruct (decode l) as [m|]; [|cbn [rres]; apply rgx_intro; exact H].
    rewrite (rd_gvalidate a b m H), (rd_tab a b H).
    destruct (negb (gvalidate orc b m)); [cbn [rres]; apply rgx_intro; exact H|].
    destruct (type_handler (tab b) (m_type m)) as [h|]; [|reflexivity].
    eapply rres_bind; [apply r_run_handler; exact H|]. intros [g1a ra] [g1b rb] [H1 E]. cbn [fst snd] in H1, E. subst rb.
    pose proof (r_route_opt g1a g1b ra H1) as [R1 R2].
    destruct (route_opt g1a ra) as [g2a xa], (route_opt g1b ra) as [g2b xb]. cbn [fst snd] in R1, R2. subst xb.
    cbn [rres]. apply rgx_intro. exact R1.
  Qed.

  (* ---- controller calls ---- *)
  Lemma r_set_child_value a b sid cid vt v mt ack : deq a b ->
    rres deq (set_child_value orc a sid cid vt v mt ack) (set_child_value orc b sid cid vt v mt ack).
  Proof.
    intro H. unfold set_child_value. after_is_sensor H ga ba gb Hg.
    destruct ba; cbn [negb]; [|exact Hg].
    rewrite (rd_get_node _ _ sid Hg). destruct (get_node gb sid) as [nd|]; [|reflexivity].
    destruct (sleeping nd).
    - rewrite (rd_csm ga gb _ _ _ _ _ _ Hg).
      destruct (create_set_message orc gb (n_id nd) cid vt v None None); cbn [bind]; [|reflexivity].
      destruct (zassoc cid (n_new nd)) as [dv|]; [|reflexivity].
      destruct (validate_child_state orc nd cid vt v); cbn [bind]; [|reflexivity].
      destruct (vt_int vt); [|reflexivity]. cbn [rres]. apply deq_put_node, Hg.
    - rewrite (rd_csm ga gb _ _ _ _ _ _ Hg).
      destruct (create_set_message orc gb (n_id nd) cid vt v mt ack); cbn [bind]; [|reflexivity].
      cbn [rres]. apply deq_add_job, Hg.
  Qed.

  Lemma deq_update_one t v a b nid : deq a b -> deq (update_one t v a nid) (update_one t v b nid).
  Proof.
    intro H. unfold update_one. rewrite (rd_get_node a b nid H), (rd_ota a b H).
    destruct (get_node b nid); [|exact H]. apply deq_put_node, deq_set_ota, H.
  Qed.

  Lemma deq_update_fold t v nids : forall a b, deq a b ->
    deq (fold_left (update_one t v) nids a) (fold_left (update_one t v) nids b).
  Proof. induction nids as [|n r IH]; intros a b H; simpl; [exact H|]. apply IH, deq_update_one, H. Qed.

  Lemma r_update_fw a b nids fwt fwv bin : deq a b ->
    rres deq (update_fw a nids fwt fwv bin) (update_fw b nids fwt fwv bin).
  Proof.
    intro H. unfold update_fw. rewrite (rd_ota a b H).
    destruct bin as [[|b0 br]|]; [exact H| |].
    all: destruct (vt_int fwt) as [t|]; [|exact H]; destruct (vt_int fwv) as [v|]; [|exact H];
         destruct (negb ((0 <=? t) && (t <=? 65535)) || negb ((0 <=? v) && (v <=? 65535))); [exact H|].
    all: match goal with |- context [fw_lookup _ _ ?fwl] => set (FWL := fwl) end.
    all: pose proof (deq_set_ota a b (mkOta FWL (o_requested (g_ota b)) (o_unstarted (g_ota b)) (o_started (g_ota b))) H) as H0;
         destruct (fw_lookup t v FWL); [|exact H0].
    all: cbn [rres]; apply (deq_update_fold t v nids _ _ H0).
  Qed.

  (* ---- operations ---- *)
  Lemma deq_recv a b l : deq a b -> deq (recv orc clock a l) (recv orc clock b l).
  Proof.
    intro H. unfold recv. rewrite (rd_cf a b H), (rd_jobs a b H).
    destruct (cf_async (g_cf b)); [|apply deq_set_jobs, H].
    pose proof (r_logic a b l H) as R.
    destruct (logic orc clock a l) as [[g1a ra]|ea], (logic orc clock b l) as [[g1b rb]|eb];
      cbn [rres] in R; try contradiction.
    - destruct R as [R1 R2]. cbn [fst snd] in R1, R2. subst rb.
      destruct ra; [apply deq_send|]; exact R1.
    - subst eb. apply deq_emit, H.
  Qed.

  Lemma deq_pump a b : deq a b -> deq (pump orc clock a) (pump orc clock b).
  Proof.
    intro H. unfold pump. rewrite (rd_jobs a b H).
    destruct (g_jobs b) as [|[l|l] r]; [exact H| |apply deq_send, deq_set_jobs, H].
    pose proof (deq_set_jobs a b r H) as H0.
    pose proof (r_logic _ _ l H0) as R.
    destruct (logic orc clock (set_jobs a r) l) as [[g1a ra]|ea], (logic orc clock (set_jobs b r) l) as [[g1b rb]|eb];
      cbn [rres] in R; try contradiction.
    - destruct R as [R1 R2]. cbn [fst snd] in R1, R2. subst rb.
      destruct ra; [apply deq_send|]; exact R1.
    - subst eb. apply deq_emit, H0.
  Qed.

  Theorem deq_step a b o : deq a b -> deq (step orc clock a o) (step orc clock b o).
  Proof.
    intro H. destruct o as [l| |s c vt x mt ack|ns t x bn|x]; cbn [step].
    - apply deq_recv, H.
    - apply deq_pump, H.
    - pose proof (r_set_child_value a b s c vt x mt ack H) as R.
      destruct (set_child_value orc a s c vt x mt ack), (set_child_value orc b s c vt x mt ack);
        cbn [rres] in R; try contradiction; [exact R|]. subst. apply deq_emit, H.
    - pose proof (r_update_fw a b ns t x bn H) as R.
      destruct (update_fw a ns t x bn), (update_fw b ns t x bn);
        cbn [rres] in R; try contradiction; [exact R|]. subst. apply deq_emit, H.
    - apply deq_set_metric, H.
  Qed.
End Sim.

(* ---- the placement of periodic saves ---- *)
Definition is_save (o : pop) : bool := match o with PSave => true | _ => false end.
Definition strip (pops : list pop) : list pop := filter (fun o => negb (is_save o)) pops.

Section SavePositions.
  Variable orc : oracles.
  Variable clock : Z.

  Definition SR (v : ver) (cf : config) (s s' : pstate) : Prop :=
    deq (fst s) (fst s') /\ PInv orc v cf s /\ PInv orc v cf s'.

  Lemma save_tick_deq g d : deq (fst (save_tick g d)) g.
  Proof. unfold save_tick. destruct (cf_persist (g_cf g) && g_dirty g); [apply deq_set_dirty|apply deq_refl]. Qed.

  Lemma restart_same v cf s s' : cf_persist cf = true -> SR v cf s s' ->
    pstep orc clock s PRestart = pstep orc clock s' PRestart.
  Proof.
    destruct s as [g d], s' as [g' d']. intros PE (D & (C & I & S) & (C' & I' & S')).
    cbn [pstep fst snd] in *.
    rewrite (restart_spec g d), (restart_spec g' d'); try assumption; try (rewrite ?C, ?C'; exact PE).
    rewrite (rd_sensors g g' D), C, C'. reflexivity.
  Qed.

  Lemma strip_sim v cf pops : cfg_is v cf -> cf_persist cf = true -> Forall pop_ok pops ->
    forall s s', SR v cf s s' -> SR v cf (prun orc clock s pops) (prun orc clock s' (strip pops)).
  Proof.
    intros CI PE. induction pops as [|o r IH]; intros F s s' H; [exact H|].
    inversion F as [|? ? O F']; subst. destruct H as (D & I1 & I2).
    pose proof (pstep_inv orc clock v cf s o CI PE O I1) as J1.
    unfold prun in *. destruct o as [o| |]; cbn [strip filter is_save negb fold_left].
    - apply (IH F'). split; [|split; [exact J1|apply pstep_inv; assumption]].
      cbn [pstep fst]. apply deq_step. exact D.
    - apply (IH F'). split; [|split; [exact J1|exact I2]].
      cbn [pstep]. eapply deq_trans; [apply save_tick_deq|exact D].
    - apply (IH F').
      assert (E : pstep orc clock s PRestart = pstep orc clock s' PRestart)
        by (apply (restart_same v cf); [exact PE|split; [exact D|split; assumption]]).
      rewrite <- E. split; [apply deq_refl|split; exact J1].
  Qed.

  (* C14.3 corollary: two histories that differ only in where periodic saves happen reach
     gateways that are equal but for the dirty flag, and after stop + restart the whole state
     (gateway and file) is identical *)
  Theorem save_tick_positions_irrelevant v cf p1 p2 : cfg_is v cf -> cf_persist cf = true ->
    Forall pop_ok p1 -> Forall pop_ok p2 -> strip p1 = strip p2 ->
    let s1 := prun orc clock (gw_init cf, None) p1 in
    let s2 := prun orc clock (gw_init cf, None) p2 in
    deq (fst s1) (fst s2) /\ pstep orc clock s1 PRestart = pstep orc clock s2 PRestart.
  Proof.
    intros CI PE F1 F2 E s1 s2.
    assert (R0 : SR v cf (gw_init cf, None) (gw_init cf, None))
      by (split; [apply deq_refl|split; apply PInv_init]).
    destruct (strip_sim v cf p1 CI PE F1 _ _ R0) as (D1 & I1 & _).
    destruct (strip_sim v cf p2 CI PE F2 _ _ R0) as (D2 & I2 & _).
    fold s1 in D1, I1. fold s2 in D2, I2. rewrite E in D1.
    assert (D : deq (fst s1) (fst s2)) by (eapply deq_trans; [exact D1|apply deq_sym; exact D2]).
    split; [exact D|]. apply (restart_same v cf); [exact PE|]. split; [exact D|split; assumption].
  Qed.

  (* in particular the same tree and the same file *)
  Corollary save_tick_positions_tree v cf p1 p2 : cfg_is v cf -> cf_persist cf = true ->
    Forall pop_ok p1 -> Forall pop_ok p2 -> strip p1 = strip p2 ->
    let s1 := pstep orc clock (prun orc clock (gw_init cf, None) p1) PRestart in
    let s2 := pstep orc clock (prun orc clock (gw_init cf, None) p2) PRestart in
    proj (g_sensors (fst s1)) = proj (g_sensors (fst s2)) /\ snd s1 = snd s2.
  Proof.
    intros CI PE F1 F2 E s1 s2.
    destruct (save_tick_positions_irrelevant v cf p1 p2 CI PE F1 F2 E) as [_ H].
    subst s1 s2. rewrite H. split; reflexivity.
  Qed.
End SavePositions.
