(* Dumb byte pump around the extracted Coq model: one ASCII command per line. *)
open Model

let rec pos_of_int n =
  if n = 1 then XH
  else if n land 1 = 0 then XO (pos_of_int (n lsr 1))
  else XI (pos_of_int (n lsr 1))

let n_of_int n = if n = 0 then N0 else Npos (pos_of_int n)

let rec int_of_pos = function
  | XH -> 1
  | XO p -> 2 * int_of_pos p
  | XI p -> (2 * int_of_pos p) + 1

let int_of_n = function N0 -> 0 | Npos p -> int_of_pos p

let () =
  let st = ref shell_init in
  let buf = Buffer.create 65536 in
  try
    while true do
      let line = input_line stdin in
      let cps = List.init (String.length line) (fun i -> n_of_int (Char.code line.[i])) in
      let st', out = shell_step !st cps in
      st := st';
      Buffer.clear buf;
      List.iter (fun c -> Buffer.add_char buf (Char.chr (int_of_n c land 255))) out;
      Buffer.add_char buf '\n';
      print_string (Buffer.contents buf);
      flush stdout
    done
  with End_of_file -> ()
