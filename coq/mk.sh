#!/bin/sh
# usage: mk.sh [make targets...]   (regenerates _CoqProject/Makefile from the tree)
set -e
cd "$(dirname "$0")"
{
  echo "-Q theories PMS"
  echo "-arg -w -arg -notation-overridden,-deprecated-hint-without-locality,-deprecated-instance-without-locality,-extraction-opaque-accessed,-extraction-logical-axiom"
  find theories -name '*.v' | sort
} > _CoqProject.new
if ! cmp -s _CoqProject.new _CoqProject 2>/dev/null || [ ! -f Makefile ]; then
  mv _CoqProject.new _CoqProject
  coq_makefile -f _CoqProject -o Makefile > /dev/null
else
  rm -f _CoqProject.new
fi
exec timeout ${MK_TIMEOUT:-1500} make -j${MK_JOBS:-16} "$@"
