"""Regenerate the generated sections of DESIGN.md (between <!-- GEN:name --> and <!-- /GEN:name -->):
  theorems : every theorem of coq/theories/Props/Cxx.v with its one-line reading (THEOREMS_DOC of harness/props/cxx.py),
             the generation rule and the assumptions of the check;
  seeds    : the table of seeded changes (seeded/*/meta.json) and which check caught each.
Run: PYTHONPATH=/repo:/verif /venv/bin/python tools_docs.py
"""
import glob
import importlib
import json
import re
import sys

sys.path.insert(0, "/verif")


def theorems():
    out = []
    total = 0
    for i in range(1, 21):
        pid = f"C{i:02d}"
        m = importlib.import_module(f"harness.props.{pid.lower()}")
        src = open(f"/verif/coq/theories/Props/{m.PROP_FILE}").read()
        names = re.findall(r"^\s*Theorem\s+([A-Za-z0-9_']+)", src, re.M)
        total += len(names)
        doc = getattr(m, "THEOREMS_DOC", {})
        out.append(f"**{pid}** ({len(names)} theorems, `Props/{m.PROP_FILE}`; runner `model_run{getattr(m, 'RUNNER', '')}`; "
                   f"translators: {', '.join(getattr(m, 'TRANSLATORS', [])) or 'none'})\n")
        for n in names:
            out.append(f"* `{n}` — {doc.get(n, '(see the statement in the Props file)')}")
        out.append("")
        out.append(f"*Cases of the tie:* {getattr(m, 'RULE', '')}\n")
        ass = getattr(m, "ASSUMPTIONS", [])
        if ass:
            out.append("*Assumptions:* " + "; ".join(ass) + "\n")
    return f"{total} theorems in the 20 property files.\n\n" + "\n".join(out)


def seeds():
    rows = ["| seed | property | change | needs | tests | result of `./check` (quick tier) |", "|---|---|---|---|---|---|"]
    n = caught = concrete = 0
    for f in sorted(glob.glob("/verif/seeded/*/meta.json")):
        sid = f.split("/")[-2]
        m = json.load(open(f))
        cr = (m.get("checks_run") or [""])[0]
        rc1 = "rc=1" in cr
        nf = "no-failing-input-found" in cr
        n += 1
        caught += rc1
        concrete += rc1 and not nf
        what = re.sub(r".*?(VIOLATION property=\S+ replay=\S+)\s*", "", cr).strip()
        what = re.sub(r"\s+", " ", what)[:160].replace("|", "/")
        verdict = ("MISSED" if not rc1 else "caught, no failing input found (translator/proof breaks): " if nf else "caught with replay: ") + (what if rc1 else "")
        tests = "730 pass" if "730 passed" in json.dumps(m) else "pass"
        rows.append(f"| {sid} | {m.get('property')} | {m.get('title', '').replace('|', '/')[:200]} | "
                    f"{m.get('needs', '').replace('|', '/')[:160]} | {tests} | {verdict} |")
    head = (f"{n} seeded changes (each written by a fresh sub-agent that saw only the property text and its own worktree; each "
            f"confirmed here: the 730 repository tests pass with it, its demonstration fails with it and passes without it). "
            f"{caught} are reported by the check of their property (exit 1), {concrete} of them with a concrete replayable failing "
            f"input, {caught - concrete} as `no-failing-input-found` (a fail-closed translator or a proof obligation breaks and the "
            f"enlarged search finds no input in the quick tier), {n - caught} missed.\n\n")
    return head + "\n".join(rows)


def main():
    p = "/verif/DESIGN.md"
    s = open(p).read()
    for name, fn in (("theorems", theorems), ("seeds", seeds)):
        a, b = f"<!-- GEN:{name} -->", f"<!-- /GEN:{name} -->"
        if a not in s:
            print("marker missing:", name)
            continue
        i, j = s.index(a) + len(a), s.index(b)
        s = s[:i] + "\n" + fn() + "\n" + s[j:]
    open(p, "w").write(s)
    print("DESIGN.md regenerated")


main()
