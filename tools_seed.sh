#!/bin/bash
# usage: tools_seed.sh <dir with patch.diff demo.py meta.json> <check ids...>
# Applies the patch in a scratch worktree, confirms tests pass and the demo discriminates,
# runs the given checks against it (VERIF_REPO) in an ISOLATED copy of coq/ + _build/
# (VERIF_WORKROOT), so several seeds can be evaluated concurrently and /verif's own build and
# evidence are untouched. Prints a summary line per check.  SKIP_TESTS=1 skips the test suite.
d=$(readlink -f $1); shift
wt=/tmp/eval-wt-$$
wr=/tmp/eval-wr-$$
git -C /repo worktree add --detach $wt >/dev/null 2>&1 || exit 2
mkdir -p $wr && cp -a /verif/coq /verif/_build $wr/ 2>/dev/null
cleanup() { git -C /repo worktree remove --force $wt >/dev/null 2>&1; rm -rf $wr; }
trap cleanup EXIT
( cd /repo && PYTHONPATH=/repo /venv/bin/python $d/demo.py >/dev/null 2>&1 ); base=$?
git -C $wt apply $d/patch.diff || { echo "PATCH DOES NOT APPLY"; exit 2; }
if [ -z "$SKIP_TESTS" ]; then
  tests=$(cd $wt && PYTHONPATH=$wt /venv/bin/python -m pytest -q -p no:cacheprovider 2>&1 | tail -1)
else tests=skipped; fi
( cd $wt && PYTHONPATH=$wt /venv/bin/python $d/demo.py >/dev/null 2>&1 ); mut=$?
echo "seed=$d tests=[$tests] demo_pristine_rc=$base demo_mutated_rc=$mut"
for c in "$@"; do
  out=$(cd /verif && VERIF_WORKROOT=$wr VERIF_REPO=$wt ./check $c --tier ${TIER:-quick} 2>&1)
  rc=$?
  [ -n "$KEEP_LOG" ] && echo "$out" > $KEEP_LOG.$c.log
  echo "  check $c rc=$rc $(echo "$out" | grep -c '^VIOLATION') violation lines; first: $(echo "$out" | grep -A1 '^VIOLATION' | head -2 | tr '\n' ' ' | cut -c1-300)"
done
