"""Rewrite coq/theories/Proofs/FingerprintPins.v from the CURRENT /repo (run only after the hand model was
re-synchronised with a deliberate change of /repo): PYTHONPATH=/repo:/verif /venv/bin/python tools_pin_fingerprints.py"""
from harness.translate import fingerprints

rows = fingerprints.table()
body = ";\n  ".join(f'(s2p "{k}", s2p "{v}")' for k, v in rows)
open("/verif/coq/theories/Proofs/FingerprintPins.v", "w").write(f'''(* AST fingerprints of the hand-modelled functions of /repo that Model/Gateway.v (and Codec.v) were
   written against.  Written by tools_pin_fingerprints.py; compared with the regenerated
   Gen/Fingerprints.v on every run. *)
From Coq Require Import List NArith String.
From PMS Require Import Base.PyStr Gen.Fingerprints.
Import ListNotations.
Open Scope string_scope.

Definition pinned_fp : list (pstr * pstr) := [
  {body}].

Theorem modelled_code_unchanged : code_fp = pinned_fp.
Proof. vm_compute. reflexivity. Qed.
''')
print(len(rows), "fingerprints pinned")
