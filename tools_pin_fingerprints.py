"""Rewrite harness/pins/core_fingerprints.json from the CURRENT /repo (run only after the hand model
Model/Gateway.v / Codec.v was re-synchronised with a deliberate change of /repo and the lock-step correspondence passes):
PYTHONPATH=/repo:/verif /venv/bin/python tools_pin_fingerprints.py"""
import json
from harness.translate import fingerprints

rows = dict(fingerprints.table())
json.dump(rows, open("/verif/harness/pins/core_fingerprints.json", "w"), indent=1, sort_keys=True)
print(len(rows), "fingerprints pinned")
