"""Rebuild MANIFEST.json from the table below (run: /venv/bin/python tools_manifest.py)."""
import json

CLAIMS = {
 "C02": dict(
  text="Unbounded theorems (all Z headers, all code-point payloads, every spelling the modelled int() grammar accepts) about Model/Codec.v, closed under the global context; tied to mysensors/message.py by a differential correspondence run (extracted model vs Message.decode/encode/copy) on grammar-generated spellings, payloads and near misses, and a direct round-trip monitor on the implementation.",
  note="Trusted: Coq kernel; hand model of CPython int()/str()/rstrip/split (Unicode tables regenerated from the running interpreter); ExtrOcamlBasic extraction + byte-pump driver (cross-checked against vm_compute on a sample each run); the correspondence harness. 4300-digit int limit not modelled.",
  tech="Coq proof (induction, DecimalZ round trip) + differential correspondence"),
 "C03": dict(
  text="Theorem C03_validate_conforms: for all five versions, all headers in Z^5, all payloads and all oracle behaviours, Message.validate interpreted over the tables GENERATED from const_*.py on every run equals the hand-written serial API spec (Spec/SerialApi.v); proof by a verified classifier of validator shapes plus a per-version finite table check by vm_compute, so any changed bound, word list, dropped or added row breaks a named obligation. C03_node_presentation_version_numeric: a node presentation with a dotted numeric payload validates iff the payload is numerically >= 1.4 (independent section-wise comparison, proved equal to awesomeversion's). Monotonicity, rule totality, child-schema totality are finite facts over the generated tables; the tables of a version must not depend on which other versions are loaded (one fresh interpreter per configuration). The voluptuous interpreter is tied to the real library by a correspondence run over the header grid (exhaustive in the thorough tier) and a boundary payload corpus on every cell; the extracted spec serves as independent validator (monitor).",
  note="Trusted: translator harness/translate/tables.py (walks live validator objects, fail-closed); voluptuous combinator semantics as modelled; float() enters as an oracle (real verdicts supplied per payload, theorem quantifies over all oracles); awesomeversion is modelled exactly on dotted numeric version strings (Base/Version.v, numeric rule proved: C03_node_presentation_version_numeric) and is an oracle on every other string; CPython int() model.",
  tech="Coq proof by reflection over generated tables + exhaustive correspondence"),
}
NOT_YET = "not claimed yet: model and theorems under construction (see DESIGN.md §10 build order)"


def check(pid, c):
    return {"property_id": pid, "quick_cmd": f"./check {pid} --tier quick", "thorough_cmd": f"./check {pid} --tier thorough",
            "evidence_file": f"/verif/evidence/{pid}.json", "replay_cmd_template": "./check " + pid + " --replay {path}",
            "engine": "coq-proof+correspondence",
            "level_claimed": {"category": "proof", "text": c["text"], "design_ref": "DESIGN.md §6 " + pid},
            "level_note": c["note"], "technique": c["tech"]}


def main():
    props = [json.loads(l) for l in open('/verif/properties.jsonl')]
    try:
        extra = json.load(open('/verif/manifest_extra.json'))
    except FileNotFoundError:
        extra = {}
    claims = dict(CLAIMS)
    claims.update(extra.get("claims", {}))
    na = extra.get("not_applicable", {})
    m = {"version": 1, "setup_cmd": "./setup.sh",
         "hooks": {"guard": "PYMYSENSORS_VERIF",
                   "enable": "no hook is compiled into /repo; checks import /repo's working tree directly (PYTHONPATH=/repo) and wrap observation points from the harness process",
                   "baseline_off_cmd": "cd /repo && /venv/bin/python -m pytest -ra -q -p no:cacheprovider --timeout=900 --continue-on-collection-errors",
                   "source_commits": [], "add_only": True},
         "engines": [{"name": "coq-proof+correspondence", "path": "/verif/check", "serves_properties": sorted(claims),
                      "kind_free_text": "Coq 8.16 theorems over a Gallina model (coq/theories), generated tables re-translated from /repo on every run, extracted OCaml model runner diffed against the real implementation on generated cases, monitors evaluating the property on the implementation"}],
         "checks": [check(p, claims[p]) for p in sorted(claims)],
         "not_applicable": [{"property_id": p["id"], "reason": na.get(p["id"], NOT_YET)} for p in props if p["id"] not in claims],
         "notes": "See DESIGN.md. known_findings.json lists genuine defects (known / fixed)."}
    json.dump(m, open('/verif/MANIFEST.json', 'w'), indent=1)
    print("claimed:", sorted(claims))


main()
