#!/bin/bash
# usage: tools_cross.sh <seed id>   run ALL 20 checks (quick) against one seeded change; prints one matrix line
# "<seed> C01=0 C02=0 ... " (0 = silent, 1 = VIOLATION with replay, n = no-failing-input-found) to /tmp/cross/<seed>.txt
s=$(basename $1)
d=/verif/seeded/$s; [ -d "$1" ] && d=$(readlink -f $1)
wt=/tmp/cross-wt-$s; wr=/tmp/cross-wr-$s
mkdir -p /tmp/cross
git -C /repo worktree add --detach $wt >/dev/null 2>&1 || exit 2
mkdir -p $wr && cp -a /verif/coq /verif/_build $wr/ 2>/dev/null
trap "git -C /repo worktree remove --force $wt >/dev/null 2>&1; rm -rf $wr" EXIT
git -C $wt apply $d/patch.diff || exit 2
line="$s"
for i in 01 02 03 04 05 06 07 08 09 10 11 12 13 14 15 16 17 18 19 20; do
  out=$(cd /verif && VERIF_WORKROOT=$wr VERIF_REPO=$wt timeout 1500 ./check C$i --tier quick 2>&1)
  rc=$?
  if [ $rc -eq 0 ]; then v=0; elif echo "$out" | grep -q '^VIOLATION.*no-failing-input-found'; then v=n; else v=1; fi
  line="$line C$i=$v"
  [ $v != 0 ] && echo "$out" | grep -A2 '^VIOLATION' | head -6 | cut -c1-400 > /tmp/cross/$s.C$i.why
done
echo "$line" | tee /tmp/cross/$s.txt
