#!/bin/bash
# usage: tools_seed_all.sh [seed ids...]   re-evaluate seeded changes (default: all) with the check of their
# property, PAR at a time, and rewrite checks_run in each meta.json.  Prints one line per seed.
cd /verif
ids="$@"; [ -z "$ids" ] && ids=$(ls seeded)
mkdir -p /tmp/seedall
printf '%s\n' $ids | xargs -P ${PAR:-5} -I{} sh -c 'p=$(echo {} | cut -c1-3); SKIP_TESTS=${SKIP_TESTS-1} ./tools_seed.sh seeded/{} $p 2>&1 | grep -v WARNING > /tmp/seedall/{}.out'
for s in $ids; do
python3 - "$s" <<'PY'
import json,sys
s=sys.argv[1]
out=open(f"/tmp/seedall/{s}.out").read().splitlines()
p=f"/verif/seeded/{s}/meta.json"
m=json.load(open(p))
m["checks_run"]=[l.strip() for l in out[1:]]
json.dump(m,open(p,"w"),indent=1,ensure_ascii=False)
print(s, "|", out[0].split("tests=")[1] if out else "", "|", (m["checks_run"][0][:150] if m["checks_run"] else "NO OUTPUT"))
PY
done
