#!/bin/bash
# usage: tools_seed_keep.sh <srcdir> <id> <checks...> : evaluate and keep under /verif/seeded/<id>/
src=$1; id=$2; shift 2
out=$(/verif/tools_seed.sh $src "$@" 2>&1 | grep -v WARNING)
echo "$out"
mkdir -p /verif/seeded/$id
cp $src/patch.diff $src/demo.py $src/meta.json /verif/seeded/$id/
python3 - "$id" "$out" <<'PY'
import json,sys
id,out=sys.argv[1],sys.argv[2]
p=f"/verif/seeded/{id}/meta.json"
m=json.load(open(p))
m["confirmed_by_coordinator"]=out.splitlines()[0] if out else ""
m["checks_run"]=[l.strip() for l in out.splitlines()[1:]]
json.dump(m,open(p,"w"),indent=1)
PY
