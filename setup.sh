#!/bin/sh
# Build everything from files on disk (offline): regenerate Gen/*.v from /repo and CPython,
# full clean Coq build, extraction, OCaml runner, coqchk axiom listing.
set -e
cd "$(dirname "$0")"
export PYTHONPATH="${VERIF_REPO:-/repo}:/verif" PYTHONHASHSEED=0 PYTHONDONTWRITEBYTECODE=1 PYMYSENSORS_VERIF=1
mkdir -p _build evidence
VERIF_UNICODE_FULL=1 /venv/bin/python -m harness.setup --clean "$@"
